(** C08 - composition with C07: the neighbour function of DBSCAN / OPTICS instantiated with the range
    query of the linear-scan model of C07/Model.v.
    [lin_nbrs o m X eps i] is the list of row positions that [C07.Model.linear_range] returns for
    row i of the batch X and radius eps (in the arithmetic o), i.e. what
    `LinearSearchIndex::within_range(row i, eps)` hands to `find_neighbors`.
    This file: the facts about that list in every arithmetic (it is the open ball decided on the
    computed reduced distances, in row order), the hypotheses of the C08 theorems discharged from
    C07's [linear_range_correct] over the reals, the specification predicates
    [density_clustering] / [density_ordering], and the composed statements. *)
From Coq Require Import List NArith Bool Arith Permutation Reals Lra Lia.
From LinfaVerif Require Import Common.Num C08.Model C08.Proofs.
From LinfaVerif Require C07.Model C07.Proofs C07.Properties.
Import ListNotations.

Module M7 := LinfaVerif.C07.Model.
Module P7 := LinfaVerif.C07.Proofs.

(** the metric names of the two models *)
Definition m7 (m : metric) : M7.metric :=
  match m with L1 => M7.L1 | L2 => M7.L2 | Linf => M7.Linf end.

(** * every arithmetic *)
Section AnyArith.
Context {F : Type} (o : NumOps F).

Definition lin_nbrs (m : metric) (X : list (list F)) (eps : F) (i : nat) : list nat :=
  if i <? length X
  then map (fun p : list F * N => N.to_nat (snd p)) (M7.linear_range o (m7 m) (nth i X []) eps X)
  else [].

(* the two transliterations of distance.rs agree *)
Lemma fold2_7 (f : F -> F -> F -> F) : forall a b acc, M7.fold2 f a b acc = fold2 f a b acc.
Proof. induction a as [|x a IH]; intros [|y b] acc; simpl; auto. Qed.

Lemma rdist_7 m a b : M7.rdist o (m7 m) a b = rdist o m a b.
Proof.
  destruct m; simpl; unfold M7.l1d, M7.sq_l2, M7.linfd, l1d, sq_l2, linfd; apply fold2_7.
Qed.
Lemma dist_7 m a b : M7.dist o (m7 m) a b = dist o m a b.
Proof.
  destruct m; simpl; unfold M7.l1d, M7.sq_l2, M7.linfd, l1d, sq_l2, linfd; rewrite fold2_7; auto.
Qed.
Lemma to_r_7 m x : M7.to_r o (m7 m) x = to_r o m x.
Proof. destruct m; reflexivity. Qed.

Lemma filter_enum (P : list F -> bool) : forall (X : list (list F)) (s : nat),
  map (fun p : list F * N => N.to_nat (snd p))
      (filter (fun p => P (fst p)) (combine X (map N.of_nat (seq s (length X)))))
  = filter (fun j => P (nth (j - s) X [])) (seq s (length X)).
Proof.
  induction X as [|x X IH]; intros s; [reflexivity|].
  assert (E : filter (fun j => P (nth (j - S s) X [])) (seq (S s) (length X))
            = filter (fun j => P (nth (j - s) (x :: X) [])) (seq (S s) (length X))).
  { apply filter_ext_in. intros j Hj. apply in_seq in Hj.
    replace (j - s) with (S (j - S s)) by lia. reflexivity. }
  cbn [length seq map combine filter fst]. rewrite Nat.sub_diag. cbn [nth].
  destruct (P x); cbn [map snd]; rewrite IH, E, ?Nat2N.id; reflexivity.
Qed.

(** the list the linear index returns is the open ball decided on the computed reduced distances,
    in row order - the [range_spec] of C08/Model.v *)
Lemma lin_nbrs_filter m X eps i : i < length X ->
  lin_nbrs m X eps i
  = filter (fun j => ltb o (rdist o m (nth i X []) (nth j X [])) (to_r o m eps)) (seq 0 (length X)).
Proof.
  intros Hi. unfold lin_nbrs. apply Nat.ltb_lt in Hi. rewrite Hi.
  unfold M7.linear_range, M7.enumerate.
  etransitivity;
    [exact (filter_enum (fun c => ltb o (M7.rdist o (m7 m) (nth i X []) c) (M7.to_r o (m7 m) eps)) X 0)|].
  apply filter_ext. intros j. rewrite Nat.sub_0_r, rdist_7, to_r_7. reflexivity.
Qed.

Lemma lin_nbrs_range_spec m dim X eps i : i < length X ->
  lin_nbrs m X eps i = range_spec o m (S dim) X eps i.
Proof. intros Hi. rewrite lin_nbrs_filter; auto. Qed.

Lemma lin_nbrs_outside m X eps i : length X <= i -> lin_nbrs m X eps i = [].
Proof. intros H. unfold lin_nbrs. apply Nat.ltb_ge in H. rewrite H. reflexivity. Qed.

Lemma lin_nbrs_In m X eps i j :
  In j (lin_nbrs m X eps i) <->
  i < length X /\ j < length X /\ ltb o (rdist o m (nth i X []) (nth j X [])) (to_r o m eps) = true.
Proof.
  destruct (Nat.lt_ge_cases i (length X)) as [Hi|Hi].
  - rewrite lin_nbrs_filter; auto. rewrite filter_In, in_seq. split.
    + intros [A B]. repeat split; auto; lia.
    + intros [_ [A B]]. split; auto; lia.
  - rewrite lin_nbrs_outside; auto. split; [intros []|]. intros [A _]. lia.
Qed.

Lemma lin_nbrs_nodup m X eps i : NoDup (lin_nbrs m X eps i).
Proof.
  destruct (Nat.lt_ge_cases i (length X)) as [Hi|Hi].
  - rewrite lin_nbrs_filter; auto. apply NoDup_filter. apply seq_NoDup.
  - rewrite lin_nbrs_outside; auto. constructor.
Qed.

(** the one fact about the arithmetic that the density clustering needs: the computed reduced
    distance is symmetric.  It holds as soon as every single term is: the terms of the two sums are
    then equal one by one, whatever the summation order. *)
Lemma fold2_sym (f : F -> F -> F -> F) : (forall acc x y, f acc x y = f acc y x) ->
  forall a b acc, fold2 f a b acc = fold2 f b a acc.
Proof.
  intros Hf. induction a as [|x a IH]; intros [|y b] acc; simpl; auto. rewrite Hf. apply IH.
Qed.

Definition terms_symmetric : Prop :=
  (forall x y, mul o (sub o x y) (sub o x y) = mul o (sub o y x) (sub o y x)) /\
  (forall x y, abs o (sub o x y) = abs o (sub o y x)).

Lemma rdist_sym_of_terms : terms_symmetric -> forall m a b, rdist o m a b = rdist o m b a.
Proof.
  intros [Hs Ha] m a b. destruct m; simpl; unfold l1d, sq_l2, linfd; apply fold2_sym; intros acc x y.
  - rewrite Ha. reflexivity.
  - rewrite Hs. reflexivity.
  - rewrite Ha. reflexivity.
Qed.
Lemma dist_sym_of_terms : terms_symmetric -> forall m a b, dist o m a b = dist o m b a.
Proof.
  intros H m a b. pose proof (rdist_sym_of_terms H) as R.
  destruct m; simpl; [exact (R L1 a b) | f_equal; exact (R L2 a b) | exact (R Linf a b)].
Qed.

Lemma lin_nbrs_ok m X eps : (forall a b, rdist o m a b = rdist o m b a) ->
  nbrs_ok (lin_nbrs m X eps) (length X).
Proof.
  intros Hs. split; [|split].
  - intros i j H. apply lin_nbrs_In in H. tauto.
  - intros i j H. apply lin_nbrs_In in H as [A [B C]]. apply lin_nbrs_In. rewrite Hs. auto.
  - intros i. apply lin_nbrs_nodup.
Qed.
End AnyArith.

(** * what "density clustering" means, over a neighbour function *)
Definition density_clustering (nbrs : nat -> list nat) (minpts n : nat) (lab : list (option nat)) : Prop :=
  length lab = n /\
  (* labels are 0..c-1 without gaps *)
  (exists c, (forall i l, nth i lab None = Some l -> l < c) /\
             (forall l, l < c -> exists i, i < n /\ nth i lab None = Some l)) /\
  (* noise = neither core nor within the tolerance of a core point *)
  (forall i, i < n ->
     (nth i lab None = None <-> ~ core nbrs minpts i /\ forall j, In i (nbrs j) -> ~ core nbrs minpts j)) /\
  (* a labelled non-core point carries the label of a core point that reaches it *)
  (forall i l, nth i lab None = Some l -> ~ core nbrs minpts i ->
     exists j, core nbrs minpts j /\ In i (nbrs j) /\ nth j lab None = Some l) /\
  (* core points carry the same label exactly when they are density-connected *)
  (forall i j, i < n -> core nbrs minpts i -> core nbrs minpts j ->
     (nth i lab None = nth j lab None <-> conn nbrs minpts i j)).

Lemma dbscan_density nbrs minpts n : nbrs_ok nbrs n ->
  exists lab, dbscan nbrs minpts n = Some lab /\ density_clustering nbrs minpts n lab.
Proof.
  intros [H1 [H2 H3]].
  destruct (dbscan_final nbrs minpts n H1 H2 H3) as [lab [cid [E [G _]]]].
  exists lab. split; auto. split; [|split; [|split; [|split]]].
  - exact (g_len _ _ _ _ _ G).
  - exact (db_dense nbrs minpts n H1 H2 H3 lab E).
  - intros i Hi. exact (db_noise_iff nbrs minpts n H1 H2 H3 lab E i Hi).
  - intros i l. exact (db_border nbrs minpts n H1 H2 H3 lab E i l).
  - intros i j. exact (db_components nbrs minpts n H1 H2 H3 lab E i j).
Qed.

(** two neighbour functions that list the same sets give the same labelling, and the predicate
    does not see the order either *)
Lemma density_clustering_perm nbrs nbrs' minpts n lab : nbrs_ok nbrs n ->
  (forall i, Permutation (nbrs i) (nbrs' i)) ->
  density_clustering nbrs minpts n lab -> density_clustering nbrs' minpts n lab.
Proof.
  intros [H1 [H2 H3]] HP [A [B [C [D E]]]].
  assert (Hin : forall i j, In j (nbrs i) <-> In j (nbrs' i)).
  { intros i j. split; apply Permutation_in; [|apply Permutation_sym]; apply HP. }
  assert (Hc : forall i, core nbrs minpts i <-> core nbrs' minpts i).
  { intros i. exact (core_perm nbrs nbrs' minpts HP i). }
  assert (Hn : forall s q, conn nbrs minpts s q <-> conn nbrs' minpts s q).
  { intros s q. exact (conn_perm nbrs nbrs' minpts HP s q). }
  split; [exact A|split; [exact B|split; [|split]]].
  - intros i Hi. rewrite (C i Hi). rewrite Hc. split; intros [P Q]; split; auto; intros j Hj.
    + rewrite <- Hc. apply Q. apply Hin; auto.
    + rewrite Hc. apply Q. apply Hin; auto.
  - intros i l Hl Hnc. rewrite <- Hc in Hnc. destruct (D i l Hl Hnc) as [j [J1 [J2 J3]]].
    exists j. split; [apply Hc; auto|split; [apply Hin; auto|auto]].
  - intros i j Hi Ci Cj. rewrite <- Hn. apply E; auto; apply Hc; auto.
Qed.

(** * what the OPTICS result is, over a neighbour function and a distance, in an arithmetic with
      a strict weak order: every sample once; core distance = min_points-th smallest distance to the
      points within the tolerance; reachability = max(core distance of ob, distance to ob) for an
      earlier core point ob that reaches the sample, minimal over those; the walk continues with a
      reachable sample of minimal reachability *)
Section Ordering.
Context {F : Type} (o : NumOps F).
Variable nbrs : nat -> list nat.
Variable d : nat -> nat -> F.
Variable minpts n : nat.

Definition cdist (i : nat) : option F := core_dist d minpts i (sorted_nbrs o nbrs d i).

Definition density_ordering (out : list (sample F)) : Prop :=
  Permutation (map s_index out) (seq 0 n) /\
  forall l1 s l2, out = l1 ++ s :: l2 ->
    s_core s = cdist (s_index s) /\
    (s_reach s = None \/
     exists ob c, In ob (map s_index l1) /\ cdist ob = Some c /\ In (s_index s) (nbrs ob) /\
                  s_reach s = Some (fmax o c (d (s_index s) ob))) /\
    (forall y, y < n -> ~ In y (map s_index l1) ->
     forall ob c, In ob (map s_index l1) -> cdist ob = Some c -> In y (nbrs ob) ->
     exists r, s_reach s = Some r /\ ltb o (fmax o c (d y ob)) r = false).

Lemma optics_density : lt_order o -> (forall i j, In j (nbrs i) -> j < n) ->
  exists out, optics o nbrs d minpts n = Some out /\ density_ordering out.
Proof.
  intros [O1 [O2 O3]] H.
  destruct (optics_total o nbrs d minpts n H) as [out E]. exists out. split; auto. split.
  - exact (op_perm o nbrs d minpts n H out E).
  - intros l1 s l2 D.
    destruct (op_samples o nbrs d minpts n H out E l1 s l2 D) as [_ [A B]].
    split; [exact A|split; [exact B|]].
    exact (op_walk o nbrs d minpts n H O1 O2 O3 out E l1 s l2 D).
Qed.
End Ordering.

(** the core distance in an arithmetic with a strict weak order and a symmetric distance: the
    min_points-th smallest distance to the points within the tolerance (fewer than min_points of
    them are strictly closer, at least min_points are not farther), undefined exactly when the
    neighbourhood has fewer than min_points members *)
Section CoreDistGen.
Context {F : Type} (o : NumOps F).
Variable nbrs : nat -> list nat.
Variable d : nat -> nat -> F.
Variable minpts : nat.
(* the distance is symmetric as far as the order can tell *)
Hypothesis d_sym_l : forall i j a, ltb o (d i j) a = ltb o (d j i) a.
Hypothesis d_sym_r : forall i j a, ltb o a (d i j) = ltb o a (d j i).
Hypothesis O1 : forall a, ltb o a a = false.
Hypothesis O2 : forall a b c, ltb o a b = true -> ltb o b c = true -> ltb o a c = true.
Hypothesis O3 : forall a b c, ltb o a c = true -> ltb o a b = true \/ ltb o b c = true.

Let leq (a b : F) : Prop := ltb o b a = false.

Lemma leq_trans a b c : leq a b -> leq b c -> leq a c.
Proof.
  unfold leq. intros H1 H2. destruct (ltb o c a) eqn:E; auto.
  destruct (O3 c b a E) as [X|X]; congruence.
Qed.

Fixpoint gasc (key : nat -> F) (l : list nat) : Prop :=
  match l with [] => True | x :: t => (forall y, In y t -> leq (key x) (key y)) /\ gasc key t end.

Lemma insert_by_gasc key x l : gasc key l -> gasc key (insert_by o key x l).
Proof.
  induction l as [|y t IH]; intros H; simpl.
  - split; auto. intros y [].
  - destruct H as [H1 H2]. simpl. destruct (ltb o (key y) (key x)) eqn:E.
    + simpl. split; auto.
      intros z Hz. apply (Permutation_in _ (insert_by_perm o key x t)) in Hz as [Hx|Hz]; auto.
      subst z. unfold leq. destruct (ltb o (key x) (key y)) eqn:E2; auto.
      pose proof (O2 _ _ _ E2 E) as E3. rewrite O1 in E3. discriminate.
    + simpl. split; [|split; auto].
      intros z [<-|Hz]; auto. apply (leq_trans _ (key y)); auto.
Qed.
Lemma isort_gasc key l : gasc key (isort o key l).
Proof. induction l as [|x t IH]; simpl; auto. apply insert_by_gasc; auto. Qed.

Lemma gasc_split key l1 x l2 : gasc key (l1 ++ x :: l2) ->
  (forall y, In y l1 -> leq (key y) (key x)) /\ (forall y, In y l2 -> leq (key x) (key y)).
Proof.
  induction l1 as [|a l1 IH]; simpl; intros [H1 H2].
  - split; auto. intros y [].
  - destruct (IH H2) as [A B]. split; auto.
    intros y [<-|Hy]; auto. apply H1. apply in_app_iff. right; left; auto.
Qed.

Lemma core_dist_kth_gen i c : 1 <= minpts ->
  core_dist d minpts i (sorted_nbrs o nbrs d i) = Some c ->
  (exists x, In x (nbrs i) /\ c = d i x) /\
  count (fun y => ltb o (d i y) c) (nbrs i) < minpts /\
  minpts <= count (fun y => negb (ltb o c (d i y))) (nbrs i).
Proof.
  intros Hm H. unfold core_dist in H.
  set (key := fun x => d x i) in *.
  set (l := sorted_nbrs o nbrs d i) in *.
  assert (HP : Permutation l (nbrs i)) by apply isort_perm.
  assert (HA : gasc key l) by apply isort_gasc.
  destruct (nth_error l (minpts - 1)) as [x|] eqn:En; [|discriminate].
  inversion H; subst c. clear H.
  apply nth_error_split in En as [l1 [l2 [El Hl1]]].
  rewrite El in HA. destruct (gasc_split key l1 x l2 HA) as [A B].
  split; [|split].
  - exists x. split; auto. apply (Permutation_in _ HP). rewrite El. apply in_app_iff. right; left; auto.
  - rewrite <- (count_perm _ _ _ HP), El, count_app. simpl.
    unfold count at 2. simpl. rewrite O1.
    fold (count (fun y => ltb o (d i y) (d i x)) l2).
    rewrite (count_none _ l2).
    + pose proof (count_le_length (fun y => ltb o (d i y) (d i x)) l1). lia.
    + intros y Hy. specialize (B y Hy). unfold key, leq in B.
      rewrite (d_sym_l i y), (d_sym_r i x). exact B.
  - rewrite <- (count_perm _ _ _ HP), El, count_app.
    rewrite (count_all _ l1).
    + unfold count. simpl. rewrite O1. simpl. lia.
    + intros y Hy. specialize (A y Hy). unfold key, leq in A.
      rewrite (d_sym_l i x), (d_sym_r i y). rewrite A. reflexivity.
Qed.

Lemma core_dist_none_gen i : 1 <= minpts ->
  (core_dist d minpts i (sorted_nbrs o nbrs d i) = None <-> length (nbrs i) < minpts).
Proof.
  intros Hm. unfold core_dist.
  assert (HL : length (sorted_nbrs o nbrs d i) = length (nbrs i)).
  { apply Permutation_length. apply isort_perm. }
  destruct (nth_error (sorted_nbrs o nbrs d i) (minpts - 1)) as [x|] eqn:En.
  - split; [discriminate|]. intros H.
    assert (Hn : minpts - 1 < length (sorted_nbrs o nbrs d i)).
    { apply nth_error_Some. congruence. }
    lia.
  - split; auto. intros _. apply nth_error_None in En. lia.
Qed.
End CoreDistGen.

(** * the reals: the hypotheses discharged from C07 *)
Section Reals.
Local Open Scope R_scope.

Lemma R_terms_symmetric : terms_symmetric R_ops.
Proof.
  split; simpl; intros x y; [ring | apply Rabs_minus_sym].
Qed.
Lemma rdist_R_sym m a b : rdist R_ops m a b = rdist R_ops m b a.
Proof. apply rdist_sym_of_terms. exact R_terms_symmetric. Qed.
Lemma dist_R_sym m a b : dist R_ops m a b = dist R_ops m b a.
Proof. apply dist_sym_of_terms. exact R_terms_symmetric. Qed.

(** membership and distinctness of the neighbour lists, from C07's [linear_range_correct] *)
Lemma lin_nbrs_R_spec m (X : list (list R)) eps i j : (i < length X)%nat ->
  (In j (lin_nbrs R_ops m X eps i) <->
   (j < length X)%nat /\ rdist R_ops m (nth i X []) (nth j X []) < to_r R_ops m eps).
Proof.
  intros Hi. unfold lin_nbrs. pose proof Hi as Hb. apply Nat.ltb_lt in Hb. rewrite Hb.
  rewrite in_map_iff. split.
  - intros [[c k] [E Hin]]. simpl in E. subst j.
    destruct (C07.Properties.linear_range_correct (m7 m) (nth i X []) eps X (c, k)) as [_ H].
    apply H in Hin as [A B]. simpl in A, B.
    assert (Hk : (N.to_nat k < length X)%nat) by (apply nth_error_Some; congruence).
    split; auto. rewrite (nth_error_nth _ _ _ A). rewrite <- rdist_7, <- to_r_7. exact B.
  - intros [Hj Hlt]. exists (nth j X [], N.of_nat j). simpl. rewrite Nat2N.id. split; auto.
    destruct (C07.Properties.linear_range_correct (m7 m) (nth i X []) eps X (nth j X [], N.of_nat j)) as [_ H].
    apply H. simpl. rewrite Nat2N.id. split.
    + apply nth_error_nth'. exact Hj.
    + rewrite rdist_7, to_r_7. exact Hlt.
Qed.

Lemma lin_nbrs_R_nodup m (X : list (list R)) eps i : NoDup (lin_nbrs R_ops m X eps i).
Proof.
  unfold lin_nbrs. destruct (i <? length X)%nat; [|constructor].
  destruct (C07.Properties.linear_range_correct (m7 m) (nth i X []) eps X ([], 0%N)) as [H _].
  rewrite <- (map_map snd N.to_nat). apply P7.NoDup_map_inj; auto.
  intros a b E. apply N2Nat.inj. exact E.
Qed.

Lemma lin_nbrs_R_ok m (X : list (list R)) eps : nbrs_ok (lin_nbrs R_ops m X eps) (length X).
Proof.
  split; [|split].
  - intros i j H. destruct (Nat.lt_ge_cases i (length X)) as [Hi|Hi].
    + apply lin_nbrs_R_spec in H; tauto.
    + rewrite lin_nbrs_outside in H; auto. destruct H.
  - intros i j H. destruct (Nat.lt_ge_cases i (length X)) as [Hi|Hi].
    + apply lin_nbrs_R_spec in H as [Hj Hlt]; auto. apply lin_nbrs_R_spec; auto.
      split; auto. rewrite rdist_R_sym. exact Hlt.
    + rewrite lin_nbrs_outside in H; auto. destruct H.
  - intros i. apply lin_nbrs_R_nodup.
Qed.

(** a point is within the tolerance on reduced distances exactly when its distance is below the
    tolerance (tolerance > 0: the parameter guard) *)
Lemma within_iff_dist m (a b : list R) eps : 0 < eps ->
  (rdist R_ops m a b < to_r R_ops m eps <-> dist R_ops m a b < eps).
Proof.
  intros He. destruct m; simpl; try tauto.
  assert (H0 : 0 <= sq_l2 R_ops a b).
  { pose proof (P7.rdist_nonneg M7.L2 a b) as H. rewrite (rdist_7 R_ops L2) in H. exact H. }
  split; intros H.
  - rewrite <- (sqrt_square eps) by lra. apply sqrt_lt_1; auto. apply Rmult_le_pos; lra.
  - apply sqrt_lt_0_alt. rewrite sqrt_square by lra. exact H.
Qed.

(** reflexive for a positive tolerance: every row is in its own neighbourhood *)
Lemma rdist_R_refl m (a : list R) : rdist R_ops m a a = 0.
Proof.
  assert (G : forall f, (forall acc x, f acc x x = acc) -> forall (a : list R) acc, fold2 f a a acc = acc).
  { intros f Hf. induction a0 as [|x a0 IH]; intros acc; simpl; auto. rewrite Hf. apply IH. }
  destruct m; simpl; unfold l1d, sq_l2, linfd.
  - apply G. intros acc x. simpl. replace (x - x) with 0 by ring. rewrite Rabs_R0. ring.
  - apply G. intros acc x. simpl. ring.
  - assert (G' : forall (a : list R), fold2 (fun acc x y : R => let df := abs R_ops (sub R_ops x y) in
                if ltb R_ops acc df then df else acc) a a 0 = 0).
    { induction a0 as [|x a0 IH]; simpl; auto.
      replace (x - x) with 0 by ring. rewrite Rabs_R0.
      assert (E : Rltb 0 0 = false) by (apply Rltb_false; lra). rewrite E. exact IH. }
    apply G'.
Qed.
Lemma lin_nbrs_R_refl m (X : list (list R)) eps i : 0 < eps -> (i < length X)%nat ->
  In i (lin_nbrs R_ops m X eps i).
Proof.
  intros He Hi. apply lin_nbrs_R_spec; auto. split; auto. rewrite rdist_R_refl.
  destruct m; simpl; auto. apply Rmult_lt_0_compat; auto.
Qed.
End Reals.

(** * any index that answers range queries correctly (C07's [is_range]) *)
Section AnyIndex.
Local Open Scope R_scope.
Variable m : metric.
Variable X : list (list R).
Variable eps : R.
(* what the index returned for row i *)
Variable answer : nat -> list (list R * N).
Hypothesis answer_ok : forall i, (i < length X)%nat ->
  P7.is_range (M7.dq_of R_ops (m7 m) (nth i X [])) (M7.to_r R_ops (m7 m) eps) X (answer i).

Definition idx_nbrs (i : nat) : list nat :=
  if (i <? length X)%nat then map (fun p : list R * N => N.to_nat (snd p)) (answer i) else [].

Lemma idx_nbrs_perm i : Permutation (lin_nbrs R_ops m X eps i) (idx_nbrs i).
Proof.
  unfold idx_nbrs, lin_nbrs. destruct (i <? length X)%nat eqn:Hb; [|constructor].
  apply Nat.ltb_lt in Hb.
  pose proof (P7.linear_range_is_range (m7 m) (nth i X []) X eps) as HL.
  pose proof (answer_ok i Hb) as HA.
  assert (Hnd : forall l, NoDup (map snd l) -> NoDup (map (fun p : list R * N => N.to_nat (snd p)) l)).
  { intros l H. rewrite <- (map_map snd N.to_nat). apply P7.NoDup_map_inj; auto.
    intros a b E. apply N2Nat.inj. exact E. }
  apply Permutation_map. apply NoDup_Permutation.
  - apply (P7.NoDup_map_fwd snd). exact (proj1 HL).
  - apply (P7.NoDup_map_fwd snd). exact (proj1 HA).
  - intros p. exact (P7.range_rows_unique _ _ _ _ _ HL HA p).
Qed.
End AnyIndex.

(** * composed statements *)

(** DBSCAN in any arithmetic whose computed reduced distance is symmetric: the neighbour lists are
    the open balls of the computed distances and the labelling is their density clustering *)
Lemma dbscan_lin_density {F} (o : NumOps F) m (X : list (list F)) eps minpts :
  (forall a b, rdist o m a b = rdist o m b a) ->
  (forall i j, In j (lin_nbrs o m X eps i) <->
     i < length X /\ j < length X /\ ltb o (rdist o m (nth i X []) (nth j X [])) (to_r o m eps) = true) /\
  exists lab, dbscan (lin_nbrs o m X eps) minpts (length X) = Some lab /\
              density_clustering (lin_nbrs o m X eps) minpts (length X) lab.
Proof.
  intros Hs. split.
  - intros i j. apply lin_nbrs_In.
  - apply dbscan_density. apply lin_nbrs_ok. exact Hs.
Qed.

(** any neighbour lists that hold the same sets give the same labelling (numbering included) *)
Lemma dbscan_same_sets nbrs nbrs' minpts n : nbrs_ok nbrs n ->
  (forall i, Permutation (nbrs i) (nbrs' i)) ->
  exists lab, dbscan nbrs' minpts n = Some lab /\ dbscan nbrs minpts n = Some lab /\
              density_clustering nbrs' minpts n lab.
Proof.
  intros Hok HP. destruct (dbscan_density nbrs minpts n Hok) as [lab [E D]].
  exists lab. split; [|split; auto].
  - rewrite <- E. symmetry. destruct Hok as [H1 [H2 H3]].
    exact (dbscan_order_independent nbrs nbrs' minpts n H1 H2 H3 HP).
  - exact (density_clustering_perm nbrs nbrs' minpts n lab Hok HP D).
Qed.

Section ComposedR.
Local Open Scope R_scope.
Variable m : metric.
Variable X : list (list R).
Variable eps : R.
Variable minpts : nat.

Let n := length X.
Let nb := lin_nbrs R_ops m X eps.
Let dd (i j : nat) : R := dist R_ops m (nth i X []) (nth j X []).

Lemma dd_sym i j : dd i j = dd j i.
Proof. unfold dd. apply dist_R_sym. Qed.

Lemma dbscan_linear_R :
  exists lab, dbscan nb minpts n = Some lab /\ density_clustering nb minpts n lab.
Proof. apply dbscan_density. apply lin_nbrs_R_ok. Qed.

Lemma dbscan_any_index_R answer :
  (forall i, (i < length X)%nat ->
     P7.is_range (M7.dq_of R_ops (m7 m) (nth i X [])) (M7.to_r R_ops (m7 m) eps) X (answer i)) ->
  exists lab, dbscan (idx_nbrs X answer) minpts n = Some lab /\ dbscan nb minpts n = Some lab /\
              density_clustering (idx_nbrs X answer) minpts n lab.
Proof.
  intros H. apply dbscan_same_sets; [apply lin_nbrs_R_ok|].
  intros i. exact (idx_nbrs_perm m X eps answer H i).
Qed.

(** OPTICS over the linear index: the ordering, core distances and reachabilities *)
Lemma optics_linear_R : (1 <= minpts)%nat ->
  exists out, optics R_ops nb dd minpts n = Some out /\ density_ordering R_ops nb dd minpts n out /\
  forall i,
    (forall c, cdist R_ops nb dd minpts i = Some c ->
       (exists x, In x (nb i) /\ c = dd i x) /\
       (count (fun y => Rltb (dd i y) c) (nb i) < minpts <= count (fun y => Rleb (dd i y) c) (nb i))%nat) /\
    (cdist R_ops nb dd minpts i = None <-> (length (nb i) < minpts)%nat).
Proof.
  intros Hm.
  destruct (optics_density R_ops nb dd minpts n R_lt_order) as [out [E D]].
  { intros i j H. apply (proj1 (lin_nbrs_R_ok m X eps) i j H). }
  exists out. split; auto. split; auto. intros i. split.
  - intros c Hc. destruct (core_dist_kth nb dd minpts dd_sym i c Hm Hc) as [A [B C]].
    split; [exact A|split; [exact B|exact C]].
  - exact (core_dist_none nb dd minpts i Hm).
Qed.

Lemma optics_any_index_R answer : (1 <= minpts)%nat ->
  (forall i, (i < length X)%nat ->
     P7.is_range (M7.dq_of R_ops (m7 m) (nth i X [])) (M7.to_r R_ops (m7 m) eps) X (answer i)) ->
  optics R_ops (idx_nbrs X answer) dd minpts n = optics R_ops nb dd minpts n.
Proof.
  intros Hm H. symmetry. destruct (lin_nbrs_R_ok m X eps) as [H1 [H2 H3]].
  apply optics_order_independent; auto.
  - exact dd_sym.
  - intros i. exact (idx_nbrs_perm m X eps answer H i).
Qed.
End ComposedR.
