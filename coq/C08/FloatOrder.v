(** C08 - the order of binary64 values that are not NaN, and OPTICS on computed distances.
    [f64_ord] maps a float to a real number (infinities to +-2^1024, beyond every finite float) such
    that for operands that are not NaN the primitive comparison [<?] is the comparison of the images
    (through Flocq's IEEE754.PrimFloat / BinarySingleNaN: Prim2B, ltb_equiv, Bltb_correct).  Hence
    on any family of computed distances without NaN the float comparison is a strict weak order, and
    the OPTICS theorems (which hold in every arithmetic with a strict weak order) transfer to the
    binary64 run through [optics_embed]. *)
From Coq Require Import List ZArith NArith Bool Arith Floats Reals Lra Lia Permutation.
From Flocq Require Import Core BinarySingleNaN.
From Flocq Require PrimFloat.
From LinfaVerif Require Import Common.Num Common.QF C08.Model C08.Proofs C08.Compose C08.FloatSym C08.OpticsOrder.
Import ListNotations.

Module FP := Flocq.IEEE754.PrimFloat.

Definition big : R := bpow radix2 FloatOps.emax.

Definition f64_ord (x : PrimFloat.float) : R :=
  match FP.Prim2B x with
  | B754_infinity false => big
  | B754_infinity true => (- big)%R
  | B754_nan => 0%R
  | b => B2R b
  end.

Lemma Rlt_bool_Rltb x y : Rlt_bool x y = Rltb x y.
Proof.
  unfold Rltb. case Rlt_bool_spec; intros H; destruct (Rlt_dec x y); auto; lra.
Qed.

Lemma B2R_inside (b : binary_float FloatOps.prec FloatOps.emax) : (- big < B2R b < big)%R.
Proof.
  pose proof (abs_B2R_lt_emax _ _ b) as H. apply Rabs_def2 in H. unfold big. lra.
Qed.

Lemma f64_ltb_ord a b : PrimFloat.is_nan a = false -> PrimFloat.is_nan b = false ->
  PrimFloat.ltb a b = Rltb (f64_ord a) (f64_ord b).
Proof.
  rewrite !FP.is_nan_equiv, FP.ltb_equiv. unfold f64_ord.
  assert (Hb : (0 < big)%R) by (unfold big; apply bpow_gt_0).
  destruct (FP.Prim2B a) as [sa|sa| |sa ma ea Ha]; destruct (FP.Prim2B b) as [sb|sb| |sb mb eb Hbb];
    cbn [is_nan]; intros N1 N2; try discriminate;
    try (rewrite Bltb_correct by reflexivity; apply Rlt_bool_Rltb).
  all: try pose proof (B2R_inside (B754_zero sa)); try pose proof (B2R_inside (B754_zero sb));
       try pose proof (B2R_inside (B754_finite sa ma ea Ha));
       try pose proof (B2R_inside (B754_finite sb mb eb Hbb));
       unfold Bltb; cbn [B2SF SFltb SFcompare];
       try destruct sa; try destruct sb; symmetry;
       first [apply Rltb_true; lra | apply Rltb_false; lra].
Qed.

(** * OPTICS on a family of floats without NaN *)
Section NoNaN.
Variable nbrs : nat -> list nat.
Variable d : nat -> nat -> PrimFloat.float.
Variable minpts n : nat.
Hypothesis d_nonan : forall i j, PrimFloat.is_nan (d i j) = false.
Hypothesis d_sym : forall i j, d i j = d j i.
Hypothesis nb_range : forall i j, In j (nbrs i) -> j < n.

(* the values [d i j], named by their index pairs and ordered as the floats are *)
Definition pval (p : nat * nat) : PrimFloat.float := d (fst p) (snd p).
Definition pair_ops : NumOps (nat * nat) :=
  {| zero := (0, 0); one := (0, 0);
     add := fun a _ => a; sub := fun a _ => a; mul := fun a _ => a; div := fun a _ => a;
     opp := fun a => a; abs := fun a => a; sqrt := fun a => a;
     ltb := fun p q => PrimFloat.ltb (pval p) (pval q);
     leb := fun p q => PrimFloat.leb (pval p) (pval q);
     eqb := fun p q => PrimFloat.eqb (pval p) (pval q);
     of_N := fun _ => (0, 0) |}.

Lemma pair_ltb p q : ltb pair_ops p q = Rltb (f64_ord (pval p)) (f64_ord (pval q)).
Proof. simpl. apply f64_ltb_ord; apply d_nonan. Qed.

Lemma pair_lt_order : lt_order pair_ops.
Proof.
  destruct R_lt_order as [O1 [O2 O3]]. simpl in O1, O2, O3.
  split; [|split]; intros; rewrite ?pair_ltb in *; eauto.
Qed.

Lemma pair_embed : forall a b, ltb B64_ops (pval a) (pval b) = ltb pair_ops a b.
Proof. reflexivity. Qed.

Lemma optics_pairs :
  optics B64_ops nbrs d minpts n
  = option_map (map (smap pval)) (optics pair_ops nbrs (fun i j => (i, j)) minpts n).
Proof. exact (optics_embed B64_ops pair_ops pval pair_embed nbrs (fun i j => (i, j)) minpts n). Qed.

Lemma optics_nonan_density :
  exists out, optics B64_ops nbrs d minpts n = Some out /\ density_ordering B64_ops nbrs d minpts n out.
Proof.
  destruct (optics_density pair_ops nbrs (fun i j => (i, j)) minpts n pair_lt_order nb_range)
    as [out' [E D]].
  exists (map (smap pval) out'). split.
  - rewrite optics_pairs, E. reflexivity.
  - exact (density_ordering_embed B64_ops pair_ops pval pair_embed nbrs (fun i j => (i, j)) minpts n out' D).
Qed.

Lemma cdist_nonan i : 1 <= minpts ->
  (forall c, cdist B64_ops nbrs d minpts i = Some c ->
     (exists x, In x (nbrs i) /\ c = d i x) /\
     count (fun y => PrimFloat.ltb (d i y) c) (nbrs i) < minpts /\
     minpts <= count (fun y => negb (PrimFloat.ltb c (d i y))) (nbrs i)) /\
  (cdist B64_ops nbrs d minpts i = None <-> length (nbrs i) < minpts).
Proof.
  intros Hm. destruct pair_lt_order as [O1 [O2 O3]].
  assert (E : cdist B64_ops nbrs d minpts i
              = option_map pval (cdist pair_ops nbrs (fun i j => (i, j)) minpts i)).
  { exact (cdist_embed B64_ops pair_ops pval pair_embed nbrs (fun i j => (i, j)) minpts i). }
  assert (SL : forall i j a, ltb pair_ops (i, j) a = ltb pair_ops (j, i) a).
  { intros a b c. simpl. unfold pval. simpl. rewrite (d_sym a b). reflexivity. }
  assert (SR : forall i j a, ltb pair_ops a (i, j) = ltb pair_ops a (j, i)).
  { intros a b c. simpl. unfold pval. simpl. rewrite (d_sym a b). reflexivity. }
  split.
  - intros c Hc. rewrite E in Hc. unfold cdist in Hc.
    destruct (core_dist (fun i j => (i, j)) minpts i (sorted_nbrs pair_ops nbrs (fun i j => (i, j)) i))
      as [c'|] eqn:Ec; [|discriminate].
    simpl in Hc. inversion Hc; subst c.
    destruct (core_dist_kth_gen pair_ops nbrs (fun i j => (i, j)) minpts SL SR O1 O2 O3 i c' Hm Ec)
      as [[x [X1 X2]] [A B]].
    split; [exists x; split; auto; subst c'; reflexivity|]. split; [exact A|exact B].
  - rewrite E. unfold cdist.
    rewrite <- (core_dist_none_gen pair_ops nbrs (fun i j => (i, j)) minpts i Hm).
    destruct (core_dist (fun i j => (i, j)) minpts i (sorted_nbrs pair_ops nbrs (fun i j => (i, j)) i));
      simpl; split; intros; auto; discriminate.
Qed.
End NoNaN.

(** * the computed distances of a batch *)
Definition nonan_dists (m : metric) (X : list (list PrimFloat.float)) : bool :=
  forallb (fun a => forallb (fun b => negb (PrimFloat.is_nan (dist B64_ops m a b))) X) X.

Lemma dist_nil_l m b : dist B64_ops m [] b = dist B64_ops m [] [].
Proof. destruct m; reflexivity. Qed.
Lemma dist_nil_r m a : dist B64_ops m a [] = dist B64_ops m [] [].
Proof. destruct m, a; reflexivity. Qed.

Lemma nonan_dists_all m X : nonan_dists m X = true ->
  forall i j, PrimFloat.is_nan (dist B64_ops m (nth i X []) (nth j X [])) = false.
Proof.
  intros H i j. unfold nonan_dists in H. rewrite forallb_forall in H.
  destruct (Nat.lt_ge_cases i (length X)) as [Hi|Hi].
  - destruct (Nat.lt_ge_cases j (length X)) as [Hj|Hj].
    + specialize (H _ (nth_In X [] Hi)). rewrite forallb_forall in H.
      specialize (H _ (nth_In X [] Hj)). apply negb_true_iff in H. exact H.
    + rewrite (nth_overflow X [] Hj), dist_nil_r. destruct m; reflexivity.
  - rewrite (nth_overflow X [] Hi), dist_nil_l. destruct m; reflexivity.
Qed.

(** OPTICS on the computed binary64 distances of a batch, neighbour lists = the linear index *)
Lemma optics_float_density m (X : list (list PrimFloat.float)) eps minpts :
  1 <= minpts -> nonan_dists m X = true ->
  let n := length X in
  let d := fun i j => dist B64_ops m (nth i X []) (nth j X []) in
  let nbrs := lin_nbrs B64_ops m X eps in
  exists out, optics B64_ops nbrs d minpts n = Some out /\ density_ordering B64_ops nbrs d minpts n out /\
  forall i,
    (forall c, cdist B64_ops nbrs d minpts i = Some c ->
       (exists x, In x (nbrs i) /\ c = d i x) /\
       count (fun y => PrimFloat.ltb (d i y) c) (nbrs i) < minpts /\
       minpts <= count (fun y => negb (PrimFloat.ltb c (d i y))) (nbrs i)) /\
    (cdist B64_ops nbrs d minpts i = None <-> length (nbrs i) < minpts).
Proof.
  intros Hm Hn n d nbrs.
  assert (Hnan : forall i j, PrimFloat.is_nan (d i j) = false) by (intros i j; apply nonan_dists_all; auto).
  assert (Hsym : forall i j, d i j = d j i) by (intros i j; apply dist_B64_sym).
  assert (Hr : forall i j, In j (nbrs i) -> j < n).
  { intros i j H. exact (proj1 (lin_nbrs_B64_ok m X eps) i j H). }
  destruct (optics_nonan_density nbrs d minpts n Hnan Hr) as [out [E D]].
  exists out. split; auto. split; auto.
  intros i. exact (cdist_nonan nbrs d minpts Hnan Hsym i Hm).
Qed.

(** non-vacuity: the embedding really orders floats of all classes, and a batch whose squared
    distance overflows still has no NaN distance *)
Example ex_ord_classes :
  PrimFloat.ltb neg_infinity (-0x1p+1023)%float = true /\ PrimFloat.ltb 0x1p+1023%float infinity = true /\
  PrimFloat.ltb (-0)%float 0%float = false /\ PrimFloat.ltb 0x1p-1074%float 0x1p-1073%float = true.
Proof. vm_compute. repeat split. Qed.
Example ex_overflow_no_nan :
  nonan_dists L2 [[0x1p+1000; 0]; [-0x1p+1000; 1]; [0; 0]]%float = true /\
  dist B64_ops L2 [0x1p+1000; 0]%float [-0x1p+1000; 1]%float = infinity.
Proof. vm_compute. split; reflexivity. Qed.
