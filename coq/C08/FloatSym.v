(** C08 - the float level: DBSCAN only ever COMPARES computed reduced distances with the computed
    reduced tolerance.  The single fact about the arithmetic that the density-clustering theorems use
    is the symmetry of the computed distance.  Here it is proved for IEEE arithmetic itself - the
    executable specification SpecFloat at any precision / exponent range, hence for the primitive
    binary64 floats (through the specification axioms of Coq's Floats library) and for the binary32
    instance of Common/B32.v - for ALL operands (signed zeros, subnormals, overflow to infinity, NaN):
      |x - y| and |y - x| are the same float, and (x - y)^2 and (y - x)^2 are the same float,
    so the two sums have the same terms one by one and agree for every summation order.
    Also: on finite coordinates the computed reduced distance of a row to itself is +0. *)
From Coq Require Import List ZArith NArith Bool Floats SpecFloat Lia.
From LinfaVerif Require Import Common.Num Common.B32 Common.QF C08.Model C08.Proofs C08.Compose.
Import ListNotations.

(** * SpecFloat, any format *)
Section SF.
Variables prec emax : Z.

Lemma bra_abs s s' m e l :
  SFabs (binary_round_aux prec emax s m e l) = SFabs (binary_round_aux prec emax s' m e l).
Proof.
  unfold binary_round_aux.
  destruct (shr_fexp prec emax m e l) as [mrs' e'].
  destruct (shr_fexp prec emax (round_nearest_even (shr_m mrs') (loc_of_shr_record mrs')) e' loc_Exact)
    as [mrs'' e''].
  destruct (shr_m mrs''); simpl; auto.
  destruct (Zle_bool e'' (emax - prec)); reflexivity.
Qed.

Lemma br_abs s s' m e :
  SFabs (binary_round prec emax s m e) = SFabs (binary_round prec emax s' m e).
Proof.
  unfold binary_round.
  destruct (shl_align m e (fexp prec emax (Z.pos (digits2_pos m) + e))) as [mz ez]. apply bra_abs.
Qed.

Lemma bn_abs_opp z e :
  SFabs (binary_normalize prec emax z e false) = SFabs (binary_normalize prec emax (- z) e false).
Proof. destruct z; simpl; auto; apply br_abs. Qed.

(** |x - y| = |y - x| as floats, for all x y *)
Lemma SFsub_abs_sym x y : SFabs (SFsub prec emax x y) = SFabs (SFsub prec emax y x).
Proof.
  destruct x as [sx|sx| |sx mx ex], y as [sy|sy| |sy my ey]; try reflexivity;
    try (destruct sx, sy; reflexivity).
  cbn [SFsub]. rewrite (Z.min_comm ey ex).
  set (A := cond_Zopp sx (Z.pos (fst (shl_align mx ex (Z.min ex ey))))).
  set (B := cond_Zopp sy (Z.pos (fst (shl_align my ey (Z.min ex ey))))).
  replace (B - A)%Z with (- (A - B))%Z by ring. apply bn_abs_opp.
Qed.

(** a square does not see the sign *)
Lemma SFmul_sq_abs a b : SFabs a = SFabs b -> SFmul prec emax a a = SFmul prec emax b b.
Proof.
  destruct a as [s|s| |s m e], b as [t|t| |t n f]; simpl; intros H; try discriminate; auto;
    try (destruct s, t; reflexivity).
  inversion H; subst. destruct s, t; reflexivity.
Qed.

Lemma SF_sq_sub_sym x y :
  SFmul prec emax (SFsub prec emax x y) (SFsub prec emax x y)
  = SFmul prec emax (SFsub prec emax y x) (SFsub prec emax y x).
Proof. apply SFmul_sq_abs. apply SFsub_abs_sym. Qed.

(** x - x = +0 for finite x *)
Lemma SFsub_diag x : sf_finite x = true -> SFsub prec emax x x = S754_zero false.
Proof.
  destruct x as [s|s| |s m e]; cbn [sf_finite]; try discriminate; intros _.
  - destruct s; reflexivity.
  - cbn [SFsub]. rewrite Z.min_id. unfold shl_align. rewrite Z.sub_diag. reflexivity.
Qed.
End SF.

(** * the arithmetic facts, packaged per NumOps instance *)
Record refl_arith {F} (o : NumOps F) (fin : F -> bool) : Prop := {
  ra_sub : forall x, fin x = true -> sub o x x = zero o;
  ra_mul : mul o (zero o) (zero o) = zero o;
  ra_add : add o (zero o) (zero o) = zero o;
  ra_abs : abs o (zero o) = zero o;
  ra_ltb : ltb o (zero o) (zero o) = false
}.

Lemma rdist_refl_gen {F} (o : NumOps F) fin : refl_arith o fin ->
  forall m (a : list F), forallb fin a = true -> rdist o m a a = zero o.
Proof.
  intros [Hs Hm Ha Hb Hl] m a.
  destruct m; simpl; unfold l1d, sq_l2, linfd.
  - induction a as [|x a IH]; simpl; auto. intros H. apply andb_true_iff in H as [H1 H2].
    rewrite (Hs x H1), Hb, Ha. auto.
  - induction a as [|x a IH]; simpl; auto. intros H. apply andb_true_iff in H as [H1 H2].
    rewrite (Hs x H1), Hm, Ha. auto.
  - induction a as [|x a IH]; simpl; auto. intros H. apply andb_true_iff in H as [H1 H2].
    rewrite (Hs x H1), Hb, Hl. auto.
Qed.

(** * binary64 (Coq's primitive floats, tied to SpecFloat by the Floats axioms) *)
Lemma b64_abs_sub_sym (x y : float) : PrimFloat.abs (x - y) = PrimFloat.abs (y - x).
Proof. apply Prim2SF_inj. rewrite !abs_spec, !sub_spec. apply SFsub_abs_sym. Qed.

Lemma b64_sq_sub_sym (x y : float) : ((x - y) * (x - y) = (y - x) * (y - x))%float.
Proof. apply Prim2SF_inj. rewrite !mul_spec, !sub_spec. apply SF_sq_sub_sym. Qed.

Lemma B64_terms_symmetric : terms_symmetric B64_ops.
Proof. split; simpl; intros x y; [apply b64_sq_sub_sym | apply b64_abs_sub_sym]. Qed.

Lemma rdist_B64_sym m a b : rdist B64_ops m a b = rdist B64_ops m b a.
Proof. apply rdist_sym_of_terms. exact B64_terms_symmetric. Qed.
Lemma dist_B64_sym m a b : dist B64_ops m a b = dist B64_ops m b a.
Proof. apply dist_sym_of_terms. exact B64_terms_symmetric. Qed.

Lemma B64_refl_arith : refl_arith B64_ops f64_finite.
Proof.
  split; simpl; try reflexivity.
  intros x Hx. apply Prim2SF_inj. rewrite sub_spec. unfold SF64sub.
  rewrite SFsub_diag; auto.
Qed.

Lemma rdist_B64_refl m a : forallb f64_finite a = true -> rdist B64_ops m a a = 0%float.
Proof. exact (rdist_refl_gen B64_ops f64_finite B64_refl_arith m a). Qed.

(** * binary32 (SpecFloat at precision 24) *)
Lemma B32_terms_symmetric : terms_symmetric B32_ops.
Proof. split; simpl; intros x y; [apply SF_sq_sub_sym | apply SFsub_abs_sym]. Qed.

Lemma rdist_B32_sym m a b : rdist B32_ops m a b = rdist B32_ops m b a.
Proof. apply rdist_sym_of_terms. exact B32_terms_symmetric. Qed.
Lemma dist_B32_sym m a b : dist B32_ops m a b = dist B32_ops m b a.
Proof. apply dist_sym_of_terms. exact B32_terms_symmetric. Qed.

Lemma B32_refl_arith : refl_arith B32_ops sf_finite.
Proof. split; simpl; try reflexivity. intros x Hx. apply SFsub_diag; auto. Qed.

(** * the neighbour function decided on computed distances satisfies the hypotheses of the C08
      theorems - in both formats, for every batch (no finiteness assumption) *)
Lemma lin_nbrs_B64_ok m X eps : nbrs_ok (lin_nbrs B64_ops m X eps) (length X).
Proof. apply lin_nbrs_ok. intros a b. apply rdist_B64_sym. Qed.
Lemma lin_nbrs_B32_ok m X eps : nbrs_ok (lin_nbrs B32_ops m X eps) (length X).
Proof. apply lin_nbrs_ok. intros a b. apply rdist_B32_sym. Qed.

(** on finite rows with a computed reduced tolerance above +0 every row is in its own neighbourhood,
    so "core" counts the row itself *)
Lemma lin_nbrs_B64_refl m X eps i : i < length X ->
  forallb f64_finite (nth i X []) = true -> PrimFloat.ltb 0 (to_r B64_ops m eps) = true ->
  In i (lin_nbrs B64_ops m X eps i).
Proof.
  intros Hi Hf He. apply lin_nbrs_In. repeat split; auto. rewrite rdist_B64_refl; auto.
Qed.

(** * non-vacuity, evaluated with primitive floats: the symmetric terms really are rounded (so the
      statement is not about exact arithmetic), and a reduced tolerance that underflows to +0 makes
      every neighbourhood empty *)
Example ex_rounded_terms :
  let x := 0x1.0000000000001p+0%float in let y := 0x1p-53%float in
  f64_biteq (PrimFloat.abs (x - y)) (PrimFloat.abs (y - x)) = true /\
  f64_biteq (x - y) 0x1p+0%float = true /\
  f64_biteq (rdist B64_ops L2 [x; 3%float] [y; 0x1.8p+1%float])
            (rdist B64_ops L2 [y; 0x1.8p+1%float] [x; 3%float]) = true.
Proof. vm_compute. repeat split. Qed.

Example ex_tiny_tolerance :
  lin_nbrs B64_ops L2 [[0]; [0]]%float 0x1p-600%float 0 = [] /\
  lin_nbrs B64_ops L1 [[0]; [0]]%float 0x1p-600%float 0 = [0; 1].
Proof. vm_compute. split; reflexivity. Qed.
