(** C08 - OPTICS sees the distances only through comparisons.
    [optics_embed]: if [f : F' -> F] translates the strict order of an arithmetic o' into that of o
    (ltb o (f a) (f b) = ltb o' a b), then OPTICS run in o on the distances [f (d' i j)] returns the
    image under f of what it returns in o' on [d']: same ordering, core distances and reachabilities
    mapped by f.  Consequences: the result is invariant under every strictly increasing rescaling of
    the distances, and statements proved for an arithmetic with a strict weak order transfer to any
    set of values that is ordered like it - in particular to binary64 distances that are not NaN
    (C08/FloatOrder.v). *)
From Coq Require Import List NArith Bool Arith Permutation Lia Reals Lra.
From LinfaVerif Require Import Common.Num C08.Model C08.Proofs C08.Compose.
Import ListNotations.

Section Embed.
Context {F F' : Type} (o : NumOps F) (o' : NumOps F').
Variable f : F' -> F.
Hypothesis f_lt : forall a b, ltb o (f a) (f b) = ltb o' a b.
Variable nbrs : nat -> list nat.
Variable d' : nat -> nat -> F'.
Variable minpts : nat.

Let d (i j : nat) : F := f (d' i j).
Let omap (x : option F') : option F := option_map f x.
Let rmap (l : list (option F')) : list (option F) := map omap l.
Definition smap (s : sample F') : sample F := mkSample (s_index s) (omap (s_core s)) (omap (s_reach s)).

Lemma insert_by_embed (key' : nat -> F') x l :
  insert_by o (fun y => f (key' y)) x l = insert_by o' key' x l.
Proof. induction l as [|y t IH]; simpl; auto. rewrite f_lt, IH. reflexivity. Qed.
Lemma isort_embed (key' : nat -> F') l : isort o (fun y => f (key' y)) l = isort o' key' l.
Proof. induction l as [|x t IH]; simpl; auto. rewrite IH. apply insert_by_embed. Qed.
Lemma sorted_embed i : sorted_nbrs o nbrs d i = sorted_nbrs o' nbrs d' i.
Proof. unfold sorted_nbrs, d. apply (isort_embed (fun x => d' x i)). Qed.

Lemma core_dist_embed i nb : core_dist d minpts i nb = omap (core_dist d' minpts i nb).
Proof. unfold core_dist. destruct (nth_error nb (minpts - 1)); reflexivity. Qed.

Lemma fmax_embed a b : fmax o (f a) (f b) = f (fmax o' a b).
Proof. unfold fmax. rewrite f_lt. destruct (ltb o' a b); reflexivity. Qed.

Lemma nth_rmap x reach : nth x (rmap reach) None = omap (nth x reach None).
Proof. unfold rmap. change (@None F) with (omap None). apply map_nth. Qed.
Lemma upd_map {A B} (g : A -> B) : forall (l : list A) k v, upd (map g l) k (g v) = map g (upd l k v).
Proof. induction l as [|a l IH]; intros [|k] v; simpl; auto. rewrite IH. reflexivity. Qed.

Lemma seed_step_embed sidx c st x :
  seed_step o d sidx (f c) (rmap (fst st), snd st) x
  = (rmap (fst (seed_step o' d' sidx c st x)), snd (seed_step o' d' sidx c st x)).
Proof.
  unfold seed_step. cbn [fst snd]. rewrite nth_rmap. unfold d. rewrite fmax_embed.
  destruct (nth x (fst st) None) as [s|]; cbn [omap option_map].
  - rewrite f_lt. destruct (ltb o' (fmax o' c (d' x sidx)) s); cbn [fst snd]; auto.
    unfold rmap. rewrite <- upd_map. reflexivity.
  - cbn [fst snd]. unfold rmap. rewrite <- upd_map. reflexivity.
Qed.

Lemma get_seeds_embed sidx c nb proc reach seeds :
  get_seeds o d sidx (f c) nb proc (rmap reach) seeds
  = (rmap (fst (get_seeds o' d' sidx c nb proc reach seeds)),
     snd (get_seeds o' d' sidx c nb proc reach seeds)).
Proof.
  unfold get_seeds. generalize (filter (fun x => negb (nth x proc false)) nb) as l.
  intros l. revert reach seeds. induction l as [|x l IH]; intros reach seeds; simpl; auto.
  pose proof (seed_step_embed sidx c (reach, seeds) x) as E. cbn [fst snd] in E. rewrite E.
  destruct (seed_step o' d' sidx c (reach, seeds) x) as [r1 s1]. cbn [fst snd]. apply IH.
Qed.

Lemma olt_embed a b : olt o (omap a) (omap b) = olt o' a b.
Proof. destruct a, b; simpl; auto. Qed.
Lemma pick_min_embed reach : forall l best, pick_min o (rmap reach) best l = pick_min o' reach best l.
Proof.
  induction l as [|x t IH]; intros best; simpl; auto.
  rewrite !nth_rmap, olt_embed. destruct (olt o' (nth x reach None) (nth best reach None)); apply IH.
Qed.

Definition stmap (st : @ostate F') : @ostate F :=
  {| o_reach := rmap (o_reach st); o_proc := o_proc st; o_seeds := o_seeds st;
     o_out := map smap (o_out st) |}.

Lemma inner_embed : forall fuel st,
  inner o nbrs d minpts fuel (stmap st) = option_map stmap (inner o' nbrs d' minpts fuel st).
Proof.
  induction fuel as [|fuel IH]; intros st; [reflexivity|].
  cbn [inner]. cbn [stmap o_seeds o_reach o_proc o_out].
  destruct (sort_desc (o_seeds st)) as [|s0 rest]; [reflexivity|].
  rewrite pick_min_embed. set (x := pick_min o' (o_reach st) s0 rest).
  rewrite sorted_embed, core_dist_embed, nth_rmap.
  destruct (core_dist d' minpts x (sorted_nbrs o' nbrs d' x)) as [c|]; cbn [omap option_map].
  - rewrite get_seeds_embed.
    destruct (get_seeds o' d' x c (sorted_nbrs o' nbrs d' x) (upd (o_proc st) x true) (o_reach st)
                (remove_first x (s0 :: rest))) as [r2 s2]. cbn [fst snd].
    rewrite <- IH. f_equal. unfold stmap. cbn [o_reach o_proc o_seeds o_out]. f_equal.
    rewrite map_app. reflexivity.
  - rewrite <- IH. f_equal. unfold stmap. cbn [o_reach o_proc o_seeds o_out]. f_equal.
    rewrite map_app. reflexivity.
Qed.

Lemma oscan_embed : forall is st,
  oscan o nbrs d minpts is (stmap st) = option_map stmap (oscan o' nbrs d' minpts is st).
Proof.
  induction is as [|index rest IH]; intros st; [reflexivity|].
  cbn [oscan]. cbn [stmap o_seeds o_reach o_proc o_out].
  destruct (nth index (o_proc st) false); [apply IH|].
  set (pi := next_point (o_proc st) index).
  rewrite sorted_embed, core_dist_embed, nth_rmap.
  destruct (core_dist d' minpts pi (sorted_nbrs o' nbrs d' pi)) as [c|]; cbn [omap option_map].
  - rewrite get_seeds_embed.
    destruct (get_seeds o' d' pi c (sorted_nbrs o' nbrs d' pi) (upd (o_proc st) pi true) (o_reach st) [])
      as [r2 s2]. cbn [fst snd].
    match goal with |- context [inner o nbrs d minpts ?fu ?s] =>
      replace s with (stmap {| o_reach := r2; o_proc := upd (o_proc st) pi true; o_seeds := s2;
                               o_out := o_out st ++ [mkSample pi (Some c) (nth pi (o_reach st) None)] |})
    end.
    + rewrite inner_embed.
      destruct (inner o' nbrs d' minpts (S (length (upd (o_proc st) pi true)))
                  {| o_reach := r2; o_proc := upd (o_proc st) pi true; o_seeds := s2;
                     o_out := o_out st ++ [mkSample pi (Some c) (nth pi (o_reach st) None)] |}) as [st'|];
        cbn [option_map]; [apply IH|reflexivity].
    + unfold stmap. cbn [o_reach o_proc o_seeds o_out]. f_equal. rewrite map_app. reflexivity.
  - rewrite <- IH. f_equal. unfold stmap. cbn [o_reach o_proc o_seeds o_out]. f_equal.
    rewrite map_app. reflexivity.
Qed.

Theorem optics_embed n :
  optics o nbrs d minpts n = option_map (map smap) (optics o' nbrs d' minpts n).
Proof.
  unfold optics.
  pose proof (oscan_embed (seq 0 n) {| o_reach := repeat None n; o_proc := repeat false n;
                                        o_seeds := []; o_out := [] |}) as E.
  unfold stmap in E. cbn [o_reach o_proc o_seeds o_out map] in E.
  assert (R : rmap (repeat None n) = repeat None n).
  { unfold rmap. clear. induction n; simpl; auto. f_equal; auto. }
  rewrite R in E. rewrite E.
  destruct (oscan o' nbrs d' minpts (seq 0 n) _) as [st|]; reflexivity.
Qed.

(** transfer of the specification predicate along the embedding *)
Lemma cdist_embed i : cdist o nbrs d minpts i = omap (cdist o' nbrs d' minpts i).
Proof. unfold cdist. rewrite sorted_embed. apply core_dist_embed. Qed.

Lemma density_ordering_embed n out' :
  density_ordering o' nbrs d' minpts n out' -> density_ordering o nbrs d minpts n (map smap out').
Proof.
  intros [HP HS]. split.
  - rewrite map_map. cbn [smap s_index]. exact HP.
  - intros l1 s l2 D.
    apply map_eq_app in D as [l1' [r' [E1 [E2 E3]]]].
    destruct r' as [|s' l2']; [discriminate|]. cbn [map] in E3. inversion E3 as [[Es El2]]. clear E3.
    destruct (HS l1' s' l2' E1) as [A [B C]].
    assert (Hidx : map s_index l1 = map s_index l1').
    { rewrite <- E2, map_map. reflexivity. }
    rewrite Hidx. cbn [smap s_index s_core s_reach]. split; [|split].
    + rewrite A. symmetry. apply cdist_embed.
    + destruct B as [B|[ob [c [B1 [B2 [B3 B4]]]]]]; [left; rewrite B; reflexivity|].
      right. exists ob, (f c). split; auto. split; [rewrite cdist_embed, B2; reflexivity|].
      split; auto. rewrite B4. cbn [omap option_map]. unfold d. rewrite fmax_embed. reflexivity.
    + intros y Hy Hny ob c Hob Hc Hin.
      rewrite cdist_embed in Hc. destruct (cdist o' nbrs d' minpts ob) as [c'|] eqn:Ec; [|discriminate].
      cbn [omap option_map] in Hc. inversion Hc; subst c.
      destruct (C y Hy Hny ob c' Hob Ec Hin) as [r [R1 R2]].
      exists (f r). split; [rewrite R1; reflexivity|].
      unfold d. rewrite fmax_embed, f_lt. exact R2.
Qed.
End Embed.

(** OPTICS is invariant under strictly increasing rescalings of the distances (reals) *)
Lemma optics_monotone_invariant (g : R -> R) nbrs (dR : nat -> nat -> R) minpts n :
  (forall a b, (a < b)%R <-> (g a < g b)%R) ->
  optics R_ops nbrs (fun i j => g (dR i j)) minpts n
  = option_map (map (smap g)) (optics R_ops nbrs dR minpts n).
Proof.
  intros Hg. apply (optics_embed R_ops R_ops g). intros a b. simpl.
  destruct (Rltb a b) eqn:E.
  - apply Rltb_true. apply (proj1 (Hg a b)). apply Rltb_true. exact E.
  - apply Rltb_false. apply Rltb_false in E. apply Rnot_lt_le. intros C. apply (proj2 (Hg a b)) in C. lra.
Qed.
