(** C08 - what a clean correspondence run certifies, by theorem: if for a run of a case the index
    returned the computed open balls as duplicate-free sets (oracle bit 64 clear: [nbrs_set_ok]) and the
    implementation's labels equal the model's (corr bit 1 clear), then those labels ARE the density
    clustering of the computed binary64 distances of the case's points - independently of the
    evaluated oracle bits 2..32, which recompute the same conditions. *)
From Coq Require Import List NArith Bool Arith Permutation Floats Lia.
From LinfaVerif Require Import Common.Num Common.Run Common.QF C08.Model C08.Proofs C08.Corr C08.Compose C08.FloatSym.
Import ListNotations.

Definition balls (m : metric) (dim : nat) (X : list (list float)) (eps : float) : list (list nat) :=
  map (range_spec o64 m dim X eps) (seq 0 (length X)).

Lemma balls_lin m dim X eps i : nth i (balls m (S dim) X eps) [] = lin_nbrs B64_ops m X eps i.
Proof.
  unfold balls. destruct (Nat.lt_ge_cases i (length X)) as [H|H].
  - rewrite (nth_indep _ [] (range_spec o64 m (S dim) X eps 0)) by (rewrite map_length, seq_length; exact H).
    rewrite map_nth, seq_nth by exact H. symmetry. apply lin_nbrs_range_spec. exact H.
  - rewrite nth_overflow by (rewrite map_length, seq_length; exact H).
    symmetry. apply lin_nbrs_outside. exact H.
Qed.

Lemma memb_In x l : memb x l = true -> In x l.
Proof.
  unfold memb. intros H. apply existsb_exists in H as [y [A B]]. apply Nat.eqb_eq in B. subst; auto.
Qed.

Lemma nodup_len_NoDup (l : list nat) : length (nodup Nat.eq_dec l) = length l -> NoDup l.
Proof.
  induction l as [|a l IH]; simpl; intros H; [constructor|].
  destruct (in_dec Nat.eq_dec a l) as [I|I].
    assert (L : length (nodup Nat.eq_dec l) <= length l).
    { clear. induction l as [|b l IH]; simpl; auto. destruct (in_dec Nat.eq_dec b l); simpl; lia. }
    lia.
  - simpl in H. constructor; auto.
Qed.

Lemma nbrs_set_ok_perm n Ns r : length Ns = n -> (forall i, NoDup (nth i Ns [])) ->
  nbrs_set_ok n Ns r = true ->
  forall i, Permutation (nth i Ns []) (map N.to_nat (nth i (r_nbrs r) [])).
Proof.
  intros HL HN H i. unfold nbrs_set_ok in H. apply andb_true_iff in H as [H1 H2].
  apply Nat.eqb_eq in H1. unfold forall_lt in H2. rewrite forallb_forall in H2.
  destruct (Nat.lt_ge_cases i n) as [Hi|Hi].
  - assert (Hin : In i (seq 0 n)) by (apply in_seq; lia).
    specialize (H2 i Hin). apply andb_true_iff in H2 as [H2 H5]. apply andb_true_iff in H2 as [H3 H4].
    apply Nat.eqb_eq in H3, H5. rewrite forallb_forall in H4.
    apply Permutation_sym. apply NoDup_Permutation_bis.
    + apply nodup_len_NoDup. exact H5.
    + rewrite H3. auto.
    + intros x Hx. apply memb_In. apply H4. exact Hx.
  - rewrite (nth_overflow Ns) by lia. rewrite (nth_overflow (r_nbrs r)) by lia. constructor.
Qed.

Lemma checked_run_dbscan (c : case) (r : runcase) (dim' : nat) (lab : list (option nat)) :
  let m := c_metric c in let X := c_X c in let n := length X in
  let minpts := N.to_nat (c_minpts c) in
  let nb := fun i => map N.to_nat (nth i (r_nbrs r) []) in
  nbrs_set_ok n (balls m (S dim') X (c_eps c)) r = true ->
  dbscan_transform (S dim') n nb minpts = Some lab ->
  density_clustering (lin_nbrs B64_ops m X (c_eps c)) minpts n lab /\
  dbscan (lin_nbrs B64_ops m X (c_eps c)) minpts n = Some lab.
Proof.
  intros m X n minpts nb Hok Hrun. simpl in Hrun.
  assert (HP : forall i, Permutation (lin_nbrs B64_ops m X (c_eps c) i) (nb i)).
  { intros i. rewrite <- balls_lin with (dim := dim').
    apply nbrs_set_ok_perm with (n := n); auto.
    - unfold balls. rewrite map_length, seq_length. reflexivity.
    - intros j. rewrite balls_lin. apply lin_nbrs_nodup. }
  destruct (dbscan_same_sets _ nb minpts n (lin_nbrs_B64_ok m X (c_eps c)) HP) as [lab' [E1 [E2 _]]].
  unfold n in *. rewrite Hrun in E1. inversion E1; subst lab'.
  split; auto.
  destruct (dbscan_lin_density B64_ops m X (c_eps c) minpts (rdist_B64_sym m)) as [_ [lab2 [E3 D]]].
  rewrite E2 in E3. inversion E3; subst. exact D.
Qed.

Lemma oN_eqb_eq a b : oN_eqb a b = true -> a = b.
Proof. destruct a, b; simpl; intros H; try discriminate; auto. apply N.eqb_eq in H. subst; auto. Qed.

(** in terms of the codes that [run_case] reports: DBSCAN correspondence bits 1 and 4 clear *)
Lemma clean_run_dbscan (c : case) (r : runcase) (dim' : nat) :
  let m := c_metric c in let X := c_X c in let n := length X in
  let minpts := N.to_nat (c_minpts c) in
  nbrs_set_ok n (balls m (S dim') X (c_eps c)) r = true ->
  N.land (corr_run (S dim') n minpts (dmatrix m X) r) 5 = 0%N ->
  exists lab, map (option_map N.of_nat) lab = r_labels r /\
              dbscan (lin_nbrs B64_ops m X (c_eps c)) minpts n = Some lab /\
              density_clustering (lin_nbrs B64_ops m X (c_eps c)) minpts n lab.
Proof.
  intros m X n minpts Hok Hc. unfold corr_run in Hc.
  destruct (dbscan_transform (S dim') n (fun i => map N.to_nat (nth i (r_nbrs r) [])) minpts) as [lab|] eqn:E.
  - exists lab.
    destruct (list_eqb oN_eqb (map (option_map N.of_nat) lab) (r_labels r)) eqn:EL.
    + split; [apply (list_eqb_eq oN_eqb oN_eqb_eq); exact EL|].
      destruct (checked_run_dbscan c r dim' lab Hok E) as [A B]. split; auto.
    + exfalso. unfold flag in Hc.
      destruct (optics_transform o64 (S dim') n _ _ minpts) as [out|];
        [destruct (list_eqb sample_eqb _ _)|]; simpl in Hc; discriminate.
  - exfalso. unfold flag in Hc.
    destruct (optics_transform o64 (S dim') n _ _ minpts) as [out|];
      [destruct (list_eqb sample_eqb _ _)|]; simpl in Hc; discriminate.
Qed.

(** * non-vacuity: seven points on a line at 0 1 2 3 | 5 6 | 9, tolerance 1.5, min_points 3, as a case with
      one run whose index answers are the computed balls listed in another order *)
Definition ex_X : list (list float) := [[0]; [1]; [2]; [3]; [5]; [6]; [9]]%float.
Definition ex_case : case :=
  {| c_id := 0; c_metric := L2; c_dim := 1; c_X := ex_X; c_eps := 0x1.8p+0%float; c_minpts := 3;
     c_exact := true; c_runs := [] |}.
Definition ex_run : runcase :=
  {| r_index := 1;
     r_nbrs := [[1; 0]; [2; 0; 1]; [3; 1; 2]; [3; 2]; [5; 4]; [4; 5]; [6]]%N;
     r_labels := [Some 0; Some 0; Some 0; Some 0; None; None; None]%N;
     r_optics := [] |}.

Example ex_lin_nbrs_float :
  map (lin_nbrs B64_ops L2 ex_X 0x1.8p+0%float) (seq 0 8) = map ex_nbrs (seq 0 8).
Proof. vm_compute. reflexivity. Qed.
Example ex_dbscan_float :
  dbscan (lin_nbrs B64_ops L2 ex_X 0x1.8p+0%float) 3 7 = Some [Some 0; Some 0; Some 0; Some 0; None; None; None].
Proof. vm_compute. reflexivity. Qed.
Example ex_clean_run :
  nbrs_set_ok 7 (balls L2 1 ex_X 0x1.8p+0%float) ex_run = true /\
  N.land (corr_run 1 7 3 (dmatrix L2 ex_X) ex_run) 5 = 0%N.
Proof. vm_compute. split; reflexivity. Qed.
(* OPTICS on the computed distances of the same points: the hypotheses of the float theorems hold *)
Example ex_optics_float_hyps :
  forallb (forallb f64_finite) ex_X = true /\
  option_map (map (fun s => (s_index s, s_core s, s_reach s)))
    (optics B64_ops (lin_nbrs B64_ops L2 ex_X 0x1.8p+0%float)
       (fun i j => dist B64_ops L2 (nth i ex_X []) (nth j ex_X [])) 3 7) =
  Some [(0, None, None); (1, Some 1%float, None); (2, Some 1%float, Some 1%float);
        (3, None, Some 1%float); (4, None, None); (5, None, None); (6, None, None)].
Proof. vm_compute. split; reflexivity. Qed.
