(** C08 - correspondence (model = implementation, bit for bit) and property oracle (the density
    clustering conditions recomputed from the points), evaluated with the binary64 instance and,
    for the neighbourhoods of the non-borderline stream, with exact rationals. *)
From Coq Require Import List NArith ZArith QArith Bool Arith Floats.
From LinfaVerif Require Export Common.Num Common.Run Common.QF C08.Model.
Import ListNotations.

Definition o64 := B64_ops.

Record runcase := {
  r_index : N;                        (* 0 LinearSearch, 1 KdTree, 2 BallTree *)
  r_nbrs : list (list N);             (* within_range(row i, tolerance) in the order returned; [] without index *)
  r_labels : list (option N);         (* Dbscan::transform *)
  r_optics : list (N * (option float * option float))   (* Optics::transform: index, core, reachability *)
}.

Record case := {
  c_id : N;
  c_metric : metric;
  c_dim : N;
  c_X : list (list float);
  c_eps : float;
  c_minpts : N;
  c_exact : bool;     (* the tolerance is not (close to) an inter-point distance: exact-rational neighbourhoods apply *)
  c_runs : list runcase
}.

Definition obiteq (a b : option float) : bool :=
  match a, b with
  | None, None => true
  | Some x, Some y => f64_biteq x y
  | _, _ => false
  end.
Definition oN_eqb (a b : option N) : bool :=
  match a, b with
  | None, None => true
  | Some x, Some y => N.eqb x y
  | _, _ => false
  end.
Definition sample_eqb (a b : N * (option float * option float)) : bool :=
  N.eqb (fst a) (fst b) && obiteq (fst (snd a)) (fst (snd b)) && obiteq (snd (snd a)) (snd (snd b)).

Definition dmatrix (m : metric) (X : list (list float)) : list (list float) :=
  map (fun xi => map (fun xj => dist o64 m xi xj) X) X.
Definition dlook (D : list (list float)) (i j : nat) : float := nth j (nth i D []) nan.

(** * correspondence *)
Definition corr_run (dim n minpts : nat) (D : list (list float)) (r : runcase) : N :=
  let nb := fun i => map N.to_nat (nth i (r_nbrs r) []) in
  let cl :=
    match dbscan_transform dim n nb minpts with
    | None => 4%N
    | Some lab => flag (list_eqb oN_eqb (map (option_map N.of_nat) lab) (r_labels r)) 1
    end in
  let co :=
    match optics_transform o64 dim n nb (dlook D) minpts with
    | None => 4%N
    | Some out =>
        flag (list_eqb sample_eqb
                (map (fun s => (N.of_nat (s_index s), (s_core s, s_reach s))) out) (r_optics r)) 2
    end in
  N.lor cl co.

(** * property oracle *)
Definition memb (x : nat) (l : list nat) : bool := existsb (Nat.eqb x) l.
Definition forall_lt (n : nat) (p : nat -> bool) : bool := forallb p (seq 0 n).
Definition exists_lt (n : nat) (p : nat -> bool) : bool := existsb p (seq 0 n).

(* exact reduced distances and the exact range predicate *)
Fixpoint qfold2 (f : Q -> Q -> Q -> Q) (a b : list float) (acc : Q) : Q :=
  match a, b with
  | x :: a', y :: b' => qfold2 f a' b' (f acc (f64_Q x) (f64_Q y))
  | _, _ => acc
  end.
Definition rdistQ (m : metric) (a b : list float) : Q :=
  match m with
  | L2 => qfold2 (fun acc x y => Qred (acc + (x - y) * (x - y))) a b 0%Q
  | L1 => qfold2 (fun acc x y => Qred (acc + Qabs' (x - y))) a b 0%Q
  | Linf => qfold2 (fun acc x y => let df := Qabs' (x - y) in if Qltb acc df then df else acc) a b 0%Q
  end.
Definition to_rQ (m : metric) (eps : float) : Q :=
  match m with L2 => (f64_Q eps * f64_Q eps)%Q | _ => f64_Q eps end.

Definition exact_nbrs_agree (m : metric) (dim : nat) (X : list (list float)) (eps : float)
  (Ns : list (list nat)) : bool :=
  let n := length X in
  match dim with
  | O => forallb (fun l => match l with [] => true | _ => false end) Ns
  | _ =>
    f64_finite eps && forallb (forallb f64_finite) X &&
    forall_lt n (fun i => forall_lt n (fun j =>
      Bool.eqb (memb j (nth i Ns [])) (Qltb (rdistQ m (nth i X []) (nth j X [])) (to_rQ m eps))))
  end.

Section Oracle.
Variable n minpts : nat.
Variable Ns : list (list nat).          (* the neighbourhoods recomputed from the points *)
Variable D : list (list float).         (* the distances recomputed from the points *)

Definition N_of (i : nat) : list nat := nth i Ns [].
Definition coreb (i : nat) : bool := minpts <=? length (N_of i).
Definition reaches (j i : nat) : bool := coreb j && memb i (N_of j).

(* ---- DBSCAN ---- *)
Section Db.
Variable L : list (option N).
Definition lab (i : nat) : option N := nth i L None.
Definition labelled (i : nat) : bool := negb (is_none (lab i)).

(* labelled exactly when core or within the tolerance of a core point *)
Definition db_noise_iff : bool :=
  forall_lt n (fun i => Bool.eqb (labelled i) (coreb i || exists_lt n (fun j => reaches j i))).
(* two core points within the tolerance of each other carry the same label *)
Definition db_core_same : bool :=
  forall_lt n (fun i => negb (coreb i) ||
    forallb (fun j => negb (coreb j) || oN_eqb (lab i) (lab j)) (N_of i)).
(* a labelled non-core point carries the label of a core point that reaches it *)
Definition db_border : bool :=
  forall_lt n (fun i => negb (labelled i) || coreb i ||
    exists_lt n (fun j => reaches j i && oN_eqb (lab j) (lab i))).
(* labels are 0..c-1 without gaps *)
Definition used_labels : list N :=
  nodup N.eq_dec (flat_map (fun x => match x with Some l => [l] | None => [] end) L).
Definition db_dense : bool :=
  let c := N.of_nat (length used_labels) in forallb (fun l => N.ltb l c) used_labels.

(* density-connected component of a core point: closure under "core neighbour of a member" *)
Fixpoint closure (fuel : nat) (cs : list nat) : list nat :=
  match fuel with
  | O => cs
  | S f =>
      let cs' := filter (fun j => memb j cs || (coreb j && existsb (fun i => memb j (N_of i)) cs)) (seq 0 n) in
      if Nat.eqb (length cs') (length cs) then cs else closure f cs'
  end.
(* core points carry the same label exactly when they are density-connected *)
Definition db_components : bool :=
  forallb (fun l =>
    let members := filter (fun i => coreb i && oN_eqb (lab i) (Some l)) (seq 0 n) in
    match members with
    | [] => false                      (* every cluster has a core point *)
    | s :: _ => let comp := closure n [s] in
                Nat.eqb (length comp) (length members) && forallb (fun i => memb i comp) members
    end) used_labels.

Definition oracle_dbscan : N :=
  if negb (Nat.eqb (length L) n) then 1%N else
  (flag db_noise_iff 2 + flag db_core_same 4 + flag db_border 8 + flag db_dense 16
   + flag db_components 32)%N.
End Db.

(* ---- OPTICS ---- *)
Definition dists_of (i : nat) : list float := map (fun j => dlook D i j) (N_of i).
Definition count_if (p : float -> bool) (l : list float) : nat := length (filter p l).
(* the distance to the minpts-th nearest point within the tolerance: the value c among the
   distances with fewer than minpts distances below it and at least minpts not above it *)
Definition cd_spec (i : nat) : option float :=
  let ds := dists_of i in
  find (fun c => (count_if (fun x => PrimFloat.ltb x c) ds <? minpts)
                 && (minpts <=? count_if (fun x => PrimFloat.leb x c) ds)) ds.
Definition fmax64 (a b : float) : float := if PrimFloat.ltb a b then b else a.

Section Op.
Variable O : list (N * (option float * option float)).
Definition oidx (p : nat) : nat := N.to_nat (fst (nth p O (0%N, (None, None)))).
Definition oreach (p : nat) : option float := snd (snd (nth p O (0%N, (None, None)))).
Definition ocore (p : nat) : option float := fst (snd (nth p O (0%N, (None, None)))).

Definition op_perm : bool :=
  Nat.eqb (length O) n &&
  forall_lt n (fun i => Nat.eqb (length (filter (fun p => Nat.eqb (oidx p) i) (seq 0 n))) 1).
Definition op_core : bool :=
  forall_lt (length O) (fun p => obiteq (ocore p) (cd_spec (oidx p))).

(* candidate reachabilities of sample i through the core points listed at positions < p *)
Definition cands (p i : nat) : list float :=
  flat_map (fun q => let ob := oidx q in
                     match cd_spec ob with
                     | Some c => if memb i (N_of ob) then [fmax64 c (dlook D i ob)] else []
                     | None => []
                     end) (seq 0 p).
(* the stated clause: undefined, or max(core distance of o, distance to o) for a core point o
   within the tolerance that is listed earlier *)
Definition op_reach : bool :=
  forall_lt (length O) (fun p =>
    match oreach p with
    | None => true
    | Some r => existsb (f64_biteq r) (cands p (oidx p))
    end).
(* OPTICS' definition: undefined only if no earlier core point reaches the sample, else the smallest candidate *)
Definition op_reach_min : bool :=
  forall_lt (length O) (fun p =>
    let cs := cands p (oidx p) in
    match oreach p with
    | None => match cs with [] => true | _ => false end
    | Some r => forallb (fun c => PrimFloat.leb r c) cs
    end).
(* the ordering is a walk by minimal reachability: when some unlisted sample is reachable from the
   samples listed so far, the next sample is one of the reachable ones with the smallest reachability *)
Definition listed_before (p i : nat) : bool := existsb (fun q => Nat.eqb (oidx q) i) (seq 0 p).
Definition cur (p j : nat) : option float :=
  match cands p j with
  | [] => None
  | c :: cs => Some (fold_left (fun a b => if PrimFloat.ltb b a then b else a) cs c)
  end.
Definition op_walk : bool :=
  forall_lt (length O) (fun p =>
    let pending := filter (fun j => negb (listed_before p j) && negb (is_none (cur p j))) (seq 0 n) in
    match pending with
    | [] => true
    | _ => match cur p (oidx p) with
           | None => false
           | Some r => forallb (fun j => match cur p j with Some c => PrimFloat.leb r c | None => true end) pending
           end
    end).

Definition oracle_optics : N :=
  (flag op_perm 256 + flag op_core 512 + flag op_reach 1024 + flag op_reach_min 2048 + flag op_walk 4096)%N.
End Op.
End Oracle.

Definition nbrs_set_ok (n : nat) (Ns : list (list nat)) (r : runcase) : bool :=
  Nat.eqb (length (r_nbrs r)) n &&
  forall_lt n (fun i =>
    let got := map N.to_nat (nth i (r_nbrs r) []) in
    let want := nth i Ns [] in
    Nat.eqb (length got) (length want) && forallb (fun j => memb j want) got
    && Nat.eqb (length (nodup Nat.eq_dec got)) (length got)).

Definition runs_agree (rs : list runcase) : bool :=
  match rs with
  | [] => true
  | r0 :: rest =>
      forallb (fun r => list_eqb oN_eqb (r_labels r0) (r_labels r)
                        && list_eqb sample_eqb (r_optics r0) (r_optics r)) rest
  end.

Definition lor_list (l : list N) : N := fold_left N.lor l 0%N.

Definition run_case (c : case) : verdict :=
  let m := c_metric c in
  let X := c_X c in
  let n := length X in
  let dim := N.to_nat (c_dim c) in
  let minpts := N.to_nat (c_minpts c) in
  let D := dmatrix m X in
  let Ns := map (range_spec o64 m dim X (c_eps c)) (seq 0 n) in
  (c_id c,
   (lor_list (map (corr_run dim n minpts D) (c_runs c)),
    (lor_list (map (fun r => N.lor (N.lor (oracle_dbscan n minpts Ns (r_labels r))
                                          (oracle_optics n minpts Ns D (r_optics r)))
                                   (flag (nbrs_set_ok n Ns r) 64)) (c_runs c))
     + flag (negb (c_exact c) || exact_nbrs_agree m dim X (c_eps c) Ns) 128
     + flag (runs_agree (c_runs c)) 8192)%N)).

Definition run_cases (cs : list case) : list N := report (map run_case cs).
