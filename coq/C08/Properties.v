(** C08 - property theorems (statements only; proofs are in C08/Proofs.v).
    [nbrs i] is the list the neighbour index returned for sample i; [nbrs_ok nbrs n] states the
    facts of a correct range query (indices below n, symmetric, duplicate-free).
    [core nbrs minpts i] := minpts <= length (nbrs i)  (the sample itself is in its own list);
    [conn nbrs minpts i j] := j is reached from i through a chain of core points, each within the
    tolerance of the previous one (density-connectedness of core points). *)
From Coq Require Import List NArith Bool Arith Permutation Reals.
From LinfaVerif Require Import Common.Num C08.Model C08.Proofs.
Import ListNotations.

(** * DBSCAN *)

(** the scan and every cluster growth finish within the model's fuel: a labelling of all n samples comes out *)
Theorem dbscan_fuel_enough : forall nbrs minpts n, nbrs_ok nbrs n ->
  exists lab, dbscan nbrs minpts n = Some lab /\ length lab = n.
Proof.
  intros nbrs minpts n [H1 [H2 H3]].
  destruct (dbscan_final nbrs minpts n H1 H2 H3) as [lab [cid [E [G _]]]].
  exists lab; split; [exact E | exact (g_len _ _ _ _ _ G)].
Qed.

(** labels are 0..c-1 without gaps *)
Theorem dbscan_labels_dense : forall nbrs minpts n lab, nbrs_ok nbrs n ->
  dbscan nbrs minpts n = Some lab ->
  exists c, (forall i l, nth i lab None = Some l -> l < c) /\
            (forall l, l < c -> exists i, i < n /\ nth i lab None = Some l).
Proof. intros nbrs minpts n lab [H1 [H2 H3]] E. exact (db_dense nbrs minpts n H1 H2 H3 lab E). Qed.

(** every core point is labelled *)
Theorem dbscan_core_labelled : forall nbrs minpts n lab i, nbrs_ok nbrs n ->
  dbscan nbrs minpts n = Some lab -> i < n -> core nbrs minpts i -> nth i lab None <> None.
Proof. intros nbrs minpts n lab i [H1 [H2 H3]] E. exact (db_core_labelled nbrs minpts n H1 H2 H3 lab E i). Qed.

(** two core points within the tolerance of each other carry the same label *)
Theorem dbscan_core_same : forall nbrs minpts n lab i j, nbrs_ok nbrs n ->
  dbscan nbrs minpts n = Some lab ->
  core nbrs minpts i -> core nbrs minpts j -> In j (nbrs i) -> nth i lab None = nth j lab None.
Proof. intros nbrs minpts n lab i j [H1 [H2 H3]] E. exact (db_core_same nbrs minpts n H1 H2 H3 lab E i j). Qed.

(** a labelled non-core point carries the label of a core point that reaches it *)
Theorem dbscan_border : forall nbrs minpts n lab i l, nbrs_ok nbrs n ->
  dbscan nbrs minpts n = Some lab -> nth i lab None = Some l -> ~ core nbrs minpts i ->
  exists j, core nbrs minpts j /\ In i (nbrs j) /\ nth j lab None = Some l.
Proof. intros nbrs minpts n lab i l [H1 [H2 H3]] E. exact (db_border nbrs minpts n H1 H2 H3 lab E i l). Qed.

(** a point is noise exactly when it is neither core nor within the tolerance of a core point *)
Theorem dbscan_noise_iff : forall nbrs minpts n lab i, nbrs_ok nbrs n ->
  dbscan nbrs minpts n = Some lab -> i < n ->
  (nth i lab None = None <-> ~ core nbrs minpts i /\ forall j, In i (nbrs j) -> ~ core nbrs minpts j).
Proof. intros nbrs minpts n lab i [H1 [H2 H3]] E. exact (db_noise_iff nbrs minpts n H1 H2 H3 lab E i). Qed.

(** core points carry the same label exactly when they are density-connected: core points of
    different density-connected components carry different labels, and one component one label *)
Theorem dbscan_components : forall nbrs minpts n lab i j, nbrs_ok nbrs n ->
  dbscan nbrs minpts n = Some lab -> i < n -> core nbrs minpts i -> core nbrs minpts j ->
  (nth i lab None = nth j lab None <-> conn nbrs minpts i j).
Proof. intros nbrs minpts n lab i j [H1 [H2 H3]] E. exact (db_components nbrs minpts n H1 H2 H3 lab E i j). Qed.

(** the labelling (numbering included) does not depend on the order in which the neighbour index
    lists the neighbours: two indices returning the same neighbour sets give the same result *)
Theorem dbscan_index_independent : forall nbrs nbrs' minpts n, nbrs_ok nbrs n ->
  (forall i, Permutation (nbrs i) (nbrs' i)) ->
  dbscan nbrs minpts n = dbscan nbrs' minpts n.
Proof.
  intros nbrs nbrs' minpts n [H1 [H2 H3]] HP.
  exact (dbscan_order_independent nbrs nbrs' minpts n H1 H2 H3 HP).
Qed.

(** * OPTICS (every arithmetic [o]; [d i j] is the distance between samples i and j) *)

(** the walk finishes within the model's fuel *)
Theorem optics_terminates : forall F (o : NumOps F) nbrs d minpts n,
  (forall i j, In j (nbrs i) -> j < n) -> exists out, optics o nbrs d minpts n = Some out.
Proof. intros F o nbrs d minpts n H. exact (optics_total o nbrs d minpts n H). Qed.

(** every sample is listed exactly once *)
Theorem optics_lists_each_once : forall F (o : NumOps F) nbrs d minpts n out,
  (forall i j, In j (nbrs i) -> j < n) -> optics o nbrs d minpts n = Some out ->
  Permutation (map s_index out) (seq 0 n).
Proof. intros F o nbrs d minpts n out H E. exact (op_perm o nbrs d minpts n H out E). Qed.

(** the listed core distance is the distance to the sample's min_points-th entry of its neighbour
    list sorted by distance (undefined when the list is shorter), and the listed reachability is
    undefined or max(core distance of ob, distance to ob) for a core point ob that has the sample
    within its tolerance and is listed earlier *)
Theorem optics_reachability : forall F (o : NumOps F) nbrs d minpts n out l1 s l2,
  (forall i j, In j (nbrs i) -> j < n) -> optics o nbrs d minpts n = Some out ->
  out = l1 ++ s :: l2 ->
  s_core s = core_dist d minpts (s_index s) (sorted_nbrs o nbrs d (s_index s)) /\
  (s_reach s = None \/
   exists ob c, In ob (map s_index l1) /\
                core_dist d minpts ob (sorted_nbrs o nbrs d ob) = Some c /\
                In (s_index s) (nbrs ob) /\
                s_reach s = Some (fmax o c (d (s_index s) ob))).
Proof.
  intros F o nbrs d minpts n out l1 s l2 H E D.
  destruct (op_samples o nbrs d minpts n H out E l1 s l2 D) as [_ [A B]]. split; [exact A | exact B].
Qed.

(** over the reals, with a symmetric distance: that core distance is the min_points-th smallest
    distance from the sample to the points within its tolerance (fewer than min_points of them are
    strictly closer, at least min_points are at most that far), and it is undefined exactly when
    fewer than min_points points lie within the tolerance *)
Theorem optics_core_distance : forall nbrs (d : nat -> nat -> R) minpts i,
  (forall a b, d a b = d b a) -> 1 <= minpts ->
  (forall c, core_dist d minpts i (sorted_nbrs R_ops nbrs d i) = Some c ->
     (exists x, In x (nbrs i) /\ c = d i x) /\
     count (fun y => Rltb (d i y) c) (nbrs i) < minpts <= count (fun y => Rleb (d i y) c) (nbrs i)) /\
  (core_dist d minpts i (sorted_nbrs R_ops nbrs d i) = None <-> length (nbrs i) < minpts).
Proof.
  intros nbrs d minpts i Hs Hm. split.
  - intros c Hc. destruct (core_dist_kth nbrs d minpts Hs i c Hm Hc) as [A [B C]]. split; [exact A | split; [exact B | exact C]].
  - exact (core_dist_none nbrs d minpts i Hm).
Qed.

(** the ordering is a walk by minimal reachability, and reachabilities are minimal (T2): whenever a
    sample y not yet listed lies within the tolerance of a core point ob that is already listed, the
    next listed sample s has a defined reachability that is at most max(core distance of ob,
    distance from y to ob).  With y := the listed sample itself: its reachability is at most every
    candidate through an earlier core point, so it is the smallest one and is undefined only if no
    earlier core point reaches it.  Holds in every arithmetic whose [ltb] is a strict weak order
    (the reals: [R_lt_order]). *)
Theorem optics_walk_by_min_reachability : forall F (o : NumOps F) nbrs d minpts n out l1 s l2,
  lt_order o -> (forall i j, In j (nbrs i) -> j < n) ->
  optics o nbrs d minpts n = Some out -> out = l1 ++ s :: l2 ->
  forall y, y < n -> ~ In y (map s_index l1) ->
  forall ob c, In ob (map s_index l1) ->
               core_dist d minpts ob (sorted_nbrs o nbrs d ob) = Some c -> In y (nbrs ob) ->
  exists r, s_reach s = Some r /\ ltb o (fmax o c (d y ob)) r = false.
Proof.
  intros F o nbrs d minpts n out l1 s l2 [O1 [O2 O3]] H E D.
  exact (op_walk o nbrs d minpts n H O1 O2 O3 out E l1 s l2 D).
Qed.

(** over the reals with a symmetric distance the whole OPTICS result (ordering, core distances,
    reachabilities) does not depend on the order in which the neighbour index lists the neighbours *)
Theorem optics_index_independent : forall nbrs nbrs' (d : nat -> nat -> R) minpts n,
  (forall a b, d a b = d b a) -> 1 <= minpts ->
  (forall i j, In j (nbrs i) -> j < n) -> (forall i, NoDup (nbrs i)) ->
  (forall i, Permutation (nbrs i) (nbrs' i)) ->
  optics R_ops nbrs d minpts n = optics R_ops nbrs' d minpts n.
Proof. exact optics_order_independent. Qed.

Theorem real_order_is_strict_weak : lt_order R_ops.
Proof. exact R_lt_order. Qed.

(** the `expected` / `points_index` search at the head of OPTICS' outer loop always selects the
    current index *)
Theorem optics_next_point_is_index : forall proc index,
  index < length proc -> nth index proc false = false -> next_point proc index = index.
Proof. exact next_point_id. Qed.
