(** C08 - lemmas about the DBSCAN / OPTICS models.
    DBSCAN: one invariant of the cluster growth loop (BInv) and one of the outer scan (GInv) give
    termination within the fuel, the five density-clustering conditions, the component theorem and
    the independence of the labelling from the order of the neighbour lists.
    OPTICS: one invariant of the walk (OInv) gives termination, the permutation property, the core
    distances and the reachability clause, for every NumOps instance. *)
From Coq Require Import List NArith Bool Arith Lia Permutation Reals Lra Floats Sorted.
From LinfaVerif Require Import Common.Num C08.Model.
Import ListNotations.

(** * lists *)
Lemma upd_length {A} (l : list A) k v : length (upd l k v) = length l.
Proof. revert k; induction l as [|a l IH]; intros [|k]; simpl; auto. Qed.

Lemma nth_upd_same {A} (l : list A) k v dflt : k < length l -> nth k (upd l k v) dflt = v.
Proof. revert k; induction l as [|a l IH]; intros [|k] H; simpl in *; try lia; auto. apply IH; lia. Qed.

Lemma nth_upd_other {A} (l : list A) k j v dflt : j <> k -> nth j (upd l k v) dflt = nth j l dflt.
Proof.
  revert k j; induction l as [|a l IH]; intros [|k] [|j] H; simpl in *; try congruence; auto.
Qed.

Lemma nth_upd {A} (l : list A) k j v dflt :
  nth j (upd l k v) dflt = if Nat.eqb j k then (if j <? length l then v else dflt) else nth j l dflt.
Proof.
  destruct (Nat.eqb_spec j k) as [->|H].
  - destruct (Nat.ltb_spec k (length l)).
    + apply nth_upd_same; auto.
    + rewrite nth_overflow; auto. rewrite upd_length; auto.
  - apply nth_upd_other; auto.
Qed.

Definition unl (lab : list (option nat)) : nat := length (filter is_none lab).

Lemma unl_le lab : unl lab <= length lab.
Proof. unfold unl. induction lab as [|a l IH]; simpl; auto. destruct (is_none a); simpl; lia. Qed.

Lemma unl_upd lab c v : c < length lab -> nth c lab None = None -> S (unl (upd lab c (Some v))) = unl lab.
Proof.
  unfold unl. revert c; induction lab as [|a l IH]; intros [|c] H E; simpl in *; try lia.
  - subst a. simpl. auto.
  - destruct (is_none a); simpl; rewrite <- (IH c); auto; lia.
Qed.

Lemma nth_repeat_none {A} (k p : nat) : nth p (repeat (@None A) k) None = None.
Proof. revert p; induction k; intros [|p]; simpl; auto. Qed.
Lemma nth_repeat_false (k p : nat) : nth p (repeat false k) false = false.
Proof. revert p; induction k; intros [|p]; simpl; auto. Qed.

(** * DBSCAN *)
Section DbscanProofs.
Variable nbrs : nat -> list nat.
Variable minpts n : nat.
Hypothesis nb_range : forall i j, In j (nbrs i) -> j < n.
Hypothesis nb_sym : forall i j, In j (nbrs i) -> In i (nbrs j).
Hypothesis nb_nodup : forall i, NoDup (nbrs i).

Definition core (i : nat) : Prop := minpts <= length (nbrs i).

Inductive conn (s : nat) : nat -> Prop :=
| conn_refl : conn s s
| conn_step q q' : conn s q -> core q -> core q' -> In q' (nbrs q) -> conn s q'.

Notation L := (fun (lab : list (option nat)) (p : nat) => nth p lab None).

Lemma find_neighbors_eq lab idx :
  find_neighbors nbrs lab idx =
  (length (nbrs idx), filter (fun i => is_none (nth i lab None) && negb (Nat.eqb i idx)) (nbrs idx)).
Proof. reflexivity. Qed.

Lemma in_res lab idx x :
  In x (snd (find_neighbors nbrs lab idx)) <-> In x (nbrs idx) /\ nth x lab None = None /\ x <> idx.
Proof.
  simpl. rewrite filter_In. split.
  - intros [H1 H2]. apply andb_true_iff in H2 as [H2 H3].
    destruct (nth x lab None); try discriminate. apply negb_true_iff in H3.
    apply Nat.eqb_neq in H3. auto.
  - intros [H1 [H2 H3]]. split; auto. rewrite H2. simpl. apply negb_true_iff, Nat.eqb_neq; auto.
Qed.

Lemma nodup_res lab idx : NoDup (snd (find_neighbors nbrs lab idx)).
Proof. simpl. apply NoDup_filter. apply nb_nodup. Qed.

(** the found-bitmap / queue bookkeeping of push_new *)
Definition FQ (found : list bool) (queue : list nat) : Prop :=
  length found = n /\ NoDup queue /\ (forall x, In x queue -> x < n) /\
  (forall x, nth x found false = true <-> In x queue).

Lemma push_new_fold res : forall q f,
  FQ f q -> (forall x, In x res -> x < n) ->
  let '(q2, f2) := fold_left push_new res (q, f) in
  FQ f2 q2 /\ (forall x, In x q2 <-> In x q \/ In x res).
Proof.
  induction res as [|a res IH]; intros q f HFQ Hr; simpl.
  - split; auto. intros x; tauto.
  - assert (Ha : a < n) by (apply Hr; left; auto).
    assert (Hr' : forall x, In x res -> x < n) by (intros; apply Hr; right; auto).
    destruct HFQ as [Hl [Hnd [Hlt Hiff]]].
    unfold push_new at 2. simpl.
    destruct (nth a f false) eqn:E.
    + specialize (IH q f (conj Hl (conj Hnd (conj Hlt Hiff))) Hr').
      destruct (fold_left push_new res (q, f)) as [q2 f2].
      destruct IH as [I1 I2]. split; auto. intros x. rewrite I2.
      apply Hiff in E. split; [tauto|]. intros [H|[H|H]]; subst; auto.
    + assert (Hna : ~ In a q). { intro C. apply Hiff in C. congruence. }
      assert (HFQ' : FQ (upd f a true) (q ++ [a])).
      { repeat split.
        - rewrite upd_length; auto.
        - apply Permutation_NoDup with (l := a :: q).
          + apply Permutation_cons_append.
          + constructor; auto.
        - intros x Hx. apply in_app_iff in Hx as [Hx|[Hx|[]]]; subst; auto.
        - intros Hx. rewrite nth_upd in Hx. apply in_app_iff.
          destruct (Nat.eqb_spec x a); [right; left; auto|left; apply Hiff; auto].
        - intros Hx. rewrite nth_upd. apply in_app_iff in Hx.
          destruct (Nat.eqb_spec x a) as [->|Hne].
          + rewrite Hl. apply Nat.ltb_lt in Ha. rewrite Ha. auto.
          + destruct Hx as [Hx|[Hx|[]]]; [apply Hiff; auto|congruence]. }
      specialize (IH (q ++ [a]) (upd f a true) HFQ' Hr').
      destruct (fold_left push_new res (q ++ [a], upd f a true)) as [q2 f2].
      destruct IH as [I1 I2]. split; auto. intros x. rewrite I2, in_app_iff. simpl. tauto.
Qed.


Record BInv (s cid : nat) (lab0 lab : list (option nat)) (found : list bool) (queue : list nat) : Prop := {
  b_len : length lab = n;
  b_fq : FQ found queue;
  b_unl : forall x, In x queue -> nth x lab None = None;
  b_lab : forall p, nth p lab None = Some cid ->
          p = s \/ exists q, core q /\ nth q lab None = Some cid /\ conn s q /\ In p (nbrs q);
  b_par : forall x, In x queue ->
          exists q, core q /\ nth q lab None = Some cid /\ conn s q /\ In x (nbrs q);
  b_closed : forall p, core p -> nth p lab None = Some cid ->
             forall x, In x (nbrs p) -> nth x lab None <> None \/ In x queue;
  b_old : forall p l, nth p lab0 None = Some l -> nth p lab None = Some l;
  b_new : forall p l, nth p lab None = Some l -> nth p lab0 None = Some l \/ l = cid;
  b_seed : nth s lab None = Some cid /\ core s /\ s < n
}.

Lemma upd_mono (lab : list (option nat)) c v p w :
  nth c lab None = None -> nth p lab None = Some w -> nth p (upd lab c (Some v)) None = Some w.
Proof.
  intros Hc Hp. rewrite nth_upd_other; auto. intro E; subst; congruence.
Qed.

Lemma upd_inv (lab : list (option nat)) c v p w :
  nth p (upd lab c (Some v)) None = Some w -> (p = c /\ w = v) \/ (p <> c /\ nth p lab None = Some w).
Proof.
  rewrite nth_upd. destruct (Nat.eqb_spec p c) as [->|H].
  - destruct (c <? length lab); intros E; inversion E; auto.
  - auto.
Qed.

Lemma bfs_step_inv s cid lab0 lab found c q :
  BInv s cid lab0 lab found (c :: q) ->
  let found1 := upd found c false in
  let res := snd (find_neighbors nbrs lab c) in
  let lab1 := upd lab c (Some cid) in
  c < n /\ nth c lab None = None /\
  (~ core c -> BInv s cid lab0 lab1 found1 q) /\
  (core c -> let '(q2, found2) := fold_left push_new res (q, found1) in BInv s cid lab0 lab1 found2 q2).
Proof.
  intros [Hlen [Hfl [Hnd [Hlt Hiff]]] Hunl Hlab Hpar Hcl Hold Hnew [Hs1 [Hs2 Hs3]]] found1 res lab1.
  assert (Hc : c < n) by (apply Hlt; left; auto).
  assert (Hcu : nth c lab None = None) by (apply Hunl; left; auto).
  assert (Hcq : ~ In c q) by (inversion Hnd; auto).
  assert (Hndq : NoDup q) by (inversion Hnd; auto).
  assert (Hc1 : nth c lab1 None = Some cid).
  { unfold lab1. rewrite nth_upd_same; auto. lia. }
  assert (Hmono : forall p w, nth p lab None = Some w -> nth p lab1 None = Some w).
  { intros p w Hp. apply upd_mono; auto. }
  assert (Hmono' : forall x, nth x lab None <> None -> nth x lab1 None <> None).
  { intros x Hx. destruct (nth x lab None) eqn:Ex; try congruence. rewrite (Hmono x n0 Ex). discriminate. }
  assert (Hfq1 : FQ found1 q).
  { repeat split; auto.
    - unfold found1. rewrite upd_length; auto.
    - intros x Hx. apply Hlt; right; auto.
    - unfold found1. rewrite nth_upd. destruct (Nat.eqb_spec x c) as [->|Hne].
      + destruct (c <? length found); discriminate.
      + intros Hx. apply Hiff in Hx as [Hx|Hx]; congruence.
    - intros Hx. unfold found1. rewrite nth_upd_other; [apply Hiff; right; auto|].
      intro E; subst; auto. }
  destruct (Hpar c (or_introl eq_refl)) as [q0 [Hq0c [Hq0l [Hq0n Hq0i]]]].
  assert (Hlab1 : forall p, nth p lab1 None = Some cid ->
            p = s \/ exists q', core q' /\ nth q' lab1 None = Some cid /\ conn s q' /\ In p (nbrs q')).
  { intros p Hp. apply upd_inv in Hp as [[-> _]|[Hne Hp]].
    - right. exists q0. repeat split; auto.
    - destruct (Hlab p Hp) as [->|[q' [A [B [C D]]]]]; auto.
      right. exists q'. repeat split; auto. }
  assert (Hold1 : forall p l, nth p lab0 None = Some l -> nth p lab1 None = Some l).
  { intros p l Hp. apply Hmono, Hold; auto. }
  assert (Hnew1 : forall p l, nth p lab1 None = Some l -> nth p lab0 None = Some l \/ l = cid).
  { intros p l Hp. apply upd_inv in Hp as [[-> ->]|[Hne Hp]]; auto. }
  assert (Hseed1 : nth s lab1 None = Some cid /\ core s /\ s < n) by (repeat split; auto).
  assert (Hlen1 : length lab1 = n) by (unfold lab1; rewrite upd_length; auto).
  assert (Hunl1 : forall x, x <> c -> nth x lab None = None -> nth x lab1 None = None).
  { intros x Hx E. unfold lab1. rewrite nth_upd_other; auto. }
  (* closedness for any new queue that keeps q and, when c is core, receives res *)
  assert (Hcl1 : forall q2, (forall x, In x q -> In x q2) -> (core c -> forall x, In x res -> In x q2) ->
            forall p, core p -> nth p lab1 None = Some cid ->
            forall x, In x (nbrs p) -> nth x lab1 None <> None \/ In x q2).
  { intros q2 Hq2 Hres p Hp Hpl x Hx. apply upd_inv in Hpl as [[-> _]|[Hne Hpl]].
    - destruct (nth x lab None) eqn:Ex.
      + left. rewrite (Hmono x n0 Ex). discriminate.
      + destruct (Nat.eq_dec x c) as [->|Hxc]; [left; rewrite Hc1; discriminate|].
        right. apply Hres; auto. apply in_res; auto.
    - destruct (Hcl p Hp Hpl x Hx) as [H|[H|H]]; auto.
      subst x. left. rewrite Hc1. discriminate. }
  split; auto. split; auto. split.
  - intros Hnc. constructor; auto.
    + intros x Hx. apply Hunl1; [intro E; subst; auto|apply Hunl; right; auto].
    + intros x Hx. destruct (Hpar x (or_intror Hx)) as [q' [A [B [C D]]]].
      exists q'. repeat split; auto.
    + apply Hcl1; auto. intros Hcc; contradiction.
  - intros Hcc.
    assert (Hresn : forall x, In x res -> x < n).
    { intros x Hx. apply in_res in Hx as [Hx _]. eapply nb_range; eauto. }
    pose proof (push_new_fold res q found1 Hfq1 Hresn) as PF.
    destruct (fold_left push_new res (q, found1)) as [q2 found2].
    destruct PF as [PF1 PF2].
    constructor; auto.
    + intros x Hx. apply PF2 in Hx as [Hx|Hx].
      * apply Hunl1; [intro E; subst; auto|apply Hunl; right; auto].
      * apply in_res in Hx as [_ [Hx1 Hx2]]. apply Hunl1; auto.
    + intros x Hx. apply PF2 in Hx as [Hx|Hx].
      * destruct (Hpar x (or_intror Hx)) as [q' [A [B [C D]]]].
        exists q'. repeat split; auto.
      * exists c. repeat split; auto.
        -- eapply conn_step; eauto.
        -- apply in_res in Hx; tauto.
    + apply Hcl1; intros; apply PF2; auto.
Qed.

Lemma bfs_inv s cid lab0 : forall fuel lab found queue,
  BInv s cid lab0 lab found queue -> unl lab < fuel ->
  exists lab' found', bfs nbrs minpts fuel cid lab found queue = Some (lab', found') /\
                      BInv s cid lab0 lab' found' [].
Proof.
  induction fuel as [|f IH]; intros lab found queue HB Hf; [lia|].
  destruct queue as [|c q]; simpl.
  - exists lab, found; auto.
  - pose proof (bfs_step_inv s cid lab0 lab found c q HB) as ST. simpl in ST.
    destruct ST as [Hc [Hcu [Hn Hy]]].
    assert (Hf' : unl (upd lab c (Some cid)) < f).
    { pose proof (unl_upd lab c cid). rewrite (b_len _ _ _ _ _ _ HB) in H. specialize (H Hc Hcu). lia. }
    destruct (Nat.leb_spec minpts (length (nbrs c))) as [Hcore|Hncore].
    + specialize (Hy Hcore).
      destruct (fold_left push_new _ (q, upd found c false)) as [q2 found2].
      apply IH; auto.
    + apply IH; auto. apply Hn. unfold core. lia.
Qed.

Record GInv (lab : list (option nat)) (cid : nat) : Prop := {
  g_len : length lab = n;
  g_lt : forall p l, nth p lab None = Some l -> l < cid;
  g_cl : forall l, l < cid -> exists s, s < n /\ core s /\ nth s lab None = Some l /\
           forall p, nth p lab None = Some l ->
             p = s \/ exists q, core q /\ nth q lab None = Some l /\ conn s q /\ In p (nbrs q);
  g_closed : forall p, core p -> nth p lab None <> None ->
             forall x, In x (nbrs p) -> nth x lab None <> None;
  g_same : forall p q a b, core p -> core q -> In q (nbrs p) ->
             nth p lab None = Some a -> nth q lab None = Some b -> a = b
}.

Definition AllFalse (found : list bool) : Prop := forall x, nth x found false = false.

Lemma set_true_fold res : forall f, length f = n -> (forall x, In x res -> x < n) ->
  length (fold_left (fun f x => upd f x true) res f) = n /\
  forall x, nth x (fold_left (fun f x => upd f x true) res f) false = true <->
            nth x f false = true \/ In x res.
Proof.
  induction res as [|a res IH]; intros f Hl Hr; simpl.
  - split; auto. intros; tauto.
  - destruct (IH (upd f a true)) as [I1 I2].
    + rewrite upd_length; auto.
    + intros; apply Hr; right; auto.
    + split; auto. intros x. rewrite I2, nth_upd.
      assert (Ha : a < n) by (apply Hr; left; auto).
      destruct (Nat.eqb_spec x a) as [->|Hne].
      * rewrite Hl. apply Nat.ltb_lt in Ha. rewrite Ha. tauto.
      * split; [tauto|]. intros [H|[H|H]]; auto; congruence.
Qed.

Lemma start_binv lab0 cid found i :
  GInv lab0 cid -> AllFalse found -> length found = n -> i < n ->
  nth i lab0 None = None -> core i ->
  let res := snd (find_neighbors nbrs lab0 i) in
  BInv i cid lab0 (upd lab0 i (Some cid)) (fold_left (fun f x => upd f x true) res found) res.
Proof.
  intros [Gl Glt Gcl Gclosed Gsame] Haf Hfl Hi Hiu Hic res.
  assert (Hresn : forall x, In x res -> x < n).
  { intros x Hx. apply in_res in Hx as [Hx _]. eapply nb_range; eauto. }
  destruct (set_true_fold res found Hfl Hresn) as [F1 F2].
  assert (Hi1 : nth i (upd lab0 i (Some cid)) None = Some cid).
  { rewrite nth_upd_same; auto. lia. }
  assert (Hnocid : forall p, nth p lab0 None = Some cid -> False).
  { intros p Hp. apply Glt in Hp. lia. }
  constructor.
  - rewrite upd_length; auto.
  - repeat split; auto.
    + apply nodup_res.
    + intros Hx. apply F2 in Hx as [Hx|Hx]; auto. rewrite Haf in Hx. discriminate.
    + intros Hx. apply F2; auto.
  - intros x Hx. apply in_res in Hx as [_ [Hx1 Hx2]]. rewrite nth_upd_other; auto.
  - intros p Hp. apply upd_inv in Hp as [[-> _]|[_ Hp]]; auto. exfalso; eauto.
  - intros x Hx. exists i. repeat split; auto.
    + constructor.
    + apply in_res in Hx; tauto.
  - intros p Hp Hpl x Hx. apply upd_inv in Hpl as [[-> _]|[_ Hpl]]; [|exfalso; eauto].
    destruct (nth x lab0 None) eqn:Ex.
    + left. rewrite (upd_mono lab0 i cid x n0 Hiu Ex). discriminate.
    + destruct (Nat.eq_dec x i) as [->|Hxi]; [left; rewrite Hi1; discriminate|].
      right. apply in_res; auto.
  - intros p l Hp. apply upd_mono; auto.
  - intros p l Hp. apply upd_inv in Hp as [[-> ->]|[_ Hp]]; auto.
  - auto.
Qed.

Lemma finish_ginv lab0 cid s lab found :
  GInv lab0 cid -> BInv s cid lab0 lab found [] ->
  GInv lab (S cid) /\ AllFalse found /\ length found = n.
Proof.
  intros [Gl Glt Gcl Gclosed Gsame] [Hlen [Hfl [Hnd [Hlt Hiff]]] Hunl Hlab Hpar Hcl Hold Hnew [Hs1 [Hs2 Hs3]]].
  split; [|split; auto].
  - constructor; auto.
    + intros p l Hp. destruct (Hnew p l Hp) as [H|H]; [apply Glt in H|]; lia.
    + intros l Hl. destruct (Nat.eq_dec l cid) as [->|Hne].
      * exists s. repeat split; auto.
      * assert (Hl' : l < cid) by lia. destruct (Gcl l Hl') as [s0 [A [B [C D]]]].
        exists s0. repeat split; auto. intros p Hp.
        destruct (Hnew p l Hp) as [H|H]; [|congruence].
        destruct (D p H) as [->|[q [Q1 [Q2 [Q3 Q4]]]]]; auto.
        right. exists q. repeat split; auto.
    + intros p Hp Hpl x Hx. destruct (nth p lab None) as [l|] eqn:El; [|congruence].
      destruct (Hnew p l El) as [H|H].
      * assert (Hx0 : nth x lab0 None <> None) by (apply (Gclosed p); auto; congruence).
        destruct (nth x lab0 None) eqn:Ex; [|congruence]. rewrite (Hold x n0 Ex). discriminate.
      * subst l. destruct (Hcl p Hp El x Hx) as [H|[]]; auto.
    + intros p q a b Hp Hq Hpq Ha Hb.
      destruct (Hnew p a Ha) as [Ha0|Ha0]; destruct (Hnew q b Hb) as [Hb0|Hb0].
      * apply (Gsame p q a b); auto.
      * (* p old: its neighbour q was labelled before *)
        assert (Hq0 : nth q lab0 None <> None).
        { apply (Gclosed p Hp); [rewrite Ha0; discriminate|auto]. }
        destruct (nth q lab0 None) as [b'|] eqn:Eq; [|congruence].
        pose proof (Hold q b' Eq) as E. rewrite Hb in E. inversion E; subst b'.
        apply (Gsame p q a b); auto.
      * assert (Hp0 : nth p lab0 None <> None).
        { apply (Gclosed q Hq); [rewrite Hb0; discriminate|apply nb_sym; auto]. }
        destruct (nth p lab0 None) as [a'|] eqn:Ep; [|congruence].
        pose proof (Hold p a' Ep) as E. rewrite Ha in E. inversion E; subst a'.
        apply (Gsame p q a b); auto.
      * congruence.
  - intros x. destruct (nth x found false) eqn:E; auto. apply Hiff in E. destruct E.
Qed.

Definition DInv (st : dstate) : Prop :=
  GInv (d_lab st) (d_cid st) /\ AllFalse (d_found st) /\ length (d_found st) = n.

Lemma dscan_cons i rest st :
  dscan nbrs minpts (i :: rest) st =
  if is_none (nth i (d_lab st) None) then
    let res := snd (find_neighbors nbrs (d_lab st) i) in
    if length (nbrs i) <? minpts then dscan nbrs minpts rest st
    else
      let lab1 := upd (d_lab st) i (Some (d_cid st)) in
      match bfs nbrs minpts (S (length lab1)) (d_cid st) lab1
                (fold_left (fun f x => upd f x true) res (d_found st)) res with
      | None => None
      | Some (lab2, found2) =>
          dscan nbrs minpts rest {| d_lab := lab2; d_found := found2; d_cid := S (d_cid st) |}
      end
  else dscan nbrs minpts rest st.
Proof. reflexivity. Qed.

Lemma dscan_inv : forall is st,
  (forall x, In x is -> x < n) -> DInv st ->
  exists st', dscan nbrs minpts is st = Some st' /\ DInv st' /\
    (forall p l, nth p (d_lab st) None = Some l -> nth p (d_lab st') None = Some l) /\
    (forall p, In p is -> core p -> nth p (d_lab st') None <> None).
Proof.
  induction is as [|i rest IH]; intros st Hr [HG [Haf Hfl]]; [simpl|rewrite dscan_cons].
  - exists st. split; [reflexivity|]. split; [exact (conj HG (conj Haf Hfl))|]. split; [auto|intros p []].
  - assert (Hi : i < n) by (apply Hr; left; auto).
    assert (Hr' : forall x, In x rest -> x < n) by (intros; apply Hr; right; auto).
    destruct (nth i (d_lab st) None) as [l|] eqn:El; cbn [is_none].
    + destruct (IH st Hr' (conj HG (conj Haf Hfl))) as [st' [E [D [M V]]]].
      exists st'. split; [auto|]. split; [auto|]. split; [auto|]. intros p [<-|Hp] Hc; auto.
      rewrite (M i l El). discriminate.
    + destruct (Nat.ltb_spec (length (nbrs i)) minpts) as [Hnc|Hc].
      * destruct (IH st Hr' (conj HG (conj Haf Hfl))) as [st' [E [D [M V]]]].
        exists st'. split; [auto|]. split; [auto|]. split; [auto|]. intros p [<-|Hp] Hc; auto. unfold core in Hc. lia.
      * pose proof (start_binv (d_lab st) (d_cid st) (d_found st) i HG Haf Hfl Hi El Hc) as HB.
        cbv zeta.
        destruct (bfs_inv i (d_cid st) (d_lab st) (S (length (upd (d_lab st) i (Some (d_cid st)))))
                    _ _ _ HB) as [lab' [found' [Eb HB']]].
        { pose proof (unl_le (upd (d_lab st) i (Some (d_cid st)))). lia. }
        rewrite Eb.
        destruct (finish_ginv _ _ _ _ _ HG HB') as [G' [Af' Fl']].
        destruct (IH {| d_lab := lab'; d_found := found'; d_cid := S (d_cid st) |} Hr')
          as [st' [E [D [M V]]]].
        { exact (conj G' (conj Af' Fl')). }
        exists st'. split; [auto|]. split; [auto|]. split.
        -- intros p l Hp. apply M. simpl. eapply b_old; eauto.
        -- intros p [<-|Hp] Hcp; auto.
           destruct (b_seed _ _ _ _ _ _ HB') as [S1 _]. simpl in M. rewrite (M i _ S1). discriminate.
Qed.

Definition Reach (s p : nat) : Prop := p = s \/ exists q, core q /\ conn s q /\ In p (nbrs q).

(** closed form of one cluster growth: exactly the unlabelled points reachable from the seed get the new id *)
Lemma bfs_result lab0 cid s lab found :
  GInv lab0 cid -> BInv s cid lab0 lab found [] ->
  forall p l, nth p lab None = Some l <->
              nth p lab0 None = Some l \/ (l = cid /\ nth p lab0 None = None /\ Reach s p).
Proof.
  intros [Gl Glt Gcl Gclosed Gsame] [Hlen _ Hunl Hlab Hpar Hcl Hold Hnew [Hs1 [Hs2 Hs3]]].
  assert (A : forall q, conn s q -> nth q lab None <> None).
  { intros q C. induction C as [|q q' C IH Hq Hq' Hin]; [rewrite Hs1; discriminate|].
    destruct (nth q lab None) as [lq|] eqn:Eq; [|congruence].
    destruct (Hnew q lq Eq) as [H|H].
    - assert (H' : nth q' lab0 None <> None) by (apply (Gclosed q Hq); [rewrite H; discriminate|auto]).
      destruct (nth q' lab0 None) as [l'|] eqn:E'; [|congruence]. rewrite (Hold q' l' E'). discriminate.
    - subst lq. destruct (Hcl q Hq Eq q' Hin) as [H|[]]; auto. }
  intros p l. split.
  - intros Hp. destruct (Hnew p l Hp) as [H|H]; auto. subst l.
    destruct (nth p lab0 None) as [l'|] eqn:E0.
    + left. pose proof (Hold p l' E0) as E. rewrite Hp in E. auto.
    + right. repeat split; auto. destruct (Hlab p Hp) as [->|[q [Q1 [Q2 [Q3 Q4]]]]]; [left; auto|].
      right. exists q; auto.
  - intros [H|[-> [H0 R]]]; auto.
    destruct R as [->|[q [Q1 [Q2 Q3]]]]; auto.
    pose proof (A q Q2) as Lq. destruct (nth q lab None) as [lq|] eqn:Eq; [|congruence].
    destruct (Hnew q lq Eq) as [H|H].
    + exfalso. apply (Gclosed q Q1) with (x := p); auto. rewrite H. discriminate.
    + subst lq. destruct (Hcl q Q1 Eq p Q3) as [H|[]].
      destruct (nth p lab None) as [lp|] eqn:Ep; [|congruence].
      destruct (Hnew p lp Ep) as [H'|H']; congruence.
Qed.


Lemma ginv_init : GInv (repeat None n) 0.
Proof.
  constructor.
  - apply repeat_length.
  - intros p l H. rewrite nth_repeat_none in H. discriminate.
  - intros l H. lia.
  - intros p _ H. rewrite nth_repeat_none in H. congruence.
  - intros p q a b _ _ _ H. rewrite nth_repeat_none in H. discriminate.
Qed.

(** the scan terminates within its fuel and ends in a state satisfying the invariant *)
Lemma dbscan_final :
  exists lab cid, dbscan nbrs minpts n = Some lab /\ GInv lab cid /\
                  (forall p, p < n -> core p -> nth p lab None <> None).
Proof.
  unfold dbscan.
  destruct (dscan_inv (seq 0 n) {| d_lab := repeat None n; d_found := repeat false n; d_cid := 0 |})
    as [st' [E [[G _] [_ V]]]].
  - intros x Hx. apply in_seq in Hx. lia.
  - split; [exact ginv_init|]. split; [intros x; apply nth_repeat_false|apply repeat_length].
  - rewrite E. exists (d_lab st'), (d_cid st'). split; [reflexivity|]. split; [exact G|].
    intros p Hp. apply V. apply in_seq. lia.
Qed.

Lemma conn_trans a b c : conn a b -> conn b c -> conn a c.
Proof. intros H1 H2. induction H2; auto. eapply conn_step; eauto. Qed.

Lemma conn_sym a b : conn a b -> conn b a.
Proof.
  intros H. induction H as [|q q' H IH Hq Hq' Hin]; [constructor|].
  apply conn_trans with (b := q); auto.
  apply (conn_step q' q' q); auto. constructor.
Qed.

Lemma conn_lt a b : a < n -> conn a b -> b < n.
Proof. intros Ha H. induction H; auto. eapply nb_range; eauto. Qed.

Section Final.
Variable lab : list (option nat).
Hypothesis Hrun : dbscan nbrs minpts n = Some lab.

Lemma final_inv : exists cid, GInv lab cid /\ (forall p, p < n -> core p -> nth p lab None <> None).
Proof.
  destruct dbscan_final as [lab' [cid [E [G V]]]]. rewrite Hrun in E. inversion E; subst lab'.
  exists cid; auto.
Qed.

Lemma db_length : length lab = n.
Proof. destruct final_inv as [cid [G _]]. apply (g_len _ _ G). Qed.

Lemma db_dense : exists c, (forall i l, nth i lab None = Some l -> l < c) /\
                           (forall l, l < c -> exists i, i < n /\ nth i lab None = Some l).
Proof.
  destruct final_inv as [cid [G _]]. exists cid. split.
  - apply (g_lt _ _ G).
  - intros l Hl. destruct (g_cl _ _ G l Hl) as [s [A [_ [B _]]]]. exists s; auto.
Qed.

Lemma db_core_labelled i : i < n -> core i -> nth i lab None <> None.
Proof. destruct final_inv as [cid [_ V]]. apply V. Qed.

Lemma db_core_same i j : core i -> core j -> In j (nbrs i) -> nth i lab None = nth j lab None.
Proof.
  intros Hi Hj Hij. destruct final_inv as [cid [G V]].
  assert (Hjn : j < n) by (eapply nb_range; eauto).
  assert (Hin : i < n) by (apply nb_sym in Hij; eapply nb_range; eauto).
  pose proof (V i Hin Hi) as Li. pose proof (V j Hjn Hj) as Lj.
  destruct (nth i lab None) as [a|] eqn:Ea; [|congruence].
  destruct (nth j lab None) as [b|] eqn:Eb; [|congruence].
  f_equal. apply (g_same _ _ G i j a b); auto.
Qed.

Lemma db_border i l : nth i lab None = Some l -> ~ core i ->
  exists j, core j /\ In i (nbrs j) /\ nth j lab None = Some l.
Proof.
  intros Hl Hnc. destruct final_inv as [cid [G _]].
  destruct (g_cl _ _ G l (g_lt _ _ G i l Hl)) as [s [_ [Hs [_ D]]]].
  destruct (D i Hl) as [->|[q [Q1 [Q2 [_ Q4]]]]]; [contradiction|].
  exists q; auto.
Qed.

Lemma db_noise_iff i : i < n ->
  (nth i lab None = None <-> ~ core i /\ forall j, In i (nbrs j) -> ~ core j).
Proof.
  intros Hi. destruct final_inv as [cid [G V]]. split.
  - intros Hn. split.
    + intros Hc. apply (V i Hi Hc); auto.
    + intros j Hij Hc.
      assert (Hjn : j < n) by (apply nb_sym in Hij; eapply nb_range; eauto).
      apply (g_closed _ _ G j Hc (V j Hjn Hc) i Hij); auto.
  - intros [Hnc Hno]. destruct (nth i lab None) as [l|] eqn:El; auto. exfalso.
    destruct (db_border i l El Hnc) as [j [A [B _]]]. apply (Hno j B A).
Qed.

(** all core points of a cluster are chained to its seed; hence same label <-> density-connected *)
Lemma db_components i j : i < n -> core i -> core j ->
  (nth i lab None = nth j lab None <-> conn i j).
Proof.
  intros Hin Hi Hj. destruct final_inv as [cid [G V]]. split.
  - intros E. pose proof (V i Hin Hi) as Li.
    destruct (nth i lab None) as [l|] eqn:El; [|congruence]. symmetry in E.
    destruct (g_cl _ _ G l (g_lt _ _ G i l El)) as [s [_ [Hs [_ D]]]].
    assert (C : forall p, core p -> nth p lab None = Some l -> conn s p).
    { intros p Hp Hpl. destruct (D p Hpl) as [->|[q [Q1 [Q2 [Q3 Q4]]]]]; [constructor|].
      eapply conn_step; eauto. }
    apply conn_trans with (b := s); [apply conn_sym|]; auto.
  - intros C. induction C as [|q q' C IH Hq Hq' Hqq']; auto.
    rewrite IH; auto. apply db_core_same; auto.
Qed.
End Final.
End DbscanProofs.

(** * Independence of the neighbour order: the labelling is a function of the neighbour *sets* *)
Section DbscanIndep.
Variables nbrs nbrs' : nat -> list nat.
Variable minpts n : nat.
Hypothesis nb_range : forall i j, In j (nbrs i) -> j < n.
Hypothesis nb_sym : forall i j, In j (nbrs i) -> In i (nbrs j).
Hypothesis nb_nodup : forall i, NoDup (nbrs i).
Hypothesis nb_perm : forall i, Permutation (nbrs i) (nbrs' i).

Lemma in_perm i j : In j (nbrs i) <-> In j (nbrs' i).
Proof.
  split; intros H.
  - exact (Permutation_in j (nb_perm i) H).
  - exact (Permutation_in j (Permutation_sym (nb_perm i)) H).
Qed.
Lemma nb_range' : forall i j, In j (nbrs' i) -> j < n.
Proof. intros i j H. apply (nb_range i). apply in_perm; auto. Qed.
Lemma nb_sym' : forall i j, In j (nbrs' i) -> In i (nbrs' j).
Proof. intros i j H. apply in_perm, nb_sym, in_perm; auto. Qed.
Lemma nb_nodup' : forall i, NoDup (nbrs' i).
Proof. intros i. eapply Permutation_NoDup; [apply nb_perm|apply nb_nodup]. Qed.
Lemma core_perm i : core nbrs minpts i <-> core nbrs' minpts i.
Proof. unfold core. rewrite (Permutation_length (nb_perm i)). tauto. Qed.
Lemma conn_perm s q : conn nbrs minpts s q <-> conn nbrs' minpts s q.
Proof.
  split; intros H; induction H; try constructor.
  - eapply conn_step; eauto; try apply core_perm; auto. apply in_perm; auto.
  - eapply conn_step; eauto; try apply core_perm; auto. apply in_perm; auto.
Qed.
Lemma reach_perm s p : Reach nbrs minpts s p <-> Reach nbrs' minpts s p.
Proof.
  unfold Reach. split; intros [H|[q [A [B C]]]]; auto; right; exists q.
  - repeat split; [apply core_perm|apply conn_perm|apply in_perm]; auto.
  - repeat split; [apply core_perm|apply conn_perm|apply in_perm]; auto.
Qed.

Lemma dscan_lockstep : forall is st st',
  (forall x, In x is -> x < n) ->
  DInv nbrs minpts n st -> DInv nbrs' minpts n st' ->
  d_lab st = d_lab st' -> d_cid st = d_cid st' ->
  exists st1 st1', dscan nbrs minpts is st = Some st1 /\ dscan nbrs' minpts is st' = Some st1' /\
                   d_lab st1 = d_lab st1'.
Proof.
  induction is as [|i rest IH]; intros st st' Hr D D' El Ec.
  - exists st, st'. simpl. auto.
  - assert (Hi : i < n) by (apply Hr; left; auto).
    assert (Hr' : forall x, In x rest -> x < n) by (intros; apply Hr; right; auto).
    rewrite !dscan_cons. rewrite <- El, <- Ec.
    destruct (nth i (d_lab st) None) as [l|] eqn:Ei; cbn [is_none]; [apply IH; auto|].
    rewrite <- (Permutation_length (nb_perm i)).
    destruct (Nat.ltb_spec (length (nbrs i)) minpts) as [Hnc|Hc]; [apply IH; auto|].
    cbv zeta.
    destruct D as [HG [Haf Hfl]]. destruct D' as [HG' [Haf' Hfl']].
    (* left run *)
    pose proof (start_binv nbrs minpts n nb_range nb_nodup (d_lab st) (d_cid st) (d_found st) i
                  HG Haf Hfl Hi Ei Hc) as HB. cbv zeta in HB.
    destruct (bfs_inv nbrs minpts n nb_range i (d_cid st) (d_lab st)
                (S (length (upd (d_lab st) i (Some (d_cid st))))) _ _ _ HB) as [lab2 [found2 [Eb HB2]]].
    { pose proof (unl_le (upd (d_lab st) i (Some (d_cid st)))). lia. }
    rewrite Eb.
    destruct (finish_ginv nbrs minpts n nb_sym _ _ _ _ _ HG HB2) as [G2 [Af2 Fl2]].
    (* right run *)
    assert (Ei' : nth i (d_lab st') None = None) by (rewrite <- El; auto).
    assert (Hc' : core nbrs' minpts i) by (apply core_perm; auto).
    pose proof (start_binv nbrs' minpts n nb_range' nb_nodup' (d_lab st') (d_cid st') (d_found st') i
                  HG' Haf' Hfl' Hi Ei' Hc') as HB'. cbv zeta in HB'.
    destruct (bfs_inv nbrs' minpts n nb_range' i (d_cid st') (d_lab st')
                (S (length (upd (d_lab st') i (Some (d_cid st'))))) _ _ _ HB') as [lab2' [found2' [Eb' HB2']]].
    { pose proof (unl_le (upd (d_lab st') i (Some (d_cid st')))). lia. }
    rewrite <- El, <- Ec in Eb'. rewrite Eb'.
    destruct (finish_ginv nbrs' minpts n nb_sym' _ _ _ _ _ HG' HB2') as [G2' [Af2' Fl2']].
    assert (E2 : lab2 = lab2').
    { apply nth_ext with (d := None) (d' := None).
      - rewrite (b_len _ _ _ _ _ _ _ _ _ HB2), (b_len _ _ _ _ _ _ _ _ _ HB2'); auto.
      - intros p _.
        pose proof (bfs_result nbrs minpts n _ _ _ _ _ HG HB2 p) as R.
        pose proof (bfs_result nbrs' minpts n _ _ _ _ _ HG' HB2' p) as R'.
        rewrite <- El, <- Ec in R'.
        assert (Q : forall l, nth p lab2 None = Some l <-> nth p lab2' None = Some l).
        { intros l. rewrite R, R'. rewrite (reach_perm i p). tauto. }
        destruct (nth p lab2 None) as [a|] eqn:Ea.
        + symmetry. apply Q; auto.
        + destruct (nth p lab2' None) as [b|] eqn:Eb2; auto.
          pose proof (proj2 (Q b) eq_refl). discriminate. }
    apply IH; auto.
    + exact (conj G2 (conj Af2 Fl2)).
    + rewrite Ec. exact (conj G2' (conj Af2' Fl2')).
Qed.

Theorem dbscan_order_independent : dbscan nbrs minpts n = dbscan nbrs' minpts n.
Proof.
  unfold dbscan.
  destruct (dscan_lockstep (seq 0 n)
              {| d_lab := repeat None n; d_found := repeat false n; d_cid := 0 |}
              {| d_lab := repeat None n; d_found := repeat false n; d_cid := 0 |})
    as [st1 [st1' [E [E' EL]]]]; auto.
  - intros x Hx. apply in_seq in Hx. lia.
  - split; [apply ginv_init|]. split; [intros x; apply nth_repeat_false|apply repeat_length].
  - split; [apply ginv_init|]. split; [intros x; apply nth_repeat_false|apply repeat_length].
  - rewrite E, E', EL. auto.
Qed.
End DbscanIndep.

(** * OPTICS *)
Section OpticsProofs.
Context {F : Type} (o : NumOps F).
Variable nbrs : nat -> list nat.
Variable d : nat -> nat -> F.
Variable minpts n : nat.
Hypothesis nb_range : forall i j, In j (nbrs i) -> j < n.

Notation sorted := (sorted_nbrs o nbrs d).
Definition cd (i : nat) : option F := core_dist d minpts i (sorted i).

(** ** sorting facts *)
Lemma insert_by_perm key x l : Permutation (insert_by o key x l) (x :: l).
Proof.
  induction l as [|y t IH]; simpl; auto.
  destruct (ltb o (key y) (key x)); auto.
  eapply perm_trans; [apply perm_skip, IH|apply perm_swap].
Qed.
Lemma isort_perm key l : Permutation (isort o key l) l.
Proof.
  induction l as [|x t IH]; simpl; auto.
  eapply perm_trans; [apply insert_by_perm|apply perm_skip, IH].
Qed.
Lemma sorted_in i x : In x (sorted i) <-> In x (nbrs i).
Proof.
  unfold sorted_nbrs. split; intros H.
  - eapply Permutation_in; [apply isort_perm|exact H].
  - eapply Permutation_in; [apply Permutation_sym, isort_perm|exact H].
Qed.

Lemma insert_desc_perm x l : Permutation (insert_desc x l) (x :: l).
Proof.
  induction l as [|y t IH]; simpl; auto.
  destruct (y <? x); auto.
  eapply perm_trans; [apply perm_skip, IH|apply perm_swap].
Qed.
Lemma sort_desc_perm l : Permutation (sort_desc l) l.
Proof.
  induction l as [|x t IH]; simpl; auto.
  eapply perm_trans; [apply insert_desc_perm|apply perm_skip, IH].
Qed.

Lemma pick_min_in reach l : forall best, pick_min o reach best l = best \/ In (pick_min o reach best l) l.
Proof.
  induction l as [|x t IH]; intros best; simpl; auto.
  destruct (olt o (nth x reach None) (nth best reach None)).
  - destruct (IH x) as [H|H]; [rewrite H|]; auto.
  - destruct (IH best) as [H|H]; auto.
Qed.

Lemma remove_first_in x l y : NoDup l -> (In y (remove_first x l) <-> In y l /\ y <> x).
Proof.
  induction l as [|a t IH]; intros Hnd; simpl; [tauto|].
  inversion Hnd as [|? ? Ha Ht]; subst.
  destruct (Nat.eqb_spec x a) as [->|Hne].
  - split; [intros H; split; auto; intro E; subst; auto|intros [[H|H] H2]; congruence].
  - simpl. rewrite IH; auto. split; [intros [H|[H H2]]; subst; auto|intros [[H|H] H2]; auto].
Qed.
Lemma remove_first_nodup x l : NoDup l -> NoDup (remove_first x l).
Proof.
  induction l as [|a t IH]; intros Hnd; simpl; auto.
  inversion Hnd as [|? ? Ha Ht]; subst.
  destruct (Nat.eqb_spec x a); auto. constructor; auto.
  intro H. apply remove_first_in in H; tauto.
Qed.

(** ** get_seeds *)
Lemma upd_keeps_some (reach : list (option F)) a v x :
  x < length reach -> nth x reach None <> None \/ x = a ->
  nth x (upd reach a (Some v)) None <> None.
Proof.
  intros Hx H. rewrite nth_upd. destruct (Nat.eqb_spec x a) as [->|Hne].
  - apply Nat.ltb_lt in Hx. rewrite Hx. discriminate.
  - destruct H; auto.
Qed.

Definition seeds_ok (proc : list bool) (reach : list (option F)) (seeds : list nat) : Prop :=
  NoDup seeds /\ forall x, In x seeds -> x < n /\ nth x proc false = false /\ nth x reach None <> None.

Lemma get_seeds_spec sidx c nb proc : forall reach seeds,
  length reach = n -> (forall x, In x nb -> x < n) -> seeds_ok proc reach seeds ->
  let '(reach2, seeds2) := get_seeds o d sidx c nb proc reach seeds in
  length reach2 = n /\ seeds_ok proc reach2 seeds2 /\
  (forall x, nth x reach None <> None -> nth x reach2 None <> None) /\
  (forall x r, nth x reach2 None = Some r ->
      nth x reach None = Some r \/ (In x nb /\ r = fmax o c (d x sidx))).
Proof.
  unfold get_seeds.
  assert (G : forall l reach seeds,
    length reach = n -> (forall x, In x l -> x < n /\ nth x proc false = false /\ In x nb) ->
    seeds_ok proc reach seeds ->
    let '(reach2, seeds2) := fold_left (seed_step o d sidx c) l (reach, seeds) in
    length reach2 = n /\ seeds_ok proc reach2 seeds2 /\
    (forall x, nth x reach None <> None -> nth x reach2 None <> None) /\
    (forall x r, nth x reach2 None = Some r ->
        nth x reach None = Some r \/ (In x nb /\ r = fmax o c (d x sidx)))).
  { induction l as [|a l IH]; intros reach seeds Hl Hin [Hnd Hs]; simpl.
    - split; [auto|]. split; [split; auto|]. split; auto.
    - assert (Ha : a < n /\ nth a proc false = false /\ In a nb) by (apply Hin; left; auto).
      destruct Ha as [Ha1 [Ha2 Ha3]].
      assert (Hin' : forall x, In x l -> x < n /\ nth x proc false = false /\ In x nb)
        by (intros; apply Hin; right; auto).
      unfold seed_step at 2. simpl.
      destruct (nth a reach None) as [s|] eqn:Ea.
      + destruct (ltb o (fmax o c (d a sidx)) s) eqn:El.
        * specialize (IH (upd reach a (Some (fmax o c (d a sidx)))) seeds).
          destruct (fold_left _ l (upd reach a (Some (fmax o c (d a sidx))), seeds)) as [reach2 seeds2].
          destruct IH as [I1 [I2 [I3 I4]]]; auto.
          { rewrite upd_length; auto. }
          { split; auto. intros x Hx. destruct (Hs x Hx) as [A [B C]]. repeat split; auto.
            apply upd_keeps_some; auto. lia. }
          split; [exact I1|]. split; [exact I2|]. split.
          -- intros x Hx. apply I3. rewrite nth_upd. destruct (Nat.eqb_spec x a); auto.
             rewrite Hl. subst x. apply Nat.ltb_lt in Ha1. rewrite Ha1. discriminate.
          -- intros x r Hx. destruct (I4 x r Hx) as [H|H]; auto.
             rewrite nth_upd in H. destruct (Nat.eqb_spec x a) as [->|]; auto.
             rewrite Hl in H. apply Nat.ltb_lt in Ha1. rewrite Ha1 in H. inversion H. auto.
        * apply IH; auto. split; auto.
      + specialize (IH (upd reach a (Some (fmax o c (d a sidx)))) (seeds ++ [a])).
        destruct (fold_left _ l (upd reach a (Some (fmax o c (d a sidx))), seeds ++ [a])) as [reach2 seeds2].
        destruct IH as [I1 [I2 [I3 I4]]]; auto.
        { rewrite upd_length; auto. }
        { split.
          - apply Permutation_NoDup with (l := a :: seeds); [apply Permutation_cons_append|].
            constructor; auto. intro C. apply Hs in C. tauto.
          - intros x Hx. apply in_app_iff in Hx as [Hx|[<-|[]]].
            + destruct (Hs x Hx) as [A [B C]]. repeat split; auto.
              apply upd_keeps_some; auto. lia.
            + repeat split; auto. rewrite nth_upd_same; [discriminate|lia]. }
        split; [exact I1|]. split; [exact I2|]. split.
        -- intros x Hx. apply I3. rewrite nth_upd. destruct (Nat.eqb_spec x a); auto.
           subst x. congruence.
        -- intros x r Hx. destruct (I4 x r Hx) as [H|H]; auto.
           rewrite nth_upd in H. destruct (Nat.eqb_spec x a) as [->|]; auto.
           rewrite Hl in H. apply Nat.ltb_lt in Ha1. rewrite Ha1 in H. inversion H. auto. }
  intros reach seeds Hl Hnb Hs. apply G; auto.
  intros x Hx. apply filter_In in Hx as [Hx1 Hx2]. apply negb_true_iff in Hx2. auto.
Qed.

Ltac split4 := split; [|split; [|split]].

(** ** the invariant of the OPTICS walk *)
Definition idxs (out : list (sample F)) : list nat := map s_index out.

Definition sample_ok (prefix : list (sample F)) (s : sample F) : Prop :=
  s_index s < n /\ s_core s = cd (s_index s) /\
  (s_reach s = None \/
   exists ob c, In ob (idxs prefix) /\ cd ob = Some c /\ In (s_index s) (nbrs ob) /\
                s_reach s = Some (fmax o c (d (s_index s) ob))).

Inductive good_out : list (sample F) -> Prop :=
| good_nil : good_out []
| good_snoc out s : good_out out -> sample_ok out s -> good_out (out ++ [s]).

Record OInv (st : ostate) : Prop := {
  oi_len : length (o_reach st) = n /\ length (o_proc st) = n;
  oi_proc : forall x, nth x (o_proc st) false = true <-> In x (idxs (o_out st));
  oi_nodup : NoDup (idxs (o_out st));
  oi_seeds : seeds_ok (o_proc st) (o_reach st) (o_seeds st);
  oi_reach : forall x r, nth x (o_reach st) None = Some r ->
       exists ob c, In ob (idxs (o_out st)) /\ cd ob = Some c /\ In x (nbrs ob) /\
                    r = fmax o c (d x ob);
  oi_out : good_out (o_out st)
}.

Lemma idxs_snoc out s : idxs (out ++ [s]) = idxs out ++ [s_index s].
Proof. unfold idxs. rewrite map_app. reflexivity. Qed.

Lemma emit_inv st x seeds1 :
  OInv st -> x < n -> nth x (o_proc st) false = false ->
  let proc1 := upd (o_proc st) x true in
  let out1 := o_out st ++ [mkSample x (cd x) (nth x (o_reach st) None)] in
  seeds_ok proc1 (o_reach st) seeds1 ->
  OInv {| o_reach := o_reach st; o_proc := proc1; o_seeds := seeds1; o_out := out1 |} /\
  (forall c, cd x = Some c ->
     let '(reach2, seeds2) := get_seeds o d x c (sorted x) proc1 (o_reach st) seeds1 in
     OInv {| o_reach := reach2; o_proc := proc1; o_seeds := seeds2; o_out := out1 |}).
Proof.
  intros [[Hl1 Hl2] Hproc Hnd Hseeds Hreach Hout] Hx Hxu proc1 out1 Hs1.
  assert (Hidx : idxs out1 = idxs (o_out st) ++ [x]) by (unfold out1; rewrite idxs_snoc; auto).
  assert (Hproc1 : forall y, nth y proc1 false = true <-> In y (idxs out1)).
  { intros y. rewrite Hidx, in_app_iff. unfold proc1. rewrite nth_upd.
    destruct (Nat.eqb_spec y x) as [->|Hne].
    - rewrite Hl2. apply Nat.ltb_lt in Hx. rewrite Hx. simpl. tauto.
    - rewrite Hproc. simpl. split; [tauto|]. intros [H|[H|[]]]; auto. congruence. }
  assert (Hnd1 : NoDup (idxs out1)).
  { rewrite Hidx. apply Permutation_NoDup with (l := x :: idxs (o_out st)).
    - apply Permutation_cons_append.
    - constructor; auto. intro C. apply Hproc in C. congruence. }
  assert (Hgood : good_out out1).
  { unfold out1. constructor; auto. unfold sample_ok. simpl. repeat split; auto.
    destruct (nth x (o_reach st) None) as [r|] eqn:Er; auto. right.
    destruct (Hreach x r Er) as [ob [c [A [B [C D]]]]]. exists ob, c. subst r. auto. }
  assert (Hreach1 : forall y r, nth y (o_reach st) None = Some r ->
       exists ob c, In ob (idxs out1) /\ cd ob = Some c /\ In y (nbrs ob) /\ r = fmax o c (d y ob)).
  { intros y r Hy. destruct (Hreach y r Hy) as [ob [c [A [B [C D]]]]]. exists ob, c.
    repeat split; auto. rewrite Hidx. apply in_app_iff; auto. }
  split.
  - constructor; simpl; auto. split; auto. unfold proc1. rewrite upd_length; auto.
  - intros c Hc.
    pose proof (get_seeds_spec x c (sorted x) proc1 (o_reach st) seeds1 Hl1) as GS.
    destruct (get_seeds o d x c (sorted x) proc1 (o_reach st) seeds1) as [reach2 seeds2].
    destruct GS as [G1 [G2 [G3 G4]]]; auto.
    { intros y Hy. apply sorted_in in Hy. eapply nb_range; eauto. }
    constructor; simpl; auto.
    + split; auto. unfold proc1. rewrite upd_length; auto.
    + intros y r Hy. destruct (G4 y r Hy) as [H|[H1 H2]]; auto.
      exists x, c. repeat split; auto.
      * rewrite Hidx. apply in_app_iff. right. left. auto.
      * apply sorted_in; auto.
Qed.

Definition unproc (proc : list bool) : nat := length (filter negb proc).
Lemma unproc_le proc : unproc proc <= length proc.
Proof. unfold unproc. induction proc as [|a l IH]; simpl; auto. destruct a; simpl; lia. Qed.
Lemma unproc_upd proc x : x < length proc -> nth x proc false = false ->
  S (unproc (upd proc x true)) = unproc proc.
Proof.
  unfold unproc. revert x; induction proc as [|a l IH]; intros [|x] H E; simpl in *; try lia.
  - subst a. simpl. auto.
  - destruct a; simpl; rewrite <- (IH x); auto; lia.
Qed.

Lemma inner_S f st :
  inner o nbrs d minpts (S f) st =
  match sort_desc (o_seeds st) with
  | [] => Some st
  | s0 :: rest =>
      let x := pick_min o (o_reach st) s0 rest in
      let seeds1 := remove_first x (s0 :: rest) in
      let proc1 := upd (o_proc st) x true in
      let out1 := o_out st ++ [mkSample x (cd x) (nth x (o_reach st) None)] in
      match cd x with
      | Some c =>
          let '(reach2, seeds2) := get_seeds o d x c (sorted x) proc1 (o_reach st) seeds1 in
          inner o nbrs d minpts f {| o_reach := reach2; o_proc := proc1; o_seeds := seeds2; o_out := out1 |}
      | None =>
          inner o nbrs d minpts f {| o_reach := o_reach st; o_proc := proc1; o_seeds := seeds1; o_out := out1 |}
      end
  end.
Proof. reflexivity. Qed.

Lemma inner_inv : forall fuel st,
  OInv st -> unproc (o_proc st) < fuel ->
  exists st', inner o nbrs d minpts fuel st = Some st' /\ OInv st' /\ o_seeds st' = [] /\
              (forall y, nth y (o_proc st) false = true -> nth y (o_proc st') false = true).
Proof.
  induction fuel as [|f IH]; intros st HI Hf; [lia|].
  rewrite inner_S.
  pose proof (sort_desc_perm (o_seeds st)) as HP.
  destruct (sort_desc (o_seeds st)) as [|s0 rest] eqn:Es.
  - exists st. split4; auto. apply Permutation_nil; auto.
  - cbv zeta.
    set (x := pick_min o (o_reach st) s0 rest).
    assert (Hxin : In x (o_seeds st)).
    { eapply Permutation_in; [exact HP|]. unfold x.
      destruct (pick_min_in (o_reach st) rest s0) as [H|H]; [rewrite H; left; auto|right; auto]. }
    destruct (oi_seeds _ HI) as [Hnd Hs].
    destruct (Hs x Hxin) as [Hxn [Hxu Hxr]].
    assert (Hnd' : NoDup (s0 :: rest)).
    { eapply Permutation_NoDup; [apply Permutation_sym; exact HP|auto]. }
    assert (Hs1 : seeds_ok (upd (o_proc st) x true) (o_reach st) (remove_first x (s0 :: rest))).
    { split; [apply remove_first_nodup; auto|].
      intros y Hy. apply remove_first_in in Hy as [Hy Hne]; auto.
      assert (Hy' : In y (o_seeds st)) by (eapply Permutation_in; eauto).
      destruct (Hs y Hy') as [A [B C]]. repeat split; auto. rewrite nth_upd_other; auto. }
    destruct (emit_inv st x _ HI Hxn Hxu Hs1) as [E1 E2].
    destruct (oi_len _ HI) as [_ Hl2].
    assert (Hdec : unproc (upd (o_proc st) x true) < f).
    { pose proof (unproc_upd (o_proc st) x). rewrite Hl2 in H. specialize (H Hxn Hxu). lia. }
    assert (Hmono : forall y, nth y (o_proc st) false = true -> nth y (upd (o_proc st) x true) false = true).
    { intros y Hy. rewrite nth_upd_other; auto. intro E; subst; congruence. }
    destruct (cd x) as [c|] eqn:Ec.
    + specialize (E2 c eq_refl).
      destruct (get_seeds o d x c (sorted x) (upd (o_proc st) x true) (o_reach st)
                  (remove_first x (s0 :: rest))) as [reach2 seeds2].
      destruct (IH _ E2 Hdec) as [st' [A [B [C D]]]].
      exists st'. split4; auto.
    + destruct (IH _ E1 Hdec) as [st' [A [B [C D]]]].
      exists st'. split4; auto.
Qed.

Lemma next_point_id proc index :
  index < length proc -> nth index proc false = false -> next_point proc index = index.
Proof.
  intros Hi Hu. unfold next_point.
  destruct (filter (fun j => nth j proc false) (seq index (length proc - index))) as [|j t] eqn:Ef; simpl; auto.
  assert (Hj : In j (filter (fun j => nth j proc false) (seq index (length proc - index))))
    by (rewrite Ef; left; auto).
  apply filter_In in Hj as [Hj1 Hj2].
  assert (Hex : existsb (fun b => b) proc = true).
  { apply existsb_exists. exists true. split; auto. rewrite <- Hj2. apply nth_In.
    apply in_seq in Hj1. lia. }
  rewrite Hex. destruct (Nat.eqb_spec index j) as [->|]; auto. congruence.
Qed.

Lemma oscan_cons index rest st :
  oscan o nbrs d minpts (index :: rest) st =
  if nth index (o_proc st) false then oscan o nbrs d minpts rest st
  else
    let pi := next_point (o_proc st) index in
    let proc1 := upd (o_proc st) pi true in
    let out1 := o_out st ++ [mkSample pi (cd pi) (nth pi (o_reach st) None)] in
    match cd pi with
    | Some c =>
        let '(reach2, seeds2) := get_seeds o d pi c (sorted pi) proc1 (o_reach st) [] in
        match inner o nbrs d minpts (S (length proc1))
                    {| o_reach := reach2; o_proc := proc1; o_seeds := seeds2; o_out := out1 |} with
        | None => None
        | Some st' => oscan o nbrs d minpts rest st'
        end
    | None =>
        oscan o nbrs d minpts rest
          {| o_reach := o_reach st; o_proc := proc1; o_seeds := o_seeds st; o_out := out1 |}
    end.
Proof. reflexivity. Qed.

Lemma oscan_inv : forall is st,
  (forall x, In x is -> x < n) -> OInv st -> o_seeds st = [] ->
  exists st', oscan o nbrs d minpts is st = Some st' /\ OInv st' /\
    (forall y, nth y (o_proc st) false = true -> nth y (o_proc st') false = true) /\
    (forall y, In y is -> nth y (o_proc st') false = true).
Proof.
  induction is as [|i rest IH]; intros st Hr HI Hse.
  - exists st. simpl. split4; auto; intros y [].  
  - assert (Hi : i < n) by (apply Hr; left; auto).
    assert (Hr' : forall x, In x rest -> x < n) by (intros; apply Hr; right; auto).
    rewrite oscan_cons.
    destruct (nth i (o_proc st) false) eqn:Ei.
    + destruct (IH st Hr' HI Hse) as [st' [A [B [C D]]]].
      exists st'. split4; auto. intros y [<-|Hy]; auto.
    + destruct (oi_len _ HI) as [Hl1 Hl2].
      rewrite next_point_id; auto; [|lia]. cbv zeta.
      assert (Hs1 : seeds_ok (upd (o_proc st) i true) (o_reach st) []).
      { split; [constructor|intros y []]. }
      destruct (emit_inv st i [] HI Hi Ei Hs1) as [E1 E2].
      assert (Hmono : forall y, nth y (o_proc st) false = true -> nth y (upd (o_proc st) i true) false = true).
      { intros y Hy. rewrite nth_upd_other; auto. intro E; subst; congruence. }
      assert (Hip : nth i (upd (o_proc st) i true) false = true) by (apply nth_upd_same; lia).
      destruct (cd i) as [c|] eqn:Ec.
      * specialize (E2 c eq_refl).
        destruct (get_seeds o d i c (sorted i) (upd (o_proc st) i true) (o_reach st) []) as [reach2 seeds2].
        destruct (inner_inv (S (length (upd (o_proc st) i true))) _ E2) as [st1 [A1 [B1 [C1 D1]]]].
        { simpl. pose proof (unproc_le (upd (o_proc st) i true)). lia. }
        rewrite A1.
        destruct (IH st1 Hr' B1 C1) as [st' [A [B [C D]]]].
        exists st'. split4; auto.
        intros y [<-|Hy]; auto.
      * destruct (IH {| o_reach := o_reach st; o_proc := upd (o_proc st) i true; o_seeds := o_seeds st;
                        o_out := o_out st ++ [mkSample i None (nth i (o_reach st) None)] |} Hr')
          as [st' [A [B [C D]]]]; auto.
        { rewrite Hse. exact E1. }
        exists st'. split4; auto.
        intros y [<-|Hy]; auto.
Qed.

Lemma oinv_init :
  OInv {| o_reach := repeat None n; o_proc := repeat false n; o_seeds := []; o_out := [] |}.
Proof.
  constructor; simpl.
  - split; apply repeat_length.
  - intros x. rewrite nth_repeat_false. split; [discriminate|tauto].
  - constructor.
  - split; [constructor|intros x []].
  - intros x r H. rewrite nth_repeat_none in H. discriminate.
  - constructor.
Qed.


(** ** the walk order (T2): minimal reachabilities; needs [ltb] to be a strict weak order *)
Section Walk.
Hypothesis lt_irrefl : forall a, ltb o a a = false.
Hypothesis lt_trans : forall a b c, ltb o a b = true -> ltb o b c = true -> ltb o a c = true.
Hypothesis lt_negtrans : forall a b c, ltb o a c = true -> ltb o a b = true \/ ltb o b c = true.

Definition le (a b : F) : Prop := ltb o b a = false.

Lemma le_refl a : le a a.
Proof. apply lt_irrefl. Qed.
Lemma le_trans a b c : le a b -> le b c -> le a c.
Proof.
  unfold le. intros H1 H2. destruct (ltb o c a) eqn:E; auto.
  destruct (lt_negtrans c b a E); congruence.
Qed.
Lemma lt_le a b : ltb o a b = true -> le a b.
Proof.
  unfold le. intros H. destruct (ltb o b a) eqn:E; auto.
  pose proof (lt_trans a b a H E). rewrite lt_irrefl in H0. discriminate.
Qed.

Definition cand (c : F) (y ob : nat) : F := fmax o c (d y ob).

Lemma get_seeds_spec2 sidx c nb proc : forall reach seeds,
  length reach = n -> (forall x, In x nb -> x < n) ->
  let '(reach2, seeds2) := get_seeds o d sidx c nb proc reach seeds in
  (forall y, In y nb -> nth y proc false = false ->
     exists r, nth y reach2 None = Some r /\ le r (cand c y sidx)) /\
  (forall y r, nth y reach None = Some r -> exists r2, nth y reach2 None = Some r2 /\ le r2 r) /\
  (forall y, nth y reach2 None <> None -> nth y reach None <> None \/ In y seeds2) /\
  (forall y, In y seeds -> In y seeds2).
Proof.
  unfold get_seeds.
  assert (G : forall l reach seeds,
    length reach = n -> (forall x, In x l -> x < n) ->
    let '(reach2, seeds2) := fold_left (seed_step o d sidx c) l (reach, seeds) in
    length reach2 = n /\
    (forall y, In y l -> exists r, nth y reach2 None = Some r /\ le r (cand c y sidx)) /\
    (forall y r, nth y reach None = Some r -> exists r2, nth y reach2 None = Some r2 /\ le r2 r) /\
    (forall y, nth y reach2 None <> None -> nth y reach None <> None \/ In y seeds2) /\
    (forall y, In y seeds -> In y seeds2)).
  { induction l as [|a l IH]; intros reach seeds Hl Hin; simpl.
    - split; [auto|]. split; [intros y []|]. split; [|split; auto].
      intros y r Hy. exists r. split; auto. apply le_refl.
    - assert (Ha : a < n) by (apply Hin; left; auto).
      assert (Hin' : forall x, In x l -> x < n) by (intros; apply Hin; right; auto).
      unfold seed_step at 2. simpl. fold (cand c a sidx).
      (* the state after the step on a: reach1 a = Some r1 with r1 <= cand, everything else only lowered *)
      set (st1 := match nth a reach None with
                  | None => (upd reach a (Some (cand c a sidx)), seeds ++ [a])
                  | Some s0 => if ltb o (cand c a sidx) s0 then (upd reach a (Some (cand c a sidx)), seeds) else (reach, seeds)
                  end).
      assert (S1 : length (fst st1) = n /\
                   (exists r1, nth a (fst st1) None = Some r1 /\ le r1 (cand c a sidx)) /\
                   (forall y r, nth y reach None = Some r -> exists r2, nth y (fst st1) None = Some r2 /\ le r2 r) /\
                   (forall y, nth y (fst st1) None <> None -> nth y reach None <> None \/ In y (snd st1)) /\
                   (forall y, In y seeds -> In y (snd st1))).
      { unfold st1. destruct (nth a reach None) as [s0|] eqn:Ea.
        - destruct (ltb o (cand c a sidx) s0) eqn:El; simpl.
          + split; [rewrite upd_length; auto|]. split.
            { exists (cand c a sidx). rewrite nth_upd_same; [|lia]. split; auto. apply le_refl. }
            split; [|split; auto].
            * intros y r Hy. rewrite nth_upd. destruct (Nat.eqb_spec y a) as [->|Hne].
              -- rewrite Hl. apply Nat.ltb_lt in Ha. rewrite Ha. exists (cand c a sidx). split; auto.
                 rewrite Ea in Hy. inversion Hy; subst. apply lt_le; auto.
              -- exists r. split; auto. apply le_refl.
            * intros y. rewrite nth_upd. destruct (Nat.eqb_spec y a) as [->|Hne]; auto.
              intros _. left. congruence.
          + split; auto. split; [exists s0; split; auto|].
            split; [|split; auto]. intros y r Hy. exists r. split; auto. apply le_refl.
        - simpl. split; [rewrite upd_length; auto|]. split.
          { exists (cand c a sidx). rewrite nth_upd_same; [|lia]. split; auto. apply le_refl. }
          split; [|split].
          + intros y r Hy. rewrite nth_upd_other; [|intro E; subst; congruence].
            exists r. split; auto. apply le_refl.
          + intros y. rewrite nth_upd. destruct (Nat.eqb_spec y a) as [->|Hne]; auto.
            intros _. right. apply in_app_iff. right; left; auto.
          + intros y Hy. apply in_app_iff; auto. }
      destruct st1 as [reach1 seeds1]. simpl in S1. destruct S1 as [L1 [[r1 [A1 A2]] [B1 [C1 D1]]]].
      specialize (IH reach1 seeds1 L1 Hin').
      destruct (fold_left (seed_step o d sidx c) l (reach1, seeds1)) as [reach2 seeds2].
      destruct IH as [I0 [I1 [I2 [I3 I4]]]].
      split; [auto|]. split; [|split; [|split]].
      + intros y [<-|Hy]; auto. destruct (I2 a r1 A1) as [r2 [E2 L2]]. exists r2. split; auto.
        eapply le_trans; eauto.
      + intros y r Hy. destruct (B1 y r Hy) as [r' [E' L']]. destruct (I2 y r' E') as [r2 [E2 L2]].
        exists r2. split; auto. eapply le_trans; eauto.
      + intros y Hy. destruct (I3 y Hy) as [H|H]; auto. destruct (C1 y H) as [H'|H']; auto.
      + intros y Hy. auto. }
  intros reach seeds Hl Hnb.
  specialize (G (filter (fun x => negb (nth x proc false)) nb) reach seeds Hl).
  destruct (fold_left (seed_step o d sidx c) _ (reach, seeds)) as [reach2 seeds2].
  destruct G as [_ [G1 [G2 [G3 G4]]]].
  { intros x Hx. apply filter_In in Hx as [Hx _]. auto. }
  split; [|split; [|split]]; auto.
  intros y Hy Hu. apply G1. apply filter_In. split; auto. rewrite Hu. auto.
Qed.

(* what the listing of s after [prefix] must satisfy: its reachability is defined and at most every
   candidate reachability (through a core point of the prefix) of every sample not in the prefix *)
Definition ok2 (prefix : list (sample F)) (s : sample F) : Prop :=
  forall y, y < n -> ~ In y (idxs prefix) ->
  forall ob c, In ob (idxs prefix) -> cd ob = Some c -> In y (nbrs ob) ->
  exists r, s_reach s = Some r /\ le r (cand c y ob).

Inductive good2 : list (sample F) -> Prop :=
| good2_nil : good2 []
| good2_snoc out s : good2 out -> ok2 out s -> good2 (out ++ [s]).

Record XInv (st : ostate) : Prop := {
  x_seeds : forall y, y < n -> nth y (o_proc st) false = false ->
            nth y (o_reach st) None <> None -> In y (o_seeds st);
  x_min : forall y, y < n -> nth y (o_proc st) false = false ->
          forall ob c, In ob (idxs (o_out st)) -> cd ob = Some c -> In y (nbrs ob) ->
          exists r, nth y (o_reach st) None = Some r /\ le r (cand c y ob);
  x_out : good2 (o_out st)
}.

Lemma emit_inv2 st x seeds1 :
  OInv st -> XInv st -> x < n -> nth x (o_proc st) false = false ->
  let proc1 := upd (o_proc st) x true in
  let s := mkSample x (cd x) (nth x (o_reach st) None) in
  let out1 := o_out st ++ [s] in
  (forall y, In y (o_seeds st) -> y <> x -> In y seeds1) ->
  ok2 (o_out st) s ->
  (cd x = None ->
   XInv {| o_reach := o_reach st; o_proc := proc1; o_seeds := seeds1; o_out := out1 |}) /\
  (forall c, cd x = Some c ->
     let '(reach2, seeds2) := get_seeds o d x c (sorted x) proc1 (o_reach st) seeds1 in
     XInv {| o_reach := reach2; o_proc := proc1; o_seeds := seeds2; o_out := out1 |}).
Proof.
  intros HI [Xs Xm Xo] Hx Hxu proc1 s out1 Hsub Hok.
  destruct (oi_len _ HI) as [Hl1 Hl2].
  assert (Hidx : idxs out1 = idxs (o_out st) ++ [x]) by (unfold out1; rewrite idxs_snoc; auto).
  assert (Hup : forall y, nth y proc1 false = false -> y <> x /\ nth y (o_proc st) false = false).
  { intros y. unfold proc1. rewrite nth_upd.
    destruct (Nat.eqb_spec y x) as [->|Hne]; auto.
    rewrite Hl2. pose proof Hx as Hx'. apply Nat.ltb_lt in Hx'. rewrite Hx'. discriminate. }
  assert (Hg : good2 out1) by (constructor; auto).
  split.
  - intros Hnc. constructor; simpl; auto.
    + intros y Hy Hyu Hr. destruct (Hup y Hyu) as [Hne Hyu']. apply Hsub; auto.
    + intros y Hy Hyu ob c Hob Hc Hin. destruct (Hup y Hyu) as [Hne Hyu'].
      rewrite Hidx in Hob. apply in_app_iff in Hob as [Hob|[<-|[]]]; [eapply Xm; eauto|congruence].
  - intros c Hc.
    pose proof (get_seeds_spec2 x c (sorted x) proc1 (o_reach st) seeds1 Hl1) as GS.
    destruct (get_seeds o d x c (sorted x) proc1 (o_reach st) seeds1) as [reach2 seeds2].
    destruct GS as [G1 [G2 [G3 G4]]].
    { intros y Hy. apply sorted_in in Hy. eapply nb_range; eauto. }
    constructor; simpl; auto.
    + intros y Hy Hyu Hr. destruct (Hup y Hyu) as [Hne Hyu'].
      destruct (G3 y Hr) as [H|H]; auto.
    + intros y Hy Hyu ob c' Hob Hc' Hin. destruct (Hup y Hyu) as [Hne Hyu'].
      rewrite Hidx in Hob. apply in_app_iff in Hob as [Hob|[<-|[]]].
      * destruct (Xm y Hy Hyu' ob c' Hob Hc' Hin) as [r [E L]].
        destruct (G2 y r E) as [r2 [E2 L2]]. exists r2. split; auto. eapply le_trans; eauto.
      * rewrite Hc in Hc'. inversion Hc'; subst c'. apply G1; auto. apply sorted_in; auto.
Qed.

Lemma pick_min_le reach : forall l best,
  (forall y, In y (best :: l) -> exists r, nth y reach None = Some r) ->
  exists rm, nth (pick_min o reach best l) reach None = Some rm /\
             forall y r, In y (best :: l) -> nth y reach None = Some r -> le rm r.
Proof.
  induction l as [|x t IH]; intros best Hs; simpl.
  - destruct (Hs best (or_introl eq_refl)) as [rb Eb]. exists rb. split; auto.
    intros y r [<-|[]] Hy. rewrite Eb in Hy. inversion Hy; subst. apply le_refl.
  - destruct (Hs best (or_introl eq_refl)) as [rb Eb].
    destruct (Hs x (or_intror (or_introl eq_refl))) as [rx Ex].
    rewrite Ex, Eb. simpl. destruct (ltb o rx rb) eqn:El.
    + destruct (IH x) as [rm [Em Lm]].
      { intros y [<-|Hy]; [eauto|]. apply Hs. right; right; auto. }
      exists rm. split; auto. intros y r [<-|[<-|Hy]] Hr.
      * rewrite Eb in Hr. inversion Hr; subst r.
        apply le_trans with (b := rx); [apply (Lm x rx); [left; auto|auto]|apply lt_le; auto].
      * apply (Lm x r); [left; auto|auto].
      * apply (Lm y r); [right; auto|auto].
    + destruct (IH best) as [rm [Em Lm]].
      { intros y [<-|Hy]; [eauto|]. apply Hs. right; right; auto. }
      exists rm. split; auto. intros y r [<-|[<-|Hy]] Hr.
      * apply (Lm best r); [left; auto|auto].
      * rewrite Ex in Hr. inversion Hr; subst r.
        apply le_trans with (b := rb); [apply (Lm best rb); [left; auto|auto]|exact El].
      * apply (Lm y r); [right; auto|auto].
Qed.

Lemma inner_inv2 : forall fuel st,
  OInv st -> XInv st -> unproc (o_proc st) < fuel ->
  exists st', inner o nbrs d minpts fuel st = Some st' /\ OInv st' /\ XInv st' /\ o_seeds st' = [].
Proof.
  induction fuel as [|f IH]; intros st HI HX Hf; [lia|].
  rewrite inner_S.
  pose proof (sort_desc_perm (o_seeds st)) as HP.
  destruct (sort_desc (o_seeds st)) as [|s0 rest] eqn:Es.
  - exists st. split4; auto. apply Permutation_nil; auto.
  - cbv zeta.
    set (x := pick_min o (o_reach st) s0 rest).
    assert (Hxin : In x (o_seeds st)).
    { eapply Permutation_in; [exact HP|]. unfold x.
      destruct (pick_min_in (o_reach st) rest s0) as [H|H]; [rewrite H; left; auto|right; auto]. }
    destruct (oi_seeds _ HI) as [Hnd Hs].
    destruct (Hs x Hxin) as [Hxn [Hxu Hxr]].
    assert (Hnd' : NoDup (s0 :: rest)).
    { eapply Permutation_NoDup; [apply Permutation_sym; exact HP|auto]. }
    assert (Hs1 : seeds_ok (upd (o_proc st) x true) (o_reach st) (remove_first x (s0 :: rest))).
    { split; [apply remove_first_nodup; auto|].
      intros y Hy. apply remove_first_in in Hy as [Hy Hne]; auto.
      assert (Hy' : In y (o_seeds st)) by (eapply Permutation_in; eauto).
      destruct (Hs y Hy') as [A [B C]]. repeat split; auto. rewrite nth_upd_other; auto. }
    destruct (emit_inv st x _ HI Hxn Hxu Hs1) as [E1 E2].
    assert (Hsub : forall y, In y (o_seeds st) -> y <> x -> In y (remove_first x (s0 :: rest))).
    { intros y Hy Hne. apply remove_first_in; auto. split; auto.
      eapply Permutation_in; [apply Permutation_sym; exact HP|auto]. }
    assert (Hok : ok2 (o_out st) (mkSample x (cd x) (nth x (o_reach st) None))).
    { intros y Hy Hny ob c Hob Hc Hin. simpl.
      assert (Hyu : nth y (o_proc st) false = false).
      { destruct (nth y (o_proc st) false) eqn:E; auto. apply (oi_proc _ HI) in E. contradiction. }
      destruct (x_min _ HX y Hy Hyu ob c Hob Hc Hin) as [ry [Ey Ly]].
      assert (Hys : In y (s0 :: rest)).
      { eapply Permutation_in; [apply Permutation_sym; exact HP|]. apply (x_seeds _ HX); auto. congruence. }
      destruct (pick_min_le (o_reach st) rest s0) as [rm [Em Lm]].
      { intros z Hz. assert (Hz' : In z (o_seeds st)) by (eapply Permutation_in; eauto).
        destruct (Hs z Hz') as [_ [_ C]]. destruct (nth z (o_reach st) None); [eauto|congruence]. }
      exists rm. split; auto. eapply le_trans; [apply (Lm y ry Hys Ey)|auto]. }
    destruct (emit_inv2 st x _ HI HX Hxn Hxu Hsub Hok) as [X1 X2].
    destruct (oi_len _ HI) as [_ Hl2].
    assert (Hdec : unproc (upd (o_proc st) x true) < f).
    { pose proof (unproc_upd (o_proc st) x). rewrite Hl2 in H. specialize (H Hxn Hxu). lia. }
    destruct (cd x) as [c|] eqn:Ec.
    + specialize (E2 c eq_refl). specialize (X2 c eq_refl).
      destruct (get_seeds o d x c (sorted x) (upd (o_proc st) x true) (o_reach st)
                  (remove_first x (s0 :: rest))) as [reach2 seeds2].
      apply IH; auto.
    + apply IH; auto.
Qed.

Lemma oscan_inv2 : forall is st,
  (forall x, In x is -> x < n) -> OInv st -> XInv st -> o_seeds st = [] ->
  exists st', oscan o nbrs d minpts is st = Some st' /\ OInv st' /\ XInv st'.
Proof.
  induction is as [|i rest IH]; intros st Hr HI HX Hse.
  - exists st. simpl. auto.
  - assert (Hi : i < n) by (apply Hr; left; auto).
    assert (Hr' : forall x, In x rest -> x < n) by (intros; apply Hr; right; auto).
    rewrite oscan_cons.
    destruct (nth i (o_proc st) false) eqn:Ei; [apply IH; auto|].
    destruct (oi_len _ HI) as [Hl1 Hl2].
    rewrite next_point_id; auto; [|lia]. cbv zeta.
    assert (Hs1 : seeds_ok (upd (o_proc st) i true) (o_reach st) []).
    { split; [constructor|intros y []]. }
    destruct (emit_inv st i [] HI Hi Ei Hs1) as [E1 E2].
    assert (Hsub : forall y, In y (o_seeds st) -> y <> i -> In y []).
    { intros y Hy. rewrite Hse in Hy. destruct Hy. }
    assert (Hok : ok2 (o_out st) (mkSample i (cd i) (nth i (o_reach st) None))).
    { intros y Hy Hny ob c Hob Hc Hin. exfalso.
      assert (Hyu : nth y (o_proc st) false = false).
      { destruct (nth y (o_proc st) false) eqn:E; auto. apply (oi_proc _ HI) in E. contradiction. }
      destruct (x_min _ HX y Hy Hyu ob c Hob Hc Hin) as [ry [Ey Ly]].
      assert (C : In y (o_seeds st)) by (apply (x_seeds _ HX); auto; congruence).
      rewrite Hse in C. destruct C. }
    destruct (emit_inv2 st i [] HI HX Hi Ei Hsub Hok) as [X1 X2].
    destruct (cd i) as [c|] eqn:Ec.
    + specialize (E2 c eq_refl). specialize (X2 c eq_refl).
      destruct (get_seeds o d i c (sorted i) (upd (o_proc st) i true) (o_reach st) []) as [reach2 seeds2].
      destruct (inner_inv2 (S (length (upd (o_proc st) i true))) _ E2 X2) as [st1 [A1 [B1 [C1 D1]]]].
      { simpl. pose proof (unproc_le (upd (o_proc st) i true)). lia. }
      rewrite A1. apply IH; auto.
    + apply IH; auto.
      * rewrite Hse. exact E1.
      * rewrite Hse. apply X1; auto.
Qed.

Lemma good2_split out : good2 out -> forall l1 s l2, out = l1 ++ s :: l2 -> ok2 l1 s.
Proof.
  induction 1 as [|out s0 G IH S]; intros l1 s l2 E.
  - destruct l1; discriminate.
  - destruct (@exists_last _ (s :: l2)) as [l2' [s' E']]; [discriminate|].
    rewrite E' in E. rewrite app_assoc in E. apply app_inj_tail in E as [E1 E2]. subst s'.
    destruct l2' as [|a l2'].
    + simpl in E'. inversion E'; subst s l2. rewrite app_nil_r in E1. subst out. auto.
    + simpl in E'. inversion E'; subst a l2. apply (IH l1 s l2'). rewrite E1. reflexivity.
Qed.

Lemma op_walk out : optics o nbrs d minpts n = Some out ->
  forall l1 s l2, out = l1 ++ s :: l2 -> ok2 l1 s.
Proof.
  intros Hrun.
  destruct (oscan_inv2 (seq 0 n)
              {| o_reach := repeat None n; o_proc := repeat false n; o_seeds := []; o_out := [] |})
    as [st [A [B C]]]; auto.
  - intros x Hx. apply in_seq in Hx. lia.
  - apply oinv_init.
  - constructor; simpl.
    + intros y _ _ H. rewrite nth_repeat_none in H. congruence.
    + intros y _ _ ob c [].
    + constructor.
  - unfold optics in Hrun. rewrite A in Hrun. inversion Hrun. subst out.
    apply good2_split. apply (x_out _ C).
Qed.
End Walk.

Lemma optics_final :
  exists st, oscan o nbrs d minpts (seq 0 n)
               {| o_reach := repeat None n; o_proc := repeat false n; o_seeds := []; o_out := [] |} = Some st /\
             OInv st /\ forall y, y < n -> nth y (o_proc st) false = true.
Proof.
  destruct (oscan_inv (seq 0 n) _ (fun x H => proj2 (proj1 (in_seq _ _ _) H)) oinv_init eq_refl)
    as [st [A [B [_ D]]]].
  exists st. split; [exact A|]. split; [exact B|]. intros y Hy. apply D. apply in_seq. lia.
Qed.

Lemma good_out_index out : good_out out -> forall x, In x (idxs out) -> x < n.
Proof.
  induction 1 as [|out s G IH S]; intros x Hx; [destruct Hx|].
  rewrite idxs_snoc in Hx. apply in_app_iff in Hx as [Hx|[<-|[]]]; auto. apply S.
Qed.

Lemma good_out_split out : good_out out -> forall l1 s l2, out = l1 ++ s :: l2 -> sample_ok l1 s.
Proof.
  induction 1 as [|out s0 G IH S]; intros l1 s l2 E.
  - destruct l1; discriminate.
  - destruct (@exists_last _ (s :: l2)) as [l2' [s' E']]; [discriminate|].
    rewrite E' in E. rewrite app_assoc in E. apply app_inj_tail in E as [E1 E2]. subst s'.
    destruct l2' as [|a l2'].
    + simpl in E'. inversion E'; subst s l2. rewrite app_nil_r in E1. subst out. auto.
    + simpl in E'. inversion E'; subst a l2. apply (IH l1 s l2'). rewrite E1. reflexivity.
Qed.

Section FinalO.
Variable out : list (sample F).
Hypothesis Hrun : optics o nbrs d minpts n = Some out.

Lemma final_oinv : exists st, o_out st = out /\ OInv st /\ forall y, y < n -> nth y (o_proc st) false = true.
Proof.
  destruct optics_final as [st [A [B C]]]. unfold optics in Hrun. rewrite A in Hrun.
  inversion Hrun. exists st; auto.
Qed.

Lemma op_perm : Permutation (idxs out) (seq 0 n).
Proof.
  destruct final_oinv as [st [E [I P]]]. subst out.
  apply NoDup_Permutation; [apply (oi_nodup _ I)|apply seq_NoDup|].
  intros x. rewrite in_seq. split.
  - intros H. pose proof (good_out_index _ (oi_out _ I) x H). lia.
  - intros [_ H]. apply (oi_proc _ I). apply P. auto.
Qed.

Lemma op_samples : forall l1 s l2, out = l1 ++ s :: l2 -> sample_ok l1 s.
Proof.
  destruct final_oinv as [st [E [I P]]]. subst out. apply good_out_split. apply (oi_out _ I).
Qed.
End FinalO.

Lemma optics_total : exists out, optics o nbrs d minpts n = Some out.
Proof. destruct optics_final as [st [A _]]. unfold optics. rewrite A. eauto. Qed.
End OpticsProofs.

(** * OPTICS core distance over the reals: the min_points-th smallest distance within the tolerance *)
Section CoreDistR.
Variable nbrs : nat -> list nat.
Variable d : nat -> nat -> R.
Variable minpts : nat.
Hypothesis d_sym : forall i j, d i j = d j i.

Local Open Scope R_scope.

Fixpoint asc (key : nat -> R) (l : list nat) : Prop :=
  match l with [] => True | x :: t => (forall y, In y t -> key x <= key y) /\ asc key t end.

Lemma insert_by_asc key x l : asc key l -> asc key (insert_by R_ops key x l).
Proof.
  induction l as [|y t IH]; intros H; simpl.
  - split; auto. intros y [].
  - destruct H as [H1 H2]. simpl. destruct (Rltb (key y) (key x)) eqn:E.
    + apply Rltb_true in E. simpl. split; auto.
      intros z Hz. apply (Permutation_in _ (insert_by_perm R_ops key x t)) in Hz as [<-|Hz]; [lra|auto].
    + apply Rltb_false in E. simpl. split; [|split; auto].
      intros z [<-|Hz]; auto. specialize (H1 z Hz). lra.
Qed.
Lemma isort_asc key l : asc key (isort R_ops key l).
Proof. induction l as [|x t IH]; simpl; auto. apply insert_by_asc; auto. Qed.

Lemma asc_split key l1 x l2 : asc key (l1 ++ x :: l2) ->
  (forall y, In y l1 -> key y <= key x) /\ (forall y, In y l2 -> key x <= key y).
Proof.
  induction l1 as [|a l1 IH]; simpl; intros [H1 H2].
  - split; auto. intros y [].
  - destruct (IH H2) as [A B]. split; auto.
    intros y [<-|Hy]; auto. apply H1. apply in_app_iff. right; left; auto.
Qed.

Definition count (p : nat -> bool) (l : list nat) : nat := length (filter p l).

Lemma count_perm p l l' : Permutation l l' -> count p l = count p l'.
Proof.
  unfold count. induction 1; simpl; auto.
  - destruct (p x); simpl; auto.
  - destruct (p x), (p y); simpl; auto.
  - congruence.
Qed.
Lemma count_app p l1 l2 : count p (l1 ++ l2) = (count p l1 + count p l2)%nat.
Proof. unfold count. rewrite filter_app, app_length. auto. Qed.
Lemma count_all p l : (forall y, In y l -> p y = true) -> count p l = length l.
Proof.
  unfold count. induction l as [|a l IH]; intros H; simpl; auto.
  rewrite (H a (or_introl eq_refl)). simpl. rewrite IH; auto. intros; apply H; right; auto.
Qed.
Lemma count_none p l : (forall y, In y l -> p y = false) -> count p l = 0%nat.
Proof.
  unfold count. induction l as [|a l IH]; intros H; simpl; auto.
  rewrite (H a (or_introl eq_refl)). apply IH. intros; apply H; right; auto.
Qed.
Lemma count_le_length p l : (count p l <= length l)%nat.
Proof. unfold count. induction l as [|a l IH]; simpl; auto. destruct (p a); simpl; lia. Qed.

(** the reported core distance is the min_points-th smallest distance from the sample to the
    points within its tolerance; it is undefined exactly when there are fewer than min_points *)
Lemma core_dist_kth i c : (1 <= minpts)%nat ->
  core_dist d minpts i (sorted_nbrs R_ops nbrs d i) = Some c ->
  (exists x, In x (nbrs i) /\ c = d i x) /\
  (count (fun y => Rltb (d i y) c) (nbrs i) < minpts)%nat /\
  (minpts <= count (fun y => Rleb (d i y) c) (nbrs i))%nat.
Proof.
  intros Hm H. unfold core_dist in H.
  set (key := fun x => d x i) in *.
  set (l := sorted_nbrs R_ops nbrs d i) in *.
  assert (HP : Permutation l (nbrs i)) by apply isort_perm.
  assert (HA : asc key l) by apply isort_asc.
  destruct (nth_error l (minpts - 1)) as [x|] eqn:En; [|discriminate].
  inversion H; subst c. clear H.
  apply nth_error_split in En as [l1 [l2 [El Hl1]]].
  rewrite El in HA. destruct (asc_split key l1 x l2 HA) as [A B].
  split; [|split].
  - exists x. split; auto. apply (Permutation_in _ HP). rewrite El. apply in_app_iff. right; left; auto.
  - rewrite <- (count_perm _ _ _ HP), El, count_app. simpl.
    unfold count at 2. simpl.
    assert (E1 : Rltb (d i x) (d i x) = false) by (apply Rltb_false; lra). rewrite E1.
    fold (count (fun y => Rltb (d i y) (d i x)) l2).
    rewrite (count_none _ l2).
    + pose proof (count_le_length (fun y => Rltb (d i y) (d i x)) l1). lia.
    + intros y Hy. apply Rltb_false. specialize (B y Hy). unfold key in B.
      rewrite (d_sym i y), (d_sym i x). lra.
  - rewrite <- (count_perm _ _ _ HP), El, count_app.
    rewrite (count_all _ l1).
    + unfold count. simpl.
      assert (E1 : Rleb (d i x) (d i x) = true) by (apply Rleb_true; lra). rewrite E1. simpl. lia.
    + intros y Hy. apply Rleb_true. specialize (A y Hy). unfold key in A.
      rewrite (d_sym i y), (d_sym i x). lra.
Qed.

Lemma core_dist_none i : (1 <= minpts)%nat ->
  (core_dist d minpts i (sorted_nbrs R_ops nbrs d i) = None <-> (length (nbrs i) < minpts)%nat).
Proof.
  intros Hm. unfold core_dist.
  assert (HL : length (sorted_nbrs R_ops nbrs d i) = length (nbrs i)).
  { apply Permutation_length. apply isort_perm. }
  destruct (nth_error (sorted_nbrs R_ops nbrs d i) (minpts - 1)) as [x|] eqn:En.
  - split; [discriminate|]. intros H.
    assert (Hn : (minpts - 1 < length (sorted_nbrs R_ops nbrs d i))%nat).
    { apply nth_error_Some. congruence. }
    lia.
  - split; auto. intros _. apply nth_error_None in En. lia.
Qed.
End CoreDistR.

(** * OPTICS does not depend on the order of the neighbour lists (reals, symmetric distance) *)
Section OpticsIndep.
Variables nbrs nbrs' : nat -> list nat.
Variable d : nat -> nat -> R.
Variable minpts n : nat.
Hypothesis d_sym : forall i j, d i j = d j i.
Hypothesis minpts_pos : 1 <= minpts.
Hypothesis nb_range : forall i j, In j (nbrs i) -> j < n.
Hypothesis nb_nodup : forall i, NoDup (nbrs i).
Hypothesis nb_perm : forall i, Permutation (nbrs i) (nbrs' i).

Notation o := R_ops.

Lemma sorted_perm i : Permutation (sorted_nbrs o nbrs d i) (sorted_nbrs o nbrs' d i).
Proof.
  unfold sorted_nbrs.
  eapply perm_trans; [apply isort_perm|].
  eapply perm_trans; [apply nb_perm|apply Permutation_sym, isort_perm].
Qed.

(* the k-th smallest value is unique *)
Lemma core_dist_perm i :
  core_dist d minpts i (sorted_nbrs o nbrs d i) = core_dist d minpts i (sorted_nbrs o nbrs' d i).
Proof.
  destruct (core_dist d minpts i (sorted_nbrs o nbrs d i)) as [c|] eqn:E1;
  destruct (core_dist d minpts i (sorted_nbrs o nbrs' d i)) as [c'|] eqn:E2; auto.
  - f_equal.
    destruct (core_dist_kth nbrs d minpts d_sym i c minpts_pos E1) as [_ [A1 A2]].
    destruct (core_dist_kth nbrs' d minpts d_sym i c' minpts_pos E2) as [_ [B1 B2]].
    rewrite <- (count_perm (fun y => Rltb (d i y) c') _ _ (nb_perm i)) in B1.
    rewrite <- (count_perm (fun y => Rleb (d i y) c') _ _ (nb_perm i)) in B2.
    destruct (Rtotal_order c c') as [H|[H|H]]; auto; exfalso.
    + (* c < c': everything <= c is < c' *)
      assert (Hle : (count (fun y => Rleb (d i y) c) (nbrs i) <= count (fun y => Rltb (d i y) c') (nbrs i))%nat).
      { unfold count. generalize (nbrs i). induction l as [|a l IH]; simpl; auto.
        destruct (Rleb (d i a) c) eqn:Ea.
        - apply Rleb_true in Ea. assert (Eb : Rltb (d i a) c' = true) by (apply Rltb_true; lra).
          rewrite Eb. simpl. lia.
        - destruct (Rltb (d i a) c'); simpl; lia. }
      lia.
    + assert (Hle : (count (fun y => Rleb (d i y) c') (nbrs i) <= count (fun y => Rltb (d i y) c) (nbrs i))%nat).
      { unfold count. generalize (nbrs i). induction l as [|a l IH]; simpl; auto.
        destruct (Rleb (d i a) c') eqn:Ea.
        - apply Rleb_true in Ea. assert (Eb : Rltb (d i a) c = true) by (apply Rltb_true; lra).
          rewrite Eb. simpl. lia.
        - destruct (Rltb (d i a) c); simpl; lia. }
      lia.
  - apply (core_dist_none nbrs' d minpts i minpts_pos) in E2.
    assert (E1' : core_dist d minpts i (sorted_nbrs o nbrs d i) <> None) by congruence.
    exfalso. apply E1'. apply (core_dist_none nbrs d minpts i minpts_pos).
    rewrite (Permutation_length (nb_perm i)). auto.
  - apply (core_dist_none nbrs d minpts i minpts_pos) in E1.
    assert (E2' : core_dist d minpts i (sorted_nbrs o nbrs' d i) <> None) by congruence.
    exfalso. apply E2'. apply (core_dist_none nbrs' d minpts i minpts_pos).
    rewrite <- (Permutation_length (nb_perm i)). auto.
Qed.

(** sort_desc is canonical *)
Lemma insert_desc_sorted x l : StronglySorted ge l -> StronglySorted ge (insert_desc x l).
Proof.
  induction 1 as [|y t Ht IH Hy]; simpl; [repeat constructor|].
  destruct (Nat.ltb_spec y x).
  - constructor; [constructor; auto|]. constructor; [lia|].
    rewrite Forall_forall in *. intros z Hz. specialize (Hy z Hz). lia.
  - constructor; auto. rewrite Forall_forall in *. intros z Hz.
    apply (Permutation_in _ (insert_desc_perm x t)) in Hz as [<-|Hz]; [lia|auto].
Qed.
Lemma sort_desc_sorted l : StronglySorted ge (sort_desc l).
Proof. induction l as [|x t IH]; simpl; [constructor|apply insert_desc_sorted; auto]. Qed.

Lemma desc_unique : forall l l', StronglySorted ge l -> StronglySorted ge l' -> Permutation l l' -> l = l'.
Proof.
  induction l as [|a t IH]; intros l' H1 H2 HP.
  - apply Permutation_nil in HP. auto.
  - destruct l' as [|b t']; [apply Permutation_sym, Permutation_nil in HP; discriminate|].
    inversion H1 as [|? ? S1 F1]; subst. inversion H2 as [|? ? S2 F2]; subst.
    rewrite Forall_forall in F1, F2.
    assert (Hab : a = b).
    { assert (A : In a (b :: t')) by (apply (Permutation_in _ HP); left; auto).
      assert (B : In b (a :: t)) by (apply (Permutation_in _ (Permutation_sym HP)); left; auto).
      destruct A as [A|A]; auto. destruct B as [B|B]; auto.
      specialize (F2 a A). specialize (F1 b B). lia. }
    subst b. f_equal. apply IH; auto. eapply Permutation_cons_inv; eauto.
Qed.
Lemma sort_desc_canon l l' : Permutation l l' -> sort_desc l = sort_desc l'.
Proof.
  intros HP. apply desc_unique; try apply sort_desc_sorted.
  eapply perm_trans; [apply sort_desc_perm|].
  eapply perm_trans; [exact HP|apply Permutation_sym, sort_desc_perm].
Qed.

(** get_seeds as a function of the neighbour *set* *)
Definition new_reach (sidx : nat) (c : R) (reach : list (option R)) (y : nat) : option R :=
  let k := fmax o c (d y sidx) in
  match nth y reach None with
  | None => Some k
  | Some s => if Rltb k s then Some k else Some s
  end.

Lemma seeds_fold sidx c : forall l reach seeds,
  NoDup l -> (forall y, In y l -> y < n) -> length reach = n ->
  let '(reach2, seeds2) := fold_left (seed_step o d sidx c) l (reach, seeds) in
  length reach2 = n /\
  (forall y, nth y reach2 None = if existsb (Nat.eqb y) l then new_reach sidx c reach y else nth y reach None) /\
  seeds2 = seeds ++ filter (fun y => is_none (nth y reach None)) l.
Proof.
  induction l as [|a l IH]; intros reach seeds Hnd Hr Hl; simpl.
  - rewrite app_nil_r. auto.
  - apply NoDup_cons_iff in Hnd as [Ha Hnd'].
    assert (Han : a < n) by (apply Hr; left; auto).
    assert (Hr' : forall y, In y l -> y < n) by (intros; apply Hr; right; auto).
    unfold seed_step at 2. simpl.
    set (k := fmax o c (d a sidx)).
    assert (Key : forall reach1 seeds1, length reach1 = n ->
              (forall y, nth y reach1 None = if Nat.eqb y a then new_reach sidx c reach y else nth y reach None) ->
              seeds1 = seeds ++ (if is_none (nth a reach None) then [a] else []) ->
              let '(reach2, seeds2) := fold_left (seed_step o d sidx c) l (reach1, seeds1) in
              length reach2 = n /\
              (forall y, nth y reach2 None =
                 if Nat.eqb y a || existsb (Nat.eqb y) l then new_reach sidx c reach y else nth y reach None) /\
              seeds2 = seeds ++ (if is_none (nth a reach None) then a :: filter (fun y => is_none (nth y reach None)) l
                                 else filter (fun y => is_none (nth y reach None)) l)).
    { intros reach1 seeds1 L1 N1 S1. specialize (IH reach1 seeds1 Hnd' Hr' L1).
      destruct (fold_left (seed_step o d sidx c) l (reach1, seeds1)) as [reach2 seeds2].
      destruct IH as [I1 [I2 I3]]. split; auto. split.
      - intros y. rewrite I2. destruct (Nat.eqb_spec y a) as [->|Hne]; simpl.
        + assert (E : existsb (Nat.eqb a) l = false).
          { apply not_true_is_false. intro C. apply existsb_exists in C as [z [Hz Ez]].
            apply Nat.eqb_eq in Ez. subst z. auto. }
          rewrite E. rewrite N1, Nat.eqb_refl. auto.
        + destruct (existsb (Nat.eqb y) l) eqn:E.
          * unfold new_reach. rewrite N1. apply Nat.eqb_neq in Hne. rewrite Hne. auto.
          * rewrite N1. apply Nat.eqb_neq in Hne. rewrite Hne. auto.
      - rewrite I3, S1.
        assert (Ef : filter (fun y => is_none (nth y reach1 None)) l = filter (fun y => is_none (nth y reach None)) l).
        { apply filter_ext_in. intros y Hy. rewrite N1.
          assert (Hne : y <> a) by (intro; subst; auto). apply Nat.eqb_neq in Hne. rewrite Hne. auto. }
        rewrite Ef. destruct (is_none (nth a reach None)); simpl; rewrite <- app_assoc; auto. }
    destruct (nth a reach None) as [s|] eqn:Ea.
    + destruct (Rltb k s) eqn:El.
      * apply Key; simpl; auto.
        -- rewrite upd_length; auto.
        -- intros y. rewrite nth_upd. destruct (Nat.eqb_spec y a) as [->|Hne]; auto.
           rewrite Hl. pose proof Han as H'. apply Nat.ltb_lt in H'. rewrite H'.
           unfold new_reach. rewrite Ea. fold k. rewrite El. auto.
        -- rewrite app_nil_r. auto.
      * apply Key; simpl; auto.
        -- intros y. destruct (Nat.eqb_spec y a) as [->|Hne]; auto.
           unfold new_reach. rewrite Ea. fold k. rewrite El. auto.
        -- rewrite app_nil_r. auto.
    + apply Key; simpl; auto.
      * rewrite upd_length; auto.
      * intros y. rewrite nth_upd. destruct (Nat.eqb_spec y a) as [->|Hne]; auto.
        rewrite Hl. pose proof Han as H'. apply Nat.ltb_lt in H'. rewrite H'.
        unfold new_reach. rewrite Ea. auto.
Qed.

Lemma existsb_perm y l l' : Permutation l l' -> existsb (Nat.eqb y) l = existsb (Nat.eqb y) l'.
Proof.
  intros HP. destruct (existsb (Nat.eqb y) l) eqn:E; symmetry.
  - apply existsb_exists in E as [z [Hz Ez]]. apply existsb_exists. exists z. split; auto.
    eapply Permutation_in; eauto.
  - apply not_true_is_false. intro C. apply existsb_exists in C as [z [Hz Ez]].
    assert (C' : existsb (Nat.eqb y) l = true).
    { apply existsb_exists. exists z. split; auto. eapply Permutation_in; [apply Permutation_sym|]; eauto. }
    congruence.
Qed.

Lemma filter_perm (f : nat -> bool) l l' : Permutation l l' -> Permutation (filter f l) (filter f l').
Proof.
  induction 1; simpl; auto.
  - destruct (f x); auto.
  - destruct (f x), (f y); auto. apply perm_swap.
  - eapply perm_trans; eauto.
Qed.

Lemma get_seeds_perm sidx c nb nb' proc reach seeds seeds' :
  NoDup nb -> Permutation nb nb' -> (forall y, In y nb -> y < n) -> length reach = n ->
  Permutation seeds seeds' ->
  fst (get_seeds o d sidx c nb proc reach seeds) = fst (get_seeds o d sidx c nb' proc reach seeds') /\
  Permutation (snd (get_seeds o d sidx c nb proc reach seeds)) (snd (get_seeds o d sidx c nb' proc reach seeds')) /\
  length (fst (get_seeds o d sidx c nb proc reach seeds)) = n.
Proof.
  intros Hnd HP Hr Hl Hs. unfold get_seeds.
  set (f := fun x => negb (nth x proc false)).
  assert (HPf : Permutation (filter f nb) (filter f nb')) by (apply filter_perm; auto).
  assert (Hnd1 : NoDup (filter f nb)) by (apply NoDup_filter; auto).
  assert (Hnd2 : NoDup (filter f nb')) by (eapply Permutation_NoDup; eauto).
  assert (Hr1 : forall y, In y (filter f nb) -> y < n).
  { intros y Hy. apply filter_In in Hy as [Hy _]. auto. }
  assert (Hr2 : forall y, In y (filter f nb') -> y < n).
  { intros y Hy. apply Hr1. eapply Permutation_in; [apply Permutation_sym|]; eauto. }
  pose proof (seeds_fold sidx c (filter f nb) reach seeds Hnd1 Hr1 Hl) as A.
  pose proof (seeds_fold sidx c (filter f nb') reach seeds' Hnd2 Hr2 Hl) as B.
  destruct (fold_left (seed_step o d sidx c) (filter f nb) (reach, seeds)) as [r1 s1].
  destruct (fold_left (seed_step o d sidx c) (filter f nb') (reach, seeds')) as [r2 s2].
  destruct A as [A1 [A2 A3]]. destruct B as [B1 [B2 B3]]. simpl.
  split; [|split; auto].
  - apply nth_ext with (d := None) (d' := None); [congruence|].
    intros y _. rewrite A2, B2. rewrite (existsb_perm y _ _ HPf). auto.
  - rewrite A3, B3. apply Permutation_app; auto. apply filter_perm; auto.
Qed.

(** lockstep of the two walks *)
Definition Rel (st st' : @ostate R) : Prop :=
  o_reach st = o_reach st' /\ o_proc st = o_proc st' /\ o_out st = o_out st' /\
  Permutation (o_seeds st) (o_seeds st') /\ length (o_reach st) = n.

Definition orel (a b : option (@ostate R)) : Prop :=
  match a, b with
  | Some x, Some y => Rel x y
  | None, None => True
  | _, _ => False
  end.

Lemma sorted_range i y : In y (sorted_nbrs o nbrs d i) -> y < n.
Proof. intros H. apply (nb_range i). apply (sorted_in o nbrs d i y); exact H. Qed.
Lemma sorted_nodup i : NoDup (sorted_nbrs o nbrs d i).
Proof. unfold sorted_nbrs. eapply Permutation_NoDup; [apply Permutation_sym; apply (isort_perm o)|apply nb_nodup]. Qed.

Lemma inner_lockstep : forall fuel st st', Rel st st' ->
  orel (inner o nbrs d minpts fuel st) (inner o nbrs' d minpts fuel st').
Proof.
  induction fuel as [|f IH]; intros st st' HR; [simpl; auto|].
  destruct HR as [E1 [E2 [E3 [E4 E5]]]].
  rewrite (inner_S o nbrs d minpts), (inner_S o nbrs' d minpts).
  rewrite <- (sort_desc_canon _ _ E4).
  destruct (sort_desc (o_seeds st)) as [|s0 rest].
  - simpl. repeat split; auto.
  - cbv zeta. rewrite <- E1, <- E2, <- E3.
    set (x := pick_min o (o_reach st) s0 rest).
    unfold cd. rewrite <- (core_dist_perm x).
    destruct (core_dist d minpts x (sorted_nbrs o nbrs d x)) as [c|].
    + destruct (get_seeds_perm x c (sorted_nbrs o nbrs d x) (sorted_nbrs o nbrs' d x)
                  (upd (o_proc st) x true) (o_reach st)
                  (remove_first x (s0 :: rest)) (remove_first x (s0 :: rest))) as [G1 [G2 G3]]; auto.
      * apply sorted_nodup.
      * apply sorted_perm.
      * apply sorted_range.
      * destruct (get_seeds o d x c (sorted_nbrs o nbrs d x) _ _ _) as [r1 s1].
        destruct (get_seeds o d x c (sorted_nbrs o nbrs' d x) _ _ _) as [r2 s2].
        simpl in G1, G2, G3. subst r2. apply IH. repeat split; auto.
    + apply IH. repeat split; auto.
Qed.

Lemma oscan_lockstep : forall is st st', Rel st st' ->
  orel (oscan o nbrs d minpts is st) (oscan o nbrs' d minpts is st').
Proof.
  induction is as [|i rest IH]; intros st st' HR; [simpl; auto|].
  pose proof HR as [E1 [E2 [E3 [E4 E5]]]].
  rewrite (oscan_cons o nbrs d minpts), (oscan_cons o nbrs' d minpts).
  rewrite <- E1, <- E2, <- E3.
  destruct (nth i (o_proc st) false); [apply IH; auto|].
  cbv zeta. set (x := next_point (o_proc st) i).
  unfold cd. rewrite <- (core_dist_perm x).
  destruct (core_dist d minpts x (sorted_nbrs o nbrs d x)) as [c|].
  - destruct (get_seeds_perm x c (sorted_nbrs o nbrs d x) (sorted_nbrs o nbrs' d x)
                (upd (o_proc st) x true) (o_reach st) [] []) as [G1 [G2 G3]]; auto.
    + apply sorted_nodup.
    + apply sorted_perm.
    + apply sorted_range.
    + destruct (get_seeds o d x c (sorted_nbrs o nbrs d x) _ _ _) as [r1 s1].
      destruct (get_seeds o d x c (sorted_nbrs o nbrs' d x) _ _ _) as [r2 s2].
      simpl in G1, G2, G3. subst r2.
      assert (IL : orel
        (inner o nbrs d minpts (S (length (upd (o_proc st) x true)))
          {| o_reach := r1; o_proc := upd (o_proc st) x true; o_seeds := s1;
             o_out := o_out st ++ [mkSample x (Some c) (nth x (o_reach st) None)] |})
        (inner o nbrs' d minpts (S (length (upd (o_proc st) x true)))
          {| o_reach := r1; o_proc := upd (o_proc st) x true; o_seeds := s2;
             o_out := o_out st ++ [mkSample x (Some c) (nth x (o_reach st) None)] |})).
      { apply inner_lockstep. repeat split; auto. }
      destruct (inner o nbrs d minpts _ _) as [a|]; destruct (inner o nbrs' d minpts _ _) as [b|];
        simpl in IL; try contradiction; simpl; auto.
  - apply IH. repeat split; auto.
Qed.

Theorem optics_order_independent : optics o nbrs d minpts n = optics o nbrs' d minpts n.
Proof.
  unfold optics.
  pose proof (oscan_lockstep (seq 0 n)
    {| o_reach := repeat None n; o_proc := repeat false n; o_seeds := []; o_out := [] |}
    {| o_reach := repeat None n; o_proc := repeat false n; o_seeds := []; o_out := [] |}) as H.
  destruct (oscan o nbrs d minpts _ _) as [a|]; destruct (oscan o nbrs' d minpts _ _) as [b|]; simpl in H.
  - destruct H as [_ [_ [E _]]]; [|rewrite E; auto].
    repeat split; auto. simpl. apply repeat_length.
  - exfalso. apply H. repeat split; auto. simpl. apply repeat_length.
  - exfalso. apply H. repeat split; auto. simpl. apply repeat_length.
  - auto.
Qed.
End OpticsIndep.

(** the comparison of the real-number instance is a strict weak (indeed total) order *)
Definition lt_order {F} (o : NumOps F) : Prop :=
  (forall a, ltb o a a = false) /\
  (forall a b c, ltb o a b = true -> ltb o b c = true -> ltb o a c = true) /\
  (forall a b c, ltb o a c = true -> ltb o a b = true \/ ltb o b c = true).

Lemma R_lt_order : lt_order R_ops.
Proof.
  split; [|split]; simpl.
  - intros a. apply Rltb_false. lra.
  - intros a b c H1 H2. apply Rltb_true in H1, H2. apply Rltb_true. lra.
  - intros a b c H. apply Rltb_true in H. destruct (Rlt_dec a b) as [L|L].
    + left. apply Rltb_true; auto.
    + right. apply Rltb_true. lra.
Qed.

(** * hypotheses on the neighbour function: the facts of a correct range query (C07) *)
Definition nbrs_ok (nbrs : nat -> list nat) (n : nat) : Prop :=
  (forall i j, In j (nbrs i) -> j < n) /\
  (forall i j, In j (nbrs i) -> In i (nbrs j)) /\
  (forall i, NoDup (nbrs i)).

(** * non-vacuity: seven points on a line at 0 1 2 3 | 5 6 | 9, tolerance 1.5, min_points 3:
    core points 1 2 (cluster 0), border points 0 3, noise 4 5 6 *)
Definition ex_nbrs (i : nat) : list nat :=
  match i with
  | 0 => [0; 1] | 1 => [0; 1; 2] | 2 => [1; 2; 3] | 3 => [2; 3]
  | 4 => [4; 5] | 5 => [4; 5] | 6 => [6] | _ => []
  end.

Example ex_nbrs_ok : nbrs_ok ex_nbrs 7.
Proof.
  split; [|split].
  - intros i j. do 7 (destruct i as [|i]; [simpl; intros H; repeat (destruct H as [<-|H]; [lia|]); destruct H|]).
    simpl. tauto.
  - intros i j. do 7 (destruct i as [|i]; [simpl; intros H; repeat (destruct H as [<-|H]; [simpl; tauto|]); destruct H|]).
    simpl. tauto.
  - intros i. do 7 (destruct i as [|i]; [simpl; repeat constructor; simpl; intuition lia|]).
    simpl. constructor.
Qed.
Example ex_dbscan : dbscan ex_nbrs 3 7 = Some [Some 0; Some 0; Some 0; Some 0; None; None; None].
Proof. reflexivity. Qed.
Example ex_core : core ex_nbrs 3 1 /\ ~ core ex_nbrs 3 0 /\ conn ex_nbrs 3 1 2.
Proof.
  unfold core; simpl. split; [lia|split; [lia|]].
  apply (conn_step ex_nbrs 3 1 1 2); [constructor| | |]; unfold core; simpl; auto.
Qed.
(* two clusters and a contested border point: 0 1 2 | 3 | 4 5 6 with the bridge 3 adjacent to 2 and 4 only *)
Definition ex_nbrs2 (i : nat) : list nat :=
  match i with
  | 0 => [0; 1; 2] | 1 => [0; 1; 2] | 2 => [0; 1; 2; 3] | 3 => [2; 3; 4]
  | 4 => [3; 4; 5; 6] | 5 => [4; 5; 6] | 6 => [4; 5; 6] | _ => []
  end.
Example ex_dbscan2 :
  dbscan ex_nbrs2 4 7 = Some [Some 0; Some 0; Some 0; Some 0; Some 1; Some 1; Some 1].
Proof. reflexivity. Qed.
(* the same neighbour sets listed in another order give the same labelling *)
Definition ex_nbrs_rev (i : nat) : list nat := rev (ex_nbrs i).
Example ex_perm : forall i, Permutation (ex_nbrs i) (ex_nbrs_rev i).
Proof. intros i. apply Permutation_rev. Qed.

(* OPTICS on the first example with the binary64 instance: coordinates 0 1 2 3 5 6 9 *)
Definition ex_coord (i : nat) : float :=
  nth i [0; 1; 2; 3; 5; 6; 9]%float 0%float.
Definition ex_d (i j : nat) : float := PrimFloat.abs (PrimFloat.sub (ex_coord i) (ex_coord j)).
Example ex_optics :
  option_map (map (fun s => (s_index s, s_core s, s_reach s))) (optics B64_ops ex_nbrs ex_d 3 7) =
  Some [(0, None, None); (1, Some 1%float, None); (2, Some 1%float, Some 1%float);
        (3, None, Some 1%float); (4, None, None); (5, None, None); (6, None, None)].
Proof. vm_compute. reflexivity. Qed.
