(** C08 - executable model of linfa-clustering DBSCAN (dbscan/algorithm.rs: find_neighbors, the
    outer scan and the VecDeque growth loop of `transform`) and OPTICS (optics/algorithm.rs:
    find_neighbors incl. the stable sort, set_core_distance, get_seeds, the seed selection and the
    outer scan of `transform`), after the repairs F3/F4/F24.
    Both algorithms are written over an abstract neighbour oracle [nbrs i] = the index list returned
    by `NearestNeighbourIndex::within_range(row i, tolerance)` in the order the index returned it;
    OPTICS additionally over the distance [d i j] = `dist_fn.distance(row i, row j)`.
    The numeric part (distances, the range predicate) is polymorphic in NumOps. *)
From Coq Require Import List NArith Bool Arith.
From LinfaVerif Require Import Common.Num.
Import ListNotations.

Inductive metric := L1 | L2 | Linf.

(** * Distances (ndarray-stats: sequential Zip folds) and the range predicate of linfa-nn *)
Section Dist.
Context {F : Type} (o : NumOps F).

Definition row := list F.

Fixpoint fold2 (f : F -> F -> F -> F) (a b : row) (acc : F) : F :=
  match a, b with
  | x :: a', y :: b' => fold2 f a' b' (f acc x y)
  | _, _ => acc
  end.

Definition sq_l2 (a b : row) : F :=
  fold2 (fun acc x y => add o acc (mul o (sub o x y) (sub o x y))) a b (zero o).
Definition l1d (a b : row) : F := fold2 (fun acc x y => add o acc (abs o (sub o x y))) a b (zero o).
Definition linfd (a b : row) : F :=
  fold2 (fun acc x y => let df := abs o (sub o x y) in if ltb o acc df then df else acc) a b (zero o).

(* Distance::rdistance / Distance::distance / Distance::dist_to_rdist *)
Definition rdist (m : metric) (a b : row) : F :=
  match m with L1 => l1d a b | L2 => sq_l2 a b | Linf => linfd a b end.
Definition dist (m : metric) (a b : row) : F :=
  match m with L1 => l1d a b | L2 => sqrt o (sq_l2 a b) | Linf => linfd a b end.
Definition to_r (m : metric) (eps : F) : F :=
  match m with L2 => mul o eps eps | _ => eps end.

(* what every index must return as a set (LinearSearch returns exactly this list): the open ball,
   decided on reduced distances.  With zero features no index can be built (BuildError::ZeroDimension,
   the distance functions reject empty vectors): nothing is within range of anything. *)
Definition range_spec (m : metric) (dim : nat) (X : list row) (eps : F) (i : nat) : list nat :=
  match dim with
  | O => []
  | _ => filter (fun j => ltb o (rdist m (nth i X []) (nth j X [])) (to_r m eps)) (seq 0 (length X))
  end.
End Dist.

Fixpoint upd {A} (l : list A) (k : nat) (v : A) : list A :=
  match l, k with
  | [], _ => []
  | _ :: t, O => v :: t
  | a :: t, S k' => a :: upd t k' v
  end.

Definition is_none {A} (x : option A) : bool := match x with None => true | Some _ => false end.

(** * DBSCAN *)
Section Dbscan.
Variable nbrs : nat -> list nat.
Variable minpts : nat.

(* find_neighbors: count = everything the index returned (the point itself included),
   res = the still unlabelled neighbours other than the point *)
Definition find_neighbors (lab : list (option nat)) (idx : nat) : nat * list nat :=
  let l := nbrs idx in
  (length l, filter (fun i => is_none (nth i lab None) && negb (Nat.eqb i idx)) l).

(* `if !search_found[n] { search_queue.push_back(n); search_found[n] = true; }` *)
Definition push_new (qf : list nat * list bool) (n : nat) : list nat * list bool :=
  if nth n (snd qf) false then qf else (fst qf ++ [n], upd (snd qf) n true).

(* `while let Some(candidate_idx) = search_queue.pop_front()`; fuel exhausted = None *)
Fixpoint bfs (fuel cid : nat) (lab : list (option nat)) (found : list bool) (queue : list nat)
  : option (list (option nat) * list bool) :=
  match fuel with
  | O => None
  | S f =>
      match queue with
      | [] => Some (lab, found)
      | c :: q =>
          let found1 := upd found c false in
          let '(count, res) := find_neighbors lab c in
          let lab1 := upd lab c (Some cid) in
          if minpts <=? count
          then let '(q2, found2) := fold_left push_new res (q, found1) in bfs f cid lab1 found2 q2
          else bfs f cid lab1 found1 q
      end
  end.

Record dstate := { d_lab : list (option nat); d_found : list bool; d_cid : nat }.

(* `for i in 0..observations.nrows()` *)
Fixpoint dscan (is : list nat) (st : dstate) : option dstate :=
  match is with
  | [] => Some st
  | i :: rest =>
      if is_none (nth i (d_lab st) None) then
        let '(count, res) := find_neighbors (d_lab st) i in
        if count <? minpts then dscan rest st
        else
          let found1 := fold_left (fun f n => upd f n true) res (d_found st) in
          let lab1 := upd (d_lab st) i (Some (d_cid st)) in
          match bfs (S (length lab1)) (d_cid st) lab1 found1 res with
          | None => None
          | Some (lab2, found2) =>
              dscan rest {| d_lab := lab2; d_found := found2; d_cid := S (d_cid st) |}
          end
      else dscan rest st
  end.

Definition dbscan (n : nat) : option (list (option nat)) :=
  match dscan (seq 0 n) {| d_lab := repeat None n; d_found := repeat false n; d_cid := 0 |} with
  | Some st => Some (d_lab st)
  | None => None
  end.
End Dbscan.

(* `transform`: the ZeroDimension shortcut, then the scan *)
Definition dbscan_transform (dim n : nat) (nbrs : nat -> list nat) (minpts : nat)
  : option (list (option nat)) :=
  match dim with O => Some (repeat None n) | _ => dbscan nbrs minpts n end.

(** * OPTICS *)
Record sample (F : Type) := mkSample { s_index : nat; s_core : option F; s_reach : option F }.
Arguments mkSample {F}. Arguments s_index {F}. Arguments s_core {F}. Arguments s_reach {F}.

Section Optics.
Context {F : Type} (o : NumOps F).
Variable nbrs : nat -> list nat.
Variable d : nat -> nat -> F.
Variable minpts : nat.

(* `neighbors.sort()`: stable, by the distance to the candidate (Sample::cmp compares reachability_distance) *)
Fixpoint insert_by (key : nat -> F) (x : nat) (l : list nat) : list nat :=
  match l with
  | [] => [x]
  | y :: t => if ltb o (key y) (key x) then y :: insert_by key x t else x :: l
  end.
Fixpoint isort (key : nat -> F) (l : list nat) : list nat :=
  match l with [] => [] | x :: t => insert_by key x (isort key t) end.

(* find_neighbors: reachability_distance := distance(pt, candidate), then sort *)
Definition sorted_nbrs (i : nat) : list nat := isort (fun x => d x i) (nbrs i).

(* set_core_distance: neighbors.get(min_points - 1), distance(observation, that row) *)
Definition core_dist (i : nat) (nb : list nat) : option F :=
  match nth_error nb (minpts - 1) with Some x => Some (d i x) | None => None end.

Definition fmax (a b : F) : F := if ltb o a b then b else a.

(* get_seeds: the loop body for one unprocessed neighbour x of the sample sidx with core distance c *)
Definition seed_step (sidx : nat) (c : F) (st : list (option F) * list nat) (x : nat)
  : list (option F) * list nat :=
  let r := fmax c (d x sidx) in
  match nth x (fst st) None with
  | None => (upd (fst st) x (Some r), snd st ++ [x])
  | Some s => if ltb o r s then (upd (fst st) x (Some r), snd st) else st
  end.
Definition get_seeds (sidx : nat) (c : F) (nb : list nat) (processed : list bool)
  (reach : list (option F)) (seeds : list nat) : list (option F) * list nat :=
  fold_left (seed_step sidx c) (filter (fun x => negb (nth x processed false)) nb) (reach, seeds).

(* `seeds.sort_unstable_by(|a, b| b.cmp(a))`: indices, descending *)
Fixpoint insert_desc (x : nat) (l : list nat) : list nat :=
  match l with
  | [] => [x]
  | y :: t => if y <? x then x :: l else y :: insert_desc x t
  end.
Definition sort_desc (l : list nat) : list nat := fold_right insert_desc [] l.

(* Ord for Sample on Option<NoisyFloat>: None < Some *)
Definition olt (a b : option F) : bool :=
  match a, b with
  | None, Some _ => true
  | Some x, Some y => ltb o x y
  | _, _ => false
  end.

(* Iterator::min_by keeps the first of several equally minimal elements *)
Fixpoint pick_min (reach : list (option F)) (best : nat) (l : list nat) : nat :=
  match l with
  | [] => best
  | x :: t => if olt (nth x reach None) (nth best reach None) then pick_min reach x t
              else pick_min reach best t
  end.

Fixpoint remove_first (x : nat) (l : list nat) : list nat :=
  match l with [] => [] | y :: t => if Nat.eqb x y then t else y :: remove_first x t end.

Record ostate := { o_reach : list (option F); o_proc : list bool; o_seeds : list nat;
                   o_out : list (sample F) }.

(* `while !seeds.is_empty()` *)
Fixpoint inner (fuel : nat) (st : ostate) : option ostate :=
  match fuel with
  | O => None
  | S f =>
      match sort_desc (o_seeds st) with
      | [] => Some st
      | s0 :: rest =>
          let x := pick_min (o_reach st) s0 rest in
          let seeds1 := remove_first x (s0 :: rest) in
          let proc1 := upd (o_proc st) x true in
          let nb := sorted_nbrs x in
          let cd := core_dist x nb in
          let out1 := o_out st ++ [mkSample x cd (nth x (o_reach st) None)] in
          match cd with
          | Some c =>
              let '(reach2, seeds2) := get_seeds x c nb proc1 (o_reach st) seeds1 in
              inner f {| o_reach := reach2; o_proc := proc1; o_seeds := seeds2; o_out := out1 |}
          | None =>
              inner f {| o_reach := o_reach st; o_proc := proc1; o_seeds := seeds1; o_out := out1 |}
          end
      end
  end.

(* the `expected` / `points_index` search at the head of the outer loop, literally:
   `for index in processed.range(index..) { if expected != *index { points_index = expected; break; } expected += 1; }` *)
Fixpoint np_scan (l : list nat) (expected pi : nat) : nat :=
  match l with
  | [] => pi
  | j :: t => if Nat.eqb expected j then np_scan t (S expected) pi else expected
  end.
Definition next_point (proc : list bool) (index : nat) : nat :=
  let expected := if existsb (fun b => b) proc then index else 0 in
  np_scan (filter (fun j => nth j proc false) (seq index (length proc - index))) expected index.

(* `loop { if index == points.len() .. }` *)
Fixpoint oscan (is : list nat) (st : ostate) : option ostate :=
  match is with
  | [] => Some st
  | index :: rest =>
      if nth index (o_proc st) false then oscan rest st
      else
        let pi := next_point (o_proc st) index in
        let nb := sorted_nbrs pi in
        let cd := core_dist pi nb in
        let proc1 := upd (o_proc st) pi true in
        let out1 := o_out st ++ [mkSample pi cd (nth pi (o_reach st) None)] in
        match cd with
        | Some c =>
            (* seeds.clear(); the first point of a cluster is listed before the points it reaches *)
            let '(reach2, seeds2) := get_seeds pi c nb proc1 (o_reach st) [] in
            match inner (S (length proc1))
                        {| o_reach := reach2; o_proc := proc1; o_seeds := seeds2; o_out := out1 |} with
            | None => None
            | Some st' => oscan rest st'
            end
        | None =>
            oscan rest {| o_reach := o_reach st; o_proc := proc1; o_seeds := o_seeds st; o_out := out1 |}
        end
  end.

Definition optics (n : nat) : option (list (sample F)) :=
  match oscan (seq 0 n) {| o_reach := repeat None n; o_proc := repeat false n; o_seeds := [];
                            o_out := [] |} with
  | Some st => Some (o_out st)
  | None => None
  end.
End Optics.

Definition optics_transform {F} (o : NumOps F) (dim n : nat) (nbrs : nat -> list nat)
  (d : nat -> nat -> F) (minpts : nat) : option (list (sample F)) :=
  match dim with
  | O => Some (map (fun i => mkSample i None None) (seq 0 n))
  | _ => optics o nbrs d minpts n
  end.

(** hyper-parameter guards (dbscan/hyperparams.rs, optics/hyperparams.rs): accepted iff
    min_points > 1 and tolerance > 0 *)
Definition params_ok {F} (o : NumOps F) (minpts : N) (eps : F) : bool :=
  negb (N.leb minpts 1) && negb (leb o eps (zero o)).
