(** C10 - the fit procedure of the Gaussian mixture (gaussian_mixture/algorithm.rs), executable
    definitions only.

    Part 1: the control flow of `GmmValidParams::fit` around the EM iterations - the n_runs loop, the
      max_n_iterations loop with its convergence test, the comparison of lower bounds, the selection of
      the best run and the final match that turns "no converged best run" into an error - with the
      numeric kernels (initialisation, e_step, m_step, refresh_precisions_full) as section variables.
    Part 2: the kernels themselves, polymorphic in NumOps: linfa-linalg's Cholesky factorisation
      (cholesky_inplace_dirty + triangular_inplace) and forward substitution
      (solve_triangular_system), the pivot guard of commit 41f7336, compute_precisions_full,
      compute_log_det_cholesky_full, estimate_log_gaussian_prob, estimate_weighted_log_prob,
      estimate_log_prob_resp, e_step, m_step and `new` (given the initial responsibilities).
    Part 3: the binary64 instance that is run against the implementation: exp and ln are partial -
      exact where every IEEE libm is exact (exp 0 = 1, exp x = +0 for x < -746, ln 1 = 0), tabulated
      from the implementation's own libm otherwise (the table is shipped by the harness and checked
      against an enclosure in C10/Corr.v), and a model run that needs any other value answers
      "unknown" (error code 99) instead of guessing. *)
From Coq Require Import List NArith ZArith Bool Floats.
From LinfaVerif Require Import Common.Num Common.NdSum C10.Model.
Import ListNotations.

Inductive res (A : Type) := ROk (a : A) | RErr (e : N).
Arguments ROk {A} a. Arguments RErr {A} e.

(** error codes: the variants of GmmError, in the order of errors.rs (1 = InvalidValue) *)
Definition E_linalg : N := 2.          (* LinalgError(NotPositiveDefinite) *)
Definition E_empty : N := 3.           (* EmptyCluster *)
Definition E_lower_bound : N := 4.     (* LowerBoundError *)
Definition E_not_converged : N := 5.   (* NotConverged *)
Definition E_kmeans : N := 6.          (* KMeansError (initialisation) *)
Definition E_minmax : N := 8.          (* MinMaxError (nk.min() on a NaN) *)
Definition E_unknown : N := 99.        (* not an error of the implementation: the binary64 model run
                                          needed an exp / ln value it does not know exactly *)

(* ------------------------------------------------------------------------------------------ *)
(** * Part 1: control flow of fit *)
Section FitFlow.
Context {F : Type} (o : NumOps F).
Context {St LR : Type}.
Variable neg_inf : F.                           (* -F::infinity() *)
Variable e_step : St -> res (F * LR).           (* (mean log-likelihood, log responsibilities) *)
Variable m_step : St -> LR -> res St.
Variable refresh : St -> St.                    (* refresh_precisions_full *)
Variable tol : F.
Variable max_iter : nat.

(** for n_iter in 0..max_n_iterations { prev = lb; (lpn, lr) = e_step?; m_step?; lb = lpn;
      if |lb - prev| < tol { converged_iter = Some(n_iter); break } }
    result: the state, the last lower bound, the convergence flag *)
Fixpoint em_iters (fuel : nat) (n_iter : N) (g : St) (lb : F) : res (St * F * option N) :=
  match fuel with
  | O => ROk (g, lb, None)
  | S fuel' =>
      match e_step g with
      | RErr e => RErr e
      | ROk (lpn, lr) =>
          match m_step g lr with
          | RErr e => RErr e
          | ROk g' =>
              if ltb o (abs o (sub o lpn lb)) tol then ROk (g', lpn, Some n_iter)
              else em_iters fuel' (N.succ n_iter) g' lpn
          end
      end
  end.

(** the mutable variables of the n_runs loop *)
Record acc := mk_acc {
  a_gmm : St;                 (* gmm: every run continues from the state the previous one left *)
  a_max : F;                  (* max_lower_bound *)
  a_best : option St;         (* best_params *)
  a_iter : option N           (* best_iter *)
}.

Definition one_run (a : acc) : res acc :=
  match em_iters max_iter 0%N (a_gmm a) neg_inf with
  | RErr e => RErr e
  | ROk (g, lb, conv) =>
      if ltb o (a_max a) lb then
        let g' := refresh g in
        ROk {| a_gmm := g'; a_max := lb; a_best := Some g'; a_iter := conv |}
      else ROk {| a_gmm := g; a_max := a_max a; a_best := a_best a; a_iter := a_iter a |}
  end.

Fixpoint runs (n : nat) (a : acc) : res acc :=
  match n with
  | O => ROk a
  | S n' => match one_run a with RErr e => RErr e | ROk a' => runs n' a' end
  end.

Definition acc0 (g : St) : acc := {| a_gmm := g; a_max := neg_inf; a_best := None; a_iter := None |}.

Definition finish (a : acc) : res St :=
  match a_iter a with
  | Some _ => match a_best a with Some g => ROk g | None => RErr E_lower_bound end
  | None => RErr E_not_converged
  end.

Definition fit_gen (n_runs : nat) (init : res St) : res St :=
  match init with
  | RErr e => RErr e
  | ROk g0 => match runs n_runs (acc0 g0) with RErr e => RErr e | ROk a => finish a end
  end.

(** specification-side view of the same loop: the outcome (state before the refresh, lower bound,
    convergence flag) of every run, in order *)
Fixpoint run_results (n : nat) (g : St) (mx : F) : res (list (St * F * option N)) :=
  match n with
  | O => ROk []
  | S n' =>
      match em_iters max_iter 0%N g neg_inf with
      | RErr e => RErr e
      | ROk (g', lb, c) =>
          let accepted := ltb o mx lb in
          match run_results n' (if accepted then refresh g' else g') (if accepted then lb else mx) with
          | RErr e => RErr e
          | ROk l => ROk ((g', lb, c) :: l)
          end
      end
  end.
End FitFlow.

(* ------------------------------------------------------------------------------------------ *)
(** * Part 2: the kernels *)
Record gmm (F : Type) := mk_gmm {
  s_w : list F;                       (* weights *)
  s_mu : list (list F);               (* means *)
  s_cov : list (list (list F));       (* covariances *)
  s_prec : list (list (list F));      (* precisions (refreshed when a run is accepted) *)
  s_pchol : list (list (list F))      (* precisions_chol *)
}.
Arguments mk_gmm {F}. Arguments s_w {F}. Arguments s_mu {F}. Arguments s_cov {F}.
Arguments s_prec {F}. Arguments s_pchol {F}.

Section Kernels.
Context {F : Type} (o : NumOps F).
Variable feps : F.                    (* F::epsilon() *)
Variable ten_eps : F.                 (* F::cast(10.) * F::epsilon() *)

Definition nthF (l : list F) (i : nat) : F := nth i l (zero o).
Definition mrow (M : list (list F)) (i : nat) : list F := nth i M [].

(** linfa-linalg cholesky_inplace_dirty, row j: for k in 0..j { s = sum_{i<k} L[k][i] L[j][i];
    s = (A[j][k] - s) / L[k][k]; L[j][k] = s; d += s s }.  [acc] holds L[j][0..k); the rows [Ls] are
    padded to full length, [combine] cuts them to the k entries already computed *)
Fixpoint chol_row (Ls : list (list F)) (k : nat) (arow acc : list F) (d : F) : list F * F :=
  match Ls with
  | [] => (acc, d)
  | Lk :: Ls' =>
      let s := dotv o Lk acc in
      let s' := div o (sub o (nthF arow k) s) (nthF Lk k) in
      chol_row Ls' (S k) arow (acc ++ [s']) (add o d (mul o s' s'))
  end.

(** d = A[j][j] - d; if d <= 0 { return Err(NotPositiveDefinite) }; L[j][j] = sqrt d; the entries
    above the diagonal are zeroed by triangular_inplace(Lower).  Only the lower triangle of A is read *)
Fixpoint chol_aux (n : nat) (rows : list (list F)) (j : nat) (Ls : list (list F)) : option (list (list F)) :=
  match rows with
  | [] => Some Ls
  | arow :: rest =>
      let '(acc, d) := chol_row Ls 0 arow [] (zero o) in
      let dj := sub o (nthF arow j) d in
      if leb o dj (zero o) then None
      else chol_aux n rest (S j) (Ls ++ [acc ++ [sqrt o dj] ++ repeat (zero o) (n - S j)])
  end.
Definition cholesky (A : list (list F)) : option (list (list F)) := chol_aux (length A) A 0 [].

(** the guard of commit 41f7336: pivot = L[j][j]^2 <= (n + 2) eps A[j][j] is an error *)
Definition pivots_ok (A L : list (list F)) : bool :=
  let n := length A in
  forallb (fun j =>
     let ljj := nthF (mrow L j) j in
     negb (leb o (mul o ljj ljj) (mul o (mul o (of_N o (N.of_nat (n + 2))) feps) (nthF (mrow A j) j))))
    (seq 0 n).

(** solve_triangular_system (Lower), one right-hand side column b: for i in 0..n { coeff = b[i] / L[i][i];
    b[i] = coeff; b[i+1..] += (-coeff) * L[i+1.., i] } *)
Fixpoint fwd_col (n : nat) (L : list (list F)) (i fuel : nat) (b : list F) : list F :=
  match fuel with
  | O => b
  | S f =>
      let coeff := div o (nthF b i) (nthF (mrow L i) i) in
      let b' := map (fun r => if Nat.ltb r i then nthF b r
                              else if Nat.eqb r i then coeff
                              else add o (nthF b r) (mul o (opp o coeff) (nthF (mrow L r) i))) (seq 0 n) in
      fwd_col n L (S i) f b'
  end.
Definition unit_vec (n k : nat) : list F := map (fun r => if Nat.eqb r k then one o else zero o) (seq 0 n).
(** decomp.solve_triangular_into(eye, Lower), then transposed: row k of precisions_chol is the
    solution column of the k-th unit vector *)
Definition inv_lower_t (L : list (list F)) : list (list F) :=
  let n := length L in map (fun k => fwd_col n L 0 n (unit_vec n k)) (seq 0 n).

(** compute_precisions_cholesky_full, one component / all components *)
Definition prec_chol_one (A : list (list F)) : option (list (list F)) :=
  match cholesky A with
  | None => None
  | Some L => if pivots_ok A L then Some (inv_lower_t L) else None
  end.
Fixpoint prec_chol_full (covs : list (list (list F))) : option (list (list (list F))) :=
  match covs with
  | [] => Some []
  | A :: rest =>
      match prec_chol_one A with
      | None => None
      | Some P => match prec_chol_full rest with None => None | Some Ps => Some (P :: Ps) end
      end
  end.

(** compute_precisions_full: prec_chol . prec_chol^T (a matrix product: plain loop order here) *)
Definition prec_of_chol (P : list (list F)) : list (list F) := map (fun a => map (fun b => dotv o a b) P) P.

(** estimate_gaussian_parameters with its two error exits: nk.min()? fails on a NaN (MinMaxError),
    nk.min() < 10 eps is the EmptyCluster error *)
Definition has_nan (l : list F) : bool := existsb (fun v => negb (eqb o v v)) l.
Definition egp_res (X resp : list (list F)) (reg : F) : res (gparams (F := F)) :=
  if has_nan (nk_of o resp) then RErr E_minmax
  else match estimate_gaussian_parameters o ten_eps X resp reg with
       | None => RErr E_empty
       | Some gp => ROk gp
       end.

(** GaussianMixtureModel::new after the initial responsibilities have been drawn *)
Definition init_of_resp (X resp : list (list F)) (reg : F) : res (gmm F) :=
  match egp_res X resp reg with
  | RErr e => RErr e
  | ROk gp =>
      match prec_chol_full (g_covs gp) with
      | None => RErr E_linalg
      | Some Ps =>
          ROk {| s_w := weights_of o (g_nk gp) (N.of_nat (length X)); s_mu := g_means gp; s_cov := g_covs gp;
                 s_prec := map prec_of_chol Ps; s_pchol := Ps |}
      end
  end.

Definition refresh_prec (g : gmm F) : gmm F :=
  {| s_w := s_w g; s_mu := s_mu g; s_cov := s_cov g; s_prec := map prec_of_chol (s_pchol g); s_pchol := s_pchol g |}.

Variables fexp fln : F -> F.
Variable neg_half : F.                (* F::cast(-0.5) *)
Variable dln2pi : F.                  (* F::cast(n_features as f64 * f64::ln(2 PI)) *)

(** compute_log_det_cholesky_full: sum of the logarithms of the diagonal *)
Definition diag_of (P : list (list F)) : list F := map (fun j => nthF (mrow P j) j) (seq 0 (length P)).
Definition log_det (P : list (list F)) : F := usum o (map fln (diag_of P)).

(** estimate_log_gaussian_prob, one observation and one component:
    sum_b ((x - mu) . prec_chol)[b]^2 *)
Definition maha (x mu : list F) (P : list (list F)) : F :=
  let diff := vsub o x mu in
  usum o (map (fun b => let y := dotv o diff (col o b P) in mul o y y) (seq 0 (length mu))).

(** estimate_weighted_log_prob, one observation:
    ((-0.5 (maha + d ln 2pi)) + log_det_k) + ln w_k *)
Definition wlp_row (g : gmm F) (lds lws : list F) (x : list F) : list F :=
  map (fun k => add o (add o (mul o neg_half (add o (maha x (mrow (s_mu g) k) (nth k (s_pchol g) [])) dln2pi))
                             (nthF lds k)) (nthF lws k))
      (seq 0 (length (s_w g))).

Record estep := mk_estep {
  e_wlp : list (list F);      (* weighted_log_prob *)
  e_lpn : list F;             (* log_prob_norm *)
  e_lr : list (list F);       (* log_resp *)
  e_lb : F                    (* log_prob_norm.mean() *)
}.

Definition e_step_full (X : list (list F)) (g : gmm F) : estep :=
  let lds := map log_det (s_pchol g) in
  let lws := map fln (s_w g) in
  let W := map (wlp_row g lds lws) X in
  let lpn := map (lse_stable o fexp fln) W in
  {| e_wlp := W; e_lpn := lpn;
     e_lr := map (fun wl => log_resp o (snd wl) (fst wl)) (combine W lpn);
     e_lb := div o (usum o lpn) (of_N o (N.of_nat (length X))) |}.

Definition e_step (X : list (list F)) (g : gmm F) : res (F * list (list F)) :=
  let e := e_step_full X g in ROk (e_lb e, e_lr e).

(** m_step: responsibilities = exp(log_resp); parameters; Cholesky factors of the precisions.  The
    published precisions are left as they are (refreshed only when a run is accepted) *)
Definition m_step (X : list (list F)) (reg : F) (g : gmm F) (lr : list (list F)) : res (gmm F) :=
  match egp_res X (map (map fexp) lr) reg with
  | RErr e => RErr e
  | ROk gp =>
      match prec_chol_full (g_covs gp) with
      | None => RErr E_linalg
      | Some Ps =>
          ROk {| s_w := weights_of o (g_nk gp) (N.of_nat (length X)); s_mu := g_means gp; s_cov := g_covs gp;
                 s_prec := s_prec g; s_pchol := Ps |}
      end
  end.

(** every argument the exponential / the logarithm is applied to in one e_step + m_step *)
Definition ln_args (X : list (list F)) (g : gmm F) : list F :=
  let e := e_step_full X g in
  s_w g ++ concat (map diag_of (s_pchol g))
  ++ map (fun w => usum o (map (fun x => fexp (sub o x (row_max o w))) w)) (e_wlp e).
Definition exp_args (X : list (list F)) (g : gmm F) : list F :=
  let e := e_step_full X g in
  concat (map (fun w => map (fun x => sub o x (row_max o w)) w) (e_wlp e)) ++ concat (e_lr e).

(** the whole fit from given initial responsibilities (or the error of the initialiser) *)
Definition fit_model (neg_inf tol : F) (max_iter n_runs : nat) (e_step' : gmm F -> res (F * list (list F)))
                     (X : list (list F)) (reg : F) (init : res (list (list F))) : res (gmm F) :=
  fit_gen o neg_inf e_step' (m_step X reg) refresh_prec tol max_iter n_runs
          (match init with RErr e => RErr e | ROk r0 => init_of_resp X r0 reg end).
End Kernels.

(* ------------------------------------------------------------------------------------------ *)
(** * Part 3: the binary64 instance *)
Definition eps64 : float := 0x1p-52%float.
Definition ten_eps64 : float := 0x1.4p-49%float.               (* 10 * f64::EPSILON *)
Definition m746_64 : float := (-0x1.75p+9)%float.              (* -746 *)

Fixpoint lookup64 (tab : list (float * float)) (x : float) : option float :=
  match tab with
  | [] => None
  | (a, y) :: t => if PrimFloat.eqb a x then Some y else lookup64 t x
  end.

(** exp: 1 at 0, +0 below -746 (the smallest positive binary64 is 2^-1074 > e^-745.2), tabulated otherwise *)
Definition known_exp64 (tab : list (float * float)) (x : float) : bool :=
  PrimFloat.eqb x 0%float || PrimFloat.ltb x m746_64 || match lookup64 tab x with Some _ => true | None => false end.
Definition fexp64 (tab : list (float * float)) (x : float) : float :=
  if PrimFloat.eqb x 0%float then 1%float
  else if PrimFloat.ltb x m746_64 then 0%float
  else match lookup64 tab x with Some y => y | None => nan end.
(** ln: 0 at 1, tabulated otherwise *)
Definition known_ln64 (tab : list (float * float)) (x : float) : bool :=
  PrimFloat.eqb x 1%float || match lookup64 tab x with Some _ => true | None => false end.
Definition fln64 (tab : list (float * float)) (x : float) : float :=
  if PrimFloat.eqb x 1%float then 0%float
  else match lookup64 tab x with Some y => y | None => nan end.

Section Fit64.
Variables lntab exptab : list (float * float).
Variable dln2pi : float.
Let o64 := B64_ops.

Definition e_step_full64 := e_step_full o64 (fexp64 exptab) (fln64 lntab) (-0.5)%float dln2pi.
(** e_step of the binary64 run: "unknown" unless every exp / ln it (and the m_step after it) applies is exact *)
Definition e_step64 (X : list (list float)) (g : gmm float) : res (float * list (list float)) :=
  if forallb (known_ln64 lntab) (ln_args o64 (fexp64 exptab) (fln64 lntab) (-0.5)%float dln2pi X g)
     && forallb (known_exp64 exptab) (exp_args o64 (fexp64 exptab) (fln64 lntab) (-0.5)%float dln2pi X g)
  then e_step o64 (fexp64 exptab) (fln64 lntab) (-0.5)%float dln2pi X g
  else RErr E_unknown.

Definition fit64 (tol : float) (max_iter n_runs : nat) (X : list (list float)) (reg : float)
                 (init : res (list (list float))) : res (gmm float) :=
  fit_model o64 eps64 ten_eps64 (fexp64 exptab) neg_infinity tol max_iter n_runs (e_step64 X) X reg init.
End Fit64.
