(** C10 - lemmas: soundness of the checker [gmm_ok] (pattern B) and the pattern-A facts about the
    responsibilities (max-shifted vs naive log-sum-exp). *)
From Coq Require Import List NArith ZArith QArith Qreals Reals Bool Lra Lia Floats.
From LinfaVerif Require Import Common.Num Common.NdSum Common.QF Common.LDL C10.Model.
Import ListNotations.
Local Open Scope R_scope.

(* ------------------------------------------------------------------------------------------ *)
(** * Real value of a float *)
Definition RV (x : float) : R := Q2R (f64_Qr x).
Notation RVv := (map RV) (only parsing).
Notation RVm := (map (map RV)) (only parsing).

(* the unnormalised value agrees with the shared [f64_Q] *)
Lemma RV_f64_Q x : RV x = Q2R (f64_Q x).
Proof.
  unfold RV, f64_Qr, f64_Q, SF2Qd, SF2Q, SF2Qr. destruct (Prim2SF x); try reflexivity.
  symmetry. apply Qeq_eqR, Qred_correct.
Qed.

Lemma f64_Qr_0 : f64_Qr 0%float = 0%Q.
Proof. reflexivity. Qed.

Lemma Q2Rv_Qv v : map Q2R (Qv v) = RVv v.
Proof. unfold Qv. rewrite map_map. reflexivity. Qed.
Lemma Q2Rm_Qm M : map (map Q2R) (Qm M) = RVm M.
Proof. unfold Qm. rewrite map_map. apply map_ext. intros r. apply Q2Rv_Qv. Qed.

Lemma nth_Qv j v : nth j (Qv v) 0%Q = f64_Qr (nth j v 0%float).
Proof. unfold Qv. rewrite <- f64_Qr_0. apply map_nth. Qed.
Lemma nth_Qm i M : nth i (Qm M) [] = Qv (nth i M []).
Proof. unfold Qm. change (@nil Q) with (Qv []). apply map_nth. Qed.

(* ------------------------------------------------------------------------------------------ *)
(** * Small tools *)
Lemma forallb_seq f n : forallb f (seq 0 n) = true -> forall i, (i < n)%nat -> f i = true.
Proof. intros H i Hi. rewrite forallb_forall in H. apply H. apply in_seq. lia. Qed.

Lemma Qabs_le_R a b : Qleb (Qabs' a) b = true -> Rabs (Q2R a) <= Q2R b.
Proof. intros H. apply Qleb_R in H. rewrite Qabs'_R in H. exact H. Qed.

Lemma Q2R_1' : Q2R 1 = 1. Proof. exact RMicromega.Q2R_1. Qed.

Lemma forallb_Forall {A} (f : A -> bool) (P : A -> Prop) l :
  (forall a, f a = true -> P a) -> forallb f l = true -> Forall P l.
Proof.
  intros HfP H. apply Forall_forall. intros a Ha. apply HfP. rewrite forallb_forall in H. auto.
Qed.

Lemma forallb_combine_nth {A B} (f : A * B -> bool) (l1 : list A) (l2 : list B) d1 d2 :
  length l1 = length l2 -> forallb f (combine l1 l2) = true ->
  forall j, (j < length l1)%nat -> f (nth j l1 d1, nth j l2 d2) = true.
Proof.
  intros L H j Hj. rewrite forallb_forall in H. apply H.
  rewrite <- (combine_nth l1 l2 j d1 d2 L). apply nth_In. rewrite combine_length. lia.
Qed.

Lemma flagN_0 b c : c <> 0%N -> flagN b c = 0%N -> b = true.
Proof. destruct b; auto; simpl; intros H E; contradiction. Qed.

(* ------------------------------------------------------------------------------------------ *)
(** * The statement certified by the checker *)

Definition weights_spec (k : nat) (w : list float) : Prop :=
  length w = k /\ Forall (fun x => 0 < RV x) w /\ Rabs (Rsum (RVv w) - 1) <= Q2R d40.

(** the coordinate lies between two observed values of feature j, up to the stated slack *)
Definition coord_spec (X : list (list float)) (j : nat) (v : R) : Prop :=
  exists lo hi, In lo (fcol j X) /\ In hi (fcol j X) /\
    RV lo - Q2R (bbox_slack (f64_Qr lo) (f64_Qr hi)) <= v <= RV hi + Q2R (bbox_slack (f64_Qr lo) (f64_Qr hi)).
Definition mean_spec (X : list (list float)) (d : nat) (mu : list float) : Prop :=
  length mu = d /\ forall j, (j < d)%nat -> coord_spec X j (RV (nth j mu 0%float)).

(** symmetric up to the tolerance, x^T S x > 0 for every x <> 0, and x^T S x >= (1 - 2^-10) reg |x|^2 *)
Definition cov_spec (d : nat) (reg : float) (S : list (list float)) : Prop :=
  (forall i j, (i < d)%nat -> (j < d)%nat ->
     Rabs (RV (nth j (nth i S []) 0%float) - RV (nth i (nth j S []) 0%float)) <= Q2R (sym_tol d (Qm S))) /\
  (forall x, length x = d -> ~ Forall (fun v => v = 0) x -> 0 < Rquad (RVm S) x) /\
  (forall x, length x = d -> Q2R (reg_part (f64_Qr reg)) * Rdot x x <= Rquad (RVm S) x).

(** entry (i,j) of the exact product P S is within the tolerance of the identity's *)
Definition prec_spec (d : nat) (P S : list (list float)) : Prop :=
  forall i j, (i < d)%nat -> (j < d)%nat ->
    Rabs (Rdot (RVv (nth i P [])) (RVv (fcol j S)) - (if Nat.eqb i j then 1 else 0))
    <= Q2R (prec_tol d (Qm P) (Qm S)).

Definition proba_row_spec (k : nat) (tol : Q) (row : list float) : Prop :=
  length row = k /\ fin_vec row = true /\ Forall (fun p => 0 <= RV p) row /\
  Rabs (Rsum (RVv row) - 1) <= Q2R tol.
Definition pred_spec (row : list float) (pred : N) : Prop :=
  exists pm, nth_error row (N.to_nat pred) = Some pm /\ forall p, In p row -> RV p <= RV pm.

Definition mps_of (m : fitted) : list (list Q * Q) := combine (Qm (m_means m)) (map maxabs (map Qm (m_precs m))).

Definition gmm_valid (X : list (list float)) (k d : nat) (reg : float) (m : fitted)
                     (query proba : list (list float)) (pred : list N) : Prop :=
  X <> [] /\ params_finite m = true /\ shapes_ok k d m = true /\
  weights_spec k (m_weights m) /\
  Forall (mean_spec X d) (m_means m) /\
  Forall (cov_spec d reg) (m_covs m) /\
  (forall P S, In (P, S) (combine (m_precs m) (m_covs m)) -> prec_spec d P S) /\
  length proba = length query /\ length pred = length query /\
  (forall x row, In (x, row) (combine query proba) -> proba_row_spec k (row_tol d (mps_of m) (Qv x)) row) /\
  (forall row p, In (row, p) (combine proba pred) -> pred_spec row p).

(* ------------------------------------------------------------------------------------------ *)
(** * Soundness, conjunct by conjunct *)

Lemma weights_ok_sound k w : weights_ok k (Qv w) = true -> weights_spec k w.
Proof.
  unfold weights_ok, weights_spec. intros H.
  apply andb_true_iff in H as [H H3]. apply andb_true_iff in H as [H1 H2].
  apply Nat.eqb_eq in H1. unfold Qv in H1. rewrite map_length in H1.
  split; [exact H1|]. split.
  - apply Forall_forall. intros x Hx. rewrite forallb_forall in H2.
    assert (Hq : Qltb 0 (f64_Qr x) = true) by (apply H2; unfold Qv; apply in_map; exact Hx).
    apply Qltb_R in Hq. rewrite RMicromega.Q2R_0 in Hq. exact Hq.
  - apply Qabs_le_R in H3. rewrite Q2R_minus, Q2R_sum, Q2R_1', Q2Rv_Qv in H3. exact H3.
Qed.

Lemma fold_pick_in {A} (g : A -> A -> bool) : forall t x,
  In (fold_left (fun a v => if g v a then v else a) t x) (x :: t).
Proof.
  induction t as [|y t IH]; intros x; simpl; auto.
  destruct (g y x).
  - destruct (IH y) as [E|I]; [right; left; exact E | right; right; exact I].
  - destruct (IH x) as [E|I]; [left; exact E | right; right; exact I].
Qed.

Lemma col_lo_f_in c : c <> [] -> In (col_lo_f c) c.
Proof. destruct c as [|x t]; [congruence|]. intros _. apply (fold_pick_in (fun v a => PrimFloat.ltb v a)). Qed.
Lemma col_hi_f_in c : c <> [] -> In (col_hi_f c) c.
Proof. destruct c as [|x t]; [congruence|]. intros _. apply (fold_pick_in (fun v a => PrimFloat.ltb a v)). Qed.

Lemma fcol_nonempty j X : X <> [] -> fcol j X <> [].
Proof. destruct X; [congruence|]. discriminate. Qed.

Lemma bbox_length X d : length (bbox X d) = d.
Proof. unfold bbox. rewrite map_length, seq_length. reflexivity. Qed.

Lemma nth_map_lt {A B} (f : A -> B) l j d0 d1 : (j < length l)%nat -> nth j (map f l) d1 = f (nth j l d0).
Proof.
  revert j. induction l as [|a l IH]; intros j Hj; simpl in *; [lia|].
  destruct j; auto. apply IH. lia.
Qed.

Lemma bbox_nth X d j : (j < d)%nat ->
  nth j (bbox X d) (0%float, 0%float) = (col_lo_f (fcol j X), col_hi_f (fcol j X)).
Proof.
  intros Hj. unfold bbox. rewrite (nth_map_lt _ _ j 0%nat) by (rewrite seq_length; exact Hj).
  rewrite seq_nth by exact Hj. reflexivity.
Qed.

Lemma mean_in_bbox_sound X d mu : X <> [] -> mean_in_bbox (bbox X d) (Qv mu) = true -> mean_spec X d mu.
Proof.
  intros HX H. unfold mean_in_bbox in H. apply andb_true_iff in H as [H1 H2].
  apply Nat.eqb_eq in H1. rewrite bbox_length in H1. unfold Qv in H1 at 1. rewrite map_length in H1.
  split; [exact H1|]. intros j Hj.
  assert (L : length (bbox X d) = length (Qv mu)) by (rewrite bbox_length; unfold Qv; rewrite map_length; lia).
  pose proof (forallb_combine_nth _ _ _ (0%float, 0%float) 0%Q L H2 j) as Hc.
  rewrite bbox_length in Hc. specialize (Hc Hj). cbn [fst snd] in Hc.
  rewrite (bbox_nth X d j Hj), nth_Qv in Hc. unfold coord_in_box in Hc. cbn [fst snd] in Hc.
  apply andb_true_iff in Hc as [Ha Hb]. apply Qleb_R in Ha. apply Qleb_R in Hb.
  rewrite Q2R_minus in Ha. rewrite Q2R_plus in Hb.
  exists (col_lo_f (fcol j X)), (col_hi_f (fcol j X)).
  split; [apply col_lo_f_in, fcol_nonempty, HX|].
  split; [apply col_hi_f_in, fcol_nonempty, HX|].
  unfold RV. split; assumption.
Qed.

Lemma cov_ok_sound d reg S :
  cov_ok d (Qm S) = true -> cov_has_reg d (f64_Qr reg) (Qm S) = true -> cov_spec d reg S.
Proof.
  unfold cov_ok, cov_has_reg. intros H Hr. apply andb_true_iff in H as [Hs Hp].
  split; [|split].
  - intros i j Hi Hj. unfold sym_within in Hs.
    pose proof (forallb_seq _ _ (forallb_seq _ _ Hs i Hi) j Hj) as E. cbv beta in E.
    apply Qabs_le_R in E. rewrite Q2R_minus in E.
    rewrite !nth_Qm, !nth_Qv in E. exact E.
  - intros x Lx Hx. rewrite <- Q2Rm_Qm. exact (ldl_pd_sound d _ Hp x Lx Hx).
  - intros x Lx. rewrite <- Q2Rm_Qm. exact (ldl_psd_shift_sound d _ _ Hr x Lx).
Qed.

Lemma Q2Rv_colQ j S : map Q2R (colQ j (Qm S)) = RVv (fcol j S).
Proof.
  unfold colQ, fcol, Qm. rewrite !map_map. apply map_ext. intros r. rewrite nth_Qv. reflexivity.
Qed.

Lemma Q2R_kron i j : Q2R (kron i j) = if Nat.eqb i j then 1 else 0.
Proof. unfold kron. destruct (Nat.eqb i j); [apply Q2R_1' | apply RMicromega.Q2R_0]. Qed.

Lemma prec_ok_sound d P S : prec_ok d (Qm P) (Qm S) = true -> prec_spec d P S.
Proof.
  unfold prec_ok. intros H. apply andb_true_iff in H as [_ H].
  intros i j Hi Hj.
  pose proof (forallb_seq _ _ (forallb_seq _ _ H i Hi) j Hj) as E. cbv beta in E.
  apply Qabs_le_R in E. rewrite Q2R_minus, Q2R_dot_fast, Q2R_kron, nth_Qm, Q2Rv_Qv, Q2Rv_colQ in E.
  exact E.
Qed.

Lemma proba_row_valid_sound k tol row : proba_row_valid k tol row = true -> proba_row_spec k tol row.
Proof.
  unfold proba_row_valid, proba_row_spec. intros H.
  apply andb_true_iff in H as [H H4]. apply andb_true_iff in H as [H H3]. apply andb_true_iff in H as [H1 H2].
  apply Nat.eqb_eq in H1. repeat split; auto.
  - apply Forall_forall. intros p Hp. rewrite forallb_forall in H3.
    assert (Hq : Qleb 0 (f64_Qr p) = true) by (apply H3; unfold Qv; apply in_map; exact Hp).
    apply Qleb_R in Hq. rewrite RMicromega.Q2R_0 in Hq. exact Hq.
  - apply Qabs_le_R in H4. rewrite Q2R_minus, Q2R_sum, Q2R_1', Q2Rv_Qv in H4. exact H4.
Qed.

Lemma pred_is_max_sound row p : pred_is_max row p = true -> pred_spec row p.
Proof.
  unfold pred_is_max, pred_spec, Qv. intros H.
  rewrite nth_error_map in H. destruct (nth_error row (N.to_nat p)) as [pm|] eqn:E; simpl in H; [|discriminate].
  exists pm. split; auto. intros q Hq. rewrite forallb_forall in H.
  assert (Hl : Qleb (f64_Qr q) (f64_Qr pm) = true) by (apply H; apply in_map; exact Hq).
  apply Qleb_R in Hl. exact Hl.
Qed.

Lemma N_add_0 a b : (a + b = 0 -> a = 0 /\ b = 0)%N.
Proof. intros H. apply N.eq_add_0 in H. exact H. Qed.

Theorem gmm_ok_sound_lemma : forall X k d reg m query proba pred,
  gmm_ok X k d reg m query proba pred = true -> gmm_valid X k d reg m query proba pred.
Proof.
  intros X k d reg m query proba pred H. unfold gmm_ok in H. apply N.eqb_eq in H. unfold gmm_bits in H.
  match type of H with (if ?c then _ else _) = _ => destruct c eqn:Pre end; [|discriminate].
  repeat (apply andb_true_iff in Pre as [Pre ?]).
  cbv zeta in H.
  repeat (apply N_add_0 in H as [H ?]).
  repeat match goal with E : flagN _ _ = 0%N |- _ => apply flagN_0 in E; [|discriminate] end.
  assert (HX : X <> []).
  { destruct X; [discriminate|]. discriminate. }
  unfold gmm_valid. split; [exact HX|]. split; [assumption|]. split; [assumption|].
  split. { apply weights_ok_sound. match goal with E : weights_ok _ _ = true |- _ => exact E end. }
  split.
  { apply Forall_forall. intros mu Hmu. apply mean_in_bbox_sound; [exact HX|].
    match goal with E : forallb (mean_in_bbox _) _ = true |- _ => rewrite forallb_forall in E; apply E end.
    unfold Qm. apply in_map. exact Hmu. }
  split.
  { apply Forall_forall. intros S HS.
    match goal with E1 : forallb (cov_ok d) _ = true, E2 : forallb (cov_has_reg d _) _ = true |- _ =>
      rewrite forallb_forall in E1, E2; apply cov_ok_sound; [apply E1 | apply E2]; apply in_map; exact HS end. }
  split.
  { intros P S HPS.
    match goal with E : forallb (fun PS => prec_ok d (fst PS) (snd PS)) _ = true |- _ =>
      rewrite forallb_forall in E; apply prec_ok_sound; apply (E (Qm P, Qm S)) end.
    clear -HPS. revert HPS. generalize (m_precs m) (m_covs m).
    induction l as [|a l IH]; intros [|b l0]; simpl; try tauto.
    intros [E|I]; [left; inversion E; reflexivity | right; apply IH; exact I]. }
  split. { match goal with E : Nat.eqb (length proba) _ = true |- _ => apply Nat.eqb_eq in E; exact E end. }
  split. { match goal with E : Nat.eqb (length pred) _ = true |- _ => apply Nat.eqb_eq in E; exact E end. }
  split.
  { intros x row Hin. apply proba_row_valid_sound.
    match goal with E : forallb (fun xr => proba_row_valid k _ (snd xr)) _ = true |- _ =>
      rewrite forallb_forall in E; exact (E (x, row) Hin) end. }
  { intros row p Hin. apply pred_is_max_sound.
    match goal with E : forallb (fun rp => pred_is_max (fst rp) (snd rp)) _ = true |- _ =>
      rewrite forallb_forall in E; exact (E (row, p) Hin) end. }
Qed.

(* ------------------------------------------------------------------------------------------ *)
(** * Pattern A: the responsibilities over the reals *)

Lemma fold_left_Rplus l : forall a, fold_left Rplus l a = a + Rsum l.
Proof. induction l as [|x l IH]; intros a; simpl; [lra|]. rewrite IH. lra. Qed.

Lemma chunks8_sum : forall n xs p, (length xs <= n)%nat -> length p = 8%nat ->
  length (fst (chunks8 R_ops xs p)) = 8%nat /\
  Rsum (fst (chunks8 R_ops xs p)) + Rsum (snd (chunks8 R_ops xs p)) = Rsum p + Rsum xs.
Proof.
  induction n as [|n IH]; intros xs p Hn Hp.
  - destruct xs; [simpl; split; [exact Hp | lra] | simpl in Hn; lia].
  - destruct xs as [|x0 [|x1 [|x2 [|x3 [|x4 [|x5 [|x6 [|x7 t]]]]]]]];
      try (cbn [chunks8 fst snd]; split; [exact Hp | lra]).
    destruct p as [|p0 [|p1 [|p2 [|p3 [|p4 [|p5 [|p6 [|p7 [|p8 p]]]]]]]]]; try discriminate Hp.
    cbn [chunks8].
    match goal with |- context [chunks8 R_ops t ?q] => destruct (IH t q) as [H1 H2] end.
    + simpl in Hn |- *. lia.
    + reflexivity.
    + split; [exact H1|]. rewrite H2. simpl. lra.
Qed.

Lemma usum_R l : usum R_ops l = Rsum l.
Proof.
  unfold usum.
  destruct (chunks8_sum (length l) l [zero R_ops; zero R_ops; zero R_ops; zero R_ops; zero R_ops; zero R_ops; zero R_ops; zero R_ops]) as [H1 H2];
    [lia | reflexivity |].
  destruct (chunks8 R_ops l _) as [p rest]. cbn [fst snd] in H1, H2.
  destruct p as [|p0 [|p1 [|p2 [|p3 [|p4 [|p5 [|p6 [|p7 [|p8 p]]]]]]]]]; try discriminate H1.
  rewrite fold_left_Rplus. simpl in H2 |- *. lra.
Qed.

Definition rstable (w : list R) : list R := resp_stable R_ops exp ln w.
Definition rnaive (w : list R) : list R := resp_naive R_ops exp ln w.

Lemma Rsum_exp_pos w : w <> [] -> 0 < Rsum (map exp w).
Proof.
  destruct w as [|x w]; [congruence|]. intros _. simpl.
  assert (H : 0 <= Rsum (map exp w)).
  { induction w as [|y w IH]; simpl; [lra|]. pose proof (exp_pos y). lra. }
  pose proof (exp_pos x). lra.
Qed.

Lemma Rsum_exp_shift m w : Rsum (map (fun x => exp (x - m)) w) = exp (- m) * Rsum (map exp w).
Proof.
  induction w as [|x w IH]; simpl; [lra|]. rewrite IH.
  unfold Rminus. rewrite exp_plus. ring.
Qed.

(** the max-shifted and the naive log-sum-exp are the same real number (for any shift m) *)
Lemma lse_stable_R w : w <> [] -> lse_stable R_ops exp ln w = ln (Rsum (map exp w)).
Proof.
  intros Hw. unfold lse_stable. rewrite usum_R. cbn [add sub R_ops].
  rewrite Rsum_exp_shift, ln_mult by (try apply exp_pos; apply Rsum_exp_pos; exact Hw).
  rewrite ln_exp. lra.
Qed.
Lemma lse_naive_R w : lse_naive R_ops exp ln w = ln (Rsum (map exp w)).
Proof. unfold lse_naive. rewrite usum_R. reflexivity. Qed.

Lemma resp_naive_eq_stable_lemma w : rnaive w = rstable w.
Proof.
  unfold rnaive, rstable, resp_naive, resp_stable.
  destruct w as [|x w]; [reflexivity|].
  rewrite lse_stable_R, lse_naive_R by discriminate. reflexivity.
Qed.

Lemma rstable_form w : w <> [] ->
  rstable w = map (fun x => exp x / Rsum (map exp w)) w.
Proof.
  intros Hw. unfold rstable, resp_stable, log_resp. rewrite lse_stable_R by exact Hw.
  rewrite map_map. apply map_ext. intros x. cbn [sub R_ops].
  unfold Rminus. rewrite exp_plus, exp_Ropp, exp_ln by (apply Rsum_exp_pos; exact Hw). reflexivity.
Qed.

Lemma Rsum_map_div (S : R) l : Rsum (map (fun x => exp x / S) l) = Rsum (map exp l) / S.
Proof. induction l as [|x l IH]; simpl; [unfold Rdiv; lra|]. rewrite IH. unfold Rdiv. ring. Qed.

Lemma resp_stable_sum_one_lemma w : w <> [] -> Rsum (rstable w) = 1.
Proof.
  intros Hw. rewrite rstable_form by exact Hw. rewrite Rsum_map_div.
  pose proof (Rsum_exp_pos w Hw). field. lra.
Qed.

Lemma Rsum_ge_member l p : Forall (fun v => 0 < v) l -> In p l -> p <= Rsum l.
Proof.
  induction l as [|x l IH]; intros HF HI; [contradiction|].
  inversion HF as [|? ? Hx Hl]; subst. simpl.
  assert (H0 : 0 <= Rsum l).
  { clear -Hl. induction l as [|y l IH]; simpl; [lra|]. inversion Hl; subst. specialize (IH H2). lra. }
  destruct HI as [->|HI]; [lra|]. specialize (IH Hl HI). lra.
Qed.

Lemma resp_in_unit_interval_lemma w p : In p (rstable w) -> 0 < p <= 1.
Proof.
  intros Hp. destruct w as [|x0 w0] eqn:Ew; [contradiction|]. rewrite <- Ew in *.
  assert (Hw : w <> []) by (rewrite Ew; discriminate).
  assert (HF : Forall (fun v => 0 < v) (rstable w)).
  { rewrite rstable_form by exact Hw. apply Forall_forall. intros q Hq. apply in_map_iff in Hq as (x & <- & _).
    apply Rdiv_lt_0_compat; [apply exp_pos | apply Rsum_exp_pos; exact Hw]. }
  split.
  - rewrite Forall_forall in HF. apply HF. exact Hp.
  - rewrite <- (resp_stable_sum_one_lemma w Hw). apply Rsum_ge_member; assumption.
Qed.

(** the arg-max is taken before or after the (strictly increasing) map to probabilities *)
Lemma argmax_from_mono (f : R -> R) : (forall a b, Rltb (f a) (f b) = Rltb a b) ->
  forall l i best bv, argmax_from R_ops (map f l) i best (f bv) = argmax_from R_ops l i best bv.
Proof.
  intros Hf. induction l as [|v l IH]; intros i best bv; simpl; auto.
  rewrite Hf. destruct (Rltb bv v); apply IH.
Qed.

Lemma Rltb_mono (f : R -> R) : (forall a b, a < b -> f a < f b) -> forall a b, Rltb (f a) (f b) = Rltb a b.
Proof.
  intros Hf a b. unfold Rltb. destruct (Rlt_dec a b) as [L|L]; destruct (Rlt_dec (f a) (f b)) as [M|M]; auto.
  - exfalso. destruct (Rtotal_order a b) as [T|[T|T]]; [contradiction | subst; lra |].
    apply Hf in T. lra.
Qed.

Lemma argmax_of_resp_lemma w : argmax_first R_ops (rstable w) = argmax_first R_ops w.
Proof.
  destruct w as [|x w]; [reflexivity|].
  assert (Hw : x :: w <> []) by discriminate.
  rewrite rstable_form by exact Hw.
  set (S := Rsum (map exp (x :: w))). assert (HS : 0 < S) by (apply Rsum_exp_pos; exact Hw).
  cbn [map argmax_first].
  apply (argmax_from_mono (fun x => exp x / S)).
  apply Rltb_mono. intros a b Hab. unfold Rdiv. apply Rmult_lt_compat_r; [apply Rinv_0_lt_compat; exact HS|].
  apply exp_increasing. exact Hab.
Qed.

(** the first arg-max is an index of a maximal element *)
Lemma argmax_from_spec : forall l i best bv (pre : list R),
  length pre = i -> (best < i)%nat -> nth best pre 0 = bv -> (forall x, In x pre -> x <= bv) ->
  let r := argmax_from R_ops l i best bv in
  (r < i + length l)%nat /\ forall x, In x (pre ++ l) -> x <= nth r (pre ++ l) 0.
Proof.
  induction l as [|v l IH]; intros i best bv pre Lp Hb Hn Hmax; cbn [argmax_from].
  - rewrite app_nil_r. simpl. split; [lia|]. intros x Hx. rewrite Hn. apply Hmax, Hx.
  - cbn [ltb R_ops]. destruct (Rltb bv v) eqn:E.
    + apply Rltb_true in E.
      destruct (IH (S i) i v (pre ++ [v])) as [H1 H2].
      * rewrite app_length. simpl. lia.
      * lia.
      * rewrite app_nth2 by lia. rewrite Lp, Nat.sub_diag. reflexivity.
      * intros x Hx. apply in_app_iff in Hx as [Hx|[<-|[]]]; [|lra]. specialize (Hmax x Hx). lra.
      * rewrite <- app_assoc in H2. simpl in H2 |- *. split; [lia | exact H2].
    + apply Rltb_false in E.
      destruct (IH (S i) best bv (pre ++ [v])) as [H1 H2].
      * rewrite app_length. simpl. lia.
      * lia.
      * rewrite app_nth1 by lia. exact Hn.
      * intros x Hx. apply in_app_iff in Hx as [Hx|[<-|[]]]; [apply Hmax, Hx | exact E].
      * rewrite <- app_assoc in H2. simpl in H2 |- *. split; [lia | exact H2].
Qed.

Lemma argmax_first_is_max_lemma w : w <> [] ->
  (argmax_first R_ops w < length w)%nat /\ forall x, In x w -> x <= nth (argmax_first R_ops w) w 0.
Proof.
  destruct w as [|v w]; [congruence|]. intros _. cbn [argmax_first].
  assert (Hm : forall x, In x [v] -> x <= v) by (intros x [<-|[]]; lra).
  destruct (argmax_from_spec w 1 0%nat v [v] eq_refl (Nat.lt_0_1) eq_refl Hm) as [H1 H2].
  simpl in *. split; [lia | exact H2].
Qed.

(* ------------------------------------------------------------------------------------------ *)
(** * The mechanism of finding F6: the naive log-sum-exp in binary64

    binary64 through the standard library's executable SpecFloat operations (precision 53, emax
    1024); the exponential and the logarithm are arbitrary functions of which only three facts are
    used: exp underflows to +0 below -746, ln(+0) = -infinity, exp(+infinity) = +infinity. *)
Definition p64 : Z := 53.
Definition e64 : Z := 1024.
Definition S64_ops : NumOps spec_float :=
  {| zero := S754_zero false; one := S754_finite false 4503599627370496 (-52);
     add := SFadd p64 e64; sub := SFsub p64 e64; mul := SFmul p64 e64; div := SFdiv p64 e64;
     opp := SFopp; abs := SFabs; sqrt := SFsqrt p64 e64;
     ltb := SFltb; leb := SFleb; eqb := SFeqb;
     of_N := fun n => match n with N0 => S754_zero false | Npos p => binary_normalize p64 e64 (Zpos p) 0 false end |}.

Definition sf_fin (x : spec_float) : bool :=
  match x with S754_zero _ | S754_finite _ _ _ => true | _ => false end.
Definition m746 : spec_float := S754_finite true 6561885394567168 (-43).     (* -746 *)
Definition Z0 : spec_float := S754_zero false.
Definition eight_zeros : list spec_float := [Z0; Z0; Z0; Z0; Z0; Z0; Z0; Z0].

Lemma chunks8_zeros : forall n xs, (length xs <= n)%nat -> Forall (fun x => x = Z0) xs ->
  fst (chunks8 S64_ops xs eight_zeros) = eight_zeros /\
  Forall (fun x => x = Z0) (snd (chunks8 S64_ops xs eight_zeros)).
Proof.
  induction n as [|n IH]; intros xs Hn HF.
  - destruct xs; [simpl; auto | simpl in Hn; lia].
  - destruct xs as [|x0 [|x1 [|x2 [|x3 [|x4 [|x5 [|x6 [|x7 t]]]]]]]];
      try (cbn [chunks8 fst snd]; split; [reflexivity | exact HF]).
    repeat match goal with H : Forall _ (_ :: _) |- _ => inversion H; clear H; subst end.
    cbn [chunks8]. change (map _ (combine eight_zeros [Z0; Z0; Z0; Z0; Z0; Z0; Z0; Z0])) with eight_zeros.
    apply IH; [simpl in Hn; lia | assumption].
Qed.

Lemma fold_add_zeros l : Forall (fun x => x = Z0) l -> fold_left (add S64_ops) l Z0 = Z0.
Proof. induction l as [|x l IH]; intros H; simpl; auto. inversion H; subst. apply IH. assumption. Qed.

Lemma usum_zeros l : Forall (fun x => x = Z0) l -> usum S64_ops l = Z0.
Proof.
  intros HF. unfold usum. change [zero S64_ops; zero S64_ops; zero S64_ops; zero S64_ops; zero S64_ops; zero S64_ops; zero S64_ops; zero S64_ops] with eight_zeros.
  destruct (chunks8_zeros (length l) l (le_n _) HF) as [H1 H2].
  destruct (chunks8 S64_ops l eight_zeros) as [p rest]. cbn [fst snd] in H1, H2. subst p.
  unfold eight_zeros. apply fold_add_zeros. exact H2.
Qed.

Lemma sub_neg_inf x : sf_fin x = true -> sub S64_ops x (S754_infinity true) = S754_infinity false.
Proof. destruct x; simpl; try discriminate; reflexivity. Qed.

Lemma naive_lse_not_finite_lemma (fexp fln : spec_float -> spec_float) :
  (forall x, SFltb x m746 = true -> fexp x = S754_zero false) ->
  fln (S754_zero false) = S754_infinity true ->
  fexp (S754_infinity false) = S754_infinity false ->
  forall w, Forall (fun x => sf_fin x = true /\ SFltb x m746 = true) w ->
  resp_naive S64_ops fexp fln w = map (fun _ => S754_infinity false) w.
Proof.
  intros Hu Hl He w HF. unfold resp_naive, lse_naive, log_resp.
  assert (Hz : Forall (fun x => x = Z0) (map fexp w)).
  { apply Forall_forall. intros y Hy. apply in_map_iff in Hy as (x & <- & Hx).
    rewrite Forall_forall in HF. apply Hu. apply (HF x Hx). }
  rewrite (usum_zeros _ Hz). unfold Z0. rewrite Hl, map_map.
  apply map_ext_in. intros x Hx. rewrite Forall_forall in HF.
  rewrite sub_neg_inf by (apply (HF x Hx)). exact He.
Qed.

(** the hypotheses are satisfiable and the conclusion is about a non-empty row *)
Example naive_underflow_witness :
  let w := [S754_finite true 5629499534213120 (-42); S754_finite true 7036874417766400 (-42)] in   (* -1280, -1600 *)
  Forall (fun x => sf_fin x = true /\ SFltb x m746 = true) w.
Proof. repeat constructor. Qed.

(* ------------------------------------------------------------------------------------------ *)
(** * Pattern A: the M-step model over the reals *)

Lemma seq_sum_R l : seq_sum R_ops l = Rsum l.
Proof. unfold seq_sum. cbn [add zero R_ops]. rewrite fold_left_Rplus. lra. Qed.

Lemma Rsum_app a b : Rsum (a ++ b) = Rsum a + Rsum b.
Proof. induction a as [|x a IH]; simpl; [lra|]. rewrite IH. lra. Qed.

Lemma Rsum_nth_seq (r : list R) : Rsum (map (fun k => nth k r 0) (seq 0 (length r))) = Rsum r.
Proof.
  induction r as [|x r IH] using rev_ind; [reflexivity|].
  rewrite app_length. simpl length. rewrite Nat.add_1_r, seq_S, map_app, !Rsum_app. simpl.
  rewrite app_nth2 by lia. rewrite Nat.sub_diag. simpl.
  assert (E : map (fun k => nth k (r ++ [x]) 0) (seq 0 (length r)) = map (fun k => nth k r 0) (seq 0 (length r))).
  { apply map_ext_in. intros k Hk. apply in_seq in Hk. apply app_nth1. lia. }
  rewrite E, IH. lra.
Qed.

Lemma Rsum_map_plus {A} (f g : A -> R) l : Rsum (map (fun k => f k + g k) l) = Rsum (map f l) + Rsum (map g l).
Proof. induction l as [|x l IH]; simpl; [lra|]. rewrite IH. lra. Qed.

(** summing the column sums = summing the row sums *)
Lemma col_sums (K : nat) : forall M : list (list R), Forall (fun r => length r = K) M ->
  Rsum (map (fun k => Rsum (col R_ops k M)) (seq 0 K)) = Rsum (map Rsum M).
Proof.
  induction M as [|r M IH]; intros HF.
  - simpl. induction (seq 0 K) as [|k l IHl]; simpl; [lra|]. rewrite IHl. lra.
  - inversion HF as [|? ? Hr HM]; subst. specialize (IH HM).
    unfold col in *. cbn [map Rsum zero R_ops] in *.
    rewrite (Rsum_map_plus (fun k => nth k r 0) (fun k => Rsum (map (fun r0 => nth k r0 0) M))).
    rewrite IH, Rsum_nth_seq. reflexivity.
Qed.

Lemma Rsum_map_scale {A} (f : A -> R) c l : Rsum (map (fun k => f k / c) l) = Rsum (map f l) / c.
Proof. induction l as [|x l IH]; simpl; [unfold Rdiv; lra|]. rewrite IH. unfold Rdiv. ring. Qed.

Lemma Rsum_const {A} (l : list A) (f : A -> R) c : (forall a, In a l -> f a = c) -> Rsum (map f l) = INR (length l) * c.
Proof.
  induction l as [|x l IH]; intros H; [simpl; lra|].
  change (length (x :: l)) with (S (length l)). rewrite S_INR. simpl.
  rewrite (H x) by (left; reflexivity). rewrite IH by (intros a Ha; apply H; right; exact Ha). lra.
Qed.

(** when every row of responsibilities sums to one, the weights nk / n sum to one *)
Lemma model_weights_sum_to_one_lemma (resp : list (list R)) :
  resp <> [] ->
  Forall (fun r => length r = ncols resp /\ Rsum r = 1) resp ->
  Rsum (weights_of R_ops (nk_of R_ops resp) (N.of_nat (length resp))) = 1.
Proof.
  intros Hne HF. unfold weights_of, nk_of. rewrite map_map. cbn [div of_N R_ops].
  rewrite Nat2N.id.
  rewrite (Rsum_map_scale (fun k => seq_sum R_ops (col R_ops k resp)) (INR (length resp))).
  erewrite map_ext by (intros k; apply seq_sum_R).
  rewrite (col_sums (ncols resp) resp).
  - rewrite (Rsum_const resp Rsum 1).
    + assert (0 < INR (length resp)). { apply lt_0_INR. destruct resp; [congruence | simpl; lia]. }
      field. lra.
    + intros r Hr. rewrite Forall_forall in HF. apply (HF r Hr).
  - eapply Forall_impl; [|exact HF]. intros r [H _]. exact H.
Qed.

(** a weighted mean with non-negative weights of positive total lies between the bounds of its terms *)
Lemma weighted_mean_bounds lo hi : forall (r x : list R),
  Forall (fun v => 0 <= v) r -> Forall (fun v => lo <= v <= hi) x -> length r = length x ->
  lo * Rsum r <= Rsum (vmul R_ops r x) <= hi * Rsum r.
Proof.
  induction r as [|a r IH]; intros [|b x] Hr Hx L; simpl in *; try discriminate; [lra|].
  inversion Hr as [|? ? Ha Hr']; inversion Hx as [|? ? Hb Hx']; subst. destruct (IH x Hr' Hx') as [G1 G2]; [lia|].
  unfold vmul in *. cbn [mul R_ops fst snd] in *. split; nra.
Qed.

Lemma model_means_in_bbox_lemma (X resp : list (list R)) k j lo hi :
  length X = length resp ->
  (k < ncols resp)%nat -> (j < ncols X)%nat ->
  Forall (fun v => 0 <= v) (col R_ops k resp) ->
  0 < Rsum (col R_ops k resp) ->
  Forall (fun v => lo <= v <= hi) (col R_ops j X) ->
  lo <= nth j (nth k (means_of R_ops X resp (nk_of R_ops resp)) []) 0 <= hi.
Proof.
  intros L Hk Hj Hr Hn Hx. unfold means_of, nk_of.
  rewrite map_length, seq_length.
  rewrite (nth_map_lt _ _ k 0%nat) by (rewrite seq_length; exact Hk).
  rewrite (nth_map_lt _ _ j 0%nat) by (rewrite seq_length; exact Hj).
  rewrite !seq_nth by assumption. cbn [Nat.add].
  rewrite (nth_map_lt _ _ k 0%nat) by (rewrite seq_length; exact Hk).
  rewrite seq_nth by assumption. cbn [Nat.add div R_ops].
  unfold dotv. rewrite !seq_sum_R.
  destruct (weighted_mean_bounds lo hi (col R_ops k resp) (col R_ops j X) Hr Hx) as [H1 H2].
  { unfold col. rewrite !map_length. lia. }
  set (S := Rsum (col R_ops k resp)) in *. set (T := Rsum (vmul R_ops (col R_ops k resp) (col R_ops j X))) in *.
  split.
  - apply (Rmult_le_reg_r S); [exact Hn|]. unfold Rdiv. rewrite Rmult_assoc, Rinv_l by lra. lra.
  - apply (Rmult_le_reg_r S); [exact Hn|]. unfold Rdiv. rewrite Rmult_assoc, Rinv_l by lra. lra.
Qed.

(** ** the modelled covariance includes the regularisation: x^T cov x >= reg |x|^2 *)
Lemma Rsum_map_mult_l {A} (f : A -> R) c l : Rsum (map (fun k => c * f k) l) = c * Rsum (map f l).
Proof. induction l as [|x l IH]; simpl; [lra|]. rewrite IH. ring. Qed.

Lemma Rsum_map_ext {A} (f g : A -> R) l : (forall a, In a l -> f a = g a) -> Rsum (map f l) = Rsum (map g l).
Proof. intros H. f_equal. apply map_ext_in. exact H. Qed.

Lemma Rsum_cons a l : Rsum (a :: l) = a + Rsum l.
Proof. reflexivity. Qed.

Lemma Rdot_map_seq (f : nat -> R) : forall d s y, length y = d ->
  Rdot (map f (seq s d)) y = Rsum (map (fun b => f (s + b)%nat * nth b y 0) (seq 0 d)).
Proof.
  induction d as [|d IH]; intros s y L.
  - destruct y; [reflexivity | discriminate].
  - destruct y as [|y0 y]; [discriminate|]. injection L as L.
    cbn [seq map Rdot nth]. rewrite (IH (S s) y L), <- seq_shift, map_map, Rsum_cons.
    rewrite Nat.add_0_r. f_equal. apply Rsum_map_ext. intros b _. cbn [nth].
    replace (s + S b)%nat with (S s + b)%nat by lia. reflexivity.
Qed.

Lemma Rdot_nth_sum : forall y r : list R,
  Rdot y r = Rsum (map (fun a => nth a y 0 * nth a r 0) (seq 0 (length y))).
Proof.
  induction y as [|y0 y IH]; intros r; [reflexivity|].
  cbn [length seq map nth]. rewrite <- seq_shift, map_map, Rsum_cons.
  destruct r as [|r0 r]; cbn [Rdot nth].
  - rewrite (Rsum_map_ext _ (fun _ => 0)).
    + rewrite (Rsum_const _ _ 0) by reflexivity. lra.
    + intros a _. destruct a; lra.
  - rewrite (IH r). reflexivity.
Qed.

Lemma sum_kron (g : nat -> R) c : forall d a,
  Rsum (map (fun b => (if Nat.eqb a b then c else 0) * g b) (seq 0 d)) = if Nat.ltb a d then c * g a else 0.
Proof.
  induction d as [|d IH]; intros a; [reflexivity|].
  rewrite seq_S, map_app, Rsum_app, IH. cbn [Nat.add map]. rewrite Rsum_cons. change (Rsum []) with 0.
  destruct (Nat.eqb a d) eqn:E.
  - apply Nat.eqb_eq in E. subst a. rewrite Nat.ltb_irrefl.
    replace (Nat.ltb d (S d)) with true by (symmetry; apply Nat.ltb_lt; lia). lra.
  - apply Nat.eqb_neq in E. destruct (Nat.ltb a d) eqn:L.
    + apply Nat.ltb_lt in L. replace (Nat.ltb a (S d)) with true by (symmetry; apply Nat.ltb_lt; lia). lra.
    + apply Nat.ltb_ge in L. replace (Nat.ltb a (S d)) with false by (symmetry; apply Nat.ltb_ge; lia). lra.
Qed.

(* T(a,b) = sum_i diff_ia r_i diff_ib, as the model computes it *)
Definition Tf (diff : list (list R)) (rk : list R) (a b : nat) : R :=
  dotv R_ops (vmul R_ops (col R_ops a diff) rk) (col R_ops b diff).

Lemma Tf_nil_l rk a b : Tf [] rk a b = 0.
Proof. unfold Tf, dotv. rewrite seq_sum_R. reflexivity. Qed.
Lemma Tf_nil_r diff a b : Tf diff [] a b = 0.
Proof. unfold Tf, dotv, vmul. rewrite seq_sum_R. rewrite combine_nil. reflexivity. Qed.
Lemma Tf_cons dl diff r rk a b :
  Tf (dl :: diff) (r :: rk) a b = nth a dl 0 * r * nth b dl 0 + Tf diff rk a b.
Proof. unfold Tf, dotv, vmul, col. rewrite !seq_sum_R. cbn [map combine Rsum fst snd mul zero R_ops]. reflexivity. Qed.

Definition Qf (y : list R) (diff : list (list R)) (rk : list R) : R :=
  let d := length y in
  Rsum (map (fun a => Rsum (map (fun b => nth a y 0 * nth b y 0 * Tf diff rk a b) (seq 0 d))) (seq 0 d)).

Lemma Qf_zero y diff rk : (diff = [] \/ rk = []) -> Qf y diff rk = 0.
Proof.
  intros H. unfold Qf. rewrite (Rsum_map_ext _ (fun _ => 0)).
  - rewrite (Rsum_const _ _ 0) by reflexivity. lra.
  - intros a _. rewrite (Rsum_map_ext _ (fun _ => 0)).
    + rewrite (Rsum_const _ _ 0) by reflexivity. lra.
    + intros b _. destruct H as [-> | ->]; [rewrite Tf_nil_l | rewrite Tf_nil_r]; lra.
Qed.

Lemma Qf_cons y dl diff r rk :
  Qf y (dl :: diff) (r :: rk) = r * (Rdot y dl) ^ 2 + Qf y diff rk.
Proof.
  unfold Qf. cbv zeta. set (d := length y).
  rewrite (Rsum_map_ext _ (fun a => r * (nth a y 0 * nth a dl 0) * Rsum (map (fun b => nth b y 0 * nth b dl 0) (seq 0 d))
                                   + Rsum (map (fun b => nth a y 0 * nth b y 0 * Tf diff rk a b) (seq 0 d)))).
  - rewrite Rsum_map_plus. f_equal.
    rewrite (Rsum_map_ext _ (fun a => (r * Rsum (map (fun b => nth b y 0 * nth b dl 0) (seq 0 d))) * (nth a y 0 * nth a dl 0)))
      by (intros; ring).
    rewrite Rsum_map_mult_l, Rdot_nth_sum. fold d. ring.
  - intros a _. rewrite <- Rsum_map_mult_l, <- Rsum_map_plus. apply Rsum_map_ext. intros b _.
    rewrite Tf_cons. ring.
Qed.

Lemma Qf_nonneg y : forall diff rk, Forall (fun v => 0 <= v) rk -> 0 <= Qf y diff rk.
Proof.
  induction diff as [|dl diff IH]; intros rk Hr.
  - rewrite Qf_zero by (left; reflexivity). lra.
  - destruct rk as [|r rk]; [rewrite Qf_zero by (right; reflexivity); lra|].
    inversion Hr; subst. rewrite Qf_cons. specialize (IH rk H2).
    pose proof (pow2_ge_0 (Rdot y dl)). nra.
Qed.

Lemma Rquad_cov_of (X : list (list R)) rk mu nkk reg y : length y = length mu ->
  Rquad (cov_of R_ops X rk mu nkk reg) y
  = Qf y (map (fun x => vsub R_ops x mu) X) rk / nkk + reg * Rdot y y.
Proof.
  intros Ly. unfold Rquad, cov_of. set (diff := map (fun x => vsub R_ops x mu) X).
  rewrite <- Ly. set (d := length y). rewrite map_map.
  rewrite Rdot_comm, (Rdot_map_seq _ d 0 y eq_refl). cbn [Nat.add].
  rewrite (Rsum_map_ext _ (fun a => Rsum (map (fun b => nth a y 0 * nth b y 0 * Tf diff rk a b) (seq 0 d)) / nkk
                                   + reg * (nth a y 0 * nth a y 0))).
  - rewrite Rsum_map_plus, Rsum_map_scale, Rsum_map_mult_l. unfold Qf. fold d.
    rewrite (Rdot_nth_sum y y). fold d. reflexivity.
  - intros a Ha. apply in_seq in Ha.
    rewrite (Rdot_map_seq _ d 0 y eq_refl). cbn [Nat.add].
    rewrite (Rsum_map_ext _ (fun b => (Tf diff rk a b / nkk) * nth b y 0 + (if Nat.eqb a b then reg else 0) * nth b y 0)).
    + rewrite Rsum_map_plus, (sum_kron (fun b => nth b y 0) reg d a).
      replace (Nat.ltb a d) with true by (symmetry; apply Nat.ltb_lt; lia).
      rewrite Rmult_plus_distr_r. f_equal; [|ring].
      rewrite <- Rsum_map_scale. rewrite Rmult_comm, <- Rsum_map_mult_l.
      apply Rsum_map_ext. intros b _. unfold Rdiv. ring.
    + intros b _. fold (Tf diff rk a b). cbn [div add R_ops]. destruct (Nat.eqb a b); ring.
Qed.

Lemma model_cov_includes_reg_lemma (X : list (list R)) rk mu nkk reg y :
  length y = length mu -> 0 < nkk -> Forall (fun v => 0 <= v) rk ->
  reg * Rdot y y <= Rquad (cov_of R_ops X rk mu nkk reg) y.
Proof.
  intros Ly Hn Hr. rewrite (Rquad_cov_of X rk mu nkk reg y Ly).
  pose proof (Qf_nonneg y (map (fun x => vsub R_ops x mu) X) rk Hr) as HQ.
  assert (0 <= Qf y (map (fun x => vsub R_ops x mu) X) rk / nkk).
  { apply Rmult_le_pos; [exact HQ | apply Rlt_le, Rinv_0_lt_compat, Hn]. }
  lra.
Qed.

Lemma Rdot_self_nonneg y : 0 <= Rdot y y.
Proof. induction y as [|a y IH]; simpl; [lra|]. nra. Qed.

Lemma Rdot_self_pos y : ~ Forall (fun v => v = 0) y -> 0 < Rdot y y.
Proof.
  induction y as [|a y IH]; intros H; [exfalso; apply H; constructor|].
  simpl. pose proof (Rdot_self_nonneg y).
  destruct (Req_dec a 0) as [E|E].
  - subst a. assert (~ Forall (fun v => v = 0) y) by (intro F; apply H; constructor; auto).
    specialize (IH H1). lra.
  - assert (0 < a * a) by nra. lra.
Qed.

Lemma model_cov_pd_lemma (X : list (list R)) rk mu nkk reg y :
  length y = length mu -> 0 < nkk -> Forall (fun v => 0 <= v) rk -> 0 < reg ->
  ~ Forall (fun v => v = 0) y -> 0 < Rquad (cov_of R_ops X rk mu nkk reg) y.
Proof.
  intros Ly Hn Hr Hreg Hy. pose proof (model_cov_includes_reg_lemma X rk mu nkk reg y Ly Hn Hr).
  pose proof (Rdot_self_pos y Hy). nra.
Qed.

(* ------------------------------------------------------------------------------------------ *)
(** * Non-vacuity *)

(** a one-component model of the data {0, 2} (d = 1): weight 1, mean 1, covariance 1 + reg_covar with
    reg_covar = 1/4, precision 0.8, one query at the mean - accepted by the checker *)
Example gmm_ok_accepts :
  gmm_ok [[0]; [2]]%float 1 1 0.25%float
         {| m_weights := [1]%float; m_means := [[1]]%float; m_covs := [[[1.25]]]%float; m_precs := [[[0x1.999999999999ap-1]]]%float |}
         [[1]]%float [[1]]%float [0%N] = true.
Proof. vm_compute. reflexivity. Qed.

(** ... and rejected when the covariance lacks the regularisation, is not positive definite, the
    precision is not the inverse, the weight is not 1 or the probabilities do not sum to one *)
Example gmm_ok_rejects :
  gmm_bits [[1]; [1]]%float 1 1 0.25%float
         {| m_weights := [1]%float; m_means := [[1]]%float; m_covs := [[[0.125]]]%float; m_precs := [[[8]]]%float |}
         [[1]]%float [[1]]%float [0%N] = 16%N /\
  gmm_bits [[0]; [2]]%float 1 1 0.25%float
         {| m_weights := [0.5]%float; m_means := [[3]]%float; m_covs := [[[-1]]]%float; m_precs := [[[0x1.999999999999ap-1]]]%float |}
         [[1]]%float [[0.5]]%float [0%N] = (2 + 4 + 8 + 16 + 32 + 64)%N.
Proof. split; vm_compute; reflexivity. Qed.

Example resp_hyp_satisfiable : [0; 1] <> (@nil R).
Proof. discriminate. Qed.

Example model_hyps_satisfiable :
  let resp := [[1; 0]; [/ 2; / 2]] in
  resp <> [] /\ Forall (fun r => length r = ncols resp /\ Rsum r = 1) resp /\
  Forall (fun v => 0 <= v) (col R_ops 1 resp) /\ 0 < Rsum (col R_ops 1 resp).
Proof. simpl. split; [discriminate|]. split; [repeat constructor; simpl; lra|]. split; [repeat constructor; lra | lra]. Qed.
