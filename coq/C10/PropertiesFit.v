(** C10 - property theorems about the fit procedure (statements only; proofs are in C10/FitProofs.v).

    The control flow of `GmmValidParams::fit` ([fit_gen], C10/FitModel.v: the n_runs loop, the
    max_n_iterations loop with its convergence test, the comparison of the lower bounds, the final match)
    with the numeric kernels - initialisation, e_step, m_step, refresh_precisions_full - as arbitrary
    functions that may fail.  [fit_gen] instantiated with the binary64 kernels of C10/FitModel.v is run
    against the implementation by the fit stream of the correspondence (C10/Corr.v). *)
From Coq Require Import List NArith ZArith Reals Floats.
From LinfaVerif Require Import Common.Num Common.NdSum Common.QF C10.Model C10.Proofs C10.FitModel C10.FitProofs.
Import ListNotations.

(** Whenever fit returns a model, that model is the (precision-refreshed) output of an M-step that
    succeeded - no emptied component, Cholesky factorisation and pivot guard passed - in an iteration
    whose E-step succeeded and whose change of the lower bound passed the convergence test *)
Theorem fit_ok_last_iteration :
  forall (F : Type) (o : NumOps F) (St LR : Type) (neg_inf : F)
         (e_step : St -> res (F * LR)) (m_step : St -> LR -> res St) (refresh : St -> St)
         (tol : F) (max_iter n_runs : nat) (init : res St) (g : St),
  fit_gen o neg_inf e_step m_step refresh tol max_iter n_runs init = ROk g ->
  exists g_prev lb_prev lb lr g',
    e_step g_prev = ROk (lb, lr) /\ m_step g_prev lr = ROk g' /\
    ltb o (abs o (sub o lb lb_prev)) tol = true /\ g = refresh g'.
Proof.
  intros F o St LR neg_inf e_step m_step refresh tol max_iter n_runs init g H.
  destruct (fit_ok_last_iteration_lemma o neg_inf e_step m_step refresh tol max_iter n_runs init g H)
    as (g' & lb & (gp & lbp & lr & He & Hm & Ht) & Hg).
  exists gp, lbp, lb, lr, g'. repeat split; auto.
Qed.

(** The error clause.  Contracts of the kernels: [fin] is finiteness of a lower bound, [good] finiteness of
    the parameters of a state;
    - a convergence test that fires has compared two finite lower bounds (true in binary64, next theorem);
    - an M-step that succeeds on the responsibilities of an E-step with a finite mean log-likelihood returns
      finite parameters;
    - refreshing the precisions of a finite state gives a finite state.
    Then a returned model has finite parameters: non-convergence, an emptied component, a failed Cholesky
    factorisation and a non-finite lower bound all end in Err *)
Theorem fit_ok_implies_finite_model :
  forall (F : Type) (o : NumOps F) (St LR : Type) (neg_inf : F)
         (e_step : St -> res (F * LR)) (m_step : St -> LR -> res St) (refresh : St -> St)
         (tol : F) (max_iter n_runs : nat) (init : res St)
         (fin : F -> Prop) (good : St -> Prop),
  (forall a b, ltb o (abs o (sub o a b)) tol = true -> fin a /\ fin b) ->
  (forall g lb lr g', e_step g = ROk (lb, lr) -> fin lb -> m_step g lr = ROk g' -> good g') ->
  (forall g, good g -> good (refresh g)) ->
  forall g, fit_gen o neg_inf e_step m_step refresh tol max_iter n_runs init = ROk g -> good g.
Proof. intros; eapply fit_ok_implies_finite_lemma; eauto. Qed.

(** binary64 discharges the contract of the comparison: |a - b| < t is false as soon as a or b is
    infinite or NaN, whatever t is *)
Theorem convergence_test_sees_finite_bounds : forall a b t : float,
  PrimFloat.ltb (PrimFloat.abs (PrimFloat.sub a b)) t = true -> f64_finite a = true /\ f64_finite b = true.
Proof. exact conv_test_finite_b64. Qed.

Theorem fit64_ok_implies_finite_model :
  forall (St LR : Type) (e_step : St -> res (float * LR)) (m_step : St -> LR -> res St) (refresh : St -> St)
         (tol : float) (max_iter n_runs : nat) (init : res St) (good : St -> Prop),
  (forall g lb lr g', e_step g = ROk (lb, lr) -> f64_finite lb = true -> m_step g lr = ROk g' -> good g') ->
  (forall g, good g -> good (refresh g)) ->
  forall g, fit_gen B64_ops neg_infinity e_step m_step refresh tol max_iter n_runs init = ROk g -> good g.
Proof.
  intros St LR e_step m_step refresh tol max_iter n_runs init good Hm Hr g H.
  eapply (fit_ok_implies_finite_lemma B64_ops neg_infinity e_step m_step refresh tol max_iter
            (fun x => f64_finite x = true) good); eauto.
  intros a b. apply conv_test_finite_b64.
Qed.

(** with max_n_iterations = 1 no run can converge (the previous bound is -infinity): fit never returns a
    model, whatever the kernels and the number of runs are - in binary64 without any hypothesis *)
Theorem fit_single_iteration_never_ok :
  forall (F : Type) (o : NumOps F) (St LR : Type) (neg_inf : F)
         (e_step : St -> res (F * LR)) (m_step : St -> LR -> res St) (refresh : St -> St)
         (tol : F) (n_runs : nat) (init : res St) (g : St),
  (forall a, ltb o (abs o (sub o a neg_inf)) tol = false) ->
  fit_gen o neg_inf e_step m_step refresh tol 1 n_runs init <> ROk g.
Proof. intros; apply fit_single_iteration_lemma; auto. Qed.

Theorem fit64_single_iteration_never_ok :
  forall (St LR : Type) (e_step : St -> res (float * LR)) (m_step : St -> LR -> res St) (refresh : St -> St)
         (tol : float) (n_runs : nat) (init : res St) (g : St),
  fit_gen B64_ops neg_infinity e_step m_step refresh tol 1 n_runs init <> ROk g.
Proof. intros; apply fit_single_iteration_lemma; auto. intros a. apply conv_test_neg_inf_b64. Qed.

(** errors are reported, not swallowed: the error of the initialisation, and the error of the first E-step /
    M-step (an emptied component or a failed factorisation right after the initialisation), is the result *)
Theorem fit_reports_kernel_errors :
  forall (F : Type) (o : NumOps F) (St LR : Type) (neg_inf : F)
         (e_step : St -> res (F * LR)) (m_step : St -> LR -> res St) (refresh : St -> St)
         (tol : F) (max_iter n_runs : nat) (e : N),
  fit_gen o neg_inf e_step m_step refresh tol max_iter n_runs (RErr e) = RErr e /\
  forall g0, (0 < n_runs)%nat -> (0 < max_iter)%nat ->
    (e_step g0 = RErr e -> fit_gen o neg_inf e_step m_step refresh tol max_iter n_runs (ROk g0) = RErr e) /\
    (forall lb lr, e_step g0 = ROk (lb, lr) -> m_step g0 lr = RErr e ->
       fit_gen o neg_inf e_step m_step refresh tol max_iter n_runs (ROk g0) = RErr e).
Proof.
  intros. split; [reflexivity|]. intros g0 Hn Hm. split.
  - apply fit_first_e_step_error_lemma; auto.
  - intros lb lr. apply fit_first_m_step_error_lemma; auto.
Qed.

(** conversely every error of fit is an error of a kernel, or NotConverged; the LowerBoundError branch
    of the final match cannot be reached *)
Theorem fit_error_origin :
  forall (F : Type) (o : NumOps F) (St LR : Type) (neg_inf : F)
         (e_step : St -> res (F * LR)) (m_step : St -> LR -> res St) (refresh : St -> St)
         (tol : F) (max_iter n_runs : nat) (init : res St) (e : N),
  fit_gen o neg_inf e_step m_step refresh tol max_iter n_runs init = RErr e ->
  init = RErr e \/ (exists g, e_step g = RErr e) \/ (exists g lr, m_step g lr = RErr e) \/ e = E_not_converged.
Proof. intros; eapply fit_error_origin_lemma; eauto. Qed.

(** Selection of the best run.  [run_results] lists, run by run, the state a run ended in, its last lower
    bound and its convergence flag.  If fit returns a model then it is the (precision-refreshed) end state
    of one of the n_runs runs, that run converged, its lower bound is above -infinity and no run has a
    larger one.  The comparison only has to be transitive and irreflexive (true of IEEE `<`, NaN included) *)
Theorem best_run_is_kept :
  forall (F : Type) (o : NumOps F) (St LR : Type) (neg_inf : F)
         (e_step : St -> res (F * LR)) (m_step : St -> LR -> res St) (refresh : St -> St)
         (tol : F) (max_iter n_runs : nat) (g0 g : St),
  (forall a b c, ltb o a b = true -> ltb o b c = true -> ltb o a c = true) ->
  (forall a, ltb o a a = false) ->
  fit_gen o neg_inf e_step m_step refresh tol max_iter n_runs (ROk g0) = ROk g ->
  exists tr i gi lbi it,
    run_results o neg_inf e_step m_step refresh tol max_iter n_runs g0 neg_inf = ROk tr /\
    length tr = n_runs /\
    nth_error tr i = Some (gi, lbi, Some it) /\ g = refresh gi /\
    ltb o neg_inf lbi = true /\
    forall j gj lbj cj, nth_error tr j = Some (gj, lbj, cj) -> ltb o lbi lbj = false.
Proof.
  intros F o St LR neg_inf e_step m_step refresh tol max_iter n_runs g0 g Ht Hi H.
  destruct (best_run_is_kept_lemma o neg_inf e_step m_step refresh tol max_iter Ht Hi n_runs g0 g H)
    as (tr & i & gi & lbi & it & H1 & H2 & H3 & H4 & _ & H5 & H6).
  exists tr, i, gi, lbi, it. repeat split; auto.
Qed.

(** ... and in binary64 without hypotheses: IEEE `<` is a strict order on the non-NaN values and false on NaN *)
Theorem best_run_is_kept_binary64 :
  forall (St LR : Type) (e_step : St -> res (float * LR)) (m_step : St -> LR -> res St) (refresh : St -> St)
         (tol : float) (max_iter n_runs : nat) (g0 g : St),
  fit_gen B64_ops neg_infinity e_step m_step refresh tol max_iter n_runs (ROk g0) = ROk g ->
  exists tr i gi lbi it,
    run_results B64_ops neg_infinity e_step m_step refresh tol max_iter n_runs g0 neg_infinity = ROk tr /\
    length tr = n_runs /\
    nth_error tr i = Some (gi, lbi, Some it) /\ g = refresh gi /\
    PrimFloat.ltb neg_infinity lbi = true /\
    forall j gj lbj cj, nth_error tr j = Some (gj, lbj, cj) -> PrimFloat.ltb lbi lbj = false.
Proof.
  intros St LR e_step m_step refresh tol max_iter n_runs g0 g H.
  apply (best_run_is_kept float B64_ops St LR neg_infinity e_step m_step refresh tol max_iter n_runs g0 g
           ltb64_trans ltb64_irrefl H).
Qed.

(** The kernels as modelled (C10/FitModel.v), over the reals.
    An emptied component - some nk below 10 eps - makes the M-step an error (EmptyCluster, or MinMaxError
    when a NaN reaches nk.min()), in every arithmetic *)
Theorem m_step_emptied_component_is_error :
  forall (F : Type) (o : NumOps F) (feps ten_eps : F) (fexp : F -> F) (X : list (list F)) (reg : F)
         (g : gmm F) (lr : list (list F)),
  empty_cluster o ten_eps (nk_of o (map (map fexp) lr)) = true ->
  m_step o feps ten_eps fexp X reg g lr = RErr E_empty \/ m_step o feps ten_eps fexp X reg g lr = RErr E_minmax.
Proof. intros; apply m_step_emptied_lemma; auto. Qed.

(** a successful M-step leaves every weight positive (at least 10 eps / n) *)
Theorem m_step_ok_weights_positive :
  forall (feps ten_eps : R) (fexp : R -> R) (X : list (list R)) (reg : R) (g g' : gmm R) (lr : list (list R)),
  X <> [] -> (0 < ten_eps)%R ->
  m_step R_ops feps ten_eps fexp X reg g lr = ROk g' -> Forall (fun w => (0 < w)%R) (s_w g').
Proof. intros; eapply m_step_weights_positive_lemma; eauto. Qed.

(** one full EM iteration (E-step, then M-step on exp(log_resp)) from ANY state with at least one component:
    if it succeeds the new weights sum to one, and the published precisions are untouched *)
Theorem em_iteration_weights_sum_to_one :
  forall (feps ten_eps nh c : R) (X : list (list R)) (reg : R) (g g' : gmm R) (lb : R) (lr : list (list R)),
  X <> [] -> s_w g <> [] ->
  e_step R_ops exp ln nh c X g = ROk (lb, lr) ->
  m_step R_ops feps ten_eps exp X reg g lr = ROk g' ->
  Rsum (s_w g') = 1%R /\ s_prec g' = s_prec g.
Proof. intros; eapply em_iteration_weights_lemma; eauto. Qed.
