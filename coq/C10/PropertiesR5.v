(** C10 (round 5) - property theorems about the M-step, for ALL inputs, over the reals
    (statements only; proofs are in C10/ProofsR5.v).

    The functions are the transliterations of C10/Model.v - [nk_of], [means_of], [cov_of], [weights_of],
    [estimate_gaussian_parameters] (algorithm.rs: estimate_gaussian_parameters,
    estimate_gaussian_covariances_full, weights = nk / n_samples) - which C10/Corr.v runs at binary64 against
    the implementation bit for bit on the exact stream, here instantiated with exact real arithmetic
    ([R_ops]).  The inputs are EVERY data matrix X and EVERY responsibility matrix resp with as many rows
    as X, non-negative entries and positive column sums ([mstep_input], C10/ModelR5.v); no rounding is
    covered by these statements. *)
From Coq Require Import List NArith ZArith Reals.
From LinfaVerif Require Import Common.Num Common.NdSum Common.QF Common.LDL
  C10.Model C10.ModelR5 C10.FitModel C10.Proofs C10.ProofsR5.
Import ListNotations.
Local Open Scope R_scope.

(** 1. The mean of component k is ONE convex combination of the records: the coefficients
    lam_i = resp[i][k] / nk[k] are non-negative, sum to one, there is one per record, and every feature j of
    the mean is sum_i lam_i X[i][j] (hence the mean lies in the convex hull, in particular in the
    bounding box, of the data) *)
Theorem mstep_mean_is_convex_combination : forall (X resp : list (list R)) k,
  mstep_input X resp -> (k < ncols resp)%nat ->
  let lam := convex_coeffs R_ops resp k in
  length lam = length X /\ Forall (fun v => 0 <= v) lam /\ Rsum lam = 1 /\
  forall j, (j < ncols X)%nat ->
    nth j (nth k (means_of R_ops X resp (nk_of R_ops resp)) []) 0 = Rsum (vmul R_ops lam (col R_ops j X)).
Proof. exact mean_convex_lemma. Qed.

(** 2. The covariance of a component, sum_i r_i (x_i - mu)(x_i - mu)^T / nk + reg_covar I as
    estimate_gaussian_covariances_full computes it, is symmetric - for ANY data, responsibilities, centre
    and divisor - and its diagonal is at least reg_covar when the responsibilities are non-negative and
    nk > 0.  (y^T C y >= reg_covar |y|^2 and positive definiteness are model_covariance_includes_reg /
    model_covariance_positive_definite of C10/Properties.v; they are part of theorem 4 below.) *)
Theorem mstep_covariance_symmetric : forall (X : list (list R)) rk mu nkk reg a b,
  (a < length mu)%nat -> (b < length mu)%nat ->
  nth b (nth a (cov_of R_ops X rk mu nkk reg) []) 0 = nth a (nth b (cov_of R_ops X rk mu nkk reg) []) 0.
Proof. exact cov_symmetric_lemma. Qed.

Theorem mstep_covariance_diagonal_ge_reg : forall (X : list (list R)) rk mu nkk reg a,
  (a < length mu)%nat -> 0 < nkk -> Forall (fun v => 0 <= v) rk ->
  reg <= nth a (nth a (cov_of R_ops X rk mu nkk reg) []) 0.
Proof. exact cov_diag_ge_reg_lemma. Qed.

(** 3. The weights are nk / n and positive; there are as many as components; they sum to one when every
    responsibility row (of full length) sums to one *)
Theorem mstep_weight_is_nk_over_n_and_positive : forall (X resp : list (list R)) k,
  mstep_input X resp -> (k < ncols resp)%nat ->
  nth k (mstep_weights R_ops X resp) 0 = Rsum (col R_ops k resp) / INR (length X) /\
  0 < nth k (mstep_weights R_ops X resp) 0.
Proof. exact weight_entry_lemma. Qed.

Theorem mstep_weights_sum_to_one : forall (X resp : list (list R)),
  mstep_input X resp -> resp <> [] ->
  Forall (fun r => length r = ncols resp /\ Rsum r = 1) resp ->
  Rsum (mstep_weights R_ops X resp) = 1.
Proof. exact weights_sum_lemma. Qed.

(** 4. The whole of estimate_gaussian_parameters.  It fails (EmptyCluster) exactly when some nk is below
    10 eps; ... *)
Theorem mstep_fails_iff_some_nk_below_threshold : forall (X resp : list (list R)) ten_eps reg,
  estimate_gaussian_parameters R_ops ten_eps X resp reg = None <->
  exists k, (k < ncols resp)%nat /\ Rsum (col R_ops k resp) < ten_eps.
Proof. exact egp_none_iff_lemma. Qed.

(** ... for every input of the class whose nk reach the threshold it SUCCEEDS, and what it returns is a
    valid mixture (everything spelled out; [weights_of (g_nk gp) n] is what `new` / `m_step` publish) *)
Theorem mstep_succeeds_with_a_valid_mixture : forall (X resp : list (list R)) ten_eps reg,
  mstep_input X resp ->
  (forall k, (k < ncols resp)%nat -> ten_eps <= Rsum (col R_ops k resp)) ->
  exists gp, estimate_gaussian_parameters R_ops ten_eps X resp reg = Some gp /\
    length (g_nk gp) = ncols resp /\ length (g_means gp) = ncols resp /\ length (g_covs gp) = ncols resp /\
    length (weights_of R_ops (g_nk gp) (N.of_nat (length X))) = ncols resp /\
    forall k, (k < ncols resp)%nat ->
      let d := ncols X in
      let mu := nth k (g_means gp) [] in
      let C := nth k (g_covs gp) [] in
      let w := nth k (weights_of R_ops (g_nk gp) (N.of_nat (length X))) 0 in
      let lam := convex_coeffs R_ops resp k in
      w = Rsum (col R_ops k resp) / INR (length X) /\ 0 < w /\
      length mu = d /\ length lam = length X /\ Forall (fun v => 0 <= v) lam /\ Rsum lam = 1 /\
      (forall j, (j < d)%nat -> nth j mu 0 = Rsum (vmul R_ops lam (col R_ops j X))) /\
      length C = d /\ Forall (fun r => length r = d) C /\
      (forall a b, (a < d)%nat -> (b < d)%nat -> nth b (nth a C []) 0 = nth a (nth b C []) 0) /\
      (forall a, (a < d)%nat -> reg <= nth a (nth a C []) 0) /\
      (forall y, length y = d -> reg * Rdot y y <= Rquad C y) /\
      (0 < reg -> forall y, length y = d -> ~ Forall (fun v => v = 0) y -> 0 < Rquad C y).
Proof. exact mstep_valid_lemma. Qed.

(** ... and whatever it returns on an input of the class is valid, component by component
    ([mstep_component_valid], C10/ModelR5.v, is the conjunction displayed in the previous theorem) *)
Theorem mstep_result_is_valid : forall (X resp : list (list R)) ten_eps reg gp,
  mstep_input X resp ->
  estimate_gaussian_parameters R_ops ten_eps X resp reg = Some gp ->
  length (g_nk gp) = ncols resp /\ length (g_means gp) = ncols resp /\ length (g_covs gp) = ncols resp /\
  forall k, (k < ncols resp)%nat ->
    mstep_component_valid X resp reg k (nth k (weights_of R_ops (g_nk gp) (N.of_nat (length X))) 0)
      (nth k (g_means gp) []) (nth k (g_covs gp) []).
Proof. exact egp_valid_lemma. Qed.

(** 5. One full EM iteration of the fit model (C10/FitModel.v: e_step, then m_step on exp(log_resp)) over
    the reals, from ANY state with at least one component and on ANY non-empty data: the responsibilities
    the M-step receives are in the class of the theorems above without further hypotheses, so whenever the
    iteration succeeds (no emptied component, Cholesky factorisations passed) the new state is a valid
    mixture: K weights nk / n, positive, summing to one; K means, each one convex combination of the
    records; K covariances, symmetric, with y^T C y >= reg_covar |y|^2 *)
Theorem em_iteration_yields_valid_mixture :
  forall (feps ten_eps nh c : R) (X : list (list R)) (reg : R) (g g' : gmm R) (lb : R) (lr : list (list R)),
  X <> [] -> s_w g <> [] ->
  e_step R_ops exp ln nh c X g = ROk (lb, lr) ->
  m_step R_ops feps ten_eps exp X reg g lr = ROk g' ->
  let K := length (s_w g) in
  let resp := map (map exp) lr in
  mstep_input X resp /\ ncols resp = K /\
  length (s_w g') = K /\ length (s_mu g') = K /\ length (s_cov g') = K /\ Rsum (s_w g') = 1 /\
  forall k, (k < K)%nat ->
    mstep_component_valid X resp reg k (nth k (s_w g') 0) (nth k (s_mu g') []) (nth k (s_cov g') []).
Proof. exact em_iteration_valid_lemma. Qed.
