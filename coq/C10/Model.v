(** C10 - executable definitions for linfa-clustering's Gaussian mixture
    (gaussian_mixture/algorithm.rs).

    Part 1 (pattern A, polymorphic in NumOps): transliterations of
      estimate_gaussian_parameters / estimate_gaussian_covariances_full (+ reg_covar on the diagonal),
      the weight normalisation of `new` / `m_step`, estimate_log_prob_resp in its naive (before
      commit 26696b7) and max-shifted (current) form, predict_proba and predict (first arg-max).
    Part 2 (pattern B): the decidable checker [gmm_ok] of a fitted model in exact rational
      arithmetic; its soundness theorem is in Proofs.v / Properties.v. *)
From Coq Require Import List NArith ZArith QArith Bool Floats.
From LinfaVerif Require Import Common.Num Common.NdSum Common.QF Common.LDL.
Import ListNotations.

(* ------------------------------------------------------------------------------------------ *)
(** * Part 1: the M-step formulas and the responsibilities *)
Section GP.
Context {F : Type} (o : NumOps F).

Definition ncols (M : list (list F)) : nat := match M with [] => 0%nat | r :: _ => length r end.
Definition col (j : nat) (M : list (list F)) : list F := map (fun r => nth j r (zero o)) M.
Definition vmul (a b : list F) : list F := map (fun p => mul o (fst p) (snd p)) (combine a b).
Definition vsub (a b : list F) : list F := map (fun p => sub o (fst p) (snd p)) (combine a b).
(* one entry of a matrix product; the order of summation is that of a plain loop - the
   implementation (matrixmultiply) may use another one, so results are compared bit for bit only
   where every partial sum is exact *)
Definition dotv (a b : list F) : F := seq_sum o (vmul a b).

(* nk = resp.sum_axis(Axis(0)) *)
Definition nk_of (resp : list (list F)) : list F :=
  map (fun k => seq_sum o (col k resp)) (seq 0 (ncols resp)).

(* the EmptyCluster guard: nk.min() < 10 * epsilon *)
Definition empty_cluster (ten_eps : F) (nk : list F) : bool := existsb (fun v => ltb o v ten_eps) nk.

(* means = resp.t().dot(observations) / nk2 *)
Definition means_of (X resp : list (list F)) (nk : list F) : list (list F) :=
  map (fun k => map (fun j => div o (dotv (col k resp) (col j X)) (nth k nk (zero o))) (seq 0 (ncols X)))
      (seq 0 (length nk)).

(* estimate_gaussian_covariances_full, one component:
   diff = observations - means.row(k); m = diff.t() * resp[.., k]; cov = m.dot(diff) / nk[k];
   cov.diag += reg_covar *)
Definition cov_of (X : list (list F)) (rk mu : list F) (nkk reg : F) : list (list F) :=
  let diff := map (fun x => vsub x mu) X in
  let d := length mu in
  map (fun a => map (fun b =>
         let v := div o (dotv (vmul (col a diff) rk) (col b diff)) nkk in
         if Nat.eqb a b then add o v reg else v) (seq 0 d)) (seq 0 d).

Record gparams := { g_nk : list F; g_means : list (list F); g_covs : list (list (list F)) }.

Definition estimate_gaussian_parameters (ten_eps : F) (X resp : list (list F)) (reg : F) : option gparams :=
  let nk := nk_of resp in
  if empty_cluster ten_eps nk then None else
  let mu := means_of X resp nk in
  Some {| g_nk := nk; g_means := mu;
          g_covs := map (fun k => cov_of X (col k resp) (nth k mu []) (nth k nk (zero o)) reg)
                        (seq 0 (length nk)) |}.

(* weights = nk / n_samples *)
Definition weights_of (nk : list F) (n : N) : list F := map (fun v => div o v (of_N o n)) nk.

(* ndarray-stats argmax: the first maximal element (strictly greater replaces) *)
Fixpoint argmax_from (l : list F) (i best : nat) (bv : F) : nat :=
  match l with
  | [] => best
  | v :: t => if ltb o bv v then argmax_from t (S i) i v else argmax_from t (S i) best bv
  end.
Definition argmax_first (l : list F) : nat :=
  match l with [] => 0%nat | v :: t => argmax_from t 1 0%nat v end.

(** estimate_log_prob_resp on one row of weighted log probabilities; [fexp]/[fln] are the
    exponential and the logarithm of the arithmetic at hand *)
Context (fexp fln : F -> F).

Definition fmax (a b : F) : F := if ltb o a b then b else a.
(* fold_axis(Axis(1), -inf, max): for a non-empty row without NaN this is the fold from its head *)
Definition row_max (w : list F) : F := match w with [] => zero o | x :: t => fold_left fmax t x end.

(* current code: ln(sum(exp(wlp - max))) + max *)
Definition lse_stable (w : list F) : F :=
  let m := row_max w in add o (fln (usum o (map (fun x => fexp (sub o x m)) w))) m.
(* code before commit 26696b7: ln(sum(exp(wlp))) *)
Definition lse_naive (w : list F) : F := fln (usum o (map fexp w)).

Definition log_resp (lse : F) (w : list F) : list F := map (fun x => sub o x lse) w.
Definition resp_stable (w : list F) : list F := map fexp (log_resp (lse_stable w) w).
Definition resp_naive (w : list F) : list F := map fexp (log_resp (lse_naive w) w).
(* predict: row arg-max of exp(log_resp) *)
Definition predict_row (w : list F) : nat := argmax_first (resp_stable w).
End GP.

(* ------------------------------------------------------------------------------------------ *)
(** * Part 2: the checker of a fitted mixture, exact rational arithmetic *)

Definition fin_vec (v : list float) : bool := forallb f64_finite v.
Definition fin_mat (m : list (list float)) : bool := forallb fin_vec m.
(* the exact rational value of a finite float, not normalised: f64_Q x = Qred (f64_Qr x) *)
Definition SF2Qr (x : spec_float) : Q :=
  match x with
  | S754_finite s m e => inject_Z (if s then Zneg m else Zpos m) * Qpow2 e
  | _ => 0%Q
  end.
Definition f64_Qr (x : float) : Q := SF2Qr (Prim2SF x).
Definition Qv (v : list float) : list Q := map f64_Qr v.
Definition Qm (m : list (list float)) : Qmat := map Qv m.

Definition pow2m (n : positive) : Q := 1 # (Pos.pow 2 n).
Definition d40 : Q := pow2m 40.
Definition d44 : Q := pow2m 44.
Definition d10 : Q := pow2m 10.

Definition Qmin' (a b : Q) : Q := if Qleb a b then a else b.
Definition Qmax' (a b : Q) : Q := if Qleb a b then b else a.
Definition colQ (j : nat) (M : Qmat) : list Q := map (fun r => nth j r 0%Q) M.
Definition maxabs (M : Qmat) : Q := fold_left (fun acc r => fold_left (fun a x => Qmax' a (Qabs' x)) r acc) M 0%Q.

(** weights: k of them, positive, summing to one within 2^-40 *)
Definition weights_ok (k : nat) (w : list Q) : bool :=
  Nat.eqb (length w) k && forallb (fun x => Qltb 0 x) w && Qleb (Qabs' (Qsum w - 1)) d40.

(** one mean inside the bounding box of the data, feature by feature.  The box is spanned by two
    observed values per feature (picked with float comparisons, which are exact); the slack covers
    the rounding of a weighted mean: 2^-40 * (largest magnitude of the two + their distance) *)
Definition fcol (j : nat) (X : list (list float)) : list float := map (fun r => nth j r 0%float) X.
Definition col_lo_f (c : list float) : float :=
  match c with [] => 0%float | x :: t => fold_left (fun a v => if PrimFloat.ltb v a then v else a) t x end.
Definition col_hi_f (c : list float) : float :=
  match c with [] => 0%float | x :: t => fold_left (fun a v => if PrimFloat.ltb a v then v else a) t x end.
Definition bbox (X : list (list float)) (d : nat) : list (float * float) :=
  map (fun j => let c := fcol j X in (col_lo_f c, col_hi_f c)) (seq 0 d).
Definition bbox_slack (lo hi : Q) : Q := d40 * (Qmax' (Qabs' lo) (Qabs' hi) + (hi - lo)).
Definition coord_in_box (b : float * float) (v : Q) : bool :=
  let lo := f64_Qr (fst b) in let hi := f64_Qr (snd b) in
  let s := bbox_slack lo hi in Qleb (lo - s) v && Qleb v (hi + s).
Definition mean_in_bbox (box : list (float * float)) (mu : list Q) : bool :=
  Nat.eqb (length mu) (length box) && forallb (fun bv => coord_in_box (fst bv) (snd bv)) (combine box mu).

(** covariance: d x d, symmetric within 2^-40 relative to its largest diagonal entry, positive
    definite (exact LDL^T of the symmetric part, all pivots positive), and still positive
    semi-definite after removing (1 - 2^-10) reg_covar from the diagonal *)
Definition sym_tol (d : nat) (S : Qmat) : Q :=
  d40 * fold_left (fun a i => Qmax' a (Qabs' (nth i (nth i S []) 0%Q))) (seq 0 d) 0%Q.
Definition sym_within (d : nat) (S : Qmat) : bool :=
  let tol := sym_tol d S in
  forallb (fun i => forallb (fun j =>
     Qleb (Qabs' (nth j (nth i S []) 0%Q - nth i (nth j S []) 0%Q)) tol) (seq 0 d)) (seq 0 d).
Definition cov_ok (d : nat) (S : Qmat) : bool := sym_within d S && ldl_pd d S.
Definition reg_part (reg : Q) : Q := reg * (1 - d10).
Definition cov_has_reg (d : nat) (reg : Q) (S : Qmat) : bool := ldl_psd_shift d S (reg_part reg).

(** precision: ||P S - I||_max <= 2^-44 d^2 ||P||_max ||S||_max, exact product *)
Definition prec_tol (d : nat) (P S : Qmat) : Q := d44 * inject_Z (Z.of_nat (d * d)) * maxabs P * maxabs S.
Definition kron (i j : nat) : Q := if Nat.eqb i j then 1%Q else 0%Q.
Definition prec_ok (d : nat) (P S : Qmat) : bool :=
  rectb d d P && rectb d d S &&
  let tol := prec_tol d P S in
  forallb (fun i => forallb (fun j =>
     Qleb (Qabs' (Qdot_fast (nth i P []) (colQ j S) - kron i j)) tol) (seq 0 d)) (seq 0 d).

(** quantities shared by the probability checks: for a query x and component (mu, P),
    d^2 |x - mu|_inf^2 |P|_max bounds the Mahalanobis form (x-mu)^T P (x-mu), whose floating-point
    evaluation error is what limits the accuracy of the normalisation far from the data *)
Definition vsubQ (a b : list Q) : list Q := zipw Qminus a b.
Definition linf (v : list Q) : Q := fold_left (fun a x => Qmax' a (Qabs' x)) v 0%Q.
Definition maha_bound (d : nat) (x mu : list Q) (Pmax : Q) : Q :=
  let l := linf (vsubQ x mu) in inject_Z (Z.of_nat (d * d)) * l * l * Pmax.
(* [mps]: the means paired with |P|_max of their precision matrices *)
Definition row_tol (d : nat) (mps : list (list Q * Q)) (x : list Q) : Q :=
  d44 * (16 + fold_left Qmax' (map (fun mP => maha_bound d x (fst mP) (snd mP)) mps) 0%Q).

(** one row of predict_proba with its predicted component *)
Definition proba_row_valid (k : nat) (tol : Q) (row : list float) : bool :=
  Nat.eqb (length row) k && fin_vec row &&
  forallb (fun p => Qleb 0 p) (Qv row) && Qleb (Qabs' (Qsum (Qv row) - 1)) tol.
Definition pred_is_max (row : list float) (pred : N) : bool :=
  match nth_error (Qv row) (N.to_nat pred) with
  | None => false
  | Some pm => forallb (fun p => Qleb p pm) (Qv row)
  end.

Record fitted := {
  m_weights : list float;
  m_means : list (list float);
  m_covs : list (list (list float));
  m_precs : list (list (list float))
}.

Definition params_finite (m : fitted) : bool :=
  fin_vec (m_weights m) && fin_mat (m_means m) && forallb fin_mat (m_covs m) && forallb fin_mat (m_precs m).

Definition shapes_ok (k d : nat) (m : fitted) : bool :=
  Nat.eqb (length (m_weights m)) k && rectb k d (m_means m) &&
  Nat.eqb (length (m_covs m)) k && forallb (rectb d d) (m_covs m) &&
  Nat.eqb (length (m_precs m)) k && forallb (rectb d d) (m_precs m).

Definition flagN (b : bool) (code : N) : N := if b then 0%N else code.

(** the checker, as a bit mask of violated conjuncts (0 = all hold): data X (n x d), k components,
    configured reg_covar, the fitted model, a query batch with its probabilities and predictions *)
Definition gmm_bits (X : list (list float)) (k d : nat) (reg : float) (m : fitted)
                    (query proba : list (list float)) (pred : list N) : N :=
  if negb (Nat.eqb (length X) 0) && fin_mat X && f64_finite reg && params_finite m && shapes_ok k d m
     && fin_mat query && rectb (length query) d query
     && Nat.eqb (length proba) (length query) && Nat.eqb (length pred) (length query) then
    let box := bbox X d in
    let mus := Qm (m_means m) in
    let covs := map Qm (m_covs m) in
    let precs := map Qm (m_precs m) in
    let r := f64_Qr reg in
    let mps := combine mus (map maxabs precs) in
    (flagN (weights_ok k (Qv (m_weights m))) 2
     + flagN (forallb (mean_in_bbox box) mus) 4
     + flagN (forallb (cov_ok d) covs) 8
     + flagN (forallb (cov_has_reg d r) covs) 16
     + flagN (forallb (fun PS => prec_ok d (fst PS) (snd PS)) (combine precs covs)) 32
     + flagN (forallb (fun xr => proba_row_valid k (row_tol d mps (Qv (fst xr))) (snd xr)) (combine query proba)) 64
     + flagN (forallb (fun rp => pred_is_max (fst rp) (snd rp)) (combine proba pred)) 128)%N
  else 1%N.

Definition gmm_ok (X : list (list float)) (k d : nat) (reg : float) (m : fitted)
                  (query proba : list (list float)) (pred : list N) : bool :=
  N.eqb (gmm_bits X k d reg m query proba pred) 0.
