(** C10 - correspondence and property oracle.
    corr   : (a) exact stream: weights / means / covariances of the fitted model equal the Gallina
                 model of estimate_gaussian_parameters at binary64, fed with the implementation's own
                 (hard, 0/1) responsibilities - bit for bit up to the sign of zero;
             (b) predict = first arg-max of the predict_proba row;
             (c) predict_proba lies in an enclosure (Coq Interval, 64 bits) of the posterior
                 membership probabilities of the published mixture (weights, means, precisions),
                 widened by a stated bound on the floating-point evaluation error:
                 2^-44 (4 + |ln w sqrt(det P)| + d^2 |x-mu|_inf^2 |P|_max + d^2 |S|_max |P|_max) in the log domain.
             (d) precisions_chol (read through the serde data model) is, bit for bit, the model's Cholesky
                 factorisation + pivot guard + forward substitution (C10/FitModel.v at binary64) of the
                 published covariances - on every fitted model of every stream;
             (e) fit stream: the whole fit (C10/FitModel.v fit64: `new` from the initial responsibilities the
                 harness obtains the way `new` does, the EM / n_runs loops, the final match) run at binary64
                 against the implementation for several (max_n_iterations, n_runs) on degenerate exact inputs:
                 Ok / GmmError variant, and for Ok weights, means, covariances, precisions_chol bit for bit,
                 precisions within 2^-44, and the e_step responsibilities of the returned state against
                 predict_proba on the training data bit for bit.
    oracle : the conjuncts of the verified checker [gmm_ok] (C10/Model.v), one bit each. *)
From Coq Require Import List NArith ZArith QArith Bool Floats.
From LinfaVerif Require Export Common.Num Common.NdSum Common.Run Common.QF Common.LDL C10.Model C10.FitModel.
From Interval Require Specific_bigint Specific_ops Float_full Basic.
From Bignums Require Import BigZ.
Import ListNotations.

Definition o64 := B64_ops.

Record scase := {
  c_id : N;
  c_k : N;
  c_d : N;
  c_reg : float;
  c_X : list (list float);
  c_exact : bool;                      (* harness: dyadic separated blobs and the hard partition is the blobs' *)
  c_weights : list float;
  c_means : list (list float);
  c_covs : list (list (list float));
  c_precs : list (list (list float));
  c_pchol : list (list (list float));  (* precisions_chol (private field, via serde); [] = not available *)
  c_xproba : list (list float);        (* predict_proba on the training data (exact cases only) *)
  c_query : list (list float);
  c_proba : list (list float);
  c_pred : list N
}.

Definition fitted_of (c : scase) : fitted :=
  {| m_weights := c_weights c; m_means := c_means c; m_covs := c_covs c; m_precs := c_precs c |}.

(* ---------------------------------------------------------------- (a) exact stream *)
Definition feq (a b : float) : bool := PrimFloat.eqb a b.     (* numeric equality: +0 = -0 *)
Definition veq := list_eqb feq.
Definition meq := list_eqb veq.
Definition ten_eps : float := ten_eps64.                        (* 10 * f64::EPSILON *)

Definition one_hot (resp : list (list float)) : bool :=
  forallb (fun r => forallb (fun v => feq v 0%float || feq v 1%float) r
                    && Nat.eqb (length (filter (fun v => feq v 1%float) r)) 1) resp.

Definition corr_exact (c : scase) : N :=
  if c_exact c then
    if one_hot (c_xproba c) then
      match estimate_gaussian_parameters o64 ten_eps (c_X c) (c_xproba c) (c_reg c) with
      | None => 8%N
      | Some g =>
          (flag (veq (weights_of o64 (g_nk g) (N.of_nat (length (c_X c)))) (c_weights c)) 1
           + flag (meq (g_means g) (c_means c)) 2
           + flag (list_eqb meq (g_covs g) (c_covs c)) 4)%N
      end
    else 16%N
  else 0%N.

(* ---------------------------------------------------------------- (b) predict *)
Definition corr_predict (c : scase) : N :=
  flag (list_eqb N.eqb (map (fun row => N.of_nat (argmax_first o64 row)) (c_proba c)) (c_pred c)) 32.

(* ---------------------------------------------------------------- (c) posterior enclosure *)
Module F := Specific_ops.SpecificFloat Specific_bigint.BigIntRadix2.
Module I := Float_full.FloatIntervalFull F.
Definition iprec : I.F.precision := I.F.PtoP 64.

Definition Ipt (n : bigZ) : I.type := I.bnd (Specific_ops.Float n 0%bigZ) (Specific_ops.Float n 0%bigZ).
Definition IB (num den : bigZ) : I.type := I.div iprec (Ipt num) (Ipt den).
Definition IQ (q : Q) : I.type := IB (BigZ.of_Z (Qnum q)) (BigZ.of_Z (Zpos (Qden q))).
Definition FQ (f : I.F.type) : option Q :=
  match I.F.toF f with
  | Basic.Fzero => Some 0%Q
  | Basic.Float s m e => Some (inject_Z (if s then Zneg m else Zpos m) * Qpow2 e)%Q
  | Basic.Fnan => None
  end.
Definition Ibounds (i : I.type) : option (Q * Q) :=
  match FQ (I.lower i), FQ (I.upper i) with Some a, Some b => Some (a, b) | _, _ => None end.

(* exact integer arithmetic (Bignums) for determinants and quadratic forms: every input is a dyadic
   rational, so a vector / matrix is an integer vector / matrix over one power-of-two denominator *)
Definition toB (D : positive) (q : Q) : bigZ := BigZ.of_Z (toZ D q).
Definition scalevB (v : list Q) : list bigZ * positive := let D := denv v in (map (toB D) v, D).
Definition scalemB (M : Qmat) : Bmat * positive := let D := maxden M in (map (map (toB D)) M, D).
Definition quadB (P : Bmat) (v : list bigZ) : bigZ := Bdot v (map (fun r => Bdot r v) P).
Definition Bpos (p : positive) : bigZ := BigZ.of_Z (Zpos p).

(* scaled pivots of the division-free elimination (all must be positive) *)
Fixpoint pivB (n : nat) (U : Bmat) (acc : list bigZ) : option (list bigZ) :=
  match n, U with
  | O, _ => Some (rev acc)
  | S n', (a :: c) :: U' => if BigZ.ltb 0 a then pivB n' (schurB a c U') (a :: acc) else None
  | _, _ => None
  end.
(* det of the symmetric part of P = prod_i a'_i / c_i with c_0 = D, c_(i+1) = 4 c_i a'_i *)
Definition detB (d : nat) (P : Qmat) : option (bigZ * bigZ) :=
  let '(UB, D) := scalemB (tri_of d P) in
  match pivB d UB [] with
  | None => None
  | Some piv =>
      let '(num, den, _) := fold_left (fun st a => let '(nu, de, c) := st in ((nu * a)%bigZ, (de * c)%bigZ, (4 * c * a)%bigZ))
                                      piv (1%bigZ, 1%bigZ, Bpos D) in
      Some (num, den)
  end.

(* enclosure of ln w_k + (1/2) ln det P_k, through one logarithm of the exact rational w^2 det P *)
Definition comp_const (d : nat) (w : Q) (P : Qmat) : option I.type :=
  if rectb d d P && Qltb 0 w then
    match detB d P with
    | Some (num, den) =>
        let wn := BigZ.of_Z (Qnum w) in let wd := Bpos (Qden w) in
        Some (I.mul iprec (IQ (1 # 2)) (I.ln iprec (IB (wn * wn * num)%bigZ (wd * wd * den)%bigZ)))
    | None => None
    end
  else None.

Fixpoint all_some {A} (l : list (option A)) : option (list A) :=
  match l with
  | [] => Some []
  | Some a :: t => match all_some t with Some r => Some (a :: r) | None => None end
  | None :: _ => None
  end.

Definition thr : Q := 50.
Definition p72 : Q := pow2m 72.      (* e^-50 < 2^-72 *)
Definition eps_abs : Q := pow2m 1000.

(* contribution exp(s_j - s_k) of component j to the normaliser of component k:
   Neg: below e^-50; Pos: above e^50; Mid lo hi: bounds (hi = None: unbounded) *)
Inductive contrib := Neg | Pos | Mid (lo : Q) (hi : option Q) | Fail.

Definition exp_bounds (q : Q) : option (Q * Q) := Ibounds (I.exp iprec (IQ q)).

Definition contrib_of (d : I.type) : contrib :=
  match Ibounds d with
  | None => Fail
  | Some (dlo, dhi) =>
      if Qltb dhi (- thr) then Neg
      else if Qltb thr dlo then Pos
      else
        let lo_in := Qleb (- thr) dlo in let hi_in := Qleb dhi thr in
        let w := dhi - dlo in
        if lo_in && hi_in && Qleb w (pow2m 10) then
          match exp_bounds dlo with
          | Some (elo, ehi0) => Mid elo (Some (ehi0 * (1 + 2 * w)))       (* e^w <= 1 + 2w for w <= 1 *)
          | None => Fail
          end
        else
          match (if lo_in then exp_bounds dlo else Some (0%Q, 0%Q)),
                (if hi_in then exp_bounds dhi else Some (0%Q, 0%Q)) with
          | Some (elo, _), Some (_, ehi) => Mid elo (if hi_in then Some ehi else None)
          | _, _ => Fail
          end
  end.
Definition inv_bounds (lo hi : Q) : option (Q * Q) := Ibounds (I.inv iprec (I.join (IQ lo) (IQ hi))).
Definition contrib_inv (c : contrib) : contrib :=
  match c with
  | Neg => Pos | Pos => Neg | Fail => Fail
  | Mid lo hi =>
      match hi with
      | Some h =>
          if Qltb 0 lo then match inv_bounds lo h with Some (a, b) => Mid a (Some b) | None => Fail end
          else if Qltb 0 h then match inv_bounds h h with Some (a, _) => Mid a None | None => Fail end
          else Fail
      | None =>
          if Qltb 0 lo then match inv_bounds lo lo with Some (_, b) => Mid 0 (Some b) | None => Fail end
          else Mid 0 None
      end
  end.

(* row of the upper triangle j < k computed with one exponential each, the rest by inversion *)
Definition contrib_table (sb : list I.type) : list (list contrib) :=
  let n := length sb in
  let upper := map (fun j => map (fun k =>
                 if Nat.ltb j k then contrib_of (I.sub iprec (nth j sb I.nai) (nth k sb I.nai)) else Fail)
                 (seq 0 n)) (seq 0 n) in
  map (fun j => map (fun k =>
         if Nat.ltb j k then nth k (nth j upper []) Fail
         else if Nat.eqb j k then Mid 1 (Some 1%Q)
         else contrib_inv (nth j (nth k upper []) Fail)) (seq 0 n)) (seq 0 n).

Definition epsI : I.type := let e := Specific_ops.Float 1%bigZ (-1000)%bigZ in I.bnd e e.
Definition Isum (l : list Q) : I.type := fold_left (fun a q => I.add iprec a (IQ q)) l (IQ 1).

(* implementation value p of component k against the enclosure 1 / (1 + sum_j contributions):
   [p(1-rel) - eps, p(1+rel) + eps] must meet [1/Shi, 1/Slo]; [rel] covers the rounding of the
   normaliser ln(sum) + max, common to all components of a row *)
Definition post_entry (rel : Q) (tab : list (list contrib)) (k : nat) (p : Q) : N :=
  let col := map (fun jr => nth k (snd jr) Fail)
                 (filter (fun jr => negb (Nat.eqb (fst jr) k)) (combine (seq 0 (length tab)) tab)) in
  if existsb (fun c => match c with Fail => true | _ => false end) col then 128%N
  else if existsb (fun c => match c with Pos => true | _ => false end) col then flag (Qleb p (2 * p72)) 64
  else
    let Slo := Isum (map (fun c => match c with Mid lo _ => lo | _ => 0 end) col) in
    let ip := IQ p in
    let up_ok :=
      if Qleb 1 rel then true else
      match Ibounds (I.mul iprec (I.sub iprec (I.mul iprec ip (IQ (1 - rel))) epsI) Slo) with
      | Some (a, _) => Qleb a 1 | None => false end in
    let lo_ok :=
      if existsb (fun c => match c with Mid _ None => true | _ => false end) col then true else
      let Shi := Isum (map (fun c => match c with Mid _ (Some hi) => hi | _ => p72 end) col) in
      match Ibounds (I.mul iprec (I.add iprec (I.mul iprec ip (IQ (1 + rel))) epsI) Shi) with
      | Some (_, b) => Qleb 1 b | None => false end in
    flag (up_ok && lo_ok) 64.

(* per component: mean, integer precision matrix with its denominator, |P|_max, log-constant enclosure *)
Definition comp := (list Q * (Bmat * positive) * Q * I.type)%type.

Definition post_row (d : nat) (comps : list comp) (Lmax : Q) (x : list Q) (row : list Q) : N :=
  let AB := map (fun cp : comp =>
                   let '(mu, (Pz, DP), Pmax, cst) := cp in
                   let v := zipw Qminus x mu in
                   let '(vz, Dv) := scalevB v in
                   let l := linf v in
                   (I.add iprec (IB (- quadB Pz vz)%bigZ (2 * Bpos Dv * Bpos Dv * Bpos DP)%bigZ) cst,
                    inject_Z (Z.of_nat (d * d)) * l * l * Pmax)) comps in
  let Bmax := fold_left Qmax' (map snd AB) 0%Q in
  let eta := d44 * (4 + Lmax + Bmax) in
  let etaI := I.join (IQ (- eta)) (IQ eta) in
  let tab := contrib_table (map (fun ab => I.add iprec (fst ab) etaI) AB) in
  fold_left N.lor (map (fun kp => post_entry (d40 + 2 * eta) tab (fst kp) (snd kp)) (combine (seq 0 (length row)) row)) 0%N.

Definition corr_posterior (c : scase) : N :=
  let m := fitted_of c in
  let k := N.to_nat (c_k c) in let d := N.to_nat (c_d c) in
  if params_finite m && shapes_ok k d m && fin_mat (c_query c) && fin_mat (c_proba c)
     && rectb (length (c_query c)) d (c_query c) && rectb (length (c_query c)) k (c_proba c) then
    let Ps := map Qm (c_precs c) in
    match all_some (map (fun wP => comp_const d (fst wP) (snd wP)) (combine (Qv (c_weights c)) Ps)) with
    | None => 128%N
    | Some consts =>
        match all_some (map Ibounds consts) with
        | None => 128%N
        | Some cb =>
            let comps : list comp :=
              map (fun t => let '(mu, P, cst) := t in (mu, scalemB P, maxabs P, cst))
                  (combine (combine (Qm (c_means c)) Ps) consts) in
            let Lmax0 := fold_left (fun a c => Qmax' a (Qmax' (Qabs' (fst c)) (Qabs' (snd c)))) cb 0%Q in
            (* conditioning: the enclosure uses the published precisions P = fl(C C^T), the implementation its
               Cholesky factor C; entries differ by <= d eps |P|_max, which moves ln det P by up to
               tr(|P^-1| |dP|) <= d^3 eps |S|_max |P|_max (P^-1 ~ S) - added to the allowance as
               2^-44 d^2 |S|_max |P|_max *)
            let Cmax := fold_left Qmax'
                          (map (fun PS => inject_Z (Z.of_nat (d * d)) * maxabs (fst PS) * maxabs (Qm (snd PS)))
                               (combine Ps (c_covs c))) 0%Q in
            let Lmax := Lmax0 + Cmax in
            fold_left N.lor
              (map (fun xr => post_row d comps Lmax (Qv (fst xr)) (Qv (snd xr)))
                   (combine (c_query c) (c_proba c))) 0%N
        end
    end
  else 0%N.   (* malformed outputs are the oracle's business (bits 1, 64) *)

(* ---------------------------------------------------------------- property oracle *)
Definition oracle (c : scase) : N :=
  gmm_bits (c_X c) (N.to_nat (c_k c)) (N.to_nat (c_d c)) (c_reg c) (fitted_of c) (c_query c) (c_proba c) (c_pred c).

(* ---------------------------------------------------------------- (d) precisions_chol *)
Definition teq := list_eqb meq.
Definition corr_pchol (covs pchol : list (list (list float))) : N :=
  match pchol with
  | [] => 0%N
  | _ => match prec_chol_full o64 eps64 covs with
         | Some Ps => flag (teq Ps pchol) 256
         | None => 256%N
         end
  end.

Definition run_scase (c : scase) : verdict :=
  (c_id c, (N.lor (N.lor (N.lor (corr_exact c) (corr_predict c)) (corr_posterior c)) (corr_pchol (c_covs c) (c_pchol c)),
            oracle c)).

(* ---------------------------------------------------------------- (e) the whole fit *)
Record probe := {
  p_max_iter : N;
  p_n_runs : N;
  p_kind : N;                          (* 0 = Ok, 1..8 = variant of GmmError, 100 = panic *)
  p_w : list float;
  p_mu : list (list float);
  p_cov : list (list (list float));
  p_prec : list (list (list float));
  p_pchol : list (list (list float));
  p_xproba : list (list float);        (* predict_proba on the training data *)
  p_pred : list N                      (* predict on the training data *)
}.
Record fcase := {
  f_id : N;
  f_k : N;
  f_d : N;
  f_reg : float;
  f_tol : float;
  f_X : list (list float);
  f_init : N;                          (* 0 = f_resp0 holds the initial responsibilities; 6 = the k-means
                                          initialiser returned an error; 100 = it panicked (nothing compared) *)
  f_resp0 : list (list float);
  f_dln2pi : float;                    (* n_features as f64 * f64::ln(2 PI) *)
  f_lntab : list (float * float);      (* (x, f64::ln x) for the weights and diag(precisions_chol) of the returned models *)
  f_decidable : bool;                  (* harness: the model run must not answer "unknown" *)
  f_probes : list probe
}.

(** every table entry (x, y) has x > 0 finite and y within 2^-50 (|y| + 2^-60) of ln x *)
Definition ln_entry_ok (xy : float * float) : bool :=
  let '(x, y) := xy in
  f64_finite x && f64_finite y && PrimFloat.ltb 0%float x &&
  match Ibounds (I.ln iprec (IQ (f64_Qr x))) with
  | Some (lo, hi) =>
      let yq := f64_Qr y in
      let t := pow2m 50 * (Qabs' yq + pow2m 60) in
      Qleb (lo - t) yq && Qleb yq (hi + t)
  | None => false
  end.

Definition init_of (c : fcase) : res (list (list float)) :=
  match f_init c with 0%N => ROk (f_resp0 c) | e => RErr e end.

(** closeness of the published precisions to P P^T of the model (a matrix product in the implementation:
    not reproduced bit for bit): entry by entry within 2^-44 of the largest magnitudes of the two matrices *)
Definition fmaxabs (M : list (list float)) : Q := maxabs (Qm M).
Definition mclose (A B : list (list float)) : bool :=
  fin_mat A && fin_mat B &&
  let t := d44 * (fmaxabs A + fmaxabs B) in
  list_eqb (list_eqb (fun a b => Qleb (Qabs' (f64_Qr a - f64_Qr b)) t)) A B.
Definition tclose := list_eqb mclose.

Definition probe_corr (c : fcase) (p : probe) : N :=
  match f_init c, p_kind p with
  | 100%N, _ => 0%N
  | _, 100%N => 0%N                                          (* a panic is the oracle's business *)
  | _, _ =>
      let r := fit64 (f_lntab c) [] (f_dln2pi c) (f_tol c) (N.to_nat (p_max_iter p)) (N.to_nat (p_n_runs p))
                     (f_X c) (f_reg c) (init_of c) in
      match r with
      | RErr 99%N => if f_decidable c then 4096%N else 0%N
      | RErr e => flag (N.eqb e (p_kind p)) 512
      | ROk g =>
          if N.eqb (p_kind p) 0 then
            (flag (veq (s_w g) (p_w p) && meq (s_mu g) (p_mu p) && teq (s_cov g) (p_cov p)) 1024
             + flag (teq (s_pchol g) (p_pchol p)) 256
             + flag (tclose (s_prec g) (p_prec p)) 16384
             + (* e_step of the returned state: responsibilities = exp(log_resp) against predict_proba(X) *)
               (if forallb (known_ln64 (f_lntab c)) (ln_args o64 (fexp64 []) (fln64 (f_lntab c)) (-0.5)%float (f_dln2pi c) (f_X c) g)
                   && forallb (known_exp64 []) (exp_args o64 (fexp64 []) (fln64 (f_lntab c)) (-0.5)%float (f_dln2pi c) (f_X c) g)
                then flag (meq (map (map (fexp64 [])) (e_lr (e_step_full64 (f_lntab c) [] (f_dln2pi c) (f_X c) g))) (p_xproba p)) 2048
                else if f_decidable c then 4096%N else 0%N))%N
          else 512%N
      end
  end.

(** the oracle on a returned model: the verified checker with the training data as the query batch *)
Definition probe_oracle (c : fcase) (p : probe) : N :=
  if N.eqb (p_kind p) 0 then
    gmm_bits (f_X c) (N.to_nat (f_k c)) (N.to_nat (f_d c)) (f_reg c)
             {| m_weights := p_w p; m_means := p_mu p; m_covs := p_cov p; m_precs := p_prec p |}
             (f_X c) (p_xproba p) (p_pred p)
  else 0%N.

Definition same_model (p q : probe) : bool :=
  N.eqb (p_kind p) (p_kind q) && veq (p_w p) (p_w q) && meq (p_mu p) (p_mu q) && teq (p_cov p) (p_cov q)
  && teq (p_prec p) (p_prec q) && meq (p_xproba p) (p_xproba q) && list_eqb N.eqb (p_pred p) (p_pred q).

(* identical returned models are judged once *)
Fixpoint oracle_probes (c : fcase) (seen ps : list probe) : N :=
  match ps with
  | [] => 0%N
  | p :: t =>
      if existsb (same_model p) seen then oracle_probes c seen t
      else N.lor (probe_oracle c p) (oracle_probes c (p :: seen) t)
  end.

Definition run_fcase (c : fcase) : verdict :=
  (f_id c,
   (N.lor (flag (forallb ln_entry_ok (f_lntab c)) 8192)
          (fold_left N.lor (map (probe_corr c) (f_probes c)) 0%N),
    oracle_probes c [] (f_probes c))).

(* ---------------------------------------------------------------- (f) binary32 fits *)
(** The validity oracle for GaussianMixtureModel::<f32>: the conjuncts of [gmm_bits] evaluated exactly (every
    binary32 value is a binary64 value, the harness widens the outputs) with binary32 tolerances (eps32 = 2^-24):
    weights sum to one within 2^-20; mean coordinates in the bounding box with slack 2^-16 relative; covariances
    symmetric within 2^-18 of the largest diagonal entry, symmetric part positive definite (exact LDL^T), still
    and not singular to working precision ([pivots_wp32]), still positive semi-definite without
    (1 - 2^-10) reg_covar; every entry of precision x covariance within 2^-20 d^2 |P|_max |S|_max of the
    identity's; probability rows finite, non-negative, summing to one within
    2^-18 (16 + max_j d^2 |x - mu_j|_inf^2 |P_j|_max); predicted component of maximal probability *)
Definition t16 : Q := pow2m 16.
Definition t18 : Q := pow2m 18.
Definition t20 : Q := pow2m 20.
Definition weights_ok32 (k : nat) (w : list Q) : bool :=
  Nat.eqb (length w) k && forallb (fun x => Qltb 0 x) w && Qleb (Qabs' (Qsum w - 1)) t20.
Definition coord_in_box32 (b : float * float) (v : Q) : bool :=
  let lo := f64_Qr (fst b) in let hi := f64_Qr (snd b) in
  let s := t16 * (Qmax' (Qabs' lo) (Qabs' hi) + (hi - lo)) in Qleb (lo - s) v && Qleb v (hi + s).
Definition mean_in_bbox32 (box : list (float * float)) (mu : list Q) : bool :=
  Nat.eqb (length mu) (length box) && forallb (fun bv => coord_in_box32 (fst bv) (snd bv)) (combine box mu).
Definition sym_within32 (d : nat) (S : Qmat) : bool :=
  let tol := t18 * fold_left (fun a i => Qmax' a (Qabs' (nth i (nth i S []) 0%Q))) (seq 0 d) 0%Q in
  forallb (fun i => forallb (fun j =>
     Qleb (Qabs' (nth j (nth i S []) 0%Q - nth i (nth j S []) 0%Q)) tol) (seq 0 d)) (seq 0 d).
Definition prec_ok32 (d : nat) (P S : Qmat) : bool :=
  rectb d d P && rectb d d S &&
  let tol := t20 * inject_Z (Z.of_nat (d * d)) * maxabs P * maxabs S in
  forallb (fun i => forallb (fun j =>
     Qleb (Qabs' (Qdot_fast (nth i P []) (colQ j S) - kron i j)) tol) (seq 0 d)) (seq 0 d).
(** not singular to working precision: every pivot of the exact LDL^T factorisation (natural order, the order
    of the implementation's Cholesky factorisation) exceeds (d + 2) 2^-24 S_jj - half the threshold
    (d + 2) eps32 S_jj below which compute_precisions_cholesky_full must answer NotPositiveDefinite (41f7336);
    the other half is the allowance for the rounding of the float pivot *)
Definition pivots_wp32 (d : nat) (S : Qmat) : bool :=
  let piv := ldl_pivots d S in
  Nat.eqb (length piv) d &&
  forallb (fun j => Qltb (inject_Z (Z.of_nat (d + 2)) * pow2m 24 * nth j (nth j S []) 0%Q) (nth j piv 0%Q)) (seq 0 d).
Definition row_tol32 (d : nat) (mps : list (list Q * Q)) (x : list Q) : Q :=
  t18 * (16 + fold_left Qmax' (map (fun mP => maha_bound d x (fst mP) (snd mP)) mps) 0%Q).

Definition gmm_bits32 (X : list (list float)) (k d : nat) (reg : float) (m : fitted)
                      (query proba : list (list float)) (pred : list N) : N :=
  if negb (Nat.eqb (length X) 0) && fin_mat X && f64_finite reg && params_finite m && shapes_ok k d m
     && fin_mat query && rectb (length query) d query
     && Nat.eqb (length proba) (length query) && Nat.eqb (length pred) (length query) then
    let box := bbox X d in
    let mus := Qm (m_means m) in
    let covs := map Qm (m_covs m) in
    let precs := map Qm (m_precs m) in
    let r := f64_Qr reg in
    let mps := combine mus (map maxabs precs) in
    (flagN (weights_ok32 k (Qv (m_weights m))) 2
     + flagN (forallb (mean_in_bbox32 box) mus) 4
     + flagN (forallb (fun S => sym_within32 d S && ldl_pd d S && pivots_wp32 d S) covs) 8
     + flagN (forallb (cov_has_reg d r) covs) 16
     + flagN (forallb (fun PS => prec_ok32 d (fst PS) (snd PS)) (combine precs covs)) 32
     + flagN (forallb (fun xr => proba_row_valid k (row_tol32 d mps (Qv (fst xr))) (snd xr)) (combine query proba)) 64
     + flagN (forallb (fun rp => pred_is_max (fst rp) (snd rp)) (combine proba pred)) 128)%N
  else 1%N.

Definition run_case32 (c : scase) : verdict :=
  (c_id c, (corr_predict c,
            gmm_bits32 (c_X c) (N.to_nat (c_k c)) (N.to_nat (c_d c)) (c_reg c) (fitted_of c) (c_query c) (c_proba c) (c_pred c))).

Inductive case := Std (c : scase) | Fit (c : fcase) | F32 (c : scase).

Definition run_case (c : case) : verdict :=
  match c with Std s => run_scase s | Fit f => run_fcase f | F32 s => run_case32 s end.

Definition run_cases (cs : list case) : list N := report (map run_case cs).
