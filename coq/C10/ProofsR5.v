(** C10 (round 5) - lemmas: the M-step (estimate_gaussian_parameters, estimate_gaussian_covariances_full,
    weights = nk / n) as modelled in C10/Model.v, over the reals, for every data matrix and every
    responsibility matrix with non-negative entries and positive column sums. *)
From Coq Require Import List NArith ZArith QArith Qreals Reals Bool Lra Lia Psatz.
From LinfaVerif Require Import Common.Num Common.NdSum Common.QF Common.LDL C10.Model C10.Proofs C10.ModelR5 C10.FitModel C10.FitProofs.
Import ListNotations.
Local Open Scope R_scope.

(* ------------------------------------------------------------------------------------------ *)
(** * entries of the model's outputs *)

Lemma nk_nth (resp : list (list R)) k : (k < ncols resp)%nat ->
  nth k (nk_of R_ops resp) 0 = Rsum (col R_ops k resp).
Proof.
  intros Hk. unfold nk_of.
  rewrite (nth_map_lt _ _ k 0%nat) by (rewrite seq_length; exact Hk).
  rewrite seq_nth by assumption. cbn [Nat.add]. apply seq_sum_R.
Qed.

Lemma nk_length (resp : list (list R)) : length (nk_of R_ops resp) = ncols resp.
Proof. unfold nk_of. rewrite map_length, seq_length. reflexivity. Qed.

Lemma col_length (k : nat) (M : list (list R)) : length (col R_ops k M) = length M.
Proof. unfold col. apply map_length. Qed.

Lemma col_nonneg (resp : list (list R)) k :
  Forall (Forall (fun v => 0 <= v)) resp -> Forall (fun v => 0 <= v) (col R_ops k resp).
Proof.
  intros H. unfold col. apply Forall_map. eapply Forall_impl; [|exact H].
  intros r Hr. cbn [zero R_ops]. destruct (nth_in_or_default k r 0) as [Hin | ->]; [|lra].
  rewrite Forall_forall in Hr. apply Hr, Hin.
Qed.

Lemma means_length (X resp : list (list R)) : length (means_of R_ops X resp (nk_of R_ops resp)) = ncols resp.
Proof. unfold means_of. rewrite map_length, seq_length. apply nk_length. Qed.

Lemma mean_row_length (X resp : list (list R)) k : (k < ncols resp)%nat ->
  length (nth k (means_of R_ops X resp (nk_of R_ops resp)) []) = ncols X.
Proof.
  intros Hk. unfold means_of. rewrite nk_length.
  rewrite (nth_map_lt _ _ k 0%nat) by (rewrite seq_length; exact Hk).
  rewrite map_length, seq_length. reflexivity.
Qed.

Lemma mean_entry (X resp : list (list R)) k j : (k < ncols resp)%nat -> (j < ncols X)%nat ->
  nth j (nth k (means_of R_ops X resp (nk_of R_ops resp)) []) 0
  = Rsum (vmul R_ops (col R_ops k resp) (col R_ops j X)) / Rsum (col R_ops k resp).
Proof.
  intros Hk Hj. unfold means_of. rewrite nk_length.
  rewrite (nth_map_lt _ _ k 0%nat) by (rewrite seq_length; exact Hk).
  rewrite (nth_map_lt _ _ j 0%nat) by (rewrite seq_length; exact Hj).
  rewrite !seq_nth by assumption. cbn [Nat.add zero R_ops].
  rewrite (nk_nth resp k Hk). cbn [div R_ops]. unfold dotv. rewrite seq_sum_R. reflexivity.
Qed.

(* ------------------------------------------------------------------------------------------ *)
(** * 1. the mean is a convex combination of the rows *)

Lemma vmul_scale_l (S : R) : forall r x : list R,
  Rsum (vmul R_ops (map (fun v => v / S) r) x) = Rsum (vmul R_ops r x) / S.
Proof.
  induction r as [|a r IH]; intros [|b x]; unfold vmul in *; cbn [map combine fst snd mul R_ops] in *;
    rewrite ?Rsum_cons; change (Rsum []) with 0; try (unfold Rdiv; ring).
  rewrite IH. unfold Rdiv. ring.
Qed.

Lemma coeffs_eq (resp : list (list R)) k : (k < ncols resp)%nat ->
  convex_coeffs R_ops resp k = map (fun v => v / Rsum (col R_ops k resp)) (col R_ops k resp).
Proof. intros Hk. unfold convex_coeffs. cbn [zero div R_ops]. rewrite (nk_nth resp k Hk). reflexivity. Qed.

Lemma mean_convex_lemma (X resp : list (list R)) k :
  mstep_input X resp -> (k < ncols resp)%nat ->
  let lam := convex_coeffs R_ops resp k in
  length lam = length X /\ Forall (fun v => 0 <= v) lam /\ Rsum lam = 1 /\
  forall j, (j < ncols X)%nat ->
    nth j (nth k (means_of R_ops X resp (nk_of R_ops resp)) []) 0 = Rsum (vmul R_ops lam (col R_ops j X)).
Proof.
  intros (HL & Hnn & Hpos) Hk lam. unfold lam. rewrite (coeffs_eq resp k Hk).
  specialize (Hpos k Hk). set (S := Rsum (col R_ops k resp)) in *.
  pose proof (col_nonneg resp k Hnn) as Hc.
  split; [rewrite map_length, col_length; symmetry; exact HL|].
  split.
  { apply Forall_map. eapply Forall_impl; [|exact Hc]. intros v Hv. cbv beta.
    apply Rmult_le_pos; [exact Hv | apply Rlt_le, Rinv_0_lt_compat, Hpos]. }
  split.
  { rewrite (Rsum_map_scale (fun v => v) S), map_id. fold S. field. lra. }
  intros j Hj. rewrite (mean_entry X resp k j Hk Hj), vmul_scale_l. reflexivity.
Qed.

(* ------------------------------------------------------------------------------------------ *)
(** * 2. the covariance: shape, entries, symmetry, diagonal *)

Lemma cov_length (X : list (list R)) rk mu nkk reg : length (cov_of R_ops X rk mu nkk reg) = length mu.
Proof. unfold cov_of. rewrite map_length, seq_length. reflexivity. Qed.

Lemma cov_rows (X : list (list R)) rk mu nkk reg :
  Forall (fun r => length r = length mu) (cov_of R_ops X rk mu nkk reg).
Proof.
  unfold cov_of. apply Forall_map. apply Forall_forall. intros a _. rewrite map_length, seq_length. reflexivity.
Qed.

Lemma cov_entry (X : list (list R)) rk mu nkk reg a b : (a < length mu)%nat -> (b < length mu)%nat ->
  nth b (nth a (cov_of R_ops X rk mu nkk reg) []) 0
  = Tf (map (fun x => vsub R_ops x mu) X) rk a b / nkk + (if Nat.eqb a b then reg else 0).
Proof.
  intros Ha Hb. unfold cov_of.
  rewrite (nth_map_lt _ _ a 0%nat) by (rewrite seq_length; exact Ha).
  rewrite (nth_map_lt _ _ b 0%nat) by (rewrite seq_length; exact Hb).
  rewrite !seq_nth by assumption. cbn [Nat.add]. unfold Tf. cbn [div add R_ops].
  destruct (Nat.eqb a b); lra.
Qed.

Lemma Tf_sym : forall diff rk a b, Tf diff rk a b = Tf diff rk b a.
Proof.
  induction diff as [|dl diff IH]; intros rk a b; [rewrite !Tf_nil_l; reflexivity|].
  destruct rk as [|r rk]; [rewrite !Tf_nil_r; reflexivity|].
  rewrite !Tf_cons, (IH rk a b). ring.
Qed.

Lemma Tf_diag_nonneg a : forall diff rk, Forall (fun v => 0 <= v) rk -> 0 <= Tf diff rk a a.
Proof.
  induction diff as [|dl diff IH]; intros rk Hr; [rewrite Tf_nil_l; lra|].
  destruct rk as [|r rk]; [rewrite Tf_nil_r; lra|].
  inversion Hr as [|? ? H1 H2]; subst. rewrite Tf_cons. specialize (IH rk H2).
  pose proof (Rle_0_sqr (nth a dl 0)) as Hs. unfold Rsqr in Hs. nra.
Qed.

Lemma cov_symmetric_lemma (X : list (list R)) rk mu nkk reg a b :
  (a < length mu)%nat -> (b < length mu)%nat ->
  nth b (nth a (cov_of R_ops X rk mu nkk reg) []) 0 = nth a (nth b (cov_of R_ops X rk mu nkk reg) []) 0.
Proof.
  intros Ha Hb. rewrite (cov_entry X rk mu nkk reg a b Ha Hb), (cov_entry X rk mu nkk reg b a Hb Ha).
  rewrite (Tf_sym _ rk a b), (Nat.eqb_sym a b). reflexivity.
Qed.

Lemma cov_diag_ge_reg_lemma (X : list (list R)) rk mu nkk reg a :
  (a < length mu)%nat -> 0 < nkk -> Forall (fun v => 0 <= v) rk ->
  reg <= nth a (nth a (cov_of R_ops X rk mu nkk reg) []) 0.
Proof.
  intros Ha Hn Hr. rewrite (cov_entry X rk mu nkk reg a a Ha Ha), Nat.eqb_refl.
  pose proof (Tf_diag_nonneg a (map (fun x => vsub R_ops x mu) X) rk Hr) as HT.
  assert (0 <= Tf (map (fun x => vsub R_ops x mu) X) rk a a / nkk).
  { apply Rmult_le_pos; [exact HT | apply Rlt_le, Rinv_0_lt_compat, Hn]. }
  lra.
Qed.

(* ------------------------------------------------------------------------------------------ *)
(** * 3. the weights *)

Lemma mstep_input_nonempty (X resp : list (list R)) k : mstep_input X resp -> (k < ncols resp)%nat ->
  (0 < length X)%nat.
Proof.
  intros (HL & _ & _) Hk. rewrite HL. destruct resp; [simpl in Hk; lia | simpl; lia].
Qed.

Lemma weight_entry_lemma (X resp : list (list R)) k : mstep_input X resp -> (k < ncols resp)%nat ->
  nth k (mstep_weights R_ops X resp) 0 = Rsum (col R_ops k resp) / INR (length X) /\
  0 < nth k (mstep_weights R_ops X resp) 0.
Proof.
  intros HI Hk. pose proof (mstep_input_nonempty X resp k HI Hk) as Hn.
  destruct HI as (HL & Hnn & Hpos).
  assert (E : nth k (mstep_weights R_ops X resp) 0 = Rsum (col R_ops k resp) / INR (length X)).
  { unfold mstep_weights, weights_of.
    rewrite (nth_map_lt _ _ k 0) by (rewrite nk_length; exact Hk).
    rewrite (nk_nth resp k Hk). cbn [div of_N R_ops]. rewrite Nat2N.id. reflexivity. }
  split; [exact E|]. rewrite E. apply Rdiv_lt_0_compat; [apply Hpos, Hk | apply lt_0_INR, Hn].
Qed.

Lemma weights_length_lemma (X resp : list (list R)) : length (mstep_weights R_ops X resp) = ncols resp.
Proof. unfold mstep_weights, weights_of. rewrite map_length. apply nk_length. Qed.

Lemma weights_sum_lemma (X resp : list (list R)) :
  mstep_input X resp -> resp <> [] ->
  Forall (fun r => length r = ncols resp /\ Rsum r = 1) resp ->
  Rsum (mstep_weights R_ops X resp) = 1.
Proof.
  intros (HL & _) Hne HF. unfold mstep_weights. rewrite HL. apply model_weights_sum_to_one_lemma; assumption.
Qed.

(* ------------------------------------------------------------------------------------------ *)
(** * the whole of estimate_gaussian_parameters *)

Lemma empty_cluster_false (ten_eps : R) (resp : list (list R)) :
  (forall k, (k < ncols resp)%nat -> ten_eps <= Rsum (col R_ops k resp)) ->
  empty_cluster R_ops ten_eps (nk_of R_ops resp) = false.
Proof.
  intros H. unfold empty_cluster. destruct (existsb _ _) eqn:E; [|reflexivity]. exfalso.
  apply existsb_exists in E as (v & Hin & Hlt). unfold nk_of in Hin.
  apply in_map_iff in Hin as (k & <- & Hk). apply in_seq in Hk.
  cbn [ltb R_ops] in Hlt. apply Rltb_true in Hlt. rewrite seq_sum_R in Hlt.
  specialize (H k ltac:(lia)). lra.
Qed.

Lemma empty_cluster_true (ten_eps : R) (resp : list (list R)) k :
  (k < ncols resp)%nat -> Rsum (col R_ops k resp) < ten_eps ->
  empty_cluster R_ops ten_eps (nk_of R_ops resp) = true.
Proof.
  intros Hk Hlt. unfold empty_cluster. apply existsb_exists. exists (seq_sum R_ops (col R_ops k resp)). split.
  - unfold nk_of. apply in_map_iff. exists k. split; [reflexivity | apply in_seq; lia].
  - cbn [ltb R_ops]. apply Rltb_true. rewrite seq_sum_R. exact Hlt.
Qed.

Lemma egp_none_lemma (X resp : list (list R)) ten_eps reg k :
  (k < ncols resp)%nat -> Rsum (col R_ops k resp) < ten_eps ->
  estimate_gaussian_parameters R_ops ten_eps X resp reg = None.
Proof. intros Hk Hlt. unfold estimate_gaussian_parameters. rewrite (empty_cluster_true ten_eps resp k Hk Hlt). reflexivity. Qed.

Lemma egp_none_iff_lemma (X resp : list (list R)) ten_eps reg :
  estimate_gaussian_parameters R_ops ten_eps X resp reg = None <->
  exists k, (k < ncols resp)%nat /\ Rsum (col R_ops k resp) < ten_eps.
Proof.
  split.
  - unfold estimate_gaussian_parameters.
    destruct (empty_cluster R_ops ten_eps (nk_of R_ops resp)) eqn:E; [intros _ | discriminate].
    unfold empty_cluster in E. apply existsb_exists in E as (v & Hin & Hlt). unfold nk_of in Hin.
    apply in_map_iff in Hin as (k & <- & Hk). apply in_seq in Hk.
    cbn [ltb R_ops] in Hlt. apply Rltb_true in Hlt. rewrite seq_sum_R in Hlt.
    exists k. split; [lia | exact Hlt].
  - intros (k & Hk & Hlt). exact (egp_none_lemma X resp ten_eps reg k Hk Hlt).
Qed.

Definition cov_k (X resp : list (list R)) (reg : R) (k : nat) : list (list R) :=
  cov_of R_ops X (col R_ops k resp) (nth k (means_of R_ops X resp (nk_of R_ops resp)) [])
         (nth k (nk_of R_ops resp) 0) reg.

Lemma egp_some_lemma (X resp : list (list R)) ten_eps reg :
  (forall k, (k < ncols resp)%nat -> ten_eps <= Rsum (col R_ops k resp)) ->
  exists gp, estimate_gaussian_parameters R_ops ten_eps X resp reg = Some gp /\
    g_nk gp = nk_of R_ops resp /\
    g_means gp = means_of R_ops X resp (nk_of R_ops resp) /\
    length (g_covs gp) = ncols resp /\
    forall k, (k < ncols resp)%nat -> nth k (g_covs gp) [] = cov_k X resp reg k.
Proof.
  intros H. unfold estimate_gaussian_parameters. rewrite (empty_cluster_false ten_eps resp H).
  eexists. split; [reflexivity|]. cbn [g_nk g_means g_covs].
  split; [reflexivity|]. split; [reflexivity|]. split.
  - rewrite map_length, seq_length. apply nk_length.
  - intros k Hk. rewrite nk_length.
    rewrite (nth_map_lt _ _ k 0%nat) by (rewrite seq_length; exact Hk).
    rewrite seq_nth by assumption. reflexivity.
Qed.

(** the headline: for every input of the stated class the M-step succeeds and returns a valid mixture *)
Lemma mstep_valid_lemma (X resp : list (list R)) ten_eps reg :
  mstep_input X resp ->
  (forall k, (k < ncols resp)%nat -> ten_eps <= Rsum (col R_ops k resp)) ->
  exists gp, estimate_gaussian_parameters R_ops ten_eps X resp reg = Some gp /\
    length (g_nk gp) = ncols resp /\ length (g_means gp) = ncols resp /\ length (g_covs gp) = ncols resp /\
    length (weights_of R_ops (g_nk gp) (N.of_nat (length X))) = ncols resp /\
    forall k, (k < ncols resp)%nat ->
      let d := ncols X in
      let mu := nth k (g_means gp) [] in
      let C := nth k (g_covs gp) [] in
      let w := nth k (weights_of R_ops (g_nk gp) (N.of_nat (length X))) 0 in
      let lam := convex_coeffs R_ops resp k in
      (* weight *)
      w = Rsum (col R_ops k resp) / INR (length X) /\ 0 < w /\
      (* mean: one convex combination of the rows, the same for every feature *)
      length mu = d /\ length lam = length X /\ Forall (fun v => 0 <= v) lam /\ Rsum lam = 1 /\
      (forall j, (j < d)%nat -> nth j mu 0 = Rsum (vmul R_ops lam (col R_ops j X))) /\
      (* covariance *)
      length C = d /\ Forall (fun r => length r = d) C /\
      (forall a b, (a < d)%nat -> (b < d)%nat -> nth b (nth a C []) 0 = nth a (nth b C []) 0) /\
      (forall a, (a < d)%nat -> reg <= nth a (nth a C []) 0) /\
      (forall y, length y = d -> reg * Rdot y y <= Rquad C y) /\
      (0 < reg -> forall y, length y = d -> ~ Forall (fun v => v = 0) y -> 0 < Rquad C y).
Proof.
  intros HI Hten. destruct (egp_some_lemma X resp ten_eps reg Hten) as (gp & E & Enk & Emu & Lc & Ec).
  exists gp. split; [exact E|]. rewrite Enk, Emu.
  split; [apply nk_length|]. split; [apply means_length|]. split; [exact Lc|].
  split; [apply (weights_length_lemma X resp)|].
  intros k Hk. cbv zeta. rewrite (Ec k Hk). unfold cov_k.
  destruct (weight_entry_lemma X resp k HI Hk) as [W1 W2]. unfold mstep_weights in W1, W2.
  destruct (mean_convex_lemma X resp k HI Hk) as (M1 & M2 & M3 & M4).
  pose proof (mean_row_length X resp k Hk) as Lmu.
  set (mu := nth k (means_of R_ops X resp (nk_of R_ops resp)) []) in *.
  pose proof HI as (HL & Hnn & Hpos).
  pose proof (col_nonneg resp k Hnn) as Hc.
  assert (Hnk : 0 < nth k (nk_of R_ops resp) 0) by (rewrite (nk_nth resp k Hk); apply Hpos, Hk).
  split; [exact W1|]. split; [exact W2|]. split; [exact Lmu|].
  split; [exact M1|]. split; [exact M2|]. split; [exact M3|]. split; [exact M4|].
  split; [rewrite cov_length; exact Lmu|].
  split; [rewrite <- Lmu; apply cov_rows|].
  split; [intros a b Ha Hb; apply cov_symmetric_lemma; rewrite Lmu; assumption|].
  split; [intros a Ha; apply cov_diag_ge_reg_lemma; [rewrite Lmu; exact Ha | exact Hnk | exact Hc]|].
  split; [intros y Ly; apply model_cov_includes_reg_lemma; [rewrite Lmu; exact Ly | exact Hnk | exact Hc]|].
  intros Hreg y Ly Hy. apply model_cov_pd_lemma; [rewrite Lmu; exact Ly | exact Hnk | exact Hc | exact Hreg | exact Hy].
Qed.

(** the same per component, about the model's functions themselves (no EmptyCluster guard involved) *)
Lemma mstep_component_lemma (X resp : list (list R)) reg k :
  mstep_input X resp -> (k < ncols resp)%nat ->
  mstep_component_valid X resp reg k (nth k (mstep_weights R_ops X resp) 0)
    (nth k (means_of R_ops X resp (nk_of R_ops resp)) []) (cov_k X resp reg k).
Proof.
  intros HI Hk. unfold mstep_component_valid, cov_k. cbv zeta.
  destruct (weight_entry_lemma X resp k HI Hk) as [W1 W2].
  destruct (mean_convex_lemma X resp k HI Hk) as (M1 & M2 & M3 & M4).
  pose proof (mean_row_length X resp k Hk) as Lmu.
  set (mu := nth k (means_of R_ops X resp (nk_of R_ops resp)) []) in *.
  pose proof HI as (HL & Hnn & Hpos).
  pose proof (col_nonneg resp k Hnn) as Hc.
  assert (Hnk : 0 < nth k (nk_of R_ops resp) 0) by (rewrite (nk_nth resp k Hk); apply Hpos, Hk).
  split; [split; [exact W1 | exact W2]|].
  split; [split; [exact Lmu|]; split; [exact M1|]; split; [exact M2|]; split; [exact M3 | exact M4]|].
  split; [rewrite cov_length; exact Lmu|].
  split; [rewrite <- Lmu; apply cov_rows|].
  split; [intros a b Ha Hb; apply cov_symmetric_lemma; rewrite Lmu; assumption|].
  split; [intros a Ha; apply cov_diag_ge_reg_lemma; [rewrite Lmu; exact Ha | exact Hnk | exact Hc]|].
  split; [intros y Ly; apply model_cov_includes_reg_lemma; [rewrite Lmu; exact Ly | exact Hnk | exact Hc]|].
  intros Hreg y Ly Hy. apply model_cov_pd_lemma; [rewrite Lmu; exact Ly | exact Hnk | exact Hc | exact Hreg | exact Hy].
Qed.

(** whatever estimate_gaussian_parameters returns, it is made of the model's nk, means and covariances *)
Lemma egp_some_inv (X resp : list (list R)) ten_eps reg gp :
  estimate_gaussian_parameters R_ops ten_eps X resp reg = Some gp ->
  g_nk gp = nk_of R_ops resp /\
  g_means gp = means_of R_ops X resp (nk_of R_ops resp) /\
  length (g_covs gp) = ncols resp /\
  (forall k, (k < ncols resp)%nat -> nth k (g_covs gp) [] = cov_k X resp reg k) /\
  (forall k, (k < ncols resp)%nat -> ten_eps <= Rsum (col R_ops k resp)).
Proof.
  unfold estimate_gaussian_parameters. intros H.
  destruct (empty_cluster R_ops ten_eps (nk_of R_ops resp)) eqn:E; [discriminate|].
  inversion H; subst gp; clear H. cbn [g_nk g_means g_covs].
  split; [reflexivity|]. split; [reflexivity|]. split; [|split].
  - rewrite map_length, seq_length. apply nk_length.
  - intros k Hk. rewrite nk_length.
    rewrite (nth_map_lt _ _ k 0%nat) by (rewrite seq_length; exact Hk).
    rewrite seq_nth by assumption. reflexivity.
  - intros k Hk. destruct (Rle_or_lt ten_eps (Rsum (col R_ops k resp))) as [L|L]; [exact L|].
    rewrite (empty_cluster_true ten_eps resp k Hk L) in E. discriminate.
Qed.

Lemma egp_valid_lemma (X resp : list (list R)) ten_eps reg gp :
  mstep_input X resp ->
  estimate_gaussian_parameters R_ops ten_eps X resp reg = Some gp ->
  length (g_nk gp) = ncols resp /\ length (g_means gp) = ncols resp /\ length (g_covs gp) = ncols resp /\
  forall k, (k < ncols resp)%nat ->
    mstep_component_valid X resp reg k (nth k (weights_of R_ops (g_nk gp) (N.of_nat (length X))) 0)
      (nth k (g_means gp) []) (nth k (g_covs gp) []).
Proof.
  intros HI H. destruct (egp_some_inv X resp ten_eps reg gp H) as (Enk & Emu & Lc & Ec & _).
  rewrite Enk, Emu. split; [apply nk_length|]. split; [apply means_length|]. split; [exact Lc|].
  intros k Hk. rewrite (Ec k Hk). apply (mstep_component_lemma X resp reg k HI Hk).
Qed.

(* ------------------------------------------------------------------------------------------ *)
(** * one EM iteration of the fit model (C10/FitModel.v e_step, m_step) over the reals *)

Lemma Rsum_nonneg l : Forall (fun v => 0 <= v) l -> 0 <= Rsum l.
Proof. induction 1 as [|x l Hx Hl IH]; [simpl; lra|]. rewrite Rsum_cons. lra. Qed.

Lemma positive_rows_input (X rows : list (list R)) :
  X <> [] -> length rows = length X -> Forall (Forall (fun v => 0 < v)) rows -> mstep_input X rows.
Proof.
  intros HX HL HF. split; [symmetry; exact HL|].
  assert (Hnn : Forall (Forall (fun v => 0 <= v)) rows).
  { eapply Forall_impl; [|exact HF]. intros r Hr. eapply Forall_impl; [|exact Hr]. intros v Hv. lra. }
  split; [exact Hnn|].
  intros k Hk. destruct rows as [|r0 rest]; [simpl in Hk; lia|]. cbn [ncols] in Hk.
  inversion HF as [|? ? H0 Hrest]; subst. inversion Hnn as [|? ? _ Hnrest]; subst.
  change (col R_ops k (r0 :: rest)) with (nth k r0 0 :: col R_ops k rest). rewrite Rsum_cons.
  pose proof (Rsum_nonneg _ (col_nonneg rest k Hnrest)) as H1.
  assert (0 < nth k r0 0). { rewrite Forall_forall in H0. apply H0, nth_In, Hk. }
  lra.
Qed.

Lemma em_iteration_valid_lemma feps ten_eps nh c X reg (g g' : gmm R) lb lr :
  X <> [] -> s_w g <> [] ->
  e_step R_ops exp ln nh c X g = ROk (lb, lr) ->
  m_step R_ops feps ten_eps exp X reg g lr = ROk g' ->
  let K := length (s_w g) in
  let resp := map (map exp) lr in
  mstep_input X resp /\ ncols resp = K /\
  length (s_w g') = K /\ length (s_mu g') = K /\ length (s_cov g') = K /\ Rsum (s_w g') = 1 /\
  forall k, (k < K)%nat ->
    mstep_component_valid X resp reg k (nth k (s_w g') 0) (nth k (s_mu g') []) (nth k (s_cov g') []).
Proof.
  intros HX Hw He Hm K resp.
  destruct (em_iteration_weights_lemma feps ten_eps nh c X reg g g' lb lr HX Hw He Hm) as [Hsum _].
  assert (Hlr : lr = e_lr (e_step_full R_ops exp ln nh c X g)) by (unfold e_step in He; inversion He; reflexivity).
  pose proof (e_step_resp_rows R_ops exp ln nh c X g) as Hrows. rewrite <- Hlr in Hrows. fold resp in Hrows.
  assert (Hnc : ncols resp = K).
  { rewrite Hrows. destruct X as [|x X']; [congruence|]. cbn [map ncols].
    rewrite resp_stable_length, wlp_row_length. reflexivity. }
  assert (HI : mstep_input X resp).
  { apply positive_rows_input; [exact HX | rewrite Hrows; apply map_length |].
    rewrite Hrows. apply Forall_map. apply Forall_forall. intros x _.
    apply Forall_forall. intros p Hp. apply (resp_in_unit_interval_lemma _ p Hp). }
  unfold m_step in Hm. rewrite egp_res_R in Hm. fold resp in Hm.
  destruct (estimate_gaussian_parameters R_ops ten_eps X resp reg) as [gp|] eqn:Hg; [|discriminate].
  destruct (prec_chol_full R_ops feps (g_covs gp)); [|discriminate].
  inversion Hm; subst g'; clear Hm. cbn [s_w s_mu s_cov] in *.
  destruct (egp_valid_lemma X resp ten_eps reg gp HI Hg) as (L1 & L2 & L3 & Hk).
  rewrite Hnc in *.
  split; [exact HI|]. split; [reflexivity|].
  split; [unfold weights_of; rewrite map_length; exact L1|].
  split; [exact L2|]. split; [exact L3|]. split; [exact Hsum|]. exact Hk.
Qed.

(* ------------------------------------------------------------------------------------------ *)
(** * Non-vacuity: 2 points, 2 components, soft responsibilities *)

Example mstep_input_satisfiable :
  let X := [[0; 1]; [2; 4]] in
  let resp := [[3/4; 1/4]; [1/4; 3/4]] in
  mstep_input X resp /\ resp <> [] /\
  Forall (fun r => length r = ncols resp /\ Rsum r = 1) resp /\
  (forall k, (k < ncols resp)%nat -> / 1024 <= Rsum (col R_ops k resp)).
Proof.
  cbv zeta. split; [|split; [discriminate|split]].
  - split; [reflexivity|]. split; [repeat constructor; lra|].
    intros k Hk. cbn [ncols length] in Hk.
    destruct k as [|[|k]]; [| |lia]; cbn [col map nth Rsum fold_right zero R_ops]; lra.
  - repeat constructor; cbn [Rsum fold_right]; lra.
  - intros k Hk. cbn [ncols length] in Hk.
    destruct k as [|[|k]]; [| |lia]; cbn [col map nth Rsum fold_right zero R_ops]; lra.
Qed.

(** ... and on that input the first mean is (1/2, 7/4) = 3/4 (0,1) + 1/4 (2,4) *)
Example mstep_mean_example :
  let X := [[0; 1]; [2; 4]] in
  let resp := [[3/4; 1/4]; [1/4; 3/4]] in
  nth 0 (means_of R_ops X resp (nk_of R_ops resp)) [] = [1/2; 7/4].
Proof.
  cbv zeta. unfold means_of, nk_of, dotv, vmul, col, seq_sum.
  cbn [ncols length seq map nth combine fold_left fst snd add mul div zero R_ops].
  f_equal; [field | f_equal; field].
Qed.
