(** C10 - property theorems (statements only; proofs are in C10/Proofs.v).

    Pattern B: [gmm_ok] is evaluated by vm_compute on every fitted model the harness obtains from the
    implementation; [gmm_ok_sound] turns each [true] into the statement [gmm_valid] over the reals
    (partial: certified per run).  Pattern A: the responsibilities of estimate_log_prob_resp. *)
From Coq Require Import List NArith ZArith QArith Reals Floats.
From LinfaVerif Require Import Common.Num Common.NdSum Common.QF Common.LDL C10.Model C10.Proofs.
Import ListNotations.
Local Open Scope R_scope.

(** Soundness of the checker.  If [gmm_ok] accepts (data X of n >= 1 rows and d features, k components,
    configured reg_covar, fitted model m, query batch with its predict_proba rows and predictions) then,
    reading every float as the real number it denotes ([RV]):
    - all parameters are finite and have the shapes k, k x d, k x d x d;
    - the k weights are positive and sum to one within 2^-40;
    - every mean coordinate lies between two observed values of its feature (slack 2^-40 relative);
    - every covariance S is symmetric within 2^-40 of its largest diagonal entry, satisfies
      x^T S x > 0 for all x <> 0, and x^T S x >= (1 - 2^-10) reg_covar |x|^2  (the diagonal includes
      the regularisation: all eigenvalues are at least that large);
    - every entry of the exact product (precision x covariance) is within
      2^-44 d^2 |P|_max |S|_max of the identity's;
    - every probability row has k finite entries >= 0 summing to one within
      2^-44 (16 + max_j d^2 |x - mu_j|_inf^2 |P_j|_max), and the predicted component has maximal
      probability in its row. *)
Theorem gmm_ok_sound : forall X k d reg m query proba pred,
  gmm_ok X k d reg m query proba pred = true ->
  X <> [] /\ params_finite m = true /\ shapes_ok k d m = true /\
  weights_spec k (m_weights m) /\
  Forall (mean_spec X d) (m_means m) /\
  Forall (cov_spec d reg) (m_covs m) /\
  (forall P S, In (P, S) (combine (m_precs m) (m_covs m)) -> prec_spec d P S) /\
  length proba = length query /\ length pred = length query /\
  (forall x row, In (x, row) (combine query proba) -> proba_row_spec k (row_tol d (mps_of m) (Qv x)) row) /\
  (forall row p, In (row, p) (combine proba pred) -> pred_spec row p).
Proof. exact gmm_ok_sound_lemma. Qed.

(** the three covariance facts spelled out: what [cov_spec] gives for one covariance matrix *)
Theorem accepted_covariance_is_positive_definite : forall d reg S, cov_spec d reg S ->
  (forall x, length x = d -> ~ Forall (fun v => v = 0) x -> 0 < Rquad (map (map RV) S) x) /\
  (forall x, length x = d -> Q2R (f64_Qr reg * (1 - (1 # 1024))) * Rdot x x <= Rquad (map (map RV) S) x).
Proof. intros d reg S (_ & H2 & H3). split; [exact H2 | exact H3]. Qed.

(** The responsibilities as the current code computes them (max-shifted log-sum-exp), over the reals:
    they sum to one, lie in (0, 1], and their first arg-max (what `predict` returns) is the first arg-max
    of the weighted log probabilities and indexes a maximal entry *)
Theorem resp_stable_sum_one : forall w : list R, w <> [] -> Rsum (resp_stable R_ops exp ln w) = 1.
Proof. exact resp_stable_sum_one_lemma. Qed.

Theorem resp_in_unit_interval : forall (w : list R) p, In p (resp_stable R_ops exp ln w) -> 0 < p <= 1.
Proof. exact resp_in_unit_interval_lemma. Qed.

Theorem argmax_of_resp_is_argmax_of_wlp : forall w : list R,
  predict_row R_ops exp ln w = argmax_first R_ops w.
Proof. exact argmax_of_resp_lemma. Qed.

Theorem predicted_component_is_maximal : forall w : list R, w <> [] ->
  let r := resp_stable R_ops exp ln w in
  (predict_row R_ops exp ln w < length r)%nat /\
  forall p, In p r -> p <= nth (predict_row R_ops exp ln w) r 0.
Proof.
  intros w Hw r. unfold predict_row. fold r.
  apply argmax_first_is_max_lemma. unfold r, resp_stable, log_resp. destruct w; [congruence | discriminate].
Qed.

(** in exact arithmetic the formula before commit 26696b7 (naive log-sum-exp) is the same function *)
Theorem resp_naive_eq_stable : forall w : list R, resp_naive R_ops exp ln w = resp_stable R_ops exp ln w.
Proof. exact resp_naive_eq_stable_lemma. Qed.

(** ... but in binary64 it is not: when every weighted log probability is below -746 (a query far from
    every component) each exp underflows to +0, ln 0 = -inf, and every "probability" is exp(+inf) = +inf.
    [fexp]/[fln] are arbitrary float functions with only the three stated properties. *)
Theorem naive_lse_not_finite : forall (fexp fln : spec_float -> spec_float),
  (forall x, SFltb x m746 = true -> fexp x = S754_zero false) ->
  fln (S754_zero false) = S754_infinity true ->
  fexp (S754_infinity false) = S754_infinity false ->
  forall w, Forall (fun x => sf_fin x = true /\ SFltb x m746 = true) w ->
  resp_naive S64_ops fexp fln w = map (fun _ => S754_infinity false) w.
Proof. exact naive_lse_not_finite_lemma. Qed.

(** The M-step as modelled (estimate_gaussian_parameters, run bit for bit against the implementation on
    the exact stream), over the reals and for all data: responsibilities whose rows sum to one give
    weights nk / n that sum to one, and every mean coordinate of a component with non-negative
    responsibilities of positive total lies between any bounds of that feature's observed values *)
Theorem model_weights_sum_to_one : forall resp : list (list R),
  resp <> [] ->
  Forall (fun r => length r = ncols resp /\ Rsum r = 1) resp ->
  Rsum (weights_of R_ops (nk_of R_ops resp) (N.of_nat (length resp))) = 1.
Proof. exact model_weights_sum_to_one_lemma. Qed.

Theorem model_means_in_bbox : forall (X resp : list (list R)) k j lo hi,
  length X = length resp ->
  (k < ncols resp)%nat -> (j < ncols X)%nat ->
  Forall (fun v => 0 <= v) (col R_ops k resp) ->
  0 < Rsum (col R_ops k resp) ->
  Forall (fun v => lo <= v <= hi) (col R_ops j X) ->
  lo <= nth j (nth k (means_of R_ops X resp (nk_of R_ops resp)) []) 0 <= hi.
Proof. exact model_means_in_bbox_lemma. Qed.

(** ... and the modelled covariance of a component with non-negative responsibilities includes the
    regularisation, x^T cov x >= reg_covar |x|^2 for every x (no rounding, every dataset); with a
    positive reg_covar it is therefore positive definite *)
Theorem model_covariance_includes_reg : forall (X : list (list R)) rk mu nkk reg y,
  length y = length mu -> 0 < nkk -> Forall (fun v => 0 <= v) rk ->
  reg * Rdot y y <= Rquad (cov_of R_ops X rk mu nkk reg) y.
Proof. exact model_cov_includes_reg_lemma. Qed.

Theorem model_covariance_positive_definite : forall (X : list (list R)) rk mu nkk reg y,
  length y = length mu -> 0 < nkk -> Forall (fun v => 0 <= v) rk -> 0 < reg ->
  ~ Forall (fun v => v = 0) y -> 0 < Rquad (cov_of R_ops X rk mu nkk reg) y.
Proof. exact model_cov_pd_lemma. Qed.
