(** C10 (round 5) - definitions used by the for-all-inputs theorems about the M-step.

    Nothing here is a new mechanism: [mstep_weights] and [convex_coeffs] are compositions of the
    transliterations of C10/Model.v ([nk_of], [col], [weights_of] - the ones C10/Corr.v runs at binary64
    against the implementation on the exact stream, and C10/FitModel.v composes into `new` / `m_step`).
    [mstep_input] is the hypothesis of the theorems (a predicate over the reals, not executable). *)
From Coq Require Import List NArith Reals.
From LinfaVerif Require Import Common.Num Common.NdSum Common.QF Common.LDL C10.Model.
Import ListNotations.

Section R5.
Context {F : Type} (o : NumOps F).

(** weights = nk / n_samples, as `GaussianMixtureModel::new` and `m_step` compute them from the
    responsibilities (FitModel.v: weights_of o (g_nk gp) (N.of_nat (length X))) *)
Definition mstep_weights (X resp : list (list F)) : list F :=
  weights_of o (nk_of o resp) (N.of_nat (length X)).

(** the coefficients with which the rows of the data enter the mean of component k:
    resp[i][k] / nk[k] *)
Definition convex_coeffs (resp : list (list F)) (k : nat) : list F :=
  map (fun v => div o v (nth k (nk_of o resp) (zero o))) (col o k resp).
End R5.

(** the inputs of the M-step the theorems quantify over: as many responsibility rows as records,
    non-negative responsibilities, every component with a positive total nk.  (Rows may be ragged: the
    model reads a missing entry as 0, exactly as [col] does.) *)
Definition mstep_input (X resp : list (list R)) : Prop :=
  length X = length resp /\
  Forall (Forall (fun v => (0 <= v)%R)) resp /\
  (forall k, (k < ncols resp)%nat -> (0 < Rsum (col R_ops k resp))%R).

(** what the theorems say about component k of an M-step output (weight w, mean mu, covariance C) computed
    from data X, responsibilities resp and the configured reg_covar:
    - w = nk / n > 0;
    - mu has one entry per feature and is ONE convex combination of the records (coefficients
      resp[i][k] / nk[k] >= 0 of sum one, the same for every feature);
    - C is d x d, symmetric, its diagonal is at least reg_covar, y^T C y >= reg_covar |y|^2 for every y,
      and y^T C y > 0 for every y <> 0 when reg_covar > 0 *)
Definition mstep_component_valid (X resp : list (list R)) (reg : R) (k : nat)
                                 (w : R) (mu : list R) (C : list (list R)) : Prop :=
  let d := ncols X in
  let lam := convex_coeffs R_ops resp k in
  (w = Rsum (col R_ops k resp) / INR (length X) /\ 0 < w)%R /\
  (length mu = d /\ length lam = length X /\ Forall (fun v => (0 <= v)%R) lam /\ Rsum lam = 1%R /\
   forall j, (j < d)%nat -> nth j mu 0%R = Rsum (vmul R_ops lam (col R_ops j X))) /\
  (length C = d /\ Forall (fun r => length r = d) C /\
   (forall a b, (a < d)%nat -> (b < d)%nat -> nth b (nth a C []) 0%R = nth a (nth b C []) 0%R) /\
   (forall a, (a < d)%nat -> (reg <= nth a (nth a C []) 0)%R) /\
   (forall y, length y = d -> (reg * Rdot y y <= Rquad C y)%R) /\
   ((0 < reg)%R -> forall y, length y = d -> ~ Forall (fun v => v = 0%R) y -> (0 < Rquad C y)%R)).
