(** C10 - lemmas about the fit procedure (C10/FitModel.v): the control flow around the EM iterations
    (error clause of the property, selection of the best run) and the kernels over the reals. *)
From Coq Require Import List NArith ZArith Reals Bool Lra Lia Floats.
From LinfaVerif Require Import Common.Num Common.NdSum Common.QF Common.LDL C10.Model C10.Proofs C10.FitModel.
Import ListNotations.

(* ------------------------------------------------------------------------------------------ *)
(** * Control flow *)
Section Flow.
Context {F : Type} (o : NumOps F).
Context {St LR : Type}.
Variable neg_inf : F.
Variable e_step : St -> res (F * LR).
Variable m_step : St -> LR -> res St.
Variable refresh : St -> St.
Variable tol : F.
Variable max_iter : nat.

Notation em_iters := (em_iters o e_step m_step tol).
Notation one_run := (one_run o neg_inf e_step m_step refresh tol max_iter).
Notation runs := (runs o neg_inf e_step m_step refresh tol max_iter).
Notation run_results := (run_results o neg_inf e_step m_step refresh tol max_iter).
Notation fit_gen := (fit_gen o neg_inf e_step m_step refresh tol max_iter).

(** what a convergence flag means: the last iteration's E-step and M-step succeeded and the change of
    the lower bound passed the test *)
Definition last_iteration (g' : St) (lb : F) : Prop :=
  exists g_prev lb_prev lr,
    e_step g_prev = ROk (lb, lr) /\ m_step g_prev lr = ROk g' /\
    ltb o (abs o (sub o lb lb_prev)) tol = true.

Lemma em_iters_converged : forall fuel n g lb g' lb' it,
  em_iters fuel n g lb = ROk (g', lb', Some it) -> last_iteration g' lb'.
Proof.
  induction fuel as [|fuel IH]; intros n g lb g' lb' it H; simpl in H; [discriminate|].
  destruct (e_step g) as [[lpn lr]|e] eqn:He; [|discriminate].
  destruct (m_step g lr) as [g1|e] eqn:Hm; [|discriminate].
  destruct (ltb o (abs o (sub o lpn lb)) tol) eqn:Ht.
  - inversion H; subst. exists g, lb, lr. auto.
  - eapply IH; eauto.
Qed.

(** with a test that can never fire against the initial bound, one iteration cannot converge *)
Lemma em_iters_one_not_converged : forall n g g' lb' c,
  (forall a, ltb o (abs o (sub o a neg_inf)) tol = false) ->
  em_iters 1 n g neg_inf = ROk (g', lb', c) -> c = None.
Proof.
  intros n g g' lb' c Hn H. simpl in H.
  destruct (e_step g) as [[lpn lr]|e]; [|discriminate].
  destruct (m_step g lr) as [g1|e]; [|discriminate].
  rewrite Hn in H. inversion H; reflexivity.
Qed.

(** invariant of the n_runs loop: best_iter and best_params are set together *)
Definition acc_inv (P : St -> F -> Prop) (a : acc (F := F) (St := St)) : Prop :=
  match a_iter a with
  | Some _ => exists g' lb, a_best a = Some (refresh g') /\ P g' lb
  | None => True
  end.

Lemma one_run_inv (P : St -> F -> Prop) a a' :
  (forall g' lb, last_iteration g' lb -> P g' lb) ->
  acc_inv P a -> one_run a = ROk a' -> acc_inv P a'.
Proof.
  intros HP Ha H. unfold FitModel.one_run in H.
  destruct (em_iters max_iter 0%N (a_gmm a) neg_inf) as [[[g lb] conv]|e] eqn:He; [|discriminate].
  destruct (ltb o (a_max a) lb).
  - inversion H; subst; clear H. unfold acc_inv; simpl. destruct conv as [it|]; [|exact I].
    exists g, lb. split; [reflexivity|]. apply HP. eapply em_iters_converged; eauto.
  - inversion H; subst; clear H. exact Ha.
Qed.

Lemma runs_inv (P : St -> F -> Prop) : forall n a a',
  (forall g' lb, last_iteration g' lb -> P g' lb) ->
  acc_inv P a -> runs n a = ROk a' -> acc_inv P a'.
Proof.
  induction n as [|n IH]; intros a a' HP Ha H; simpl in H.
  - inversion H; subst; exact Ha.
  - destruct (one_run a) as [a1|e] eqn:H1; [|discriminate].
    apply (IH a1 a' HP); [eapply one_run_inv; eauto | exact H].
Qed.

Lemma fit_ok_last_iteration_lemma : forall n_runs init g,
  fit_gen n_runs init = ROk g ->
  exists g' lb, last_iteration g' lb /\ g = refresh g'.
Proof.
  intros n_runs init g H. unfold FitModel.fit_gen in H.
  destruct init as [g0|e]; [|discriminate].
  destruct (runs n_runs (acc0 neg_inf g0)) as [a|e] eqn:Hr; [|discriminate].
  assert (Hi : acc_inv last_iteration a).
  { eapply runs_inv; eauto. unfold acc_inv, acc0; simpl. exact I. }
  unfold finish in H. unfold acc_inv in Hi.
  destruct (a_iter a) as [it|]; [|discriminate].
  destruct Hi as (g' & lb & Hb & HP). rewrite Hb in H. inversion H; subst. eauto.
Qed.

(** the error clause *)
Lemma fit_ok_implies_finite_lemma (fin : F -> Prop) (good : St -> Prop) :
  (forall a b, ltb o (abs o (sub o a b)) tol = true -> fin a /\ fin b) ->
  (forall g lb lr g', e_step g = ROk (lb, lr) -> fin lb -> m_step g lr = ROk g' -> good g') ->
  (forall g, good g -> good (refresh g)) ->
  forall n_runs init g, fit_gen n_runs init = ROk g -> good g.
Proof.
  intros Hfin Hm Hr n_runs init g H.
  destruct (fit_ok_last_iteration_lemma _ _ _ H) as (g' & lb & (gp & lbp & lr & He & Hms & Ht) & ->).
  apply Hr. eapply Hm; eauto. apply (Hfin _ _ Ht).
Qed.

Lemma one_run_iter_none a a' :
  (forall a, ltb o (abs o (sub o a neg_inf)) tol = false) -> max_iter = 1%nat ->
  a_iter a = None -> one_run a = ROk a' -> a_iter a' = None.
Proof.
  intros Hn Hmx Ha H. unfold FitModel.one_run in H. rewrite Hmx in H.
  destruct (em_iters 1 0%N (a_gmm a) neg_inf) as [[[g lb] conv]|e] eqn:He; [|discriminate].
  apply em_iters_one_not_converged in He; auto. subst conv.
  destruct (ltb o (a_max a) lb); inversion H; subst; simpl; auto.
Qed.

Lemma fit_single_iteration_lemma :
  (forall a, ltb o (abs o (sub o a neg_inf)) tol = false) -> max_iter = 1%nat ->
  forall n_runs init g, fit_gen n_runs init <> ROk g.
Proof.
  intros Hn Hmx n_runs init g H. unfold FitModel.fit_gen in H.
  destruct init as [g0|e]; [|discriminate].
  destruct (runs n_runs (acc0 neg_inf g0)) as [a|e] eqn:Hr; [|discriminate].
  assert (Hi : a_iter a = None).
  { clear H. assert (H0 : a_iter (acc0 neg_inf g0) = None) by reflexivity.
    revert Hr H0. generalize (acc0 neg_inf g0). induction n_runs as [|n IH]; intros a0 Hr H0; simpl in Hr.
    - inversion Hr; subst; exact H0.
    - destruct (one_run a0) as [a1|e] eqn:H1; [|discriminate].
      eapply IH; eauto. eapply one_run_iter_none; eauto. }
  unfold finish in H. rewrite Hi in H. discriminate.
Qed.

(** errors of the kernels are the errors of fit *)
Lemma fit_init_error_lemma n_runs e : fit_gen n_runs (RErr e) = RErr e.
Proof. reflexivity. Qed.

Lemma fit_first_e_step_error_lemma n_runs g0 e :
  (0 < n_runs)%nat -> (0 < max_iter)%nat -> e_step g0 = RErr e -> fit_gen n_runs (ROk g0) = RErr e.
Proof.
  intros Hn Hm He. destruct n_runs as [|n]; [lia|]. destruct max_iter as [|mi] eqn:Hmi; [lia|].
  unfold FitModel.fit_gen. simpl. unfold FitModel.one_run. simpl. rewrite He. reflexivity.
Qed.

Lemma fit_first_m_step_error_lemma n_runs g0 lb lr e :
  (0 < n_runs)%nat -> (0 < max_iter)%nat -> e_step g0 = ROk (lb, lr) -> m_step g0 lr = RErr e ->
  fit_gen n_runs (ROk g0) = RErr e.
Proof.
  intros Hn Hm He Hms. destruct n_runs as [|n]; [lia|]. destruct max_iter as [|mi] eqn:Hmi; [lia|].
  unfold FitModel.fit_gen. simpl. unfold FitModel.one_run. simpl. rewrite He, Hms. reflexivity.
Qed.

(** the LowerBoundError branch of the final match is dead code *)
Lemma em_iters_err fuel : forall n g lb e,
  em_iters fuel n g lb = RErr e -> (exists g', e_step g' = RErr e) \/ (exists g' lr, m_step g' lr = RErr e).
Proof.
  induction fuel as [|fuel IH]; intros n g lb e H; simpl in H; [discriminate|].
  destruct (e_step g) as [[lpn lr]|e1] eqn:He.
  - destruct (m_step g lr) as [g1|e2] eqn:Hm.
    + destruct (ltb o (abs o (sub o lpn lb)) tol); [discriminate|]. eapply IH; eauto.
    + inversion H; subst. right; eauto.
  - inversion H; subst. left; eauto.
Qed.

Lemma runs_err : forall n a e,
  runs n a = RErr e -> (exists g', e_step g' = RErr e) \/ (exists g' lr, m_step g' lr = RErr e).
Proof.
  induction n as [|n IH]; intros a e H; simpl in H; [discriminate|].
  destruct (one_run a) as [a1|e1] eqn:H1.
  - eapply IH; eauto.
  - inversion H; subst. unfold FitModel.one_run in H1.
    destruct (em_iters max_iter 0%N (a_gmm a) neg_inf) as [[[g lb] conv]|e2] eqn:He.
    + destruct (ltb o (a_max a) lb); discriminate.
    + inversion H1; subst. eapply em_iters_err; eauto.
Qed.

Lemma fit_error_origin_lemma n_runs init e :
  fit_gen n_runs init = RErr e ->
  init = RErr e \/ (exists g', e_step g' = RErr e) \/ (exists g' lr, m_step g' lr = RErr e) \/ e = E_not_converged.
Proof.
  intros H. unfold FitModel.fit_gen in H. destruct init as [g0|e0].
  - destruct (runs n_runs (acc0 neg_inf g0)) as [a|e1] eqn:Hr.
    + assert (Hi : acc_inv (fun _ _ => True) a).
      { eapply runs_inv; eauto. unfold acc_inv, acc0; simpl; exact I. }
      unfold finish in H. unfold acc_inv in Hi. destruct (a_iter a).
      * destruct Hi as (g' & lb & Hb & _). rewrite Hb in H. discriminate.
      * inversion H. right; right; right; reflexivity.
    + inversion H; subst. right. apply runs_err in Hr. destruct Hr; auto.
  - left. exact H.
Qed.

(** the n_runs loop against its specification-side trace: the kept run has a lower bound no other run exceeds *)
Variable ltb_trans : forall a b c, ltb o a b = true -> ltb o b c = true -> ltb o a c = true.
Variable ltb_irrefl : forall a, ltb o a a = false.

Definition none_above (m : F) (tr : list (St * F * option N)) : Prop :=
  forall j gj lbj cj, nth_error tr j = Some (gj, lbj, cj) -> ltb o m lbj = false.

Lemma not_above_mono m m' x : ltb o m m' = true -> ltb o m x = false -> ltb o m' x = false.
Proof.
  intros H1 H2. destruct (ltb o m' x) eqn:E; auto. rewrite (ltb_trans _ _ _ H1 E) in H2. discriminate.
Qed.

Lemma runs_spec : forall n a a',
  runs n a = ROk a' ->
  exists tr, run_results n (a_gmm a) (a_max a) = ROk tr /\ length tr = n /\
    ((a_best a' = a_best a /\ a_iter a' = a_iter a /\ a_max a' = a_max a /\ none_above (a_max a) tr)
     \/ exists i gi lbi ci, nth_error tr i = Some (gi, lbi, ci) /\ a_best a' = Some (refresh gi) /\
          a_iter a' = ci /\ a_max a' = lbi /\ ltb o (a_max a) lbi = true /\ none_above lbi tr).
Proof.
  induction n as [|n IH]; intros a a' H; simpl in H.
  - inversion H; subst. exists []. split; [reflexivity|]. split; [reflexivity|]. left.
    repeat split; auto. intros j gj lbj cj Hj. destruct j; discriminate.
  - destruct (one_run a) as [a1|e] eqn:H1; [|discriminate].
    unfold FitModel.one_run in H1. simpl.
    destruct (em_iters max_iter 0%N (a_gmm a) neg_inf) as [[[g lb] conv]|e] eqn:He; [|discriminate].
    destruct (ltb o (a_max a) lb) eqn:Hacc; inversion H1; subst a1; clear H1;
      destruct (IH _ _ H) as (tr' & Htr & Hlen & Hcase); simpl in Htr, Hcase; rewrite Htr;
      exists ((g, lb, conv) :: tr'); (split; [reflexivity|]); (split; [simpl; congruence|]).
    + (* accepted *)
      right. destruct Hcase as [(Hb & Hi & Hm & Hna) | (i & gi & lbi & ci & Hn & Hb & Hi & Hm & Hlt & Hna)].
      * exists 0%nat, g, lb, conv. repeat split; auto.
        intros [|j] gj lbj cj Hj; simpl in Hj.
        -- inversion Hj; subst gj lbj cj. apply ltb_irrefl.
        -- eapply Hna; eauto.
      * exists (S i), gi, lbi, ci. repeat split; auto.
        -- eapply ltb_trans; eauto.
        -- intros [|j] gj lbj cj Hj; simpl in Hj.
           ++ inversion Hj; subst gj lbj cj. destruct (ltb o lbi lb) eqn:E; auto.
              pose proof (ltb_trans _ _ _ Hlt E) as E2. rewrite ltb_irrefl in E2. discriminate.
           ++ eapply Hna; eauto.
    + (* not accepted *)
      destruct Hcase as [(Hb & Hi & Hm & Hna) | (i & gi & lbi & ci & Hn & Hb & Hi & Hm & Hlt & Hna)].
      * left. repeat split; auto. intros [|j] gj lbj cj Hj; simpl in Hj.
        -- inversion Hj; subst gj lbj cj. exact Hacc.
        -- eapply Hna; eauto.
      * right. exists (S i), gi, lbi, ci. repeat split; auto.
        intros [|j] gj lbj cj Hj; simpl in Hj.
        -- inversion Hj; subst gj lbj cj. eapply not_above_mono; eauto.
        -- eapply Hna; eauto.
Qed.

Lemma best_run_is_kept_lemma : forall n_runs g0 g,
  fit_gen n_runs (ROk g0) = ROk g ->
  exists tr i gi lbi it,
    run_results n_runs g0 neg_inf = ROk tr /\ length tr = n_runs /\
    nth_error tr i = Some (gi, lbi, Some it) /\ g = refresh gi /\ last_iteration gi lbi /\
    ltb o neg_inf lbi = true /\
    forall j gj lbj cj, nth_error tr j = Some (gj, lbj, cj) -> ltb o lbi lbj = false.
Proof.
  intros n_runs g0 g H. unfold FitModel.fit_gen in H.
  destruct (runs n_runs (acc0 neg_inf g0)) as [a|e] eqn:Hr; [|discriminate].
  destruct (runs_spec _ _ _ Hr) as (tr & Htr & Hlen & Hcase). simpl in Htr, Hcase.
  unfold finish in H.
  destruct Hcase as [(Hb & Hi & _) | (i & gi & lbi & ci & Hn & Hb & Hi & Hm & Hlt & Hna)].
  - rewrite Hi in H. discriminate.
  - rewrite Hi, Hb in H. destruct ci as [it|]; [|discriminate]. inversion H; subst g.
    exists tr, i, gi, lbi, it. repeat split; auto.
    (* the convergence flag of run i *)
    clear - Htr Hn. revert g0 i Htr Hn. generalize neg_inf at 2. revert tr.
    induction n_runs as [|n IH]; intros tr mx g0 i Htr Hn; simpl in Htr.
    + inversion Htr; subst. destruct i; discriminate.
    + destruct (em_iters max_iter 0%N g0 neg_inf) as [[[g1 lb1] c1]|e] eqn:He; [|discriminate].
      destruct (run_results n (if ltb o mx lb1 then refresh g1 else g1) (if ltb o mx lb1 then lb1 else mx)) as [l|e] eqn:Hl; [|discriminate].
      inversion Htr; subst. destruct i as [|i]; simpl in Hn.
      * inversion Hn; subst. eapply em_iters_converged; eauto.
      * eapply IH; eauto.
Qed.
End Flow.

(* ------------------------------------------------------------------------------------------ *)
(** * binary64: the convergence test sees finite lower bounds only *)
Lemma conv_test_finite_b64 (a b t : float) :
  PrimFloat.ltb (PrimFloat.abs (PrimFloat.sub a b)) t = true -> f64_finite a = true /\ f64_finite b = true.
Proof.
  rewrite ltb_spec, abs_spec, sub_spec. unfold f64_finite, SF64sub.
  destruct (Prim2SF a) as [sa|sa| |sa ma ea], (Prim2SF b) as [sb|sb| |sb mb eb]; simpl; auto;
    try (destruct sa, sb; simpl); unfold SFltb, SFcompare; simpl;
    destruct (Prim2SF t) as [st|st| |st mt et]; try destruct st; simpl; intros H; try discriminate H; auto.
Qed.

Lemma conv_test_neg_inf_b64 (a t : float) :
  PrimFloat.ltb (PrimFloat.abs (PrimFloat.sub a neg_infinity)) t = false.
Proof.
  destruct (PrimFloat.ltb (PrimFloat.abs (PrimFloat.sub a neg_infinity)) t) eqn:E; auto.
  apply conv_test_finite_b64 in E. destruct E as [_ E]. vm_compute in E. discriminate.
Qed.

(** IEEE `<` as Coq's SpecFloat computes it is a strict order - lexicographic on (sign, exponent, mantissa),
    NaN incomparable - so the hypotheses of [best_run_is_kept_lemma] hold in binary64 *)
Lemma SFltb_trans a b c : SFltb a b = true -> SFltb b c = true -> SFltb a c = true.
Proof.
  unfold SFltb, SFcompare.
  destruct a as [sa|sa| |sa ma ea], b as [sb|sb| |sb mb eb], c as [sc|sc| |sc mc ec];
    try destruct sa; try destruct sb; try destruct sc; simpl; try discriminate; auto;
    change (Pos.compare_cont Eq ma mb) with (ma ?= mb)%positive;
    change (Pos.compare_cont Eq mb mc) with (mb ?= mc)%positive;
    change (Pos.compare_cont Eq ma mc) with (ma ?= mc)%positive;
    destruct (Z.compare_spec ea eb), (Z.compare_spec eb ec), (Z.compare_spec ea ec);
    destruct (Pos.compare_spec ma mb), (Pos.compare_spec mb mc), (Pos.compare_spec ma mc);
    simpl; intros; try discriminate; try reflexivity; try lia.
Qed.
Lemma SFltb_irrefl a : SFltb a a = false.
Proof.
  unfold SFltb, SFcompare. destruct a as [s|s| |s m e]; try destruct s; simpl; auto;
  rewrite Z.compare_refl; change (Pos.compare_cont Eq m m) with (m ?= m)%positive; rewrite Pos.compare_refl; reflexivity.
Qed.
Lemma ltb64_trans (a b c : float) : PrimFloat.ltb a b = true -> PrimFloat.ltb b c = true -> PrimFloat.ltb a c = true.
Proof. rewrite !ltb_spec. apply SFltb_trans. Qed.
Lemma ltb64_irrefl (a : float) : PrimFloat.ltb a a = false.
Proof. rewrite ltb_spec. apply SFltb_irrefl. Qed.

(* ------------------------------------------------------------------------------------------ *)
(** * The kernels over the reals *)
Local Open Scope R_scope.

Lemma has_nan_R l : has_nan R_ops l = false.
Proof.
  unfold has_nan. induction l as [|x l IH]; [reflexivity|]. cbn [existsb].
  replace (eqb R_ops x x) with true by (symmetry; apply Reqb_true; reflexivity).
  cbn [negb orb]. exact IH.
Qed.

Lemma egp_res_R ten_eps X resp reg :
  egp_res R_ops ten_eps X resp reg =
  match estimate_gaussian_parameters R_ops ten_eps X resp reg with Some gp => ROk gp | None => RErr E_empty end.
Proof. unfold egp_res. rewrite has_nan_R. reflexivity. Qed.

(** an emptied component (some nk below 10 eps) makes the M-step an error *)
Lemma m_step_emptied_lemma {F} (o : NumOps F) feps ten_eps fexp X reg g lr :
  empty_cluster o ten_eps (nk_of o (map (map fexp) lr)) = true ->
  m_step o feps ten_eps fexp X reg g lr = RErr E_empty \/ m_step o feps ten_eps fexp X reg g lr = RErr E_minmax.
Proof.
  intros H. unfold m_step, egp_res, estimate_gaussian_parameters. rewrite H.
  destruct (has_nan o (nk_of o (map (map fexp) lr))); auto.
Qed.

Lemma map_combine_self {A B C} (f : A * B -> C) (g : A -> B) l :
  map f (combine l (map g l)) = map (fun a => f (a, g a)) l.
Proof. induction l as [|a l IH]; simpl; auto. rewrite IH. reflexivity. Qed.

(** the responsibilities the M-step is run on are, row by row, [resp_stable] of the weighted log probabilities *)
Lemma e_step_resp_rows {F} (o : NumOps F) fexp fln nh c X g :
  map (map fexp) (e_lr (e_step_full o fexp fln nh c X g)) =
  map (fun x => resp_stable o fexp fln (wlp_row o nh c g (map (log_det o fln) (s_pchol g)) (map fln (s_w g)) x)) X.
Proof.
  unfold e_step_full; simpl. rewrite map_combine_self, !map_map. apply map_ext. intros x. reflexivity.
Qed.

Lemma wlp_row_length {F} (o : NumOps F) nh c g lds lws x :
  length (wlp_row o nh c g lds lws x) = length (s_w g).
Proof. unfold wlp_row. rewrite map_length, seq_length. reflexivity. Qed.

Lemma resp_stable_length {F} (o : NumOps F) fexp fln w : length (resp_stable o fexp fln w) = length w.
Proof. unfold resp_stable, log_resp. rewrite !map_length. reflexivity. Qed.

(** one EM iteration over the reals: the new weights sum to one, whatever the current state *)
Lemma em_iteration_weights_lemma feps ten_eps nh c X reg (g g' : gmm R) lb lr :
  X <> [] -> s_w g <> [] ->
  e_step R_ops exp ln nh c X g = ROk (lb, lr) ->
  m_step R_ops feps ten_eps exp X reg g lr = ROk g' ->
  Rsum (s_w g') = 1 /\ s_prec g' = s_prec g.
Proof.
  intros HX Hw He Hm.
  assert (Hlr : lr = e_lr (e_step_full R_ops exp ln nh c X g)) by (unfold e_step in He; inversion He; reflexivity).
  subst lr; clear He.
  pose proof (e_step_resp_rows R_ops exp ln nh c X g) as Hrows.
  set (E := e_lr (e_step_full R_ops exp ln nh c X g)) in *.
  unfold m_step in Hm. rewrite egp_res_R in Hm.
  destruct (estimate_gaussian_parameters R_ops ten_eps X _ reg) as [gp|] eqn:Hg; [|discriminate].
  destruct (prec_chol_full R_ops feps (g_covs gp)); [|discriminate].
  inversion Hm; subst g'; clear Hm. simpl. split; [|reflexivity].
  unfold estimate_gaussian_parameters in Hg.
  destruct (empty_cluster R_ops ten_eps _); [discriminate|]. inversion Hg; subst gp; clear Hg. simpl.
  rewrite Hrows. clear Hrows E.
  set (rows := map _ X).
  assert (Hlen : length rows = length X) by (unfold rows; apply map_length).
  rewrite <- Hlen.
  apply model_weights_sum_to_one_lemma.
  - unfold rows. destruct X; [congruence | discriminate].
  - assert (Hnc : ncols rows = length (s_w g)).
    { unfold rows. destruct X as [|x X']; [congruence|]. simpl.
      rewrite resp_stable_length, wlp_row_length. reflexivity. }
    apply Forall_forall. intros r Hr. unfold rows in Hr. apply in_map_iff in Hr.
    destruct Hr as (x & <- & _). split.
    + rewrite Hnc, resp_stable_length, wlp_row_length. reflexivity.
    + apply resp_stable_sum_one_lemma. intro E.
      apply (f_equal (@length R)) in E. rewrite wlp_row_length in E. simpl in E.
      destruct (s_w g); [congruence | discriminate].
Qed.

(** a successful M-step over the reals leaves every weight at least 10 eps / n *)
Lemma Forall_map_iff {A B} (P : B -> Prop) (f : A -> B) l : Forall P (map f l) <-> Forall (fun a => P (f a)) l.
Proof. rewrite !Forall_forall. split; intros H x Hx; [apply H, in_map; auto | apply in_map_iff in Hx; destruct Hx as (a & <- & Ha); auto]. Qed.

Lemma m_step_weights_positive_lemma feps ten_eps fexp X reg (g g' : gmm R) lr :
  X <> [] -> 0 < ten_eps ->
  m_step R_ops feps ten_eps fexp X reg g lr = ROk g' -> Forall (fun w => 0 < w) (s_w g').
Proof.
  intros HX Hte Hm. unfold m_step in Hm. rewrite egp_res_R in Hm.
  destruct (estimate_gaussian_parameters R_ops ten_eps X _ reg) as [gp|] eqn:Hg; [|discriminate].
  destruct (prec_chol_full R_ops feps (g_covs gp)); [|discriminate].
  inversion Hm; subst g'; clear Hm. simpl.
  unfold estimate_gaussian_parameters in Hg.
  destruct (empty_cluster R_ops ten_eps _) eqn:He; [discriminate|]. inversion Hg; subst gp; clear Hg. simpl.
  unfold weights_of. apply Forall_map_iff. unfold empty_cluster in He.
  apply Forall_forall. intros v Hv.
  assert (Hv' : Rltb v ten_eps = false).
  { destruct (Rltb v ten_eps) eqn:E; auto.
    assert (existsb (fun v => ltb R_ops v ten_eps) (nk_of R_ops (map (map fexp) lr)) = true).
    { apply existsb_exists. exists v. auto. } congruence. }
  apply Rltb_false in Hv'. simpl.
  assert (Hn : 0 < INR (N.to_nat (N.of_nat (length X)))).
  { rewrite Nnat.Nat2N.id. apply lt_0_INR. destruct X; [congruence | simpl; lia]. }
  apply Rdiv_lt_0_compat; lra.
Qed.

(* ------------------------------------------------------------------------------------------ *)
(** * Non-vacuity *)

(** a toy instance of the control flow over integer arithmetic (so that it runs by computation): states are
    counters, an M-step increments the counter, the lower bound of the states is -800, -400, -390, -300,
    -295, ...; with tolerance 20 the first run converges in its third iteration (state 3, bound -390), the
    second run in its second iteration (state 5, bound -295) and replaces the first *)
Definition Z_ops : NumOps Z :=
  {| zero := 0%Z; one := 1%Z; add := Z.add; sub := Z.sub; mul := Z.mul; div := Z.div; opp := Z.opp; abs := Z.abs;
     sqrt := Z.sqrt; ltb := Z.ltb; leb := Z.leb; eqb := Z.eqb; of_N := Z.of_N |}.
Definition toy_lb (g : nat) : Z :=
  match g with O => -800 | S O => -400 | S (S O) => -390 | S (S (S O)) => -300 | _ => -295 end%Z.
Definition toy_e (g : nat) : res (Z * unit) := ROk (toy_lb g, tt).
Definition toy_m (g : nat) (_ : unit) : res nat := ROk (S g).
Example toy_fit_ok :
  fit_gen Z_ops (-100000)%Z toy_e toy_m (fun g => g) 20%Z 10 2 (ROk 0%nat) = ROk 5%nat.
Proof. vm_compute. reflexivity. Qed.
Example toy_run_results :
  run_results Z_ops (-100000)%Z toy_e toy_m (fun g => g) 20%Z 10 2 0%nat (-100000)%Z
  = ROk [(3%nat, (-390)%Z, Some 2%N); (5%nat, (-295)%Z, Some 1%N)].
Proof. vm_compute. reflexivity. Qed.
(** ... and with a single iteration per run the same instance reports NotConverged *)
Example toy_fit_one_iteration :
  fit_gen Z_ops (-100000)%Z toy_e toy_m (fun g => g) 20%Z 1 2 (ROk 0%nat) = RErr E_not_converged.
Proof. vm_compute. reflexivity. Qed.
Example Z_ltb_trans : forall a b c : Z, ltb Z_ops a b = true -> ltb Z_ops b c = true -> ltb Z_ops a c = true.
Proof. simpl. intros a b c H1 H2. apply Z.ltb_lt in H1. apply Z.ltb_lt in H2. apply Z.ltb_lt. lia. Qed.
Example Z_ltb_irrefl : forall a : Z, ltb Z_ops a a = false.
Proof. simpl. intros a. apply Z.ltb_irrefl. Qed.

(** the hypotheses on the comparison used by [best_run_is_kept] hold over the reals *)
Example R_ltb_trans : forall a b c : R, ltb R_ops a b = true -> ltb R_ops b c = true -> ltb R_ops a c = true.
Proof. simpl. intros a b c H1 H2. apply Rltb_true in H1. apply Rltb_true in H2. apply Rltb_true. lra. Qed.
Example R_ltb_irrefl : forall a : R, ltb R_ops a a = false.
Proof. simpl. intros a. apply Rltb_false. lra. Qed.

(** the binary64 instance returns a model on a two-point data set with one component and no
    regularisation (variance 1: every exp / ln argument is 0 or 1) ... *)
Example fit64_two_points_ok :
  match fit64 [] [] 0x1.d67f1c864beb5p+0 0x1p-10 2 1 [[-1]; [1]]%float 0 (ROk [[1]; [1]]%float) with
  | ROk g => s_w g = [1%float] /\ s_mu g = [[0%float]] /\ s_cov g = [[[1%float]]] /\ s_pchol g = [[[1%float]]]
  | RErr _ => False
  end.
Proof. vm_compute. repeat split. Qed.
(** ... reports NotConverged when only one iteration is allowed, an error of the Cholesky factorisation when
    the two points coincide, and an emptied component when a column of the responsibilities is zero *)
Example fit64_one_iteration_err :
  fit64 [] [] 0x1.d67f1c864beb5p+0 0x1p-10 1 3 [[-1]; [1]]%float 0 (ROk [[1]; [1]]%float) = RErr E_not_converged.
Proof. vm_compute. reflexivity. Qed.
Example fit64_duplicates_err :
  fit64 [] [] 0x1.d67f1c864beb5p+0 0x1p-10 5 1 [[1]; [1]]%float 0 (ROk [[1]; [1]]%float) = RErr E_linalg.
Proof. vm_compute. reflexivity. Qed.
Example fit64_starved_err :
  fit64 [] [] 0x1.d67f1c864beb5p+0 0x1p-10 5 1 [[-1]; [1]]%float 0x1p-10 (ROk [[1; 0]; [1; 0]]%float) = RErr E_empty.
Proof. vm_compute. reflexivity. Qed.
