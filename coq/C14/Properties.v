(** C14 - property theorems (statements only; proofs are in C14/Proofs.v).

    Reading guide.  [tree X] is a fitted tree as dumped through the public API; [predict], [route]
    (path taken at prediction time), [route_fit] (path taken while fitting: `<=`), [prune],
    [relative_impurity_decrease] and [fit] are the Gallina transliterations of the Rust code
    (C14/Model.v).  [chk_tree] is the exact (rational-arithmetic) checker that every run evaluates
    on the trees returned by the implementation.  [tree_spec] / [node_spec] (C14/Proofs.v) is the
    statement of the property over the reals: depths consistent and within max_depth; every split
    node reached by >= min_weight_split samples, both sides >= min_weight_leaf of weight, no
    training sample routed differently at fit and at prediction time, reported decrease within
    [rp_tol] of the real decrease of the criterion and >= min_impurity_decrease; every leaf
    predicts a label that occurs among, and has maximal weight among, the training samples
    reaching it; importances non-negative and summing to one when there is a split; no mergeable
    sibling leaves.
    Weights.  All weight statements are about the EXACT (rational / real) sample weights.  The code
    compares f32 running sums; [rp_wslack P] is the stated allowance for their rounding, as a share
    of the weight of the node in question: 0 for unit and dyadic sample weights (all f32 sums exact;
    then the statements are the exact ones, [exact_weights_need_no_allowance]), n * 2^-23 for n
    samples with arbitrary f32 weights (C14/Corr.v [wslack]).
    T2 (split search): [best_split] is the Gallina transliteration of the search for the best
    split of one node (for every feature the sweep over its presorted column); [split_candidate
    .. mask tab f sv i] (C14/ProofsSplit.v) says declaratively whether the split of feature [f]
    between positions i and i+1 of its presorted column [sv] is ADMISSIBLE as the code defines it:
    position i+1 exists; the row at position i belongs to the node (mask); the values at positions i
    and i+1 differ by at least F::cast(1e-5) (the row at i+1 need not belong to the node); after
    moving the node's rows among positions 0..i from the right to the left side, the running right
    weight (total - w - w ...) and the running left weight (0 + w + w ...) are both not below
    min_weight_leaf.  It then yields Some (f, threshold, score) with the midpoint rule for the
    threshold and score = wr/total * imp(right table) + (1 - wr/total) * imp(left table).
    [split_candidates] lists the admissible candidates in the order the search visits them. *)
From Coq Require Import List NArith QArith Qreals Reals.
From LinfaVerif Require Import Common.Num Common.QF C14.Model C14.Proofs C14.ProofsSplit.
Import ListNotations.
Local Close Scope Q_scope.
Local Open Scope R_scope.

(** T1. soundness of the checker: whatever tree the checker accepts satisfies the specification
    (pattern B: certified per fitted tree) *)
Theorem tree_ok_sound : forall P gc itol smp t imps,
  chk_tree P gc itol smp t imps = 0%N ->
  tree_spec (paramsR P) (imp_of gc) (Q2R itol) (map sampleR smp) (tmap Q2R t) (map Q2R imps).
Proof. exact chk_tree_sound. Qed.

(** no node is deeper than max_depth *)
Theorem no_node_deeper_than_max_depth : forall P imp itol smp t imps m s,
  tree_spec P imp itol smp t imps -> rp_maxdepth P = Some m -> subtree s t -> (tdepth s <= m)%nat.
Proof. intros P imp itol smp t imps m s (_ & H & _) Hm Hs. exact (spec_depth_le P imp t smp s m H Hm Hs). Qed.

(** every split node, at whatever path, splits on an existing feature, honours min_weight_split,
    min_weight_leaf (up to the rounding allowance) and min_impurity_decrease for the training
    samples routed to it, and reports the real decrease *)
Theorem split_nodes_honour_limits : forall P imp itol smp t imps path d f thr dec l r,
  tree_spec P imp itol smp t imps -> subtree_at t path = Some (Node d f thr dec l r) ->
  let S := samples_at (rp_le P) t smp path in
  let SL := rleft (rp_le P) f thr S in
  let SR := rright (rp_le P) f thr S in
  d = length path /\ (f < rp_nfeat P)%nat /\
  rp_mws P <= INR (length S) /\
  rp_mwl P <= rweight SL + rp_wslack P * rweight S /\ rp_mwl P <= rweight SR + rp_wslack P * rweight S /\
  rp_mid P <= dec /\
  match imp with
  | Some g => Rabs (dec - rdecrease g (rp_ncls P) S SL SR) <= rp_tol P
  | None => True
  end.
Proof.
  intros P imp itol smp t imps path d f thr dec l r (_ & H & _) E.
  exact (spec_split_limits P imp path t smp d f thr dec l r H E).
Qed.

(** only labels seen in training are ever predicted, for every query point *)
Theorem predict_in_training_labels : forall P imp itol smp t imps (x : list R),
  tree_spec P imp itol smp t imps ->
  exists s, In s smp /\ rs_y s = predict R_ops (rp_le P) t x.
Proof. intros P imp itol smp t imps x (_ & H & _). exact (spec_predict_label P imp t smp 0%nat H x). Qed.

(** every training sample is routed by prediction along the path it took while fitting, to a leaf
    whose samples are exactly the training samples with that path, and the leaf predicts a label
    that occurs in it and is (weighted) most frequent among ALL labels *)
Theorem training_sample_reaches_majority_leaf : forall P imp itol smp t imps s,
  tree_spec P imp itol smp t imps -> In s smp ->
  let L := leaf_samples (rp_le P) t smp (rs_x s) in
  let p := predict R_ops (rp_le P) t (rs_x s) in
  route R_ops (rp_le P) t (rs_x s) = route_fit R_ops t (rs_x s) /\
  In s L /\
  (forall s', In s' L <-> In s' smp /\ route R_ops (rp_le P) t (rs_x s') = route R_ops (rp_le P) t (rs_x s)) /\
  (exists s', In s' L /\ rs_y s' = p) /\
  (forall c, rwfreq L c <= rwfreq L p + rp_wslack P * rweight L).
Proof. exact tree_spec_training. Qed.

(** with exactly summable sample weights (allowance 0) the limits and the majority are the exact ones *)
Theorem exact_weights_need_no_allowance : forall P imp itol smp t imps,
  tree_spec P imp itol smp t imps -> rp_wslack P = 0 ->
  (forall path d f thr dec l r, subtree_at t path = Some (Node d f thr dec l r) ->
     let S := samples_at (rp_le P) t smp path in
     rp_mwl P <= rweight (rleft (rp_le P) f thr S) /\ rp_mwl P <= rweight (rright (rp_le P) f thr S)) /\
  (forall s, In s smp ->
     let L := leaf_samples (rp_le P) t smp (rs_x s) in
     forall c, rwfreq L c <= rwfreq L (predict R_ops (rp_le P) t (rs_x s))).
Proof. exact tree_spec_exact_weights. Qed.

(** stated directly on the checker: a tree the checker accepts predicts, for every query point, the
    label of some training sample *)
Theorem predicted_labels_seen_in_training : forall P gc itol smp t imps,
  chk_tree P gc itol smp t imps = 0%N ->
  forall x : list R, In (predict R_ops (qp_le P) (tmap Q2R t) x) (map qs_y smp).
Proof. exact chk_tree_predict_label. Qed.

(** the leaves partition feature space: every point lies in the region of exactly one leaf, the one
    prediction descends to - for every tree, both comparison rules and every arithmetic *)
Theorem leaves_partition_feature_space : forall X (ox : NumOps X) (le : bool) (t : tree X) (x : list X),
  in_region ox le t (route ox le t x) x /\
  (forall p, in_region ox le t p x -> p = route ox le t x) /\
  leaf_at t (route ox le t x) = Some (predict ox le t x).
Proof.
  intros X ox le t x. split; [apply route_in_region|]. split; [apply region_unique|apply leaf_at_route].
Qed.

(** pruning never changes a prediction, leaves no two sibling leaves with the same prediction, and
    keeps the specification (in particular: a merged leaf still predicts a most frequent label) *)
Theorem prune_preserves_predictions : forall X (ox : NumOps X) le (t : tree X) (x : list X),
  predict ox le (fst (prune t)) x = predict ox le t x.
Proof. intros X ox le t x. exact (prune_predict ox le t x). Qed.

Theorem prune_leaves_no_mergeable_siblings : forall X (t : tree X), pruned (fst (prune t)) = true.
Proof. intros X t. exact (prune_pruned t). Qed.

Theorem prune_preserves_spec : forall P imp t smp depth,
  node_spec P imp smp depth t -> node_spec P imp smp depth (fst (prune t)).
Proof. exact prune_spec. Qed.

(** merging two sibling leaves that predict [a]: if [a] is a most frequent label on both sides (up
    to the share [sl] of each side's weight; sl = 0: exactly), it is one of the union *)
Theorem prune_preserves_modal : forall le f thr smp a k sl,
  (forall c, (c < k)%nat -> rwfreq (rleft le f thr smp) c
                            <= rwfreq (rleft le f thr smp) a + sl * rweight (rleft le f thr smp)) ->
  (forall c, (c < k)%nat -> rwfreq (rright le f thr smp) c
                            <= rwfreq (rright le f thr smp) a + sl * rweight (rright le f thr smp)) ->
  forall c, (c < k)%nat -> rwfreq smp c <= rwfreq smp a + sl * rweight smp.
Proof. exact merge_modal. Qed.

(** feature importances (model of relative_impurity_decrease over the reals): for a tree whose root
    is a split on a valid feature and whose reported decreases are positive (as min_impurity_decrease
    > 0 enforces), they are non-negative and sum to one *)
Theorem importance_nonneg_sum_one : forall nf d f thr dec l r,
  (f < nf)%nat -> decs_pos (Node d f thr dec l r) ->
  (forall x, In x (relative_impurity_decrease R_ops nf (Node d f thr dec l r)) -> 0 <= x) /\
  Rsum (relative_impurity_decrease R_ops nf (Node d f thr dec l r)) = 1.
Proof. intros nf d f thr dec l r. exact (importance_ok nf d f thr dec l r). Qed.

(** the same for ANY well-formed tree with at least one split ([well_formed_tree nf t]: every split
    is on a feature below nf and reports a positive decrease): the normalised impurity-decrease
    importances ([relative_impurity_decrease] = feature_importance) are non-negative ... *)
Theorem importances_nonneg : forall nf t,
  well_formed_tree nf t -> is_leaf t = false ->
  forall x, In x (relative_impurity_decrease R_ops nf t) -> 0 <= x.
Proof. intros nf t W L. exact (proj1 (wf_importances nf t W L)). Qed.

(** ... and sum to one over the reals (one entry per feature) *)
Theorem importances_sum_to_one : forall nf t,
  well_formed_tree nf t -> is_leaf t = false ->
  length (relative_impurity_decrease R_ops nf t) = nf /\
  Rsum (relative_impurity_decrease R_ops nf t) = 1.
Proof. intros nf t W L. split; [apply importances_length|exact (proj2 (wf_importances nf t W L))]. Qed.

(** every tree that satisfies the specification (in particular every tree the checker accepts) under
    a positive min_impurity_decrease - the parameter guard enforces one - is well formed *)
Theorem specified_tree_is_well_formed : forall P imp itol smp t imps,
  tree_spec P imp itol smp t imps -> 0 < rp_mid P -> well_formed_tree (rp_nfeat P) t.
Proof. intros P imp itol smp t imps (_ & H & _) Hm. exact (spec_well_formed P imp Hm t smp 0%nat H). Qed.

(** the model of TreeNode::fit + prune honours max_depth for every dataset, every parameter set and
    every arithmetic (f32/f64 execution as well as exact reals) *)
Theorem fit_honours_max_depth : forall W X (ow : NumOps W) (ox : NumOps X) cast imp H xs ys ws ncls nfeat t m s,
  fit ow ox cast imp H xs ys ws ncls nfeat = Some t -> h_maxdepth H = Some m -> subtree s t ->
  (tdepth s <= m)%nat.
Proof. intros W X ow ox cast imp H xs ys ws ncls nfeat t m s. exact (fit_depth_le ow ox cast imp H xs ys ws ncls nfeat t m s). Qed.

(** ... and only ever predicts labels of training rows, for every query, in every arithmetic *)
Theorem fit_predicts_only_training_labels :
  forall W X (ow : NumOps W) (ox : NumOps X) cast imp H xs ys ws ncls nfeat t,
  (forall y, In y ys -> (y < ncls)%nat) -> length ys = length xs -> length ws = length xs -> xs <> [] ->
  fit ow ox cast imp H xs ys ws ncls nfeat = Some t ->
  forall le x, In (predict ox le t x) ys.
Proof.
  intros W X ow ox cast imp H xs ys ws ncls nfeat t Hy Hl1 Hl2 Hne E le x.
  exact (fit_predicts_training_label ow ox cast imp H xs ys ws ncls Hy Hl1 Hl2 nfeat t Hne E le x).
Qed.

(** T2. the split search returns an admissible candidate of minimal score: over the reals (any
    criterion [imp], any data), the (feature, threshold, score) chosen by [best_split] is an admissible
    candidate split and no admissible candidate of any feature at any position has a smaller score;
    it returns nothing exactly when no split is admissible *)
Theorem best_split_minimises_score :
  forall (imp : freq_tab (W := R) -> R) (H : hyper (W := R) (X := R)) ys ws ncls sorted mask tab,
  match best_split R_ops R_ops imp H ys ws ncls sorted mask tab with
  | None => forall f sv i, nth_error sorted f = Some sv ->
                           split_candidate R_ops R_ops imp H ys ws ncls mask tab f sv i = None
  | Some (bf, thr, s) =>
      (exists sv i, nth_error sorted bf = Some sv /\
                    split_candidate R_ops R_ops imp H ys ws ncls mask tab bf sv i = Some (bf, thr, s)) /\
      (forall f sv i f' thr' s', nth_error sorted f = Some sv ->
         split_candidate R_ops R_ops imp H ys ws ncls mask tab f sv i = Some (f', thr', s') -> s <= s')
  end.
Proof. exact best_split_minimal_R. Qed.

(** ... and, for every arithmetic whose `<` on scores is a strict weak order (the reals, exact
    rationals, floats without NaN), it is the FIRST candidate of minimal score in the order of the
    search (features ascending, positions of the presorted column ascending): the strict `<` of the
    code keeps the earliest of several equally good splits *)
Theorem best_split_is_first_minimal_candidate :
  forall W X (ow : NumOps W) (ox : NumOps X) imp H ys ws ncls, strict_weak_order ow ->
  forall sorted mask tab,
  match best_split ow ox imp H ys ws ncls sorted mask tab with
  | None => split_candidates ow ox imp H ys ws ncls sorted mask tab = []
  | Some c =>
      exists l1 l2, split_candidates ow ox imp H ys ws ncls sorted mask tab = l1 ++ c :: l2 /\
        (forall c', In c' l1 -> ltb ow (score c) (score c') = true) /\
        (forall c', In c' l2 -> ltb ow (score c') (score c) = false)
  end.
Proof. intros W X ow ox imp H ys ws ncls SW sorted mask tab. exact (best_split_first_minimal ow ox imp H ys ws ncls SW sorted mask tab). Qed.

(** the candidate list is exactly the set of admissible (feature, position) pairs *)
Theorem split_candidates_are_the_admissible_splits :
  forall W X (ow : NumOps W) (ox : NumOps X) imp H ys ws ncls sorted mask tab c,
  In c (split_candidates ow ox imp H ys ws ncls sorted mask tab) <->
  exists f sv i, nth_error sorted f = Some sv /\ split_candidate ow ox imp H ys ws ncls mask tab f sv i = Some c.
Proof. intros W X ow ox imp H ys ws ncls sorted mask tab c. exact (in_split_candidates ow ox imp H ys ws ncls sorted mask tab c). Qed.
