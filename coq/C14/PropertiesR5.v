(** C14 (round 5) - for-all-inputs theorems about the FIT MODEL itself (statements only; proofs are
    in C14/ProofsR5.v).

    Reading guide.  [fit_node] / [fit] are the Gallina transliterations of TreeNode::fit and
    Fit::fit (C14/Model.v) that every run replays bit for bit against the implementation;
    [fit_unpruned] (C14/ModelR5.v) is [fit] without the final `prune`.  The theorems hold for
    every dataset [xs ys ws], every hyper-parameter record [H], every criterion [imp], every
    presorted index [sorted], every fuel / start mask / start depth, and - unless the name ends in
    `_over_reals` - for every arithmetic (NumOps: f32 / f64 execution as well as exact reals).
    A node is addressed by its path from the root ([subtree_at], [true] = left child).
    [mask_at ox xs mask t path] (C14/ModelR5.v) is the row mask of that node during fitting: the
    start mask filtered by `x[feature] <= split_value` / its negation along the path - the very
    [map2] terms of the recursion of [fit_node] ([left_mask] / [right_mask]).
    [moved m sv i] (C14/ProofsSplit.v) are the rows of the node among positions 0..i of the
    presorted column [sv] of the split feature, i.e. the rows the sweep had moved to the left side
    when it recorded the winning candidate; [right_weight] / [left_weight] are the running weights
    of the sweep (total - w - w ..., 0 + w + w ...), [moved_weight ws mv] their real-number sum.
    [mask_rows n m] are the row numbers < n marked by the mask [m]; [rows_weight n ws m] is the
    exact (real) sum of their sample weights.  Over exact reals, with F::cast(1e-5) > 0 and
    F::cast(2.0) = 2, the rows the sweep had moved ARE the rows of [left_mask] (the presorted index
    is a sorted permutation of the rows and v <= threshold < vnext), so that the two children hold
    at least min_weight_leaf of exact weight each ([fit_children_hold_min_weight_leaf_over_reals]).
    For the f32 execution the same statement holds for the RUNNING sums of the sweep only
    ([fit_split_nodes_are_admissible_candidates]); their rounding is the allowance of chk_tree. *)
From Coq Require Import List NArith Reals Permutation Sorted.
From LinfaVerif Require Import Common.Num C14.Model C14.Proofs C14.ProofsSplit C14.ModelR5 C14.ProofsR5.
Import ListNotations.

(** R5-1/2. every split node of the tree the recursion builds (before pruning) passed the stop
    tests: it was reached by at least min_weight_split rows (`(nsamples as f32) < min_weight_split`
    is false), (feature, threshold) is the result of the split search on exactly the rows of the
    node and the recorded decrease is impurity - score of that result, the decrease is not below
    min_impurity_decrease, and both children received rows *)
Theorem fit_split_nodes_pass_the_stop_tests :
  forall W X (ow : NumOps W) (ox : NumOps X) cast imp H xs ys ws ncls sorted fuel mask depth t,
  fit_node ow ox cast imp H xs ys ws ncls sorted fuel mask depth = Some t ->
  forall path d f thr dec l r, subtree_at t path = Some (Node d f thr dec l r) ->
  let m := mask_at ox xs mask t path in
  let tab := label_freqs ow ys ws ncls m in
  ltb ow (of_N ow (N.of_nat (count_true m))) (h_mws H) = false /\
  (exists bs, best_split ow ox imp H ys ws ncls sorted m tab = Some (f, thr, bs) /\
              dec = sub ox (cast (imp tab)) (cast bs)) /\
  ltb ox dec (h_mid H) = false /\
  count_true (mask_at ox xs mask t (path ++ [true])) <> 0%nat /\
  count_true (mask_at ox xs mask t (path ++ [false])) <> 0%nat.
Proof.
  intros W X ow ox cast imp H xs ys ws ncls sorted fuel mask depth t Hfit path d f thr dec l r.
  exact (fit_node_split_at ow ox cast imp H xs ys ws ncls sorted fuel mask depth t Hfit path d f thr dec l r).
Qed.

(** R5-1. ... and its split is an admissible candidate of the search: it sits between two
    consecutive positions i, i+1 of the presorted column of its feature, the row at position i
    belongs to the node, the two values are at least F::cast(1e-5) apart, the threshold is the
    midpoint rule of these two values, and neither running weight of the sweep (f32 in Rust) was
    below min_weight_leaf when the candidate was recorded *)
Theorem fit_split_nodes_are_admissible_candidates :
  forall W X (ow : NumOps W) (ox : NumOps X) cast imp H xs ys ws ncls sorted fuel mask depth t,
  fit_node ow ox cast imp H xs ys ws ncls sorted fuel mask depth = Some t ->
  forall path d f thr dec l r, subtree_at t path = Some (Node d f thr dec l r) ->
  let m := mask_at ox xs mask t path in
  let tab := label_freqs ow ys ws ncls m in
  exists sv i, nth_error sorted f = Some sv /\
    ltb ow (right_weight ow ws (tab_sum ow tab) (moved m sv i)) (h_mwl H) = false /\
    ltb ow (left_weight ow ws (zero ow) (moved m sv i)) (h_mwl H) = false /\
    exists idx v idx' vnext, nth_error sv i = Some (idx, v) /\ nth_error sv (S i) = Some (idx', vnext) /\
      nth idx m false = true /\ ltb ox (abs ox (sub ox v vnext)) (h_eps H) = false /\
      thr = threshold ox H v vnext.
Proof.
  intros W X ow ox cast imp H xs ys ws ncls sorted fuel mask depth t Hfit path d f thr dec l r.
  exact (fit_node_split_weights_at ow ox cast imp H xs ys ws ncls sorted fuel mask depth t Hfit path d f thr dec l r).
Qed.

(** R5-3. every leaf of the tree the recursion builds predicts the modal class (find_modal_class)
    of the class table of exactly the rows routed to it while fitting *)
Theorem fit_leaves_predict_modal_class_of_their_rows :
  forall W X (ow : NumOps W) (ox : NumOps X) cast imp H xs ys ws ncls sorted fuel mask depth t,
  fit_node ow ox cast imp H xs ys ws ncls sorted fuel mask depth = Some t ->
  forall path d p, subtree_at t path = Some (Leaf d p) ->
  p = modal ow (label_freqs ow ys ws ncls (mask_at ox xs mask t path)).
Proof.
  intros W X ow ox cast imp H xs ys ws ncls sorted fuel mask depth t Hfit path d p.
  exact (fit_node_leaf_at ow ox cast imp H xs ys ws ncls sorted fuel mask depth t Hfit path d p).
Qed.

(** R5-3. the row sets of the two children partition the rows of the parent: disjoint, contained in
    the parent's rows, covering every existing row of the parent; the left child holds exactly the
    parent's rows with x[feature] <= threshold.  ([mask_at] is the mask the recursion of [fit_node]
    passes down - see the two theorems above, which speak about the tree built on these masks -; the
    partition itself is a property of these masks for any tree, fitted or not) *)
Theorem fit_children_partition_rows :
  forall X (ox : NumOps X) (xs : list (list X)) mask (t : tree X) path d f thr dec l r i,
  subtree_at t path = Some (Node d f thr dec l r) ->
  let m := mask_at ox xs mask t path in
  let ml := mask_at ox xs mask t (path ++ [true]) in
  let mr := mask_at ox xs mask t (path ++ [false]) in
  (nth i ml false = true -> nth i mr false = true -> False) /\
  (nth i ml false = true -> nth i m false = true /\ (i < length xs)%nat) /\
  (nth i mr false = true -> nth i m false = true /\ (i < length xs)%nat) /\
  (nth i m false = true -> (i < length xs)%nat -> nth i ml false = true \/ nth i mr false = true) /\
  (nth i ml false = true <->
   nth i m false = true /\ exists row, nth_error xs i = Some row /\ leb ox (feat_of ox row f) thr = true).
Proof.
  intros X ox xs mask t path d f thr dec l r i.
  exact (fit_node_children_partition ox xs mask t path d f thr dec l r i).
Qed.

(** over exact reals the tests read as the inequalities of the property: at least min_weight_split
    rows, decrease >= min_impurity_decrease, non-empty children, and the weight moved to the left
    as well as the weight remaining on the right (node total - moved) are >= min_weight_leaf *)
Theorem fit_split_limits_over_reals :
  forall cast imp (H : hyper (W := R) (X := R)) xs ys ws ncls sorted fuel mask depth t,
  fit_node R_ops R_ops cast imp H xs ys ws ncls sorted fuel mask depth = Some t ->
  forall path d f thr dec l r, subtree_at t path = Some (Node d f thr dec l r) ->
  let m := mask_at R_ops xs mask t path in
  let total := tab_sum R_ops (label_freqs R_ops ys ws ncls m) in
  (h_mws H <= INR (count_true m))%R /\
  (h_mid H <= dec)%R /\
  (count_true (mask_at R_ops xs mask t (path ++ [true])) > 0)%nat /\
  (count_true (mask_at R_ops xs mask t (path ++ [false])) > 0)%nat /\
  exists sv i, nth_error sorted f = Some sv /\
    (h_mwl H <= moved_weight ws (moved m sv i))%R /\
    (h_mwl H <= total - moved_weight ws (moved m sv i))%R.
Proof.
  intros cast imp H xs ys ws ncls sorted fuel mask depth t Hfit path d f thr dec l r.
  exact (fit_node_split_limits_R cast imp H xs ys ws ncls sorted fuel mask depth t Hfit path d f thr dec l r).
Qed.

(** over exact reals the class a leaf predicts has the largest entry of the class table of the
    rows routed to the leaf (a modal class: no class present at the leaf has more weight) *)
Theorem fit_leaf_class_has_largest_weight_over_reals :
  forall cast imp (H : hyper (W := R) (X := R)) xs ys ws ncls sorted fuel mask depth t,
  fit_node R_ops R_ops cast imp H xs ys ws ncls sorted fuel mask depth = Some t ->
  forall path d p, subtree_at t path = Some (Leaf d p) ->
  let tab := label_freqs R_ops ys ws ncls (mask_at R_ops xs mask t path) in
  forall c v, nth_error tab c = Some (Some v) ->
  exists vp, nth_error tab p = Some (Some vp) /\ (v <= vp)%R.
Proof.
  intros cast imp H xs ys ws ncls sorted fuel mask depth t Hfit path d p.
  exact (fit_node_leaf_modal_R cast imp H xs ys ws ncls sorted fuel mask depth t Hfit path d p).
Qed.

(** [fit] is `prune` applied to the tree of the recursion started on all rows at depth 0 ... *)
Theorem fit_is_prune_of_unpruned_fit :
  forall W X (ow : NumOps W) (ox : NumOps X) cast imp H xs ys ws ncls nfeat,
  fit ow ox cast imp H xs ys ws ncls nfeat =
  option_map (fun t => fst (prune t)) (fit_unpruned ow ox cast imp H xs ys ws ncls nfeat).
Proof. intros W X ow ox cast imp H xs ys ws ncls nfeat. exact (fit_is_pruned_unpruned ow ox cast imp H xs ys ws ncls nfeat). Qed.

(** ... pruning keeps every surviving split node at its path with its feature, threshold and
    decrease, and the rows routed to it are the same as before pruning *)
Theorem prune_keeps_split_nodes :
  forall X path (t : tree X) d f thr dec l' r',
  subtree_at (fst (prune t)) path = Some (Node d f thr dec l' r') ->
  exists l r, subtree_at t path = Some (Node d f thr dec l r).
Proof. intros X path t d f thr dec l' r'. exact (prune_keeps_splits path t d f thr dec l' r'). Qed.

Theorem prune_keeps_rows_of_surviving_nodes :
  forall X (ox : NumOps X) xs path (t : tree X) mask s,
  subtree_at (fst (prune t)) path = Some s ->
  mask_at ox xs mask (fst (prune t)) path = mask_at ox xs mask t path.
Proof. intros X ox xs path t mask s. exact (prune_mask_at ox xs path t mask s). Qed.

(** hence the limits hold at every split node of the tree [fit] RETURNS (after pruning), for every
    dataset, weight vector, parameter set and arithmetic: reached by >= min_weight_split rows,
    decrease not below min_impurity_decrease and equal to impurity - best score of the search on
    the node's rows, running weights of the winning candidate not below min_weight_leaf *)
Theorem fit_split_nodes_honour_limits :
  forall W X (ow : NumOps W) (ox : NumOps X) cast imp H xs ys ws ncls nfeat t path d f thr dec l r,
  fit ow ox cast imp H xs ys ws ncls nfeat = Some t ->
  subtree_at t path = Some (Node d f thr dec l r) ->
  let m := mask_at ox xs (full_mask xs) t path in
  let tab := label_freqs ow ys ws ncls m in
  ltb ow (of_N ow (N.of_nat (count_true m))) (h_mws H) = false /\
  ltb ox dec (h_mid H) = false /\
  (exists bs, best_split ow ox imp H ys ws ncls (presorted ox xs nfeat) m tab = Some (f, thr, bs) /\
              dec = sub ox (cast (imp tab)) (cast bs)) /\
  exists sv i, nth_error (presorted ox xs nfeat) f = Some sv /\
    ltb ow (right_weight ow ws (tab_sum ow tab) (moved m sv i)) (h_mwl H) = false /\
    ltb ow (left_weight ow ws (zero ow) (moved m sv i)) (h_mwl H) = false.
Proof.
  intros W X ow ox cast imp H xs ys ws ncls nfeat t path d f thr dec l r.
  exact (fit_split_limits ow ox cast imp H xs ys ws ncls nfeat t path d f thr dec l r).
Qed.

Theorem fit_split_nodes_honour_limits_over_reals :
  forall cast imp (H : hyper (W := R) (X := R)) xs ys ws ncls nfeat t path d f thr dec l r,
  fit R_ops R_ops cast imp H xs ys ws ncls nfeat = Some t ->
  subtree_at t path = Some (Node d f thr dec l r) ->
  let m := mask_at R_ops xs (full_mask xs) t path in
  let total := tab_sum R_ops (label_freqs R_ops ys ws ncls m) in
  (h_mws H <= INR (count_true m))%R /\
  (h_mid H <= dec)%R /\
  exists sv i, nth_error (presorted R_ops xs nfeat) f = Some sv /\
    (h_mwl H <= moved_weight ws (moved m sv i))%R /\
    (h_mwl H <= total - moved_weight ws (moved m sv i))%R.
Proof. exact fit_split_limits_R. Qed.

(** SortedIndex::of_array_column over the reals: a permutation of the (row, value) pairs, sorted
    by value *)
Theorem presorted_index_is_a_sorted_permutation :
  forall col : list R,
  Permutation (sorted_index R_ops col) (combine (seq 0 (length col)) col) /\
  StronglySorted (fun a b => (snd a <= snd b)%R) (sorted_index R_ops col).
Proof. exact sorted_index_spec. Qed.

(** over the reals (1e-5 cast > 0, 2.0 cast = 2) the rows the sweep has moved to the left when it
    records the candidate between positions i and i+1 are exactly the rows of the left child mask
    for the candidate's threshold (as a set; the order is that of the presorted column) *)
Theorem moved_rows_are_the_left_child_rows :
  forall (H : hyper (W := R) (X := R)) (xs : list (list R)) f,
  (0 < h_eps H)%R -> h_two H = 2%R ->
  forall m i idx v idx' vnext,
  nth_error (sorted_index R_ops (column R_ops xs f)) i = Some (idx, v) ->
  nth_error (sorted_index R_ops (column R_ops xs f)) (S i) = Some (idx', vnext) ->
  ltb R_ops (abs R_ops (sub R_ops v vnext)) (h_eps H) = false ->
  Permutation (moved m (sorted_index R_ops (column R_ops xs f)) i)
              (mask_rows (length xs) (left_mask R_ops xs m f (threshold R_ops H v vnext))).
Proof. exact moved_is_left_child. Qed.

(** over the reals the total weight of the class table of a node (the `total_weight` of the split
    search) is the sum of the sample weights of its rows *)
Theorem node_total_weight_is_the_weight_of_its_rows :
  forall ys (ws : list R) ncls (m : list bool),
  (forall y, In y ys -> (y < ncls)%nat) -> length ys = length ws -> (length m <= length ys)%nat ->
  tab_sum R_ops (label_freqs R_ops ys ws ncls m) = rows_weight (length ys) ws m.
Proof. exact node_total_weight_R. Qed.

(** R5-1 (the min_weight_leaf half), over exact reals: at every split node of the tree the
    recursion builds on the presorted columns of the data, the rows of the left child and the rows
    of the right child each carry at least min_weight_leaf of sample weight, and together exactly
    the weight of the parent's rows - for every dataset, weight vector and parameter record with
    well-formed labels / lengths *)
Theorem fit_children_hold_min_weight_leaf_over_reals :
  forall cast imp (H : hyper (W := R) (X := R)) xs ys ws ncls,
  (0 < h_eps H)%R -> h_two H = 2%R ->
  (forall y, In y ys -> (y < ncls)%nat) -> length ys = length xs -> length ws = length xs ->
  forall nfeat fuel mask depth t path d f thr dec l r,
  fit_node R_ops R_ops cast imp H xs ys ws ncls (presorted R_ops xs nfeat) fuel mask depth = Some t ->
  (length mask <= length xs)%nat ->
  subtree_at t path = Some (Node d f thr dec l r) ->
  let W := rows_weight (length xs) ws in
  let m := mask_at R_ops xs mask t path in
  let ml := mask_at R_ops xs mask t (path ++ [true]) in
  let mr := mask_at R_ops xs mask t (path ++ [false]) in
  (h_mwl H <= W ml)%R /\ (h_mwl H <= W mr)%R /\ W m = (W ml + W mr)%R.
Proof. exact fit_node_children_weights_R. Qed.

(** ... and the same at every split node of the tree [fit] returns (all rows, depth 0, pruned) *)
Theorem fit_returned_children_hold_min_weight_leaf_over_reals :
  forall cast imp (H : hyper (W := R) (X := R)) xs ys ws ncls,
  (0 < h_eps H)%R -> h_two H = 2%R ->
  (forall y, In y ys -> (y < ncls)%nat) -> length ys = length xs -> length ws = length xs ->
  forall nfeat t path d f thr dec l r,
  fit R_ops R_ops cast imp H xs ys ws ncls nfeat = Some t ->
  subtree_at t path = Some (Node d f thr dec l r) ->
  let W := rows_weight (length xs) ws in
  let m := mask_at R_ops xs (full_mask xs) t path in
  let ml := mask_at R_ops xs (full_mask xs) t (path ++ [true]) in
  let mr := mask_at R_ops xs (full_mask xs) t (path ++ [false]) in
  (h_mwl H <= W ml)%R /\ (h_mwl H <= W mr)%R /\ W m = (W ml + W mr)%R.
Proof. exact fit_children_weights_R. Qed.
