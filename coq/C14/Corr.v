(** C14 - correspondence (bit-exact model vs DecisionTree::fit / predict / feature_importance /
    iter_nodes) and the property oracle (exact checker [chk_tree]) on the implementation's output. *)
From Coq Require Import List NArith ZArith QArith Bool Arith Floats SpecFloat FMapPositive.
From LinfaVerif Require Export Common.Num Common.QF Common.B32 Common.Run C14.Model.
Import ListNotations.
Local Close Scope Q_scope.
Local Open Scope nat_scope.

Record case := {
  c_id : N;
  c_X : list (list float);          (* records (f64) *)
  c_y : list N;                     (* class of every row = rank of its label in the Ord of the label type *)
  c_w : list float;                 (* weight_for(i): f32 values, widened exactly *)
  c_ncls : N;
  c_nfeat : N;
  c_entropy : bool;                 (* split_quality: false = Gini, true = Entropy *)
  c_maxdepth : option N;
  c_mws : float; c_mwl : float;     (* f32 values, widened *)
  c_mid : float;                    (* min_impurity_decrease (f64) *)
  c_eps : float;                    (* F::cast(1e-5) as computed by Rust *)
  c_f32 : bool;                     (* F = f32: records, thresholds, decreases and importances are f32 values *)
  c_le : bool;                      (* which prediction / threshold rule the tree under test is expected to
                                       implement: true = `<=` (code as it stands, commit 472304f),
                                       false = `<` (before that commit) *)
  c_model : bool;                   (* run the model of fit and compare the trees bit for bit *)
  c_log2 : list (Z * Z);            (* entropy: (bits of p, bits of `p.log2()` as returned by the Rust run time)
                                       for every argument the f32 model passes to log2 *)
  (* implementation outputs *)
  c_tree : tree float;              (* root_node() walked through children()/split()/prediction()/depth() *)
  c_dangling : N;                   (* number of children hanging under nodes flagged as leaves *)
  c_iter : list (N * bool);         (* iter_nodes(): (depth, is_leaf) *)
  c_maxd : N; c_nleaves : N;        (* max_depth(), num_leaves() *)
  c_mean : list float;              (* mean_impurity_decrease() *)
  c_importance : list float;        (* feature_importance() *)
  c_query : list (list float);      (* extra query rows *)
  c_pred : list N                   (* predict(): the training rows first, then the queries *)
}.

Definition o32 := B32_ops.
Definition o64 := B64_ops.
Definition to32 (x : float) : spec_float := b32_of_b64 (Prim2SF x).

Fixpoint tree_eqb (a b : tree float) : bool :=
  match a, b with
  | Leaf d p, Leaf d' p' => Nat.eqb d d' && Nat.eqb p p'
  | Node d f t e l r, Node d' f' t' e' l' r' =>
      Nat.eqb d d' && Nat.eqb f f' && f64_biteq t t' && f64_biteq e e' && tree_eqb l l' && tree_eqb r r'
  | _, _ => false
  end.

Definition two64 : float := 2%float.

Definition hyper_of (c : case) : hyper (W := spec_float) (X := float) :=
  {| h_maxdepth := option_map N.to_nat (c_maxdepth c);
     h_mws := to32 (c_mws c); h_mwl := to32 (c_mwl c);
     h_mid := c_mid c; h_eps := c_eps c; h_two := two64; h_le := c_le c |}.

(** ** f32::log2 as an oracle table

    `f32::log2` is a libm call, not an IEEE operation.  The harness passes the values the Rust run
    time returned, as bit patterns; every entry is checked against a verified enclosure of
    ln p / ln 2 ([log2_entry_ok]: within 2^-23 |value|, i.e. at most two units in the last place,
    and exactly 0 at p = 1).  An argument missing from the table yields +infinity, which makes the
    entropy -infinity, the candidate the best one and the reported decrease infinite or NaN: the
    trees then differ (corr bit 1) unless the poisoned node is pruned away. *)
Definition b32_key (x : spec_float) : positive :=
  match x with
  | S754_finite s m e => (m * 4096 + Z.to_pos (e + 1024) * 2 + (if s then 1 else 2))%positive
  | _ => 1%positive
  end.
Definition log2_map (c_tab : list (Z * Z)) : PositiveMap.t spec_float :=
  fold_left (fun m e => PositiveMap.add (b32_key (b32_of_bits (fst e))) (b32_of_bits (snd e)) m)
            c_tab (PositiveMap.empty _).
Definition log2_tab (m : PositiveMap.t spec_float) (p : spec_float) : spec_float :=
  match PositiveMap.find (b32_key p) m with Some v => v | None => S754_infinity false end.

Definition log2_entry_ok (e : Z * Z) : bool :=
  let p := b32_of_bits (fst e) in
  let v := b32_of_bits (snd e) in
  match p with
  | S754_finite false _ _ =>
      sf_finite v &&
      (let pq := SF2Qd p in
       let vq := SF2Qd v in
       let tol := (Qabs' vq * (1 # 8388608))%Q in
       let d := ESub (EQ vq) (EDiv (ELn (EQ pq)) (ELn (EQ 2))) in
       nonneg (ESub (EQ tol) d) && nonneg (EAdd (EQ tol) d))
  | _ => false
  end.

Definition imp32 (c : case) : freq_tab (W := spec_float) -> spec_float :=
  if c_entropy c then entropy o32 (log2_tab (log2_map (c_log2 c))) else gini o32.

Definition model_fit (c : case) : option (tree float) :=
  if c_f32 c then
    option_map (tmap SF2Prim)
      (fit o32 o32 (fun x => x) (imp32 c)
           {| h_maxdepth := option_map N.to_nat (c_maxdepth c);
              h_mws := to32 (c_mws c); h_mwl := to32 (c_mwl c);
              h_mid := to32 (c_mid c); h_eps := to32 (c_eps c); h_two := to32 two64; h_le := c_le c |}
           (map (map to32) (c_X c)) (map N.to_nat (c_y c)) (map to32 (c_w c))
           (N.to_nat (c_ncls c)) (N.to_nat (c_nfeat c)))
  else
    fit o32 o64 SF2Prim (imp32 c) (hyper_of c) (c_X c) (map N.to_nat (c_y c)) (map to32 (c_w c))
        (N.to_nat (c_ncls c)) (N.to_nat (c_nfeat c)).

(* importances are computed in F *)
Definition model_mean (c : case) : list float :=
  let nf := N.to_nat (c_nfeat c) in
  if c_f32 c then map SF2Prim (mean_impurity_decrease o32 nf (tmap to32 (c_tree c)))
  else mean_impurity_decrease o64 nf (c_tree c).
Definition model_importance (c : case) : list float :=
  let nf := N.to_nat (c_nfeat c) in
  if c_f32 c then map SF2Prim (relative_impurity_decrease o32 nf (tmap to32 (c_tree c)))
  else relative_impurity_decrease o64 nf (c_tree c).

Definition n_eqb (a : nat) (b : N) : bool := N.eqb (N.of_nat a) b.

(* ---- correspondence ---- *)
Definition corr_code (c : case) : N :=
  let t := c_tree c in
  let nf := N.to_nat (c_nfeat c) in
  N.lor (if c_model c then
           match model_fit c with
           | Some m => flag (tree_eqb m t) 1
           | None => 1%N
           end
         else 0%N)
 (N.lor (flag (list_eqb N.eqb (map (fun x => N.of_nat (predict o64 (c_le c) t x)) (c_X c ++ c_query c)) (c_pred c)) 2)
 (N.lor (flag (list_eqb f64_biteq (model_mean c) (c_mean c)
               && list_eqb f64_biteq (model_importance c) (c_importance c)) 4)
 (N.lor (flag (negb (N.eqb (c_dangling c) 0)
               || list_eqb (fun a b => N.eqb (fst a) (fst b) && Bool.eqb (snd a) (snd b))
                        (map (fun nd => (N.of_nat (tdepth nd), is_leaf nd)) (iter_nodes t)) (c_iter c)
               && n_eqb (max_depth_of t) (c_maxd c) && n_eqb (num_leaves t) (c_nleaves c)) 8)
        (flag (forallb log2_entry_ok (c_log2 c)) 16)))).

(* ---- property oracle ---- *)
Definition tol_dec : Q := 1 # 262144.                 (* 2^-18 *)
Definition tol_imp : Q := 1 # 1099511627776.          (* 2^-40: importances computed in f64 *)
Definition tol_imp32 : Q := 1 # 1048576.             (* 2^-20: importances computed in f32 *)

Fixpoint zip3 {A B C} (a : list A) (b : list B) (c : list C) : list (A * B * C) :=
  match a, b, c with
  | x :: a', y :: b', z :: c' => (x, y, z) :: zip3 a' b' c'
  | _, _, _ => []
  end.

Definition samples_of (c : case) : list qsample :=
  map (fun t => let '(x, y, w) := t in {| qs_x := map f64_Q x; qs_y := N.to_nat y; qs_w := f64_Q w |})
      (zip3 (c_X c) (c_y c) (c_w c)).

(** ** Rounding allowance for the f32 weight sums

    The checker works with the exact rational sample weights; the code compares f32 running sums
    (class tables filled in row order, `weight_on_right_side -= w`, `weight_on_left_side += w`).
    When all weights are integer multiples of one power of two 2^e (e >= -126: no subnormals) and
    their sum is at most 2^24 * 2^e, every partial sum the code forms (sums and differences of
    subsets, all between 0 and the total) is an integer number of units 2^e not above 2^24, hence
    exact in binary32, and nothing is allowed ([exact_sums]; unit weights, the dyadic streams and
    all their power-of-two rescalings fall here, whatever the scale).  Otherwise each running sum
    of at most n operations is within n * 2^-24 (1 + o(1)) of the exact sum, relative to the weight
    of the node it belongs to: the stated allowance is n * 2^-23 of the node's weight for
    min_weight_leaf and for the leaf majority, and [dec_slack_factor] * n * 2^-23 on top of 2^-18
    for the reported impurity decrease (calibrated: the harness reports the worst observed error in
    these units, `worst_decrease_error_beyond_2p-18_in_permille_of_n_2p-23`).  The allowance is
    RELATIVE to the node's weight: it does not grow when all weights are tiny. *)
Fixpoint pos_v2 (p : positive) : Z :=
  match p with xO p' => (1 + pos_v2 p')%Z | _ => 0%Z end.
(** 2-adic valuation of a positive finite float ([None]: zero, negative or non-finite) *)
Definition w_val2 (w : float) : option Z :=
  match Prim2SF w with
  | S754_finite false m e => Some (e + pos_v2 m)%Z
  | _ => None
  end.
Definition w_nonneg_finite (w : float) : bool :=
  match Prim2SF w with
  | S754_zero _ | S754_finite false _ _ => true
  | _ => false
  end.
Definition min_val2 (ws : list float) : option Z :=
  fold_left (fun acc w => match w_val2 w, acc with
                          | Some v, Some a => Some (Z.min v a)
                          | Some v, None => Some v
                          | None, _ => acc
                          end) ws None.
Definition exact_sums (c : case) : bool :=
  forallb w_nonneg_finite (c_w c) &&
  match min_val2 (c_w c) with
  | None => true                                            (* all weights zero *)
  | Some e => Z.leb (-126) e && Qleb (Qsum (map f64_Q (c_w c))) (16777216 * Qpow2 e)%Q
  end.
Definition wslack (c : case) : Q :=
  if exact_sums c then 0%Q else (inject_Z (Z.of_nat (length (c_X c))) / 8388608)%Q.
Definition dec_slack_factor : Q := 2%Q.

Definition qparams_of (c : case) : qparams :=
  {| qp_maxdepth := option_map N.to_nat (c_maxdepth c);
     qp_mws := f64_Q (c_mws c); qp_mwl := f64_Q (c_mwl c); qp_mid := f64_Q (c_mid c);
     qp_tol := (tol_dec + dec_slack_factor * wslack c)%Q; qp_ncls := N.to_nat (c_ncls c); qp_le := c_le c;
     qp_wslack := wslack c; qp_nfeat := N.to_nat (c_nfeat c) |}.

Fixpoint tree_finite (t : tree float) : bool :=
  match t with
  | Leaf _ _ => true
  | Node _ _ thr dec l r => f64_finite thr && f64_finite dec && tree_finite l && tree_finite r
  end.

Definition inputs_finite (c : case) : bool :=
  forallb (forallb f64_finite) (c_X c) && forallb f64_finite (c_w c)
  && f64_finite (c_mws c) && f64_finite (c_mwl c) && f64_finite (c_mid c).

Definition oracle_code (c : case) : N :=
  let t := c_tree c in
  let has_split := negb (is_leaf t) in
  N.lor (flag (inputs_finite c && Nat.eqb (length (c_X c)) (length (c_y c))
               && Nat.eqb (length (c_X c)) (length (c_w c))) 16384)
 (N.lor (flag (tree_finite t) 32)
 (N.lor (chk_tree (qparams_of c) (if c_entropy c then CEntropy else CGini)
                  (if c_f32 c then tol_imp32 else tol_imp) (samples_of c) (tmap f64_Q t)
                  (map f64_Q (c_importance c)))
 (N.lor (flag (negb has_split || forallb f64_finite (c_importance c)) 256)
 (N.lor (flag (forallb (fun p => existsb (N.eqb p) (c_y c)) (c_pred c)) 2048)
 (N.lor (flag (N.eqb (c_dangling c) 0) 4096)
        (* what the implementation predicts for a training row is the prediction of the leaf the row
           was routed to while fitting (masks are split with `<=`) *)
        (flag (list_eqb N.eqb (map (fun x => N.of_nat (predict o64 true t x)) (c_X c))
                        (firstn (length (c_X c)) (c_pred c))) 16)))))).

Definition run_case (c : case) : verdict := (c_id c, (corr_code c, oracle_code c)).
Definition run_cases (cs : list case) : list N := report (map run_case cs).
