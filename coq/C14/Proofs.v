(** C14 - lemmas: soundness of the exact checker, consequences of the tree specification,
    pruning, partition of feature space, importances. *)
From Coq Require Import List NArith ZArith QArith Qreals Reals Bool Arith Lia Lra.
From Interval Require Import Specific_bigint Specific_ops Float_full Xreal Interval.
From LinfaVerif Require Import Common.Num Common.QF Common.Run C14.Model.
Import ListNotations.
Local Close Scope Q_scope.
Local Open Scope nat_scope.

(* ------------------------------------------------------------------------------------------ *)
(** * Pruning *)
Section Prune.
Context {X : Type} (ox : NumOps X).

Lemma prune_some_leaf (t : tree X) p : snd (prune t) = Some p -> exists d, fst (prune t) = Leaf d p.
Proof.
  induction t as [d q|d f thr dec l IHl r IHr]; simpl.
  - intros H; inversion H; subst; eexists; reflexivity.
  - destruct (prune l) as [l' pl]; destruct (prune r) as [r' pr]; simpl in *.
    destruct pl as [x|]; destruct pr as [y|]; simpl; try discriminate.
    destruct (Nat.eqb x y); simpl; try discriminate.
    intros H; inversion H; subst; eexists; reflexivity.
Qed.

Lemma prune_leaf_some (t : tree X) d p : fst (prune t) = Leaf d p -> snd (prune t) = Some p.
Proof.
  destruct t as [d' q|d' f thr dec l r]; simpl.
  - intros H; inversion H; subst; reflexivity.
  - destruct (prune l) as [l' pl]; destruct (prune r) as [r' pr]; simpl.
    destruct pl as [x|]; destruct pr as [y|]; simpl; try discriminate.
    destruct (Nat.eqb x y); simpl; try discriminate.
    intros H; inversion H; subst; reflexivity.
Qed.

Lemma prune_predict le (t : tree X) x : predict ox le (fst (prune t)) x = predict ox le t x.
Proof.
  induction t as [d q|d f thr dec l IHl r IHr]; simpl; auto.
  pose proof (prune_some_leaf l) as Hl. pose proof (prune_some_leaf r) as Hr.
  destruct (prune l) as [l' pl]; destruct (prune r) as [r' pr]; simpl in *.
  destruct pl as [a|]; destruct pr as [b|]; simpl; try (rewrite IHl, IHr; reflexivity).
  destruct (Nat.eqb a b) eqn:E; simpl; try (rewrite IHl, IHr; reflexivity).
  apply Nat.eqb_eq in E; subst b.
  destruct (Hl a eq_refl) as [d1 H1]. destruct (Hr a eq_refl) as [d2 H2]. subst l' r'.
  simpl in IHl, IHr. rewrite <- IHl, <- IHr. destruct (goes_left ox le _ thr); reflexivity.
Qed.

Lemma prune_pruned (t : tree X) : pruned (fst (prune t)) = true.
Proof.
  induction t as [d q|d f thr dec l IHl r IHr]; simpl; auto.
  pose proof (prune_leaf_some l) as Hl. pose proof (prune_leaf_some r) as Hr.
  destruct (prune l) as [l' pl]; destruct (prune r) as [r' pr]; simpl in *.
  assert (G : forall (ne : match pl, pr with Some a, Some b => a <> b | _, _ => True end),
            pruned (Node d f thr dec l' r') = true).
  { intros ne. simpl. rewrite IHl, IHr, !andb_true_r.
    destruct l' as [d1 p1|]; auto. destruct r' as [d2 p2|]; auto.
    rewrite (Hl d1 p1 eq_refl), (Hr d2 p2 eq_refl) in ne.
    apply negb_true_iff. apply Nat.eqb_neq. exact ne. }
  destruct pl as [a|]; destruct pr as [b|]; try (apply G; exact I).
  destruct (Nat.eqb a b) eqn:E; simpl; auto.
  apply G. apply Nat.eqb_neq; exact E.
Qed.
End Prune.

(* ------------------------------------------------------------------------------------------ *)
(** * The leaves partition feature space (any tree, any arithmetic) *)
Section Partition.
Context {X : Type} (ox : NumOps X).

(** [in_region le t path x]: x satisfies every threshold constraint on the way to the leaf [path] *)
Fixpoint in_region (le : bool) (t : tree X) (path : list bool) (x : list X) : Prop :=
  match t, path with
  | Leaf _ _, [] => True
  | Node _ f thr _ l r, b :: p =>
      goes_left ox le (nth f x (zero ox)) thr = b /\ in_region le (if b then l else r) p x
  | _, _ => False
  end.

Fixpoint leaf_at (t : tree X) (path : list bool) : option nat :=
  match t, path with
  | Leaf _ p, [] => Some p
  | Node _ _ _ _ l r, b :: p => leaf_at (if b then l else r) p
  | _, _ => None
  end.

Lemma route_in_region le t x : in_region le t (route ox le t x) x.
Proof.
  induction t as [d q|d f thr dec l IHl r IHr]; cbn [route in_region]; auto.
  destruct (goes_left ox le (nth f x (zero ox)) thr) eqn:E; cbn [in_region]; auto.
Qed.

Lemma region_unique le t x : forall path, in_region le t path x -> path = route ox le t x.
Proof.
  induction t as [d q|d f thr dec l IHl r IHr]; intros [|b p]; cbn [route in_region]; try tauto.
  intros [H1 H2]. rewrite H1. destruct b; f_equal; auto.
Qed.

Lemma leaf_at_route le t x : leaf_at t (route ox le t x) = Some (predict ox le t x).
Proof.
  induction t as [d q|d f thr dec l IHl r IHr]; cbn [route predict leaf_at]; auto.
  destruct (goes_left ox le (nth f x (zero ox)) thr); cbn [leaf_at]; auto.
Qed.
End Partition.

(* ------------------------------------------------------------------------------------------ *)
(** * Specification over the reals *)
Local Open Scope R_scope.

Record rsample := { rs_x : list R; rs_y : nat; rs_w : R }.
Record rparams := {
  rp_maxdepth : option nat;
  rp_mws : R; rp_mwl : R; rp_mid : R; rp_tol : R;
  rp_ncls : nat;
  rp_le : bool;
  rp_wslack : R;          (* allowance for the rounding of the f32 weight sums, relative to the node's weight *)
  rp_nfeat : nat
}.

Definition rfeat (s : rsample) (f : nat) : R := nth f (rs_x s) 0.
Definition rweight (smp : list rsample) : R := Rsum (map rs_w smp).
Definition rwfreq (smp : list rsample) (c : nat) : R :=
  rweight (filter (fun s => Nat.eqb (rs_y s) c) smp).
Definition rfreqs (k : nat) (smp : list rsample) : list R := map (rwfreq smp) (seq 0 k).
Definition rgini (fr : list R) : R :=
  1 - Rsum (map (fun x => (x / Rsum fr) * (x / Rsum fr)) fr).
Definition rleft (le : bool) (f : nat) (thr : R) (smp : list rsample) : list rsample :=
  filter (fun s => goes_left R_ops le (rfeat s f) thr) smp.
Definition rright (le : bool) (f : nat) (thr : R) (smp : list rsample) : list rsample :=
  filter (fun s => negb (goes_left R_ops le (rfeat s f) thr)) smp.
(** decrease of the criterion [imp] when [smp] is split into [SL] and [SR] *)
Definition rdecrease (imp : list R -> R) (k : nat) (smp SL SR : list rsample) : R :=
  imp (rfreqs k smp)
  - ((rweight SR / rweight smp) * imp (rfreqs k SR)
     + (1 - rweight SR / rweight smp) * imp (rfreqs k SL)).

(** What a fitted (sub)tree [t], reached by the training samples [smp] at depth [depth], has to
    satisfy. [imp = Some g]: the reported decrease is within [rp_tol] of the decrease of [g].
    The weight statements are about EXACT weights, up to [rp_wslack P] times the weight of the node
    (0 for unit / dyadic sample weights, whose f32 sums are exact). *)
Fixpoint node_spec (P : rparams) (imp : option (list R -> R)) (smp : list rsample) (depth : nat)
         (t : tree R) : Prop :=
  match t with
  | Leaf d p =>
      d = depth /\ depth_ok (rp_maxdepth P) depth = true /\
      (exists s, In s smp /\ rs_y s = p) /\
      (forall c, (c < rp_ncls P)%nat -> rwfreq smp c <= rwfreq smp p + rp_wslack P * rweight smp)
  | Node d f thr dec l r =>
      let SL := rleft (rp_le P) f thr smp in
      let SR := rright (rp_le P) f thr smp in
      d = depth /\ depth_ok (rp_maxdepth P) depth = true /\
      rp_mws P <= INR (length smp) /\
      (f < rp_nfeat P)%nat /\
      (rp_mwl P <= rweight SL + rp_wslack P * rweight smp /\
       rp_mwl P <= rweight SR + rp_wslack P * rweight smp /\ 0 < rweight SL /\ 0 < rweight SR) /\
      (forall s, In s smp ->
         goes_left R_ops (rp_le P) (rfeat s f) thr = goes_left R_ops true (rfeat s f) thr) /\
      match imp with
      | Some g => Rabs (dec - rdecrease g (rp_ncls P) smp SL SR) <= rp_tol P
      | None => True
      end /\
      rp_mid P <= dec /\
      node_spec P imp SL (S depth) l /\ node_spec P imp SR (S depth) r
  end.

(* ---- Q -> R transport ---- *)
Definition sampleR (s : qsample) : rsample :=
  {| rs_x := map Q2R (qs_x s); rs_y := qs_y s; rs_w := Q2R (qs_w s) |}.
Definition paramsR (P : qparams) : rparams :=
  {| rp_maxdepth := qp_maxdepth P; rp_mws := Q2R (qp_mws P); rp_mwl := Q2R (qp_mwl P);
     rp_mid := Q2R (qp_mid P); rp_tol := Q2R (qp_tol P); rp_ncls := qp_ncls P; rp_le := qp_le P;
     rp_wslack := Q2R (qp_wslack P); rp_nfeat := qp_nfeat P |}.

Lemma Q2R_0' : Q2R 0 = 0. Proof. apply RMicromega.Q2R_0. Qed.
Lemma Q2R_1' : Q2R 1 = 1. Proof. apply RMicromega.Q2R_1. Qed.

Lemma Rleb_Q a b : Rleb (Q2R a) (Q2R b) = Qleb a b.
Proof.
  unfold Rleb, Qleb. destruct (Rle_dec (Q2R a) (Q2R b)) as [H|H]; destruct (Qle_bool a b) eqn:E; auto.
  - apply Rle_Qle in H. apply Qle_bool_iff in H. congruence.
  - apply Qle_bool_iff in E. apply Qle_Rle in E. contradiction.
Qed.
Lemma Rltb_Q a b : Rltb (Q2R a) (Q2R b) = Qltb a b.
Proof.
  unfold Rltb, Qltb. destruct (Rlt_dec (Q2R a) (Q2R b)) as [H|H]; destruct (Qle_bool b a) eqn:E; auto.
  - apply Qle_bool_iff in E. apply Qle_Rle in E. lra.
  - exfalso. apply H. apply Qlt_Rlt. apply Qnot_le_lt. intro C. apply Qle_bool_iff in C. congruence.
Qed.
Lemma goes_left_Q le a b : goes_left R_ops le (Q2R a) (Q2R b) = qgoes_left le a b.
Proof. destruct le; simpl; [apply Rleb_Q | apply Rltb_Q]. Qed.

Lemma rfeat_Q s f : rfeat (sampleR s) f = Q2R (qfeat s f).
Proof. unfold rfeat, qfeat; simpl. rewrite <- Q2R_0'. apply map_nth. Qed.

Lemma filter_map_comm {A B} (g : A -> B) (p : B -> bool) (q : A -> bool) l :
  (forall a, p (g a) = q a) -> filter p (map g l) = map g (filter q l).
Proof.
  intros H; induction l as [|a l IH]; simpl; auto. rewrite H. destruct (q a); simpl; congruence.
Qed.

Lemma rleft_Q le f thr smp : rleft le f (Q2R thr) (map sampleR smp) = map sampleR (qleft le f thr smp).
Proof. apply filter_map_comm. intros s. rewrite rfeat_Q. apply goes_left_Q. Qed.
Lemma rright_Q le f thr smp : rright le f (Q2R thr) (map sampleR smp) = map sampleR (qright le f thr smp).
Proof. apply filter_map_comm. intros s. rewrite rfeat_Q, goes_left_Q. reflexivity. Qed.

Lemma rweight_Q smp : rweight (map sampleR smp) = Q2R (qweight smp).
Proof. unfold rweight, qweight. rewrite Q2R_sum, !map_map. reflexivity. Qed.
Lemma rwfreq_Q smp c : rwfreq (map sampleR smp) c = Q2R (qwfreq smp c).
Proof.
  unfold rwfreq, qwfreq. rewrite (filter_map_comm sampleR _ (fun s => Nat.eqb (qs_y s) c)); auto.
  apply rweight_Q.
Qed.
Lemma rfreqs_Q k smp : rfreqs k (map sampleR smp) = map Q2R (qfreqs k smp).
Proof. unfold rfreqs, qfreqs. rewrite map_map. apply map_ext. intros c. apply rwfreq_Q. Qed.

Lemma Qltb_0_neq q : Qltb 0 q = true -> ~ (q == 0)%Q.
Proof. intros H E. apply Qltb_R in H. rewrite Q2R_0' in H. apply Qeq_eqR in E. rewrite Q2R_0' in E. lra. Qed.

Lemma rgini_Q fr : ~ (Qsum fr == 0)%Q -> rgini (map Q2R fr) = Q2R (qgini fr).
Proof.
  intros H. unfold rgini, qgini. rewrite Q2R_minus, Q2R_1', Q2R_sum, map_map, map_map. f_equal. f_equal.
  apply map_ext. intros x. rewrite Q2R_mult, Q2R_div by exact H. rewrite Q2R_sum. reflexivity.
Qed.

Lemma rdecrease_Q k smp SL SR :
  ~ (qweight smp == 0)%Q -> ~ (Qsum (qfreqs k smp) == 0)%Q ->
  ~ (Qsum (qfreqs k SL) == 0)%Q -> ~ (Qsum (qfreqs k SR) == 0)%Q ->
  rdecrease rgini k (map sampleR smp) (map sampleR SL) (map sampleR SR) = Q2R (qdecrease k smp SL SR).
Proof.
  intros H0 H1 H2 H3. unfold rdecrease, qdecrease.
  rewrite !rfreqs_Q, !rgini_Q, !rweight_Q by assumption.
  rewrite Q2R_minus, Q2R_plus, !Q2R_mult, Q2R_minus, Q2R_div, Q2R_1' by assumption. reflexivity.
Qed.

Lemma Q2R_inject_nat n : Q2R (inject_Z (Z.of_nat n)) = INR n.
Proof. unfold Q2R; simpl. rewrite INR_IZR_INZ. field. Qed.

Lemma flag_0 b c : c <> 0%N -> flag b c = 0%N -> b = true.
Proof. destruct b; auto. Qed.

Lemma lor_0 a b : N.lor a b = 0%N -> a = 0%N /\ b = 0%N.
Proof. apply N.lor_eq_0_iff. Qed.

Lemma qleb_R a b : Qleb a b = true -> Q2R a <= Q2R b. Proof. apply Qleb_R. Qed.

(* ---- entropy through verified interval arithmetic ---- *)
Fixpoint evalX (e : ex) : ExtendedR :=
  match e with
  | EQ q => Xdiv (Xreal (IZR (Qnum q))) (Xreal (IZR (Zpos (Qden q))))
  | ENeg a => Xneg (evalX a)
  | EAdd a b => Xadd (evalX a) (evalX b)
  | ESub a b => Xsub (evalX a) (evalX b)
  | EMul a b => Xmul (evalX a) (evalX b)
  | EDiv a b => Xdiv (evalX a) (evalX b)
  | ELn a => Xln (evalX a)
  end.

(** the real value of an expression *)
Fixpoint evalR (e : ex) : R :=
  match e with
  | EQ q => Q2R q
  | ENeg a => - evalR a
  | EAdd a b => evalR a + evalR b
  | ESub a b => evalR a - evalR b
  | EMul a b => evalR a * evalR b
  | EDiv a b => evalR a / evalR b
  | ELn a => ln (evalR a)
  end.

Lemma evalI_correct e : contains (II.convert (evalI e)) (evalX e).
Proof.
  induction e as [q|a IHa|a IHa b IHb|a IHa b IHb|a IHa b IHb|a IHa b IHb|a IHa]; cbn [evalI evalX].
  - apply II.div_correct; apply II.fromZ_correct.
  - apply II.neg_correct; exact IHa.
  - apply II.add_correct; assumption.
  - apply II.sub_correct; assumption.
  - apply II.mul_correct; assumption.
  - apply II.div_correct; assumption.
  - apply II.ln_correct; exact IHa.
Qed.

Lemma evalX_real : forall e r, evalX e = Xreal r -> r = evalR e.
Proof.
  induction e as [q|a IHa|a IHa b IHb|a IHa b IHb|a IHa b IHb|a IHa b IHb|a IHa]; intros r E; cbn [evalX evalR] in *.
  - unfold Xbind2, Xdiv' in E. destruct (is_zero (IZR (Z.pos (Qden q)))); [discriminate|].
    inversion E. unfold Q2R, Rdiv. reflexivity.
  - destruct (evalX a) as [|ra]; simpl in E; [discriminate|]. inversion E. rewrite (IHa ra eq_refl). reflexivity.
  - destruct (evalX a) as [|ra]; destruct (evalX b) as [|rb]; simpl in E; try discriminate.
    inversion E. rewrite (IHa ra eq_refl), (IHb rb eq_refl). reflexivity.
  - destruct (evalX a) as [|ra]; destruct (evalX b) as [|rb]; simpl in E; try discriminate.
    inversion E. rewrite (IHa ra eq_refl), (IHb rb eq_refl). reflexivity.
  - destruct (evalX a) as [|ra]; destruct (evalX b) as [|rb]; simpl in E; try discriminate.
    inversion E. rewrite (IHa ra eq_refl), (IHb rb eq_refl). reflexivity.
  - destruct (evalX a) as [|ra]; destruct (evalX b) as [|rb]; simpl in E; try discriminate.
    unfold Xdiv' in E. destruct (is_zero rb); [discriminate|].
    inversion E. rewrite (IHa ra eq_refl), (IHb rb eq_refl). reflexivity.
  - destruct (evalX a) as [|ra]; simpl in E; [discriminate|].
    unfold Xln' in E. destruct (is_positive ra); [|discriminate].
    inversion E. rewrite (IHa ra eq_refl). reflexivity.
Qed.

Lemma nonneg_sound e : nonneg e = true -> 0 <= evalR e.
Proof.
  unfold nonneg. pose proof (II.sign_large_correct (evalI e)) as S. pose proof (evalI_correct e) as C.
  destruct (II.sign_large (evalI e)); try discriminate; intros _.
  - specialize (S _ C). apply evalX_real in S. lra.
  - destruct (S _ C) as [E1 E2]. apply evalX_real in E1. lra.
Qed.

(** entropy of a class-frequency table over the reals: sum of -p log2 p over the p = x / n > 0 *)
Definition rentropy (fr : list R) : R :=
  Rsum (map (fun x => let p := x / Rsum fr in if Rltb 0 p then - p * (ln p / ln 2) else 0) fr).

Lemma Q2R_2 : Q2R 2 = 2. Proof. unfold Q2R; simpl. lra. Qed.

Lemma evalR_ent_term p : evalR (ent_term p) = if Rltb 0 (Q2R p) then - Q2R p * (ln (Q2R p) / ln 2) else 0.
Proof.
  unfold ent_term. rewrite <- Q2R_0' at 1. rewrite Rltb_Q. destruct (Qltb 0 p); cbn [evalR].
  - rewrite Q2R_2. reflexivity.
  - apply Q2R_0'.
Qed.

Lemma evalR_ent fr : ~ (Qsum fr == 0)%Q -> evalR (ent_expr fr) = rentropy (map Q2R fr).
Proof.
  unfold ent_expr, rentropy. rewrite <- Q2R_sum. generalize (Qsum fr). intros n Hn.
  induction fr as [|x fr IH]; cbn [fold_right map Rsum evalR]; [apply Q2R_0'|].
  rewrite IH, evalR_ent_term, Q2R_div by exact Hn. reflexivity.
Qed.

Lemma evalR_entropy_decrease k smp SL SR :
  ~ (qweight smp == 0)%Q -> ~ (Qsum (qfreqs k smp) == 0)%Q ->
  ~ (Qsum (qfreqs k SL) == 0)%Q -> ~ (Qsum (qfreqs k SR) == 0)%Q ->
  evalR (qentropy_decrease k smp SL SR)
  = rdecrease rentropy k (map sampleR smp) (map sampleR SL) (map sampleR SR).
Proof.
  intros H0 H1 H2 H3. unfold qentropy_decrease, rdecrease. cbn [evalR].
  rewrite !evalR_ent by assumption. rewrite !rfreqs_Q, !rweight_Q.
  rewrite Q2R_minus, Q2R_div, Q2R_1' by assumption. reflexivity.
Qed.

Definition imp_of (cr : criterion) : option (list R -> R) :=
  match cr with CNone => None | CGini => Some rgini | CEntropy => Some rentropy end.

Lemma dec_check_sound cr tol k smp SL SR dec :
  dec_check cr tol k smp SL SR dec = true ->
  match imp_of cr with
  | Some g => Rabs (Q2R dec - rdecrease g k (map sampleR smp) (map sampleR SL) (map sampleR SR)) <= Q2R tol
  | None => True
  end.
Proof.
  destruct cr; cbn [dec_check imp_of]; intros H6; [exact I| |].
  - apply andb_true_iff in H6 as [H6 H6e]. apply andb_true_iff in H6 as [H6 H6d].
    apply andb_true_iff in H6 as [H6 H6c]. apply andb_true_iff in H6 as [H6a H6b].
    rewrite rdecrease_Q by (apply Qltb_0_neq; assumption).
    rewrite <- Q2R_minus, <- Qabs'_R. apply Qleb_R. exact H6e.
  - apply andb_true_iff in H6 as [H6 H6f]. apply andb_true_iff in H6 as [H6 H6e].
    apply andb_true_iff in H6 as [H6 H6d]. apply andb_true_iff in H6 as [H6 H6c].
    apply andb_true_iff in H6 as [H6a H6b].
    apply nonneg_sound in H6e. apply nonneg_sound in H6f. cbn [evalR] in H6e, H6f.
    rewrite evalR_entropy_decrease in H6e, H6f by (apply Qltb_0_neq; assumption).
    apply Rabs_le. lra.
Qed.

Lemma chk_node_sound P gc : forall t smp depth,
  chk_node P gc smp depth t = 0%N ->
  node_spec (paramsR P) (imp_of gc) (map sampleR smp) depth (tmap Q2R t).
Proof.
  induction t as [d p|d f thr dec l IHl r IHr]; intros smp depth H; cbn [chk_node] in H.
  - apply lor_0 in H as [H1 H]. apply lor_0 in H as [H2 H3].
    apply flag_0 in H1; [|discriminate]. apply flag_0 in H2; [|discriminate].
    apply flag_0 in H3; [|discriminate]. apply andb_true_iff in H3 as [H3 H4].
    simpl. repeat split.
    + apply Nat.eqb_eq; exact H1.
    + exact H2.
    + apply existsb_exists in H3 as [s [Hs Hy]]. exists (sampleR s). split.
      * apply in_map; exact Hs.
      * simpl. apply Nat.eqb_eq; exact Hy.
    + intros c Hc. rewrite !rwfreq_Q, rweight_Q, <- Q2R_mult, <- Q2R_plus. apply Qleb_R.
      rewrite forallb_forall in H4. apply H4. apply in_seq. simpl in Hc. lia.
  - apply lor_0 in H as [H1 H]. apply lor_0 in H as [H2 H]. apply lor_0 in H as [H3 H].
    apply lor_0 in H as [Hf H].
    apply lor_0 in H as [H4 H]. apply lor_0 in H as [H5 H]. apply lor_0 in H as [H6 H].
    apply lor_0 in H as [H7 H]. apply lor_0 in H as [H8 H9]. apply flag_0 in Hf; [|discriminate].
    apply flag_0 in H1; [|discriminate]. apply flag_0 in H2; [|discriminate].
    apply flag_0 in H3; [|discriminate]. apply flag_0 in H4; [|discriminate].
    apply flag_0 in H5; [|discriminate]. apply flag_0 in H6; [|discriminate].
    apply flag_0 in H7; [|discriminate].
    cbn [tmap node_spec]. cbv zeta. cbn [paramsR rp_le rp_maxdepth rp_mws rp_mwl rp_mid rp_tol rp_ncls rp_wslack rp_nfeat].
    rewrite rleft_Q, rright_Q.
    apply andb_true_iff in H4 as [H4 H4d]. apply andb_true_iff in H4 as [H4 H4c].
    apply andb_true_iff in H4 as [H4a H4b].
    split; [apply Nat.eqb_eq; exact H1|]. split; [exact H2|].
    split; [rewrite map_length, <- Q2R_inject_nat; apply Qleb_R; exact H3|].
    split; [apply Nat.ltb_lt; exact Hf|].
    split.
    { rewrite !rweight_Q, <- !Q2R_mult, <- !Q2R_plus. repeat split; try (apply Qleb_R; assumption).
      - rewrite <- Q2R_0'. apply Qltb_R; exact H4c.
      - rewrite <- Q2R_0'. apply Qltb_R; exact H4d. }
    split.
    { intros s Hs. apply in_map_iff in Hs as [s0 [Es Hs0]]. subst s.
      rewrite rfeat_Q, !goes_left_Q. rewrite forallb_forall in H5. specialize (H5 s0 Hs0).
      apply eqb_prop in H5. exact H5. }
    split.
    { apply dec_check_sound in H6. destruct (imp_of gc); [|exact I].
      exact H6. }
    split; [apply Qleb_R; exact H7|].
    split; [apply IHl; exact H8 | apply IHr; exact H9].
Qed.

(* ------------------------------------------------------------------------------------------ *)
(** * Consequences of the specification *)

Inductive subtree {X} : tree X -> tree X -> Prop :=
| sub_refl t : subtree t t
| sub_l s d f thr dec l r : subtree s l -> subtree s (Node d f thr dec l r)
| sub_r s d f thr dec l r : subtree s r -> subtree s (Node d f thr dec l r).

(** depths are consistent (root [depth], children one deeper) and within the limit *)
Fixpoint well_depthed {X} (md : option nat) (depth : nat) (t : tree X) : Prop :=
  tdepth t = depth /\ depth_ok md depth = true /\
  match t with
  | Leaf _ _ => True
  | Node _ _ _ _ l r => well_depthed md (S depth) l /\ well_depthed md (S depth) r
  end.

Lemma spec_well_depthed P imp : forall t smp depth,
  node_spec P imp smp depth t -> well_depthed (rp_maxdepth P) depth t.
Proof.
  induction t as [d p|d f thr dec l IHl r IHr]; intros smp depth H; simpl in H; simpl.
  - destruct H as (H1 & H2 & _). auto.
  - destruct H as (H1 & H2 & _ & _ & _ & _ & _ & _ & Hl & Hr). repeat split; eauto.
Qed.

Lemma well_depthed_sub {X} md : forall (s t : tree X), subtree s t -> forall depth,
  well_depthed md depth t -> (depth <= tdepth s)%nat /\ depth_ok md (tdepth s) = true.
Proof.
  induction 1 as [t|s d f thr dec l r Hs IH|s d f thr dec l r Hs IH]; intros depth H.
  - destruct t; simpl in H; destruct H as (H1 & H2 & _); simpl; rewrite H1; auto.
  - simpl in H. destruct H as (_ & _ & Hl & _). destruct (IH _ Hl). split; auto; lia.
  - simpl in H. destruct H as (_ & _ & _ & Hr). destruct (IH _ Hr). split; auto; lia.
Qed.

Lemma spec_depth_le P imp t smp s m :
  node_spec P imp smp 0 t -> rp_maxdepth P = Some m -> subtree s t -> (tdepth s <= m)%nat.
Proof.
  intros H Hm Hs. apply spec_well_depthed in H.
  destruct (well_depthed_sub _ _ _ Hs _ H) as [_ H2]. rewrite Hm in H2. simpl in H2.
  apply Nat.leb_le; exact H2.
Qed.

Lemma rleft_In le f thr smp s : In s (rleft le f thr smp) -> In s smp.
Proof. unfold rleft; intros H; apply filter_In in H; tauto. Qed.
Lemma rright_In le f thr smp s : In s (rright le f thr smp) -> In s smp.
Proof. unfold rright; intros H; apply filter_In in H; tauto. Qed.

(** whatever the query, the predicted label is the label of a training sample *)
Lemma spec_predict_label P imp : forall t smp depth,
  node_spec P imp smp depth t ->
  forall x, exists s, In s smp /\ rs_y s = predict R_ops (rp_le P) t x.
Proof.
  induction t as [d p|d f thr dec l IHl r IHr]; intros smp depth H x; simpl in H.
  - destruct H as (_ & _ & [s [H1 H2]] & _). exists s; auto.
  - destruct H as (_ & _ & _ & _ & _ & _ & _ & _ & Hl & Hr). cbn [predict].
    destruct (goes_left R_ops (rp_le P) (nth f x (zero R_ops)) thr).
    + destruct (IHl _ _ Hl x) as [s [H1 H2]]. exists s; split; auto. eapply rleft_In; eauto.
    + destruct (IHr _ _ Hr x) as [s [H1 H2]]. exists s; split; auto. eapply rright_In; eauto.
Qed.

(** the training samples that end in the same leaf as the query [x] *)
Fixpoint leaf_samples (le : bool) (t : tree R) (smp : list rsample) (x : list R) : list rsample :=
  match t with
  | Leaf _ _ => smp
  | Node _ f thr _ l r =>
      if goes_left R_ops le (nth f x 0) thr then leaf_samples le l (rleft le f thr smp) x
      else leaf_samples le r (rright le f thr smp) x
  end.

Lemma leaf_samples_char le : forall t smp x s,
  In s (leaf_samples le t smp x) <->
  In s smp /\ route R_ops le t (rs_x s) = route R_ops le t x.
Proof.
  induction t as [d p|d f thr dec l IHl r IHr]; intros smp x s; cbn [leaf_samples route].
  - tauto.
  - change (zero R_ops) with 0. fold (rfeat s f).
    destruct (goes_left R_ops le (nth f x 0) thr) eqn:Ex.
    + rewrite IHl. unfold rleft. rewrite filter_In.
      destruct (goes_left R_ops le (rfeat s f) thr) eqn:Es; split.
      * intros [[H1 _] H2]; split; auto; congruence.
      * intros [H1 H2]; inversion H2; auto.
      * intros [[_ H1] _]; discriminate.
      * intros [_ H2]; discriminate.
    + rewrite IHr. unfold rright. rewrite filter_In.
      destruct (goes_left R_ops le (rfeat s f) thr) eqn:Es; split.
      * intros [[_ H1] _]; discriminate.
      * intros [_ H2]; discriminate.
      * intros [[H1 _] H2]; split; auto; congruence.
      * intros [H1 H2]; inversion H2; auto.
Qed.

(** every training sample is routed at prediction time along the path it took while fitting, and
    the leaf it reaches predicts a most frequent (weighted) label of the training samples in it *)
Lemma spec_training P imp : forall t smp depth,
  node_spec P imp smp depth t ->
  forall s, In s smp ->
    route R_ops (rp_le P) t (rs_x s) = route_fit R_ops t (rs_x s) /\
    (exists s', In s' (leaf_samples (rp_le P) t smp (rs_x s)) /\
                rs_y s' = predict R_ops (rp_le P) t (rs_x s)) /\
    forall c, (c < rp_ncls P)%nat ->
      rwfreq (leaf_samples (rp_le P) t smp (rs_x s)) c
      <= rwfreq (leaf_samples (rp_le P) t smp (rs_x s)) (predict R_ops (rp_le P) t (rs_x s))
         + rp_wslack P * rweight (leaf_samples (rp_le P) t smp (rs_x s)).
Proof.
  induction t as [d p|d f thr dec l IHl r IHr]; intros smp depth H s Hs; cbn [node_spec] in H; cbv zeta in H.
  - destruct H as (_ & _ & He & Hm). cbn. auto.
  - destruct H as (_ & _ & _ & _ & _ & Hroute & _ & _ & Hl & Hr).
    unfold route_fit. cbn [route leaf_samples predict]. change (zero R_ops) with 0.
    fold (rfeat s f). rewrite <- (Hroute s Hs).
    destruct (goes_left R_ops (rp_le P) (rfeat s f) thr) eqn:E.
    + assert (Hin : In s (rleft (rp_le P) f thr smp)) by (apply filter_In; auto).
      destruct (IHl _ _ Hl s Hin) as (A & B & C). unfold route_fit in A. rewrite A. auto.
    + assert (Hin : In s (rright (rp_le P) f thr smp)) by (apply filter_In; rewrite E; auto).
      destruct (IHr _ _ Hr s Hin) as (A & B & C). unfold route_fit in A. rewrite A. auto.
Qed.

(* ---- pruning keeps the specification ---- *)
Lemma rsum_filter_split (q p : rsample -> bool) smp :
  Rsum (map rs_w (filter q smp))
  = Rsum (map rs_w (filter q (filter p smp))) + Rsum (map rs_w (filter q (filter (fun s => negb (p s)) smp))).
Proof.
  induction smp as [|a smp IH]; simpl; [lra|].
  destruct (p a) eqn:Ep; simpl; destruct (q a) eqn:Eq; simpl; lra.
Qed.

Lemma rwfreq_split le f thr smp c :
  rwfreq smp c = rwfreq (rleft le f thr smp) c + rwfreq (rright le f thr smp) c.
Proof. unfold rwfreq, rweight, rleft, rright. apply rsum_filter_split. Qed.

Lemma rsum_filter_compl (p : rsample -> bool) smp :
  Rsum (map rs_w smp)
  = Rsum (map rs_w (filter p smp)) + Rsum (map rs_w (filter (fun s => negb (p s)) smp)).
Proof.
  induction smp as [|a smp IH]; simpl; [lra|]. destruct (p a); simpl; lra.
Qed.

Lemma rweight_split le f thr smp : rweight smp = rweight (rleft le f thr smp) + rweight (rright le f thr smp).
Proof. unfold rweight, rleft, rright. apply rsum_filter_compl. Qed.

(** if both children predict [a] as a most frequent label of their samples (up to the share [sl] of
    their weight), [a] is a most frequent label of the parent's samples (up to the same share) *)
Lemma merge_modal le f thr smp a k sl :
  (forall c, (c < k)%nat -> rwfreq (rleft le f thr smp) c
                            <= rwfreq (rleft le f thr smp) a + sl * rweight (rleft le f thr smp)) ->
  (forall c, (c < k)%nat -> rwfreq (rright le f thr smp) c
                            <= rwfreq (rright le f thr smp) a + sl * rweight (rright le f thr smp)) ->
  forall c, (c < k)%nat -> rwfreq smp c <= rwfreq smp a + sl * rweight smp.
Proof.
  intros Hl Hr c Hc. rewrite (rwfreq_split le f thr smp c), (rwfreq_split le f thr smp a).
  rewrite (rweight_split le f thr smp).
  specialize (Hl c Hc). specialize (Hr c Hc). lra.
Qed.

Lemma prune_spec P imp : forall t smp depth,
  node_spec P imp smp depth t -> node_spec P imp smp depth (fst (prune t)).
Proof.
  induction t as [d p|d f thr dec l IHl r IHr]; intros smp depth H; [exact H|].
  simpl in H. destruct H as (H1 & H2 & H3 & Hf & H4 & H5 & H6 & H7 & Hl & Hr).
  specialize (IHl _ _ Hl). specialize (IHr _ _ Hr).
  pose proof (prune_some_leaf l) as Sl. pose proof (prune_some_leaf r) as Sr.
  cbn [prune]. destruct (prune l) as [l' pl]; destruct (prune r) as [r' pr]; cbn [fst snd] in *.
  assert (G : node_spec P imp smp depth (Node d f thr dec l' r')).
  { simpl. repeat split; auto; tauto. }
  destruct pl as [a|]; destruct pr as [b|]; try exact G.
  destruct (Nat.eqb a b) eqn:E; [|exact G]. apply Nat.eqb_eq in E; subst b.
  destruct (Sl a eq_refl) as [d1 E1]. destruct (Sr a eq_refl) as [d2 E2]. subst l' r'.
  simpl in IHl, IHr. destruct IHl as (_ & _ & [s [Hs Hy]] & Ml). destruct IHr as (_ & _ & _ & Mr).
  simpl. repeat split; auto.
  - exists s; split; auto. eapply rleft_In; eauto.
  - eapply merge_modal; eauto.
Qed.

(* ---- the specification holds at every node, for the samples routed to it ---- *)
Fixpoint subtree_at {X} (t : tree X) (path : list bool) {struct path} : option (tree X) :=
  match path with
  | [] => Some t
  | b :: p =>
      match t with
      | Leaf _ _ => None
      | Node _ _ _ _ l r => subtree_at (if b then l else r) p
      end
  end.

Fixpoint samples_at (le : bool) (t : tree R) (smp : list rsample) (path : list bool) {struct path}
  : list rsample :=
  match path with
  | [] => smp
  | b :: p =>
      match t with
      | Leaf _ _ => smp
      | Node _ f thr _ l r =>
          if b then samples_at le l (rleft le f thr smp) p else samples_at le r (rright le f thr smp) p
      end
  end.

Lemma spec_at_path P imp : forall path t smp depth t',
  node_spec P imp smp depth t -> subtree_at t path = Some t' ->
  node_spec P imp (samples_at (rp_le P) t smp path) (depth + length path) t'.
Proof.
  induction path as [|b p IH]; intros t smp depth t' H E.
  - cbn [subtree_at] in E. injection E as E; subst t'. cbn [samples_at length]. rewrite Nat.add_0_r. exact H.
  - destruct t as [d q|d f thr dec l r]; [discriminate|].
    cbn [subtree_at] in E. cbn [samples_at length]. rewrite Nat.add_succ_r, <- Nat.add_succ_l.
    cbn [node_spec] in H; cbv zeta in H. destruct H as (_ & _ & _ & _ & _ & _ & _ & _ & Hl & Hr).
    destruct b; eapply IH; eauto.
Qed.

(** every split node honours the limits, for the training samples routed to it *)
Lemma spec_split_limits P imp path t smp d f thr dec l r :
  node_spec P imp smp 0 t -> subtree_at t path = Some (Node d f thr dec l r) ->
  let S := samples_at (rp_le P) t smp path in
  let SL := rleft (rp_le P) f thr S in
  let SR := rright (rp_le P) f thr S in
  d = length path /\ (f < rp_nfeat P)%nat /\
  rp_mws P <= INR (length S) /\
  rp_mwl P <= rweight SL + rp_wslack P * rweight S /\ rp_mwl P <= rweight SR + rp_wslack P * rweight S /\
  rp_mid P <= dec /\
  match imp with
  | Some g => Rabs (dec - rdecrease g (rp_ncls P) S SL SR) <= rp_tol P
  | None => True
  end.
Proof.
  intros H E. pose proof (spec_at_path P imp path t smp 0 _ H E) as G.
  cbn [node_spec] in G; cbv zeta in G. simpl Nat.add in G.
  destruct G as (G1 & _ & G3 & Gf & (G4 & G5 & _) & _ & G6 & G7 & _). cbv zeta. repeat split; auto.
Qed.

(* ---- whole tree ---- *)
Definition tree_spec (P : rparams) (imp : option (list R -> R)) (itol : R) (smp : list rsample)
           (t : tree R) (imps : list R) : Prop :=
  ((forall s, In s smp -> (rs_y s < rp_ncls P)%nat /\ 0 <= rs_w s) /\ 0 <= rp_wslack P) /\
  node_spec P imp smp 0 t /\
  (is_leaf t = false -> (forall x, In x imps -> 0 <= x) /\ Rabs (Rsum imps - 1) <= itol) /\
  pruned t = true.

Lemma pruned_tmap {X Y} (g : X -> Y) (t : tree X) : pruned (tmap g t) = pruned t.
Proof.
  induction t as [d p|d f thr dec l IHl r IHr]; simpl; auto.
  rewrite IHl, IHr. destruct l, r; reflexivity.
Qed.
Lemma is_leaf_tmap {X Y} (g : X -> Y) (t : tree X) : is_leaf (tmap g t) = is_leaf t.
Proof. destruct t; reflexivity. Qed.

Lemma chk_tree_sound P gc itol smp t imps :
  chk_tree P gc itol smp t imps = 0%N ->
  tree_spec (paramsR P) (imp_of gc) (Q2R itol) (map sampleR smp) (tmap Q2R t) (map Q2R imps).
Proof.
  unfold chk_tree. intros H. apply lor_0 in H as [H1 H]. apply lor_0 in H as [H2 H].
  apply lor_0 in H as [H3 H4].
  apply flag_0 in H1; [|discriminate]. apply flag_0 in H3; [|discriminate]. apply flag_0 in H4; [|discriminate].
  apply andb_true_iff in H1 as [H1 H1s].
  split; [|split; [|split]].
  - split; [|simpl; rewrite <- Q2R_0'; apply Qleb_R; exact H1s].
    intros s Hs. apply in_map_iff in Hs as [s0 [E Hs]]; subst s. rewrite forallb_forall in H1.
    specialize (H1 _ Hs). apply andb_true_iff in H1 as [A B]. simpl. split.
    + apply Nat.ltb_lt; exact A.
    + rewrite <- Q2R_0'. apply Qleb_R; exact B.
  - apply chk_node_sound; exact H2.
  - intros Hl. rewrite is_leaf_tmap in Hl. unfold chk_importance in H3. rewrite Hl in H3. simpl in H3.
    apply andb_true_iff in H3 as [A B]. split.
    + intros x Hx. apply in_map_iff in Hx as [q [E Hq]]; subst x.
      rewrite forallb_forall in A. rewrite <- Q2R_0'. apply Qleb_R. apply A; exact Hq.
    + apply Qleb_R in B. rewrite Qabs'_R, Q2R_minus, Q2R_sum, Q2R_1' in B. exact B.
  - rewrite pruned_tmap; exact H4.
Qed.

(** with labels below the class count and non-negative weights, "most frequent among the classes"
    is "most frequent among all labels" *)
Lemma rweight_nonneg L : (forall s, In s L -> 0 <= rs_w s) -> 0 <= rweight L.
Proof.
  unfold rweight. induction L as [|a L IH]; simpl; intros H; [lra|].
  assert (0 <= rs_w a) by (apply H; auto). assert (0 <= Rsum (map rs_w L)) by (apply IH; intros; apply H; auto).
  lra.
Qed.

Lemma modal_all_labels k L p sl :
  (forall s, In s L -> (rs_y s < k)%nat /\ 0 <= rs_w s) -> 0 <= sl ->
  (forall c, (c < k)%nat -> rwfreq L c <= rwfreq L p + sl * rweight L) ->
  forall c, rwfreq L c <= rwfreq L p + sl * rweight L.
Proof.
  intros HL Hsl Hm c. destruct (Nat.lt_ge_cases c k) as [Hc|Hc]; [auto|].
  assert (E : filter (fun s => Nat.eqb (rs_y s) c) L = []).
  { clear Hm. induction L as [|a L IH]; simpl; auto.
    destruct (Nat.eqb (rs_y a) c) eqn:Ea.
    - apply Nat.eqb_eq in Ea. destruct (HL a (or_introl eq_refl)). lia.
    - apply IH. intros s Hs. apply HL; right; exact Hs. }
  unfold rwfreq at 1. rewrite E. unfold rweight at 1; simpl.
  assert (0 <= rwfreq L p).
  { apply rweight_nonneg. intros s Hs. apply filter_In in Hs as [Hs _]. apply HL; exact Hs. }
  assert (0 <= rweight L) by (apply rweight_nonneg; intros s Hs; apply HL; exact Hs).
  assert (0 <= sl * rweight L) by (apply Rmult_le_pos; assumption).
  lra.
Qed.

Lemma leaf_samples_incl le : forall t smp x s, In s (leaf_samples le t smp x) -> In s smp.
Proof. intros t smp x s H. apply leaf_samples_char in H. tauto. Qed.

(* ------------------------------------------------------------------------------------------ *)
(** * Importances (model of mean / relative impurity decrease over the reals) *)

Lemma fold_add_R l : forall a, fold_left Rplus l a = a + Rsum l.
Proof. induction l as [|x l IH]; intros a; simpl; [lra|]. rewrite IH. lra. Qed.

Lemma rsum_div l s : Rsum (map (fun x => x / s) l) = Rsum l / s.
Proof. induction l as [|x l IH]; simpl; [unfold Rdiv; ring|]. rewrite IH. unfold Rdiv; ring. Qed.

Lemma relative_sum_one nf (t : tree R) :
  Rsum (mean_impurity_decrease R_ops nf t) <> 0 ->
  Rsum (relative_impurity_decrease R_ops nf t) = 1.
Proof.
  intros H. unfold relative_impurity_decrease. cbn [add zero div R_ops].
  rewrite fold_add_R, Rplus_0_l. fold (Rdiv). rewrite (rsum_div _ (Rsum (mean_impurity_decrease R_ops nf t))).
  field. exact H.
Qed.

Fixpoint decs_pos (t : tree R) : Prop :=
  match t with
  | Leaf _ _ => True
  | Node _ _ _ dec l r => 0 < dec /\ decs_pos l /\ decs_pos r
  end.

Lemma bfs_forall : forall fuel q, Forall decs_pos q -> Forall decs_pos (bfs fuel q).
Proof.
  induction fuel as [|fuel IH]; intros q H; simpl; [constructor|].
  destruct q as [|t q]; [constructor|]. inversion H as [|? ? Ht Hq]; subst.
  constructor; [exact Ht|]. apply IH. apply Forall_app; split; [exact Hq|].
  destruct t as [|d f thr dec l r]; [constructor|]. simpl in Ht. destruct Ht as (_ & Hl & Hr).
  repeat constructor; assumption.
Qed.

Lemma upd_forall {A} (Pr : A -> Prop) (g : A -> A) : (forall a, Pr a -> Pr (g a)) ->
  forall l k, Forall Pr l -> Forall Pr (upd l k g).
Proof.
  intros Hg; induction l as [|a l IH]; intros k H; destruct k; simpl; auto;
    inversion H; subst; constructor; auto.
Qed.

Lemma upd_nth_error {A} (g : A -> A) : forall l k j,
  nth_error (upd l k g) j = if Nat.eqb j k then option_map g (nth_error l j) else nth_error l j.
Proof.
  induction l as [|a l IH]; intros k j.
  - destruct k; destruct j; simpl; try reflexivity;
      match goal with |- context [Nat.eqb ?a ?b] => destruct (Nat.eqb a b) end; reflexivity.
  - destruct k; destruct j; simpl; auto.
Qed.

Definition imp_step (a : list (R * N)) (nd : tree R) : list (R * N) :=
  match nd with
  | Leaf _ _ => a
  | Node _ f _ dec _ _ => upd a f (fun sc => (fst sc + dec, N.succ (snd sc)))
  end.

Definition accA (a : list (R * N)) : Prop := Forall (fun sc => 0 <= fst sc) a.
Definition accB (f : nat) (a : list (R * N)) : Prop :=
  exists sc, nth_error a f = Some sc /\ 0 < fst sc /\ snd sc <> 0%N.

Lemma imp_step_A a nd : decs_pos nd -> accA a -> accA (imp_step a nd).
Proof.
  destruct nd as [|d f thr dec l r]; simpl; auto. intros (Hd & _) H.
  apply upd_forall; auto. intros sc Hsc; simpl; lra.
Qed.
Lemma imp_step_B f a nd : decs_pos nd -> accB f a -> accB f (imp_step a nd).
Proof.
  destruct nd as [|d f' thr dec l r]; simpl; auto. intros (Hd & _) (sc & H1 & H2 & H3).
  unfold accB. rewrite upd_nth_error. destruct (Nat.eqb f f').
  - rewrite H1. simpl. eexists; split; [reflexivity|]. simpl. split; [lra|]. apply N.succ_0_discr.
  - exists sc; auto.
Qed.

Lemma fold_step_AB f nodes : Forall decs_pos nodes -> forall a,
  accA a -> accB f a ->
  accA (fold_left imp_step nodes a) /\ accB f (fold_left imp_step nodes a).
Proof.
  induction 1 as [|nd nodes Hnd Hn IH]; intros a HA HB; simpl; auto.
  apply IH; [apply imp_step_A | apply imp_step_B]; auto.
Qed.

Lemma rsum_pos m : Forall (fun x => 0 <= x) m -> forall f v, nth_error m f = Some v -> 0 < v -> 0 < Rsum m.
Proof.
  induction 1 as [|x m Hx Hm IH]; intros f v E Hv; [destruct f; discriminate|].
  assert (0 <= Rsum m). { clear IH E. induction Hm; simpl; lra. }
  destruct f; simpl in *.
  - inversion E; subst. lra.
  - specialize (IH _ _ E Hv). lra.
Qed.

Definition mean_of (sc : R * N) : R :=
  if N.eqb (snd sc) 0 then 0 else fst sc / INR (N.to_nat (snd sc)).

Lemma mean_of_nonneg sc : 0 <= fst sc -> 0 <= mean_of sc.
Proof.
  unfold mean_of. intros H. destruct (N.eqb (snd sc) 0) eqn:E; [lra|].
  apply N.eqb_neq in E. assert (0 < INR (N.to_nat (snd sc))) by (apply lt_0_INR; lia).
  apply Rmult_le_pos; [exact H|]. left. apply Rinv_0_lt_compat; assumption.
Qed.
Lemma mean_of_pos sc : 0 < fst sc -> snd sc <> 0%N -> 0 < mean_of sc.
Proof.
  unfold mean_of. intros H E. apply N.eqb_neq in E. rewrite E. apply N.eqb_neq in E.
  assert (0 < INR (N.to_nat (snd sc))) by (apply lt_0_INR; lia).
  apply Rmult_lt_0_compat; [exact H|]. apply Rinv_0_lt_compat; assumption.
Qed.

Lemma mean_impurity_decrease_unfold nf t :
  mean_impurity_decrease R_ops nf t = map mean_of (fold_left imp_step (iter_nodes t) (repeat (0, 0%N) nf)).
Proof. reflexivity. Qed.

Lemma repeat_nth_error {A} (a : A) : forall n k, (k < n)%nat -> nth_error (repeat a n) k = Some a.
Proof. induction n as [|n IH]; intros k H; [lia|]. destruct k; simpl; auto. apply IH; lia. Qed.

(** a tree whose root is a split on a valid feature and whose reported decreases are all positive
    has non-negative importances that sum to one *)
Lemma importance_ok nf d f thr dec l r :
  let t := Node d f thr dec l r in
  (f < nf)%nat -> decs_pos t ->
  (forall x, In x (relative_impurity_decrease R_ops nf t) -> 0 <= x) /\
  Rsum (relative_impurity_decrease R_ops nf t) = 1.
Proof.
  intros t Hf Hp. set (T := Node d f thr dec l r) in *. subst t.
  assert (Hm : Forall (fun x => 0 <= x) (mean_impurity_decrease R_ops nf T) /\
               exists v, nth_error (mean_impurity_decrease R_ops nf T) f = Some v /\ 0 < v).
  { rewrite mean_impurity_decrease_unfold. unfold iter_nodes. unfold T. cbn [size bfs]. cbn [fold_left]. fold T.
    assert (Hn : Forall decs_pos (bfs (size l + size r) ([] ++ [l; r]))).
    { apply bfs_forall. simpl in Hp. destruct Hp as (_ & Hl & Hr). repeat constructor; assumption. }
    destruct (fold_step_AB f _ Hn (imp_step (repeat (0, 0%N) nf) T)) as [HA (sc & H1 & H2 & H3)].
    - apply imp_step_A; auto. unfold accA. clear. induction nf; simpl; constructor; simpl; auto; lra.
    - unfold accB. unfold T; cbn [imp_step]. rewrite upd_nth_error, Nat.eqb_refl, repeat_nth_error by exact Hf.
      simpl. eexists; split; [reflexivity|]. simpl. simpl in Hp. split; [lra|discriminate].
    - split.
      + apply Forall_map. eapply Forall_impl; [|exact HA]. intros a Ha. apply mean_of_nonneg; exact Ha.
      + exists (mean_of sc). split; [|apply mean_of_pos; auto].
        rewrite nth_error_map, H1. reflexivity. }
  destruct Hm as [HA (v & Hv1 & Hv2)].
  pose proof (rsum_pos _ HA _ _ Hv1 Hv2) as Hs.
  split; [|apply relative_sum_one; lra].
  intros x Hx. unfold relative_impurity_decrease in Hx. cbn [add zero div R_ops] in Hx.
  rewrite fold_add_R, Rplus_0_l in Hx. apply in_map_iff in Hx as [y [E Hy]]. subst x.
  rewrite Forall_forall in HA. specialize (HA y Hy).
  apply Rmult_le_pos; [exact HA|]. left. apply Rinv_0_lt_compat. exact Hs.
Qed.

(** well-formed tree (as far as the importances are concerned): every split is on a feature below
    [nf] and reports a positive impurity decrease *)
Fixpoint feats_below {X} (nf : nat) (t : tree X) : Prop :=
  match t with
  | Leaf _ _ => True
  | Node _ f _ _ l r => (f < nf)%nat /\ feats_below nf l /\ feats_below nf r
  end.
Definition well_formed_tree (nf : nat) (t : tree R) : Prop := feats_below nf t /\ decs_pos t.

Lemma wf_importances nf t :
  well_formed_tree nf t -> is_leaf t = false ->
  (forall x, In x (relative_impurity_decrease R_ops nf t) -> 0 <= x) /\
  Rsum (relative_impurity_decrease R_ops nf t) = 1.
Proof.
  intros [Hf Hp] Hl. destruct t as [|d f thr dec l r]; [discriminate|].
  apply importance_ok; [|exact Hp]. simpl in Hf. tauto.
Qed.

(** a tree that satisfies the node specification with a positive min_impurity_decrease is well formed *)
Lemma spec_well_formed P imp : 0 < rp_mid P -> forall t smp depth,
  node_spec P imp smp depth t -> well_formed_tree (rp_nfeat P) t.
Proof.
  intros Hm. induction t as [d p|d f thr dec l IHl r IHr]; intros smp depth H.
  - split; exact I.
  - cbn [node_spec] in H; cbv zeta in H. destruct H as (_ & _ & _ & Hf & _ & _ & _ & Hd & Hl & Hr).
    destruct (IHl _ _ Hl) as [A1 B1]. destruct (IHr _ _ Hr) as [A2 B2].
    split; simpl; repeat split; auto. lra.
Qed.

Lemma length_upd {A} (l : list A) k g : length (upd l k g) = length l.
Proof. revert k; induction l as [|a l IH]; intros [|k]; simpl; auto. Qed.

Lemma importances_length {X} (ox : NumOps X) nf (t : tree X) :
  length (relative_impurity_decrease ox nf t) = nf.
Proof.
  unfold relative_impurity_decrease, mean_impurity_decrease. rewrite !map_length.
  generalize (iter_nodes t). intros nodes.
  assert (G : forall a, length (fold_left (fun a nd => match nd with
                 | Leaf _ _ => a
                 | Node _ f _ dec _ _ => upd a f (fun sc => (add ox (fst sc) dec, N.succ (snd sc)))
                 end) nodes a) = length a).
  { induction nodes as [|nd nodes IH]; intros a; simpl; auto. rewrite IH. destruct nd; auto. apply length_upd. }
  rewrite G. apply repeat_length.
Qed.

(* ------------------------------------------------------------------------------------------ *)
(** * The fit model honours max_depth in every arithmetic *)
Local Close Scope R_scope.

Lemma prune_well_depthed {X} md : forall (t : tree X) depth,
  well_depthed md depth t -> well_depthed md depth (fst (prune t)).
Proof.
  induction t as [d p|d f thr dec l IHl r IHr]; intros depth H; [exact H|].
  simpl in H. destruct H as (H1 & H2 & Hl & Hr). specialize (IHl _ Hl). specialize (IHr _ Hr).
  cbn [prune]. destruct (prune l) as [l' pl]; destruct (prune r) as [r' pr]; cbn [fst] in *.
  assert (G : well_depthed md depth (Node d f thr dec l' r')) by (simpl; auto).
  destruct pl as [a|]; destruct pr as [b|]; try exact G.
  destruct (Nat.eqb a b); [|exact G]. simpl. auto.
Qed.

Lemma depth_ok_S md depth :
  match md with Some m => Nat.leb m depth | None => false end = false ->
  depth_ok md (S depth) = true.
Proof. destruct md as [m|]; cbn [depth_ok]; auto. intros E. apply Nat.leb_gt in E. apply Nat.leb_le. lia. Qed.

Section FitProps.
Context {W X : Type} (ow : NumOps W) (ox : NumOps X) (cast : W -> X).
Variable imp : freq_tab (W := W) -> W.
Variable H : hyper (W := W) (X := X).
Variable xs : list (list X).
Variable ys : list nat.
Variable ws : list W.
Variable ncls : nat.

Lemma fit_node_well_depthed sorted : forall fuel mask depth t,
  depth_ok (h_maxdepth H) depth = true ->
  fit_node ow ox cast imp H xs ys ws ncls sorted fuel mask depth = Some t ->
  well_depthed (h_maxdepth H) depth t.
Proof.
  induction fuel as [|fuel IH]; intros mask depth t Hd E; cbn [fit_node] in E; [discriminate|].
  match type of E with (if ?c then _ else _) = _ => destruct c eqn:E1 end.
  - inversion E; subst. simpl; auto.
  - apply orb_false_iff in E1 as [_ E1].
    assert (Hd' : depth_ok (h_maxdepth H) (S depth) = true).
    { apply depth_ok_S; exact E1. }
    match type of E with context [match ?b with Some _ => _ | None => zero ox end] =>
      destruct b as [[[bf thr] bs]|] eqn:Eb end.
    + match type of E with (if ?c then _ else _) = _ => destruct c eqn:E2 end.
      * inversion E; subst. simpl; auto.
      * match type of E with (if ?c then _ else _) = _ => destruct c eqn:E3 end.
        -- inversion E; subst. simpl; auto.
        -- match type of E with context [match ?a with Some _ => _ | None => None end] =>
             destruct a as [l|] eqn:El end; [|discriminate].
           match type of E with context [match ?a with Some _ => _ | None => None end] =>
             destruct a as [r|] eqn:Er end; [|discriminate].
           inversion E; subst. simpl. repeat split; auto; eapply IH; eauto.
    + match type of E with (if ?c then _ else _) = _ => destruct c eqn:E2 end; [|discriminate].
      inversion E; subst. simpl; auto.
Qed.

Lemma fit_well_depthed nfeat t :
  fit ow ox cast imp H xs ys ws ncls nfeat = Some t -> well_depthed (h_maxdepth H) 0 t.
Proof.
  unfold fit. intros E.
  match type of E with match ?a with Some _ => _ | None => None end = _ => destruct a as [t0|] eqn:E0 end;
    [|discriminate].
  inversion E; subst. apply prune_well_depthed. eapply fit_node_well_depthed; eauto.
  destruct (h_maxdepth H); reflexivity.
Qed.
End FitProps.

(* ------------------------------------------------------------------------------------------ *)
(** * The fit model only predicts labels of training rows (every arithmetic) *)

Fixpoint leaf_preds {X} (t : tree X) : list nat :=
  match t with Leaf _ p => [p] | Node _ _ _ _ l r => leaf_preds l ++ leaf_preds r end.

Lemma predict_in_leaf_preds {X} (ox : NumOps X) le (t : tree X) x : In (predict ox le t x) (leaf_preds t).
Proof.
  induction t as [d p|d f thr dec l IHl r IHr]; cbn [predict leaf_preds]; [left; reflexivity|].
  apply in_or_app. destruct (goes_left ox le _ thr); auto.
Qed.

Lemma prune_leaf_preds {X} (t : tree X) : incl (leaf_preds (fst (prune t))) (leaf_preds t).
Proof.
  induction t as [d p|d f thr dec l IHl r IHr]; [apply incl_refl|].
  pose proof (prune_some_leaf l) as Sl. cbn [prune leaf_preds].
  destruct (prune l) as [l' pl]; destruct (prune r) as [r' pr]; cbn [fst snd] in *.
  assert (G : incl (leaf_preds (Node d f thr dec l' r')) (leaf_preds l ++ leaf_preds r)).
  { cbn [leaf_preds]. apply incl_app; [apply incl_appl | apply incl_appr]; assumption. }
  destruct pl as [a|]; destruct pr as [b|]; try exact G.
  destruct (Nat.eqb a b); [|exact G].
  destruct (Sl a eq_refl) as [d1 E1]. subst l'. cbn [leaf_preds] in *.
  intros p [Hp|[]]. subst p. apply in_or_app; left. apply IHl. left; reflexivity.
Qed.

Lemma upd_length {A} (l : list A) k g : length (upd l k g) = length l.
Proof. revert k; induction l as [|a l IH]; intros [|k]; simpl; auto. Qed.

Lemma combine_seq_nth {A} (l : list A) : forall s i e,
  In (i, e) (combine (seq s (length l)) l) -> s <= i /\ nth_error l (i - s) = Some e.
Proof.
  induction l as [|a l IH]; intros s i e H; simpl in H; [contradiction|].
  destruct H as [H|H].
  - inversion H; subst. rewrite Nat.sub_diag. split; auto.
  - destruct (IH _ _ _ H) as [H1 H2]. split; [lia|].
    replace (i - s) with (S (i - S s)) by lia. exact H2.
Qed.

Lemma combine_seq_in {A} (l : list A) : forall s c e,
  nth_error l c = Some e -> In (s + c, e) (combine (seq s (length l)) l).
Proof.
  induction l as [|a l IH]; intros s c e H; [destruct c; discriminate|].
  destruct c; simpl in *.
  - inversion H; subst. left. f_equal. lia.
  - right. replace (s + S c) with (S s + c) by lia. apply IH; exact H.
Qed.

Lemma in_combine3 {B C} (mask : list bool) (ys : list B) (ws : list C) i :
  nth_error mask i = Some true -> i < length ys -> i < length ws ->
  exists y w, nth_error ys i = Some y /\ In (true, y, w) (combine (combine mask ys) ws).
Proof.
  revert mask ys ws. induction i as [|i IH]; intros mask ys ws Hm Hy Hw.
  - destruct mask as [|m mask]; [discriminate|]. destruct ys as [|y ys]; [simpl in Hy; lia|].
    destruct ws as [|w ws]; [simpl in Hw; lia|]. simpl in Hm. inversion Hm; subst.
    exists y, w. split; [reflexivity|left; reflexivity].
  - destruct mask as [|m mask]; [discriminate|]. destruct ys as [|y ys]; [simpl in Hy; lia|].
    destruct ws as [|w ws]; [simpl in Hw; lia|]. simpl in Hm, Hy, Hw.
    destruct (IH mask ys ws Hm) as (y' & w' & E & Hin); try lia.
    exists y', w'. split; [exact E|right; exact Hin].
Qed.

Section FitLabels.
Context {W X : Type} (ow : NumOps W) (ox : NumOps X) (cast : W -> X).
Variable imp : freq_tab (W := W) -> W.
Variable H : hyper (W := W) (X := X).
Variable xs : list (list X).
Variable ys : list nat.
Variable ws : list W.
Variable ncls : nat.
Hypothesis Hys : forall y, In y ys -> y < ncls.
Hypothesis Hlen_y : length ys = length xs.
Hypothesis Hlen_w : length ws = length xs.

Definition mstep (acc : option (nat * W)) (ce : nat * option W) : option (nat * W) :=
  match snd ce with
  | None => acc
  | Some fr =>
      match acc with
      | None => Some (fst ce, fr)
      | Some (bi, bf) =>
          if ltb ow fr bf || (eqb ow bf fr && Nat.ltb bi (fst ce)) then acc else Some (fst ce, fr)
      end
  end.

Lemma modal_unfold (t : freq_tab) :
  modal ow t = match fold_left mstep (combine (seq 0 (length t)) t) None with Some (c, _) => c | None => 0 end.
Proof. reflexivity. Qed.

Lemma mstep_inv (tab : freq_tab (W := W)) : forall l acc,
  (forall i e, In (i, e) l -> nth_error tab i = Some e) ->
  match acc with Some (c, f) => nth_error tab c = Some (Some f) | None => True end ->
  match fold_left mstep l acc with Some (c, f) => nth_error tab c = Some (Some f) | None => True end.
Proof.
  induction l as [|[i e] l IH]; intros acc Hl Ha; simpl; auto.
  apply IH; [intros; apply Hl; right; assumption|].
  unfold mstep; simpl. destruct e as [fr|]; auto.
  assert (Hi : nth_error tab i = Some (Some fr)) by (apply Hl; left; reflexivity).
  destruct acc as [[bi bf]|]; auto. destruct (ltb ow fr bf || _); auto.
Qed.

Lemma mstep_some a ce : exists b, mstep (Some a) ce = Some b.
Proof.
  unfold mstep. destruct (snd ce) as [fr|]; [|eauto]. destruct a as [bi bf].
  destruct (ltb ow fr bf || _); eauto.
Qed.

Lemma mstep_some_stays l : forall a, fold_left mstep l (Some a) <> None.
Proof.
  induction l as [|ce l IH]; intros a; cbn [fold_left]; [discriminate|].
  destruct (mstep_some a ce) as [b ->]. apply IH.
Qed.

Lemma mstep_becomes_some l : forall acc i v, In (i, Some v) l -> fold_left mstep l acc <> None.
Proof.
  induction l as [|ce l IH]; intros acc i v Hin; cbn [fold_left]; [contradiction|].
  destruct Hin as [E|Hin].
  - subst ce. destruct acc as [a|].
    + destruct (mstep_some a (i, Some v)) as [b ->]. apply mstep_some_stays.
    + unfold mstep; cbn [fst snd]. apply mstep_some_stays.
  - eapply IH; eauto.
Qed.

Lemma modal_some (tab : freq_tab (W := W)) c v :
  nth_error tab c = Some (Some v) -> exists v', nth_error tab (modal ow tab) = Some (Some v').
Proof.
  intros Hc. rewrite modal_unfold.
  pose proof (mstep_inv tab (combine (seq 0 (length tab)) tab) None) as Inv.
  assert (Hne : fold_left mstep (combine (seq 0 (length tab)) tab) None <> None).
  { eapply mstep_becomes_some. apply (combine_seq_in tab 0 c). exact Hc. }
  destruct (fold_left mstep (combine (seq 0 (length tab)) tab) None) as [[c' f']|]; [|congruence].
  exists f'. apply Inv; auto.
  intros i e Hin. destruct (combine_seq_nth tab 0 i e Hin) as [_ E]. rewrite Nat.sub_0_r in E. exact E.
Qed.

(* label_freqs *)
Definition lstep (t : freq_tab (W := W)) (myw : bool * nat * W) : freq_tab :=
  let '(m, y, w) := myw in if (m : bool) then tab_add ow t y w else t.

Lemma label_freqs_unfold mask :
  label_freqs ow ys ws ncls mask = fold_left lstep (combine (combine mask ys) ws) (repeat None ncls).
Proof. reflexivity. Qed.

Lemma tab_add_nth t y w c :
  nth_error (tab_add ow t y w) c =
  if Nat.eqb c y then option_map (fun e => Some (add ow (match e with Some v => v | None => zero ow end) w)) (nth_error t c)
  else nth_error t c.
Proof. unfold tab_add. apply upd_nth_error. Qed.

Lemma lstep_labels l : forall t,
  (forall m y w, In (m, y, w) l -> In y ys) ->
  (forall c v, nth_error t c = Some (Some v) -> In c ys) ->
  forall c v, nth_error (fold_left lstep l t) c = Some (Some v) -> In c ys.
Proof.
  induction l as [|[[m y] w] l IH]; intros t Hl Ht c v E; cbn [fold_left] in E; [eapply Ht; eauto|].
  eapply IH; [| |exact E].
  - intros; eapply Hl; right; eauto.
  - intros c' v' E'. cbn [lstep] in E'. destruct m; [|eapply Ht; eauto].
    rewrite tab_add_nth in E'. destruct (Nat.eqb c' y) eqn:Ec; [|eapply Ht; eauto].
    apply Nat.eqb_eq in Ec; subst c'. eapply Hl. left; reflexivity.
Qed.

Lemma lstep_some_stays l : forall t c v,
  nth_error t c = Some (Some v) -> exists v', nth_error (fold_left lstep l t) c = Some (Some v').
Proof.
  induction l as [|[[m y] w] l IH]; intros t c v E; cbn [fold_left]; [eauto|].
  cbn [lstep]. destruct m; [|eapply IH; eauto].
  destruct (Nat.eqb c y) eqn:Ec.
  - eapply IH. rewrite tab_add_nth, Ec, E. simpl. reflexivity.
  - eapply IH. rewrite tab_add_nth, Ec. exact E.
Qed.

Lemma lstep_length l : forall t, length (fold_left lstep l t) = length t.
Proof.
  induction l as [|[[m y] w] l IH]; intros t; cbn [fold_left]; auto. rewrite IH. cbn [lstep]. destruct m; auto.
  unfold tab_add. apply upd_length.
Qed.

Lemma lstep_becomes_some l : forall t y w,
  In (true, y, w) l -> y < length t -> exists v, nth_error (fold_left lstep l t) y = Some (Some v).
Proof.
  induction l as [|[[m y'] w'] l IH]; intros t y w Hin Hy; cbn [fold_left]; [contradiction|].
  destruct Hin as [E|Hin].
  - inversion E; subst. cbn [lstep].
    destruct (nth_error t y) as [e|] eqn:Ey; [|apply nth_error_None in Ey; lia].
    eapply lstep_some_stays. rewrite tab_add_nth, Nat.eqb_refl, Ey. simpl. reflexivity.
  - eapply IH; eauto. cbn [lstep]. destruct m; auto. unfold tab_add. rewrite upd_length. exact Hy.
Qed.

(** a mask is usable when it marks at least one existing row *)
Definition mask_ok (mask : list bool) : Prop :=
  length mask <= length xs /\ exists i, nth_error mask i = Some true.


Lemma modal_label_in_ys mask : mask_ok mask -> In (modal ow (label_freqs ow ys ws ncls mask)) ys.
Proof.
  intros [Hlen [i Hi]].
  assert (Hil : i < length mask) by (apply nth_error_Some; congruence).
  destruct (in_combine3 mask ys ws i Hi) as (y & w & Ey & Hin); try lia.
  assert (Hy : In y ys) by (eapply nth_error_In; eauto).
  destruct (lstep_becomes_some _ (repeat None ncls) y w Hin) as [v Hv].
  { rewrite repeat_length. apply Hys; exact Hy. }
  rewrite <- label_freqs_unfold in Hv.
  destruct (modal_some _ _ _ Hv) as [v' Hv'].
  rewrite label_freqs_unfold in Hv'. eapply lstep_labels; [| |exact Hv'].
  - intros m y0 w0 Hin0. apply in_combine_l in Hin0. apply in_combine_r in Hin0. exact Hin0.
  - intros c v0 E. exfalso. clear -E. revert c E. induction ncls as [|k IH]; intros [|c] E; simpl in E; try discriminate.
    eapply IH; eauto.
Qed.

Lemma map2_length {A B C} (g : A -> B -> C) : forall a b, length (map2 g a b) <= length b.
Proof. induction a as [|x a IH]; intros [|y b]; simpl; try lia. specialize (IH b). lia. Qed.

Lemma count_true_pos m : count_true m <> 0 -> exists i, nth_error m i = Some true.
Proof.
  unfold count_true. induction m as [|b m IH]; simpl; [congruence|]. destruct b.
  - intros _. exists 0; reflexivity.
  - intros Hc. destruct (IH Hc) as [i Hi]. exists (S i); exact Hi.
Qed.

Lemma fit_node_leaf_preds sorted : forall fuel mask depth t,
  mask_ok mask ->
  fit_node ow ox cast imp H xs ys ws ncls sorted fuel mask depth = Some t ->
  forall p, In p (leaf_preds t) -> In p ys.
Proof.
  induction fuel as [|fuel IH]; intros mask depth t Hm E; cbn [fit_node] in E; [discriminate|].
  pose proof (modal_label_in_ys mask Hm) as Hmod.
  assert (Leaf_ok : forall d p, In p (leaf_preds (Leaf (X := X) d (modal ow (label_freqs ow ys ws ncls mask)))) -> In p ys).
  { intros d p [Hp|[]]. subst p. exact Hmod. }
  match type of E with (if ?c then _ else _) = _ => destruct c eqn:E1 end.
  - inversion E; subst. apply Leaf_ok.
  - match type of E with context [match ?b with Some _ => _ | None => zero ox end] =>
      destruct b as [[[bf thr] bs]|] eqn:Eb end.
    + match type of E with (if ?c then _ else _) = _ => destruct c eqn:E2 end.
      * inversion E; subst. apply Leaf_ok.
      * match type of E with (if ?c then _ else _) = _ => destruct c eqn:E3 end.
        -- inversion E; subst. apply Leaf_ok.
        -- apply orb_false_iff in E3 as [E3l E3r]. apply Nat.eqb_neq in E3l. apply Nat.eqb_neq in E3r.
           match type of E with context [match ?a with Some _ => _ | None => None end] =>
             destruct a as [l|] eqn:El end; [|discriminate].
           match type of E with context [match ?a with Some _ => _ | None => None end] =>
             destruct a as [r|] eqn:Er end; [|discriminate].
           inversion E; subst. intros p Hp. cbn [leaf_preds] in Hp. apply in_app_or in Hp as [Hp|Hp].
           ++ eapply IH; [|exact El|exact Hp]. split; [apply map2_length|apply count_true_pos; exact E3l].
           ++ eapply IH; [|exact Er|exact Hp]. split; [apply map2_length|apply count_true_pos; exact E3r].
    + match type of E with (if ?c then _ else _) = _ => destruct c eqn:E2 end; [|discriminate].
      inversion E; subst. apply Leaf_ok.
Qed.

Lemma fit_predicts_training_label nfeat t :
  xs <> [] ->
  fit ow ox cast imp H xs ys ws ncls nfeat = Some t ->
  forall le x, In (predict ox le t x) ys.
Proof.
  unfold fit. intros Hne E le x.
  match type of E with match ?a with Some _ => _ | None => None end = _ => destruct a as [t0|] eqn:E0 end;
    [|discriminate].
  inversion E; subst. eapply fit_node_leaf_preds; [|exact E0|].
  - split; [rewrite map_length; lia|]. destruct xs as [|r rs]; [congruence|]. exists 0; reflexivity.
  - apply prune_leaf_preds. apply predict_in_leaf_preds.
Qed.
End FitLabels.

(* ------------------------------------------------------------------------------------------ *)
(** * Assembled statements used by Properties.v *)
Local Open Scope R_scope.

Lemma tree_spec_training P imp itol smp t imps s :
  tree_spec P imp itol smp t imps -> In s smp ->
  let L := leaf_samples (rp_le P) t smp (rs_x s) in
  let p := predict R_ops (rp_le P) t (rs_x s) in
  route R_ops (rp_le P) t (rs_x s) = route_fit R_ops t (rs_x s) /\
  In s L /\
  (forall s', In s' L <-> In s' smp /\ route R_ops (rp_le P) t (rs_x s') = route R_ops (rp_le P) t (rs_x s)) /\
  (exists s', In s' L /\ rs_y s' = p) /\
  (forall c, rwfreq L c <= rwfreq L p + rp_wslack P * rweight L).
Proof.
  intros ((Hin & Hsl) & Hn & _ & _) Hs L p.
  destruct (spec_training P imp t smp 0%nat Hn s Hs) as (A & B & C).
  split; [exact A|]. split; [apply leaf_samples_char; auto|]. split; [intros s'; apply leaf_samples_char|].
  split; [exact B|].
  apply (modal_all_labels (rp_ncls P)); [|exact Hsl|exact C].
  intros s' Hs'. apply Hin. eapply leaf_samples_incl; eauto.
Qed.

(** what the checker accepts predicts only labels of training samples *)
Lemma chk_tree_predict_label P gc itol smp t imps :
  chk_tree P gc itol smp t imps = 0%N ->
  forall x : list R, In (predict R_ops (qp_le P) (tmap Q2R t) x) (map qs_y smp).
Proof.
  intros H x. apply chk_tree_sound in H. destruct H as (_ & H & _).
  destruct (spec_predict_label _ _ _ _ _ H x) as [s [Hs Hy]]. cbn [paramsR rp_le] in Hy. rewrite <- Hy.
  apply in_map_iff in Hs as [s0 [E Hs0]]. subst s. simpl. apply in_map. exact Hs0.
Qed.

(** with an allowance of zero the weight statements are the exact ones *)
Lemma tree_spec_exact_weights P imp itol smp t imps :
  tree_spec P imp itol smp t imps -> rp_wslack P = 0 ->
  (forall path d f thr dec l r, subtree_at t path = Some (Node d f thr dec l r) ->
     let S := samples_at (rp_le P) t smp path in
     rp_mwl P <= rweight (rleft (rp_le P) f thr S) /\ rp_mwl P <= rweight (rright (rp_le P) f thr S)) /\
  (forall s, In s smp ->
     let L := leaf_samples (rp_le P) t smp (rs_x s) in
     forall c, rwfreq L c <= rwfreq L (predict R_ops (rp_le P) t (rs_x s))).
Proof.
  intros HT H0. split.
  - intros path d f thr dec l r E. destruct HT as (_ & Hn & _).
    destruct (spec_split_limits P imp path t smp d f thr dec l r Hn E) as (_ & _ & _ & A & B & _).
    rewrite H0 in A, B. cbv zeta. lra.
  - intros s Hs L c. destruct (tree_spec_training P imp itol smp t imps s HT Hs) as (_ & _ & _ & _ & C).
    specialize (C c). rewrite H0 in C. fold L in C. lra.
Qed.

Lemma fit_depth_le {W X} (ow : NumOps W) (ox : NumOps X) cast imp H xs ys ws ncls nfeat t m s :
  fit ow ox cast imp H xs ys ws ncls nfeat = Some t -> h_maxdepth H = Some m -> subtree s t ->
  (tdepth s <= m)%nat.
Proof.
  intros E Hm Hs. apply fit_well_depthed in E.
  destruct (well_depthed_sub _ _ _ Hs _ E) as [_ H2]. rewrite Hm in H2. apply Nat.leb_le; exact H2.
Qed.

(* ------------------------------------------------------------------------------------------ *)
(** * Non-vacuity examples *)
Local Close Scope R_scope.

Definition ex_params : qparams :=
  {| qp_maxdepth := Some 1%nat; qp_mws := 2%Q; qp_mwl := 1%Q; qp_mid := (1 # 100000)%Q;
     qp_tol := (1 # 262144)%Q; qp_ncls := 2%nat; qp_le := false; qp_wslack := 0%Q; qp_nfeat := 1%nat |}.
Definition ex_samples : list qsample :=
  [ {| qs_x := [0%Q]; qs_y := 0%nat; qs_w := 1%Q |}; {| qs_x := [1%Q]; qs_y := 0%nat; qs_w := 1%Q |};
    {| qs_x := [2%Q]; qs_y := 1%nat; qs_w := (1 # 2)%Q |}; {| qs_x := [3%Q]; qs_y := 1%nat; qs_w := 2%Q |} ].
Definition ex_tree : tree Q := Node 0 0 (3 # 2)%Q (40 # 81)%Q (Leaf 1 0) (Leaf 1 1).

(** the checker accepts a correct tree (so the hypothesis of [chk_tree_sound] is satisfiable and
    [tree_spec] is inhabited by a tree with a split) ... *)
Example ex_accepted : chk_tree ex_params CGini (1 # 1000000)%Q ex_samples ex_tree [1%Q] = 0%N.
Proof. vm_compute. reflexivity. Qed.

Example ex_tree_spec :
  tree_spec (paramsR ex_params) (imp_of CGini) (Q2R (1 # 1000000)) (map sampleR ex_samples)
            (tmap Q2R ex_tree) (map Q2R [1%Q]).
Proof. apply chk_tree_sound. exact ex_accepted. Qed.

(** ... and rejects wrong ones: a threshold on a training value (predict-time and fit-time routing
    differ), a wrong reported decrease, a leaf that
    predicts the minority label, a tree deeper than max_depth *)
Example ex_rejected_threshold_on_sample :
  chk_tree ex_params CGini (1 # 1000000)%Q ex_samples (Node 0 0 1%Q (40 # 81)%Q (Leaf 1 0) (Leaf 1 1)) [1%Q]
  = 48%N.
Proof. vm_compute. reflexivity. Qed.
Example ex_rejected_decrease :
  chk_tree ex_params CGini (1 # 1000000)%Q ex_samples (Node 0 0 (3 # 2)%Q (1 # 2)%Q (Leaf 1 0) (Leaf 1 1)) [1%Q]
  = 32%N.
Proof. vm_compute. reflexivity. Qed.
Example ex_rejected_minority :
  chk_tree ex_params CGini (1 # 1000000)%Q ex_samples (Node 0 0 (3 # 2)%Q (40 # 81)%Q (Leaf 1 1) (Leaf 1 0)) [1%Q]
  = 128%N.
Proof. vm_compute. reflexivity. Qed.
Example ex_rejected_depth :
  chk_tree ex_params CGini (1 # 1000000)%Q ex_samples
           (Node 0 0 (3 # 2)%Q (40 # 81)%Q (Node 1 0 (1 # 2)%Q (1 # 100)%Q (Leaf 2 0) (Leaf 2 0)) (Leaf 1 1)) [1%Q]
  <> 0%N.
Proof. vm_compute. discriminate. Qed.

Example ex_decs_pos : decs_pos (tmap Q2R ex_tree).
Proof. simpl. repeat split; auto. unfold Q2R; simpl. lra. Qed.

Example ex_well_formed : well_formed_tree 1 (tmap Q2R ex_tree) /\ is_leaf (tmap Q2R ex_tree) = false.
Proof. split; [split; [simpl; repeat split; auto|exact ex_decs_pos]|reflexivity]. Qed.

(** non-dyadic sample weights (1/3-like values): the left side holds 3/10 + 1 = 13/10 of exact weight;
    with min_weight_leaf = 13/10 + 1/10^7 (the f32 running sum of the code may round above the exact
    sum) the exact comparison fails, the allowance 4 * 2^-23 of the node's weight accepts it *)
Definition ex_params_slack (sl : Q) : qparams :=
  {| qp_maxdepth := None; qp_mws := 2%Q; qp_mwl := (13000001 # 10000000)%Q; qp_mid := (1 # 100000)%Q;
     qp_tol := (1 # 262144)%Q; qp_ncls := 2%nat; qp_le := true; qp_wslack := sl; qp_nfeat := 1%nat |}.
Definition ex_samples3 : list qsample :=
  [ {| qs_x := [0%Q]; qs_y := 0%nat; qs_w := (3 # 10)%Q |}; {| qs_x := [1%Q]; qs_y := 0%nat; qs_w := 1%Q |};
    {| qs_x := [2%Q]; qs_y := 1%nat; qs_w := 1%Q |}; {| qs_x := [3%Q]; qs_y := 1%nat; qs_w := 1%Q |} ].
Example ex_slack_needed :
  chk_tree (ex_params_slack 0) CNone (1 # 1000000)%Q ex_samples3 (Node 0 0 (3 # 2)%Q (1 # 2)%Q (Leaf 1 0) (Leaf 1 1)) [1%Q] = 8%N
  /\ chk_tree (ex_params_slack (4 # 8388608)) CNone (1 # 1000000)%Q ex_samples3
              (Node 0 0 (3 # 2)%Q (1 # 2)%Q (Leaf 1 0) (Leaf 1 1)) [1%Q] = 0%N.
Proof. split; vm_compute; reflexivity. Qed.
(** a split on a feature the data does not have is rejected *)
Example ex_rejected_feature :
  chk_tree ex_params CGini (1 # 1000000)%Q ex_samples (Node 0 1 (3 # 2)%Q (40 # 81)%Q (Leaf 1 0) (Leaf 1 1)) [1%Q]
  <> 0%N.
Proof. vm_compute. discriminate. Qed.

Example ex_subtree_at : subtree_at (tmap Q2R ex_tree) [] = Some (tmap Q2R ex_tree).
Proof. reflexivity. Qed.

(** an entropy tree accepted through the interval evaluation: weights 1,1,1,1, labels 0,0,1,1, split
    in the middle, entropy 1 -> 0, reported decrease 1 *)
Definition ex_samples2 : list qsample :=
  [ {| qs_x := [0%Q]; qs_y := 0%nat; qs_w := 1%Q |}; {| qs_x := [1%Q]; qs_y := 0%nat; qs_w := 1%Q |};
    {| qs_x := [2%Q]; qs_y := 1%nat; qs_w := 1%Q |}; {| qs_x := [3%Q]; qs_y := 0%nat; qs_w := 1%Q |};
    {| qs_x := [4%Q]; qs_y := 1%nat; qs_w := 1%Q |} ].
Example ex_entropy_accepted :
  chk_tree ex_params CEntropy (1 # 1000000)%Q ex_samples2
           (Node 0 0 (3 # 2)%Q (4199731 # 10000000)%Q (Leaf 1 0) (Leaf 1 1)) [1%Q] = 0%N.
Proof. vm_compute. reflexivity. Qed.
Example ex_entropy_rejected :
  chk_tree ex_params CEntropy (1 # 1000000)%Q ex_samples2
           (Node 0 0 (3 # 2)%Q (42 # 100)%Q (Leaf 1 0) (Leaf 1 1)) [1%Q] = 32%N.
Proof. vm_compute. reflexivity. Qed.

(** the hypothesis of [fit_depth_le] is satisfiable: the fit model, run with binary32 scores and
    binary64 features, returns a depth-1 tree on a separable toy dataset *)
From Coq Require Import Floats.
From LinfaVerif Require Import Common.B32.
Example ex_fit_model :
  fit B32_ops B64_ops SF2Prim (gini B32_ops)
      {| h_maxdepth := Some 1%nat; h_mws := b32_of_Z 2; h_mwl := b32_of_Z 1; h_mid := 0x1p-20%float;
         h_eps := 0x1p-17%float; h_two := 2%float; h_le := true |}
      [[0%float]; [1%float]; [2%float]; [3%float]] [0; 0; 1; 1]%nat (repeat (b32_of_Z 1) 4) 2 1
  = Some (Node 0 0 1.5%float 0.5%float (Leaf 1 0) (Leaf 1 1)).
Proof. vm_compute. reflexivity. Qed.
