(** C14 - property theorems about the binary32 evaluation of the Gini criterion (statements only;
    proofs are in C14/ProofsF32.v).

    Reading guide.  [gini B32_ops t] is the Gallina transliteration of gini_impurity executed with the
    binary32 arithmetic the correspondence runs against the Rust code bit for bit (SpecFloat at
    precision 24, shown in ProofsF32 to be Flocq's correctly rounded IEEE-754 operations);
    [split_score B32_ops (gini B32_ops) total r l wr] is the score of a candidate split,
    wr/total * gini(right) + (1 - wr/total) * gini(left), as the sweep computes it;
    [rgini] is the real-number Gini impurity of the specification (C14/Proofs.v);
    [is_count v c]: the binary32 value [v] is the non-negative integer [c] exactly (class weights
    of unit-weight samples, or of any weights whose class sums are integers); [u32] = 2^-24.
    These theorems turn the allowance 2^-18 that the checker [chk_tree] grants between the reported
    (f32) and the real impurity decrease from a calibrated constant into a proved bound - for the
    Gini criterion, F = f32 and exact class counts.  For other weights (dyadic fractions, rounded
    sums), for F = f64 (one more binary64 subtraction) and for the entropy criterion (f32::log2 is a
    libm call) the allowance stays calibrated. *)
From Coq Require Import ZArith Reals List SpecFloat.
From LinfaVerif Require Import Common.Num Common.B32 C14.Model C14.Proofs C14.ProofsSplit C14.ProofsF32.
Import ListNotations.
Local Open Scope R_scope.

(** the binary32 Gini impurity of a table of exact class counts with a total below 2^24 is finite
    and within (k + 6) * 2^-24 of the real Gini impurity, k the number of classes present *)
Theorem gini_f32_error_bound : forall (t : freq_tab (W := spec_float)) (cs : list Z),
  Forall2 is_count (tab_vals t) cs -> (0 < Zsum cs < 2 ^ 24)%Z -> (length cs <= 900)%nat ->
  okf (gini B32_ops t) /\
  Rabs (val (gini B32_ops t) - rgini (map IZR cs)) <= (INR (length cs) + 6) * u32.
Proof. exact gini32_error. Qed.

(** the binary32 score of a candidate split is finite and within (k + 11) * 2^-24 of its real value *)
Theorem split_score_f32_error_bound :
  forall (r l : freq_tab (W := spec_float)) (csR csL : list Z) (wr total : spec_float),
  Forall2 is_count (tab_vals r) csR -> Forall2 is_count (tab_vals l) csL ->
  (0 < Zsum csR)%Z -> (0 < Zsum csL)%Z -> (Zsum csR + Zsum csL < 2 ^ 24)%Z ->
  (length csR <= 900)%nat -> (length csL <= 900)%nat ->
  okf wr -> val wr = IZR (Zsum csR) -> okf total -> val total = IZR (Zsum csR + Zsum csL) ->
  let W := IZR (Zsum csR) / IZR (Zsum csR + Zsum csL) in
  let SC := W * rgini (map IZR csR) + (1 - W) * rgini (map IZR csL) in
  let s := split_score B32_ops (gini B32_ops) total r l wr in
  okf s /\ 0 <= SC <= 1 /\
  Rabs (val s - SC) <= (INR (Nat.max (length csR) (length csL)) + 11) * u32.
Proof. exact score32_error. Qed.

(** the reported impurity decrease gini(parent) - score, as TreeNode::fit computes it for F = f32, is
    finite and within 2^-18 (the checker's allowance) of the real decrease for up to 22 classes *)
Theorem reported_decrease_f32_within_allowance :
  forall (p r l : freq_tab (W := spec_float)) (csP csR csL : list Z) (wr total : spec_float),
  Forall2 is_count (tab_vals p) csP -> (0 < Zsum csP < 2 ^ 24)%Z -> (length csP <= 22)%nat ->
  Forall2 is_count (tab_vals r) csR -> Forall2 is_count (tab_vals l) csL ->
  (0 < Zsum csR)%Z -> (0 < Zsum csL)%Z -> (Zsum csR + Zsum csL < 2 ^ 24)%Z ->
  (length csR <= 22)%nat -> (length csL <= 22)%nat ->
  okf wr -> val wr = IZR (Zsum csR) -> okf total -> val total = IZR (Zsum csR + Zsum csL) ->
  let W := IZR (Zsum csR) / IZR (Zsum csR + Zsum csL) in
  let D := rgini (map IZR csP) - (W * rgini (map IZR csR) + (1 - W) * rgini (map IZR csL)) in
  Rabs (val (sub B32_ops (gini B32_ops p) (split_score B32_ops (gini B32_ops) total r l wr)) - D) <= / 262144.
Proof. exact decrease32_within_tolerance. Qed.
