(** C14 (round 5) - executable definitions that name the row masks of the recursion of
    [fit_node] (C14/Model.v), so that theorems can speak about "the rows routed to a node while
    fitting".  [left_mask] / [right_mask] are, verbatim, the two [map2] terms inside [fit_node]
    (`mask & (x[feature] <= split_value)` and `mask & !(x[feature] <= split_value)`); [mask_at]
    iterates them along a path of the fitted tree; [fit_unpruned] is the tree before `prune`.
    No proofs in this file. *)
From Coq Require Import List NArith Bool Arith.
From LinfaVerif Require Import Common.Num C14.Model.
Import ListNotations.
Local Open Scope nat_scope.

Section MasksR5.
Context {X : Type} (ox : NumOps X).
Variable xs : list (list X).             (* records, row major *)

(** rows of the node that go to the left / right child when the node splits on ([f], [thr]) *)
Definition left_mask (mask : list bool) (f : nat) (thr : X) : list bool :=
  map2 (fun (m : bool) row => m && leb ox (feat_of ox row f) thr) mask xs.
Definition right_mask (mask : list bool) (f : nat) (thr : X) : list bool :=
  map2 (fun (m : bool) row => m && negb (leb ox (feat_of ox row f) thr)) mask xs.

(** the mask of the node reached from the root (mask [mask]) by [path] ([true] = left child) *)
Fixpoint mask_at (mask : list bool) (t : tree X) (path : list bool) {struct path} : list bool :=
  match path with
  | [] => mask
  | b :: p =>
      match t with
      | Leaf _ _ => mask
      | Node _ f thr _ l r =>
          if b then mask_at (left_mask mask f thr) l p else mask_at (right_mask mask f thr) r p
      end
  end.

Definition full_mask : list bool := map (fun _ => true) xs.
End MasksR5.

Section FitR5.
Context {W X : Type} (ow : NumOps W) (ox : NumOps X) (cast : W -> X).
Variable imp : freq_tab (W := W) -> W.
Variable H : hyper (W := W) (X := X).
Variable xs : list (list X).
Variable ys : list nat.
Variable ws : list W.
Variable ncls : nat.

Definition presorted (nfeat : nat) : list (list (nat * X)) :=
  map (fun j => sorted_index ox (column ox xs j)) (seq 0 nfeat).

(** Fit::fit before `root_node.prune()` *)
Definition fit_unpruned (nfeat : nat) : option (tree X) :=
  fit_node ow ox cast imp H xs ys ws ncls (presorted nfeat) (S (length xs)) (full_mask xs) 0.
End FitR5.
