(** C14 - binary64 level: the prediction function executed on primitive floats (the arithmetic the
    correspondence runs against `DecisionTree::predict` on every case) takes, on finite thresholds
    and finite query points, exactly the decisions of the real-number prediction on the exact values.
    Hence the statements of C14/Properties.v about [predict R_ops] carry over to [predict B64_ops].
    Coq's primitive floats are related to Flocq's [binary_float 53 1024] by Flocq's
    IEEE754/PrimFloat.v ([Prim2B], [leb_equiv], [ltb_equiv]) and the comparisons of that type to the
    order of the reals by [Bleb_correct] / [Bltb_correct]. *)
From Coq Require Import ZArith QArith Qreals Reals Floats SpecFloat List Lra Lia Bool.
From Flocq Require Import Core BinarySingleNaN PrimFloat.
From LinfaVerif Require Import Common.Num Common.QF C14.Model C14.Proofs.
Import ListNotations.

#[local] Existing Instance Hprec.
#[local] Existing Instance Hmax.

(** the real value of a binary64 number (0 for infinities and NaN) *)
Definition f64_R (x : PrimFloat.float) : R := B2R (Prim2B x).

Lemma pow_pos_IZR p : IZR (Z.pow_pos 2 p) = bpow radix2 (Zpos p).
Proof. simpl. reflexivity. Qed.

Lemma Q2R_Qpow2 e : Q2R (Qpow2 e) = bpow radix2 e.
Proof.
  destruct e as [|p|p]; unfold Qpow2.
  - unfold Q2R; simpl. lra.
  - unfold Q2R, inject_Z; simpl. lra.
  - unfold Q2R; simpl. rewrite Pos2Z.inj_pow. change (Z.pos 2) with 2%Z.
    rewrite <- Z.pow_pos_fold. lra.
Qed.

Lemma Q2R_SF2Qd x : Q2R (SF2Qd x) = SF2R radix2 x.
Proof.
  destruct x as [s|s| |s m e]; unfold SF2Qd, SF2Q, SF2R; try (unfold Q2R; simpl; lra).
  rewrite (Qeq_eqR _ _ (Qred_correct _)), Q2R_mult, Q2R_Qpow2.
  unfold F2R; simpl. f_equal. unfold Q2R, inject_Z; simpl. destruct s; simpl; lra.
Qed.

Lemma f64_Q_R x : Q2R (f64_Q x) = f64_R x.
Proof. unfold f64_Q, f64_R. rewrite Q2R_SF2Qd, <- B2SF_Prim2B. apply SF2R_B2SF. Qed.

Lemma f64_finite_is_finite x : f64_finite x = is_finite (Prim2B x).
Proof. unfold f64_finite. rewrite <- B2SF_Prim2B. destruct (Prim2B x); reflexivity. Qed.

Lemma leb_f64 a b : f64_finite a = true -> f64_finite b = true ->
  PrimFloat.leb a b = Rleb (f64_R a) (f64_R b).
Proof.
  rewrite !f64_finite_is_finite. intros Ha Hb. rewrite leb_equiv, (Bleb_correct _ _ _ _ Ha Hb).
  unfold f64_R, Rleb. destruct (Rle_bool_spec (B2R (Prim2B a)) (B2R (Prim2B b))) as [H|H];
    destruct (Rle_dec (B2R (Prim2B a)) (B2R (Prim2B b))); auto; lra.
Qed.

Lemma ltb_f64 a b : f64_finite a = true -> f64_finite b = true ->
  PrimFloat.ltb a b = Rltb (f64_R a) (f64_R b).
Proof.
  rewrite !f64_finite_is_finite. intros Ha Hb. rewrite ltb_equiv, (Bltb_correct _ _ _ _ Ha Hb).
  unfold f64_R, Rltb. destruct (Rlt_bool_spec (B2R (Prim2B a)) (B2R (Prim2B b))) as [H|H];
    destruct (Rlt_dec (B2R (Prim2B a)) (B2R (Prim2B b))); auto; lra.
Qed.

Lemma f64_R_zero : f64_R 0%float = 0%R.
Proof. rewrite <- f64_Q_R. unfold Q2R. vm_compute (f64_Q 0). simpl. lra. Qed.

(** all thresholds of the tree are finite *)
Fixpoint thresholds_finite (t : tree PrimFloat.float) : bool :=
  match t with
  | Leaf _ _ => true
  | Node _ _ thr _ l r => f64_finite thr && thresholds_finite l && thresholds_finite r
  end.

Lemma nth_finite x f : forallb f64_finite x = true -> f64_finite (nth f x 0%float) = true.
Proof.
  revert f; induction x as [|a x IH]; intros [|f] H; simpl in *; try reflexivity.
  - apply andb_true_iff in H; tauto.
  - apply IH. apply andb_true_iff in H; tauto.
Qed.

Lemma goes_left_f64 le v thr : f64_finite v = true -> f64_finite thr = true ->
  goes_left B64_ops le v thr = goes_left R_ops le (f64_R v) (f64_R thr).
Proof. intros Hv Ht. destruct le; simpl; [apply leb_f64 | apply ltb_f64]; assumption. Qed.

(** prediction and routing in binary64 = prediction and routing over the reals on the exact values *)
Lemma predict_f64_R le (t : tree PrimFloat.float) (x : list PrimFloat.float) :
  thresholds_finite t = true -> forallb f64_finite x = true ->
  predict B64_ops le t x = predict R_ops le (tmap f64_R t) (map f64_R x) /\
  route B64_ops le t x = route R_ops le (tmap f64_R t) (map f64_R x).
Proof.
  intros Ht Hx. induction t as [d p|d f thr dec l IHl r IHr]; cbn [predict route tmap]; [split; reflexivity|].
  cbn [thresholds_finite] in Ht. apply andb_true_iff in Ht as [Ht Hr]. apply andb_true_iff in Ht as [Ht Hl].
  destruct (IHl Hl) as [Pl Rl]. destruct (IHr Hr) as [Pr Rr].
  change (zero B64_ops) with 0%float. change (zero R_ops) with 0%R.
  rewrite <- f64_R_zero, map_nth, <- goes_left_f64 by (auto using nth_finite).
  destruct (goes_left B64_ops le (nth f x 0%float) thr); split; congruence.
Qed.

Lemma tmap_tmap {X Y Z} (g : X -> Y) (h : Y -> Z) (t : tree X) : tmap h (tmap g t) = tmap (fun x => h (g x)) t.
Proof. induction t as [|d f thr dec l IHl r IHr]; simpl; congruence. Qed.
Lemma tmap_ext {X Y} (g h : X -> Y) (t : tree X) : (forall x, g x = h x) -> tmap g t = tmap h t.
Proof. intros E. induction t as [|d f thr dec l IHl r IHr]; simpl; rewrite ?E; congruence. Qed.

Lemma tmap_f64_R t : tmap Q2R (tmap f64_Q t) = tmap f64_R t.
Proof. rewrite tmap_tmap. apply tmap_ext. exact f64_Q_R. Qed.

(** whatever finite point is queried, the binary64 prediction of a tree the checker accepts is the
    label of some training sample *)
Lemma chk_tree_predict_label_f64 P gc itol smp (t : tree PrimFloat.float) imps x :
  chk_tree P gc itol smp (tmap f64_Q t) imps = 0%N ->
  thresholds_finite t = true -> forallb f64_finite x = true ->
  In (predict B64_ops (qp_le P) t x) (map qs_y smp).
Proof.
  intros H Ht Hx. rewrite (proj1 (predict_f64_R (qp_le P) t x Ht Hx)), <- tmap_f64_R.
  apply (chk_tree_predict_label P gc itol smp (tmap f64_Q t) imps H).
Qed.

(** non-vacuity: a tree with finite thresholds, a finite query, both routings agree *)
Example ex_predict_f64 :
  let t := Node 0 0 1.5%float 0.5%float (Leaf 1 0) (Leaf 1 1) in
  thresholds_finite t = true /\ forallb f64_finite [2%float] = true /\ predict B64_ops true t [2%float] = 1%nat.
Proof. vm_compute. auto. Qed.
