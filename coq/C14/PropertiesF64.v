(** C14 - property theorems at the binary64 level (statements only; proofs are in C14/ProofsF64.v).

    Reading guide.  [predict B64_ops le t x] is the Gallina transliteration of make_prediction
    executed on Coq's primitive binary64 floats - the function the correspondence compares with
    `DecisionTree::predict` on every case (training rows and queries on / next to every threshold,
    corr bit 2).  [f64_R x] is the real value of the float [x], [f64_Q x] the same value as an exact
    rational (what the checker [chk_tree] computes with), [thresholds_finite t]: no threshold of the
    tree is an infinity or NaN, [f64_finite]: the same for a coordinate of the query. *)
From Coq Require Import NArith QArith Reals Floats List.
From LinfaVerif Require Import Common.Num Common.QF C14.Model C14.Proofs C14.ProofsF64.
Import ListNotations.

(** on finite thresholds and finite queries the binary64 prediction takes exactly the decisions of
    the real-number prediction on the exact values: same label, same path *)
Theorem float_prediction_is_real_prediction :
  forall le (t : tree PrimFloat.float) (x : list PrimFloat.float),
  thresholds_finite t = true -> forallb f64_finite x = true ->
  predict B64_ops le t x = predict R_ops le (tmap f64_R t) (map f64_R x) /\
  route B64_ops le t x = route R_ops le (tmap f64_R t) (map f64_R x).
Proof. exact predict_f64_R. Qed.

(** predicted labels are labels seen in training, at the level of the floats: whatever finite point
    is queried, the binary64 prediction of a tree the checker accepts (run on the exact rational
    values of its floats) is the label of some training sample *)
Theorem float_predictions_seen_in_training :
  forall P gc itol smp (t : tree PrimFloat.float) imps (x : list PrimFloat.float),
  chk_tree P gc itol smp (tmap f64_Q t) imps = 0%N ->
  thresholds_finite t = true -> forallb f64_finite x = true ->
  In (predict B64_ops (qp_le P) t x) (map qs_y smp).
Proof. exact chk_tree_predict_label_f64. Qed.
