(** C14 - T2: the split search of TreeNode::fit returns a candidate of minimal score.

    The functional model of the search is [best_split] / [sweep] of C14/Model.v (for every feature a
    sweep over the presorted column, moving weight from the right to the left table).  This file
    states declaratively which splits the sweep considers ([split_candidate]: the ADMISSIBLE
    candidates, exactly as the code defines them) and proves that the result of [best_split] is the
    first candidate, in (feature, position) order, of minimal score. *)
From Coq Require Import List NArith Bool Arith Lia Reals Lra.
From LinfaVerif Require Import Common.Num C14.Model.
Import ListNotations.
Local Open Scope nat_scope.

Section Split.
Context {W X : Type} (ow : NumOps W) (ox : NumOps X).
Variable imp : freq_tab (W := W) -> W.       (* split criterion (Gini / entropy) *)
Variable H : hyper (W := W) (X := X).
Variable ys : list nat.                      (* class of every row *)
Variable ws : list W.                        (* weight of every row *)
Variable ncls : nat.

Definition cand : Type := nat * X * W.       (* (feature, threshold, score) *)
Definition score (c : cand) : W := snd c.

Definition cls (idx : nat) : nat := nth idx ys 0.
Definition wgt (idx : nat) : W := nth idx ws (one ow).

(** the rows moved to the left side when the split is placed between positions i and i+1 of the
    presorted column [sv]: the rows of the node (mask) among the first i+1 entries, in that order *)
Definition moved (mask : list bool) (sv : list (nat * X)) (i : nat) : list nat :=
  filter (fun idx => nth idx mask false) (map fst (firstn (S i) sv)).

(** class tables and running weights after these rows have moved, from given start values *)
Definition right_tab (r0 : freq_tab) (mv : list nat) : freq_tab :=
  fold_left (fun t idx => tab_sub ow t (cls idx) (wgt idx)) mv r0.
Definition left_tab (l0 : freq_tab) (mv : list nat) : freq_tab :=
  fold_left (fun t idx => tab_add ow t (cls idx) (wgt idx)) mv l0.
Definition right_weight (wr0 : W) (mv : list nat) : W := fold_left (fun a idx => sub ow a (wgt idx)) mv wr0.
Definition left_weight (wl0 : W) (mv : list nat) : W := fold_left (fun a idx => add ow a (wgt idx)) mv wl0.

(** the threshold: the midpoint, or the lower value when the midpoint is not below the next value *)
Definition threshold (v vnext : X) : X :=
  let mid := div ox (add ox v vnext) (h_two H) in
  if h_le H && negb (ltb ox mid vnext) then v else mid.

(** the score: w * imp(right) + (1 - w) * imp(left) with w = right weight / total weight *)
Definition split_score (total : W) (r l : freq_tab) (wr : W) : W :=
  let wfrac := div ow wr total in
  add ow (mul ow wfrac (imp r)) (mul ow (sub ow (one ow) wfrac) (imp l)).

(** generalised to arbitrary start values (needed for the induction) *)
Definition cand_gen (total : W) (mask : list bool) (f : nat) (sv : list (nat * X))
           (r0 l0 : freq_tab) (wr0 wl0 : W) (i : nat) : option cand :=
  match nth_error sv i, nth_error sv (S i) with
  | Some (idx, v), Some (_, vnext) =>
      let mv := moved mask sv i in
      if nth idx mask false
         && negb (ltb ox (abs ox (sub ox v vnext)) (h_eps H))
         && negb (ltb ow (right_weight wr0 mv) (h_mwl H) || ltb ow (left_weight wl0 mv) (h_mwl H))
      then Some (f, threshold v vnext,
                 split_score total (right_tab r0 mv) (left_tab l0 mv) (right_weight wr0 mv))
      else None
  | _, _ => None
  end.

(** ** the admissible candidate splits, as the code defines them

    The split of feature [f] (presorted column [sv]) between positions [i] and [i+1] is a
    candidate of the node with row mask [mask] and class table [tab] iff
    - position i+1 exists (the last sorted value is never moved),
    - the row at position i belongs to the node,
    - the values at positions i and i+1 differ by at least h_eps (F::cast(1e-5)); note that the
      entry at position i+1 need not belong to the node,
    - after moving the node's rows among positions 0..i from the right to the left, both running
      weights (right: total - w - w ..., left: 0 + w + w ...) are not below min_weight_leaf.
    Its threshold is [threshold v vnext] and its score [split_score]. *)
Definition split_candidate (mask : list bool) (tab : freq_tab) (f : nat) (sv : list (nat * X)) (i : nat)
  : option cand :=
  cand_gen (tab_sum ow tab) mask f sv tab (repeat None ncls) (tab_sum ow tab) (zero ow) i.

Definition opt_list {A} (o : option A) : list A := match o with Some a => [a] | None => [] end.

Definition cands_gen total mask f sv r0 l0 wr0 wl0 : list cand :=
  flat_map (fun i => opt_list (cand_gen total mask f sv r0 l0 wr0 wl0 i)) (seq 0 (pred (length sv))).

(** all candidates of a node in the order the search visits them: features in increasing order,
    within a feature the positions of the presorted column in increasing order *)
Definition feature_candidates (mask : list bool) (tab : freq_tab) (f : nat) (sv : list (nat * X)) : list cand :=
  flat_map (fun i => opt_list (split_candidate mask tab f sv i)) (seq 0 (pred (length sv))).
Definition split_candidates (sorted : list (list (nat * X))) (mask : list bool) (tab : freq_tab) : list cand :=
  flat_map (fun fsv => feature_candidates mask tab (fst fsv) (snd fsv)) (combine (seq 0 (length sorted)) sorted).

(** `best = match best { None => new, Some(b) if score < b.score => new, x => x }` *)
Definition upd_best (b : option cand) (c : cand) : option cand :=
  match b with
  | None => Some c
  | Some (_, _, bs) => if ltb ow (score c) bs then Some c else b
  end.

(* ---------------------------------------------------------------------------------------- *)
(** * the sweep computes the fold of [upd_best] over the candidates *)

Lemma moved_cons mask idx v rest i :
  moved mask ((idx, v) :: rest) (S i) = (if nth idx mask false then [idx] else []) ++ moved mask rest i.
Proof. unfold moved. simpl. destruct (nth idx mask false); reflexivity. Qed.

Lemma moved_0 mask idx v rest :
  moved mask ((idx, v) :: rest) 0 = if nth idx mask false then [idx] else [].
Proof. unfold moved. simpl. destruct (nth idx mask false); reflexivity. Qed.

Lemma cand_gen_shift total mask f idx v rest r0 l0 wr0 wl0 i :
  cand_gen total mask f ((idx, v) :: rest) r0 l0 wr0 wl0 (S i) =
  if nth idx mask false
  then cand_gen total mask f rest (tab_sub ow r0 (cls idx) (wgt idx)) (tab_add ow l0 (cls idx) (wgt idx))
                (sub ow wr0 (wgt idx)) (add ow wl0 (wgt idx)) i
  else cand_gen total mask f rest r0 l0 wr0 wl0 i.
Proof.
  unfold cand_gen. rewrite moved_cons. simpl nth_error.
  destruct (nth_error rest i) as [[idx1 v1]|]; [|destruct (nth idx mask false); reflexivity].
  destruct (nth_error rest (S i)) as [[idx2 v2]|]; [|destruct (nth idx mask false); reflexivity].
  destruct (nth idx mask false); reflexivity.
Qed.

Lemma cands_gen_cons total mask f idx v p rest r0 l0 wr0 wl0 :
  cands_gen total mask f ((idx, v) :: p :: rest) r0 l0 wr0 wl0 =
  opt_list (cand_gen total mask f ((idx, v) :: p :: rest) r0 l0 wr0 wl0 0) ++
  (if nth idx mask false
   then cands_gen total mask f (p :: rest) (tab_sub ow r0 (cls idx) (wgt idx))
                  (tab_add ow l0 (cls idx) (wgt idx)) (sub ow wr0 (wgt idx)) (add ow wl0 (wgt idx))
   else cands_gen total mask f (p :: rest) r0 l0 wr0 wl0).
Proof.
  unfold cands_gen. simpl length. simpl pred.
  change (seq 0 (S (length rest))) with (0 :: seq 1 (length rest)).
  rewrite <- seq_shift. simpl flat_map. f_equal.
  rewrite flat_map_concat_map, map_map, <- flat_map_concat_map.
  destruct (nth idx mask false) eqn:E.
  - apply flat_map_ext. intros i. rewrite cand_gen_shift, E. reflexivity.
  - apply flat_map_ext. intros i. rewrite cand_gen_shift, E. reflexivity.
Qed.

Lemma sweep_step f total mask idx v idx' vnext rest' st :
  sweep ow ox imp H ys ws f total mask ((idx, v) :: (idx', vnext) :: rest') st =
  let rest := (idx', vnext) :: rest' in
  if negb (nth idx mask false) then sweep ow ox imp H ys ws f total mask rest st
  else
    let c := nth idx ys 0%nat in
    let w := nth idx ws (one ow) in
    let right := tab_sub ow (ss_right st) c w in
    let wr := sub ow (ss_wr st) w in
    let left := tab_add ow (ss_left st) c w in
    let wl := add ow (ss_wl st) w in
    let moved := {| ss_right := right; ss_left := left; ss_wr := wr; ss_wl := wl;
                    ss_best := ss_best st |} in
    if ltb ox (abs ox (sub ox v vnext)) (h_eps H) then sweep ow ox imp H ys ws f total mask rest moved
    else if ltb ow wr (h_mwl H) || ltb ow wl (h_mwl H) then sweep ow ox imp H ys ws f total mask rest moved
    else
      let wfrac := div ow wr total in
      let score := add ow (mul ow wfrac (imp right))
                          (mul ow (sub ow (one ow) wfrac) (imp left)) in
      let mid := div ox (add ox v vnext) (h_two H) in
      let thr := if h_le H && negb (ltb ox mid vnext) then v else mid in
      let best' :=
        match ss_best st with
        | None => Some (f, thr, score)
        | Some (_, _, bs) => if ltb ow score bs then Some (f, thr, score) else ss_best st
        end in
      sweep ow ox imp H ys ws f total mask rest
            {| ss_right := right; ss_left := left; ss_wr := wr; ss_wl := wl; ss_best := best' |}.
Proof. reflexivity. Qed.

Lemma sweep_spec f total mask : forall sv st,
  ss_best (sweep ow ox imp H ys ws f total mask sv st) =
  fold_left upd_best
            (cands_gen total mask f sv (ss_right st) (ss_left st) (ss_wr st) (ss_wl st)) (ss_best st).
Proof.
  induction sv as [|[idx v] rest IH]; intros st; [reflexivity|].
  destruct rest as [|[idx' vnext] rest']; [reflexivity|].
  rewrite cands_gen_cons, sweep_step. cbv zeta.
  unfold cand_gen at 1. cbn [nth_error]. rewrite moved_0.
  fold (cls idx). fold (wgt idx).
  destruct (nth idx mask false) eqn:Em; cbn [negb andb].
  2:{ cbn [opt_list app]. apply IH. }
  cbn [right_weight left_weight right_tab left_tab fold_left].
  destruct (ltb ox (abs ox (sub ox v vnext)) (h_eps H)) eqn:Eeps; cbn [negb andb].
  { cbn [opt_list app]. rewrite IH. reflexivity. }
  destruct (ltb ow (sub ow (ss_wr st) (wgt idx)) (h_mwl H) || ltb ow (add ow (ss_wl st) (wgt idx)) (h_mwl H)) eqn:Ew;
    cbn [negb].
  { cbn [opt_list app]. rewrite IH. reflexivity. }
  cbn [opt_list app fold_left]. rewrite IH. cbn [ss_right ss_left ss_wr ss_wl ss_best].
  reflexivity.
Qed.

Lemma fold_left_flat_map {A B C} (g : A -> B -> A) (h : C -> list B) : forall l a,
  fold_left g (flat_map h l) a = fold_left (fun a x => fold_left g (h x) a) l a.
Proof. induction l as [|x l IH]; intros a; simpl; [reflexivity|]. rewrite fold_left_app. apply IH. Qed.

Lemma best_split_fold sorted mask tab :
  best_split ow ox imp H ys ws ncls sorted mask tab =
  fold_left upd_best (split_candidates sorted mask tab) None.
Proof.
  unfold best_split, split_candidates. rewrite fold_left_flat_map.
  assert (G : forall (l : list (nat * list (nat * X))) (b : option cand),
    fold_left (fun best fsv =>
                 ss_best (sweep ow ox imp H ys ws (fst fsv) (tab_sum ow tab) mask (snd fsv)
                                {| ss_right := tab; ss_left := repeat None ncls;
                                   ss_wr := tab_sum ow tab; ss_wl := zero ow; ss_best := best |})) l b =
    fold_left (fun a x => fold_left upd_best (feature_candidates mask tab (fst x) (snd x)) a) l b).
  { induction l as [|fsv l IH]; intros b; [reflexivity|].
    cbn [fold_left]. rewrite sweep_spec. cbn [ss_right ss_left ss_wr ss_wl ss_best]. apply IH. }
  apply G.
Qed.

(* ---------------------------------------------------------------------------------------- *)
(** * a fold of [upd_best] returns the first element of minimal score *)

(** the order on scores need only be a strict weak order (`<` on the reals; `<` on floats without
    NaN) *)
Record strict_weak_order : Prop := {
  swo_trans : forall a b c : W, ltb ow a b = true -> ltb ow b c = true -> ltb ow a c = true;
  swo_negtrans : forall a b c : W, ltb ow a b = true -> ltb ow a c = true \/ ltb ow c b = true
}.

Lemma fold_upd_best_spec (SW : strict_weak_order) : forall l b0,
  match fold_left upd_best l b0 with
  | None => b0 = None /\ l = []
  | Some c =>
      (b0 = Some c /\ forall c', In c' l -> ltb ow (score c') (score c) = false) \/
      (exists l1 l2, l = l1 ++ c :: l2 /\
         (forall b, b0 = Some b -> ltb ow (score c) (score b) = true) /\
         (forall c', In c' l1 -> ltb ow (score c) (score c') = true) /\
         (forall c', In c' l2 -> ltb ow (score c') (score c) = false))
  end.
Proof.
  destruct SW as [Ht Hn].
  induction l as [|a l IH]; intros b0.
  - simpl. destruct b0 as [c|]; [left; split; [reflexivity|intros c' []]|split; reflexivity].
  - cbn [fold_left]. specialize (IH (upd_best b0 a)).
    destruct (fold_left upd_best l (upd_best b0 a)) as [c|].
    2:{ destruct IH as [E _]. destruct b0 as [[[bf bt] bs]|]; simpl in E; [destruct (ltb ow (score a) bs)|]; discriminate. }
    destruct IH as [[E Hl]|(l1 & l2 & El & Hb & H1 & H2)].
    + destruct b0 as [[[bf bt] bs]|]; cbn [upd_best] in E.
      * destruct (ltb ow (score a) bs) eqn:Ea.
        -- injection E as <-. right. exists [], l. split; [reflexivity|]. split.
           { intros b Eb. injection Eb as <-. exact Ea. }
           split; [intros c' []|exact Hl].
        -- injection E as <-. left. split; [reflexivity|]. intros c' [<-|Hc]; [exact Ea|apply Hl, Hc].
      * injection E as <-. right. exists [], l. split; [reflexivity|]. split; [intros b Eb; discriminate|].
        split; [intros c' []|exact Hl].
    + right. exists (a :: l1), l2. split; [rewrite El; reflexivity|].
      destruct b0 as [[[bf bt] bs]|]; cbn [upd_best] in Hb.
      * destruct (ltb ow (score a) bs) eqn:Ea.
        -- pose proof (Hb _ eq_refl) as Hca. split.
           { intros b Eb. injection Eb as <-. cbn [score snd]. exact (Ht _ _ _ Hca Ea). }
           split; [|exact H2]. intros c' [<-|Hc]; [exact Hca|apply H1, Hc].
        -- pose proof (Hb _ eq_refl) as Hcb. cbn [score snd] in Hcb. split.
           { intros b Eb. injection Eb as <-. exact Hcb. }
           split; [|exact H2]. intros c' [<-|Hc]; [|apply H1, Hc].
           destruct (Hn _ _ (score a) Hcb) as [Hx|Hx]; [exact Hx|]. rewrite Hx in Ea. discriminate.
      * pose proof (Hb _ eq_refl) as Hca. split; [intros b Eb; discriminate|].
        split; [|exact H2]. intros c' [<-|Hc]; [exact Hca|apply H1, Hc].
Qed.

(** T2 over an abstract strict weak order on the scores *)
Theorem best_split_first_minimal (SW : strict_weak_order) sorted mask tab :
  match best_split ow ox imp H ys ws ncls sorted mask tab with
  | None => split_candidates sorted mask tab = []
  | Some c =>
      exists l1 l2, split_candidates sorted mask tab = l1 ++ c :: l2 /\
        (forall c', In c' l1 -> ltb ow (score c) (score c') = true) /\
        (forall c', In c' l2 -> ltb ow (score c') (score c) = false)
  end.
Proof.
  rewrite best_split_fold.
  pose proof (fold_upd_best_spec SW (split_candidates sorted mask tab) None) as S.
  destruct (fold_left upd_best (split_candidates sorted mask tab) None) as [c|].
  - destruct S as [[E _]|(l1 & l2 & El & _ & H1 & H2)]; [discriminate|].
    exists l1, l2. auto.
  - apply S.
Qed.

(** membership in the candidate list = being an admissible candidate at some position *)
Lemma in_opt_list {A} (o : option A) a : In a (opt_list o) <-> o = Some a.
Proof. destruct o as [b|]; simpl; split; intros E; try tauto; try discriminate.
  - destruct E as [<-|[]]. reflexivity.
  - injection E as <-. auto.
Qed.

Lemma cand_gen_range total mask f sv r0 l0 wr0 wl0 i c :
  cand_gen total mask f sv r0 l0 wr0 wl0 i = Some c -> i < pred (length sv).
Proof.
  unfold cand_gen. destruct (nth_error sv i) as [[idx v]|] eqn:E1; [|discriminate].
  destruct (nth_error sv (S i)) as [[idx2 v2]|] eqn:E2; [|discriminate]. intros _.
  assert (S i < length sv) by (apply nth_error_Some; rewrite E2; discriminate). lia.
Qed.

Lemma nth_error_combine_seq {A} (l : list A) : forall a k,
  nth_error (combine (seq a (length l)) l) k =
  match nth_error l k with Some x => Some (a + k, x) | None => None end.
Proof.
  induction l as [|x0 l IH]; intros a k; [destruct k; reflexivity|].
  destruct k; simpl; [f_equal; f_equal; lia|]. rewrite IH. destruct (nth_error l k); [f_equal; f_equal; lia|reflexivity].
Qed.

Lemma in_split_candidates sorted mask tab c :
  In c (split_candidates sorted mask tab) <->
  exists f sv i, nth_error sorted f = Some sv /\ split_candidate mask tab f sv i = Some c.
Proof.
  unfold split_candidates, feature_candidates. rewrite in_flat_map. split.
  - intros ([f sv] & Hin & Hc). apply in_flat_map in Hc as (i & _ & Hi). apply in_opt_list in Hi.
    exists f, sv, i. split; [|exact Hi].
    apply In_nth_error in Hin as (k & Ek). rewrite nth_error_combine_seq in Ek.
    destruct (nth_error sorted k) as [sv'|] eqn:Es; [|discriminate].
    injection Ek as <- <-. exact Es.
  - intros (f & sv & i & Es & Hc). exists (f, sv). split.
    + apply nth_error_In with (n := f). rewrite nth_error_combine_seq, Es. reflexivity.
    + simpl. apply in_flat_map. exists i. split; [|apply in_opt_list, Hc].
      apply in_seq. pose proof (cand_gen_range _ _ _ _ _ _ _ _ _ _ Hc). lia.
Qed.

End Split.

(* ---------------------------------------------------------------------------------------- *)
(** * over the reals *)

Lemma R_strict_weak_order : strict_weak_order R_ops.
Proof.
  split; simpl.
  - intros a b c H1 H2. apply Rltb_true in H1, H2. apply Rltb_true. lra.
  - intros a b c H1. apply Rltb_true in H1. destruct (Rlt_dec a c) as [Hc|Hc].
    + left. apply Rltb_true, Hc.
    + right. apply Rltb_true. lra.
Qed.

Lemma best_split_minimal_R (imp : freq_tab (W := R) -> R) (H : hyper (W := R) (X := R)) ys ws ncls sorted mask tab :
  match best_split R_ops R_ops imp H ys ws ncls sorted mask tab with
  | None => forall f sv i, nth_error sorted f = Some sv -> split_candidate R_ops R_ops imp H ys ws ncls mask tab f sv i = None
  | Some (bf, thr, s) =>
      (exists sv i, nth_error sorted bf = Some sv /\
                    split_candidate R_ops R_ops imp H ys ws ncls mask tab bf sv i = Some (bf, thr, s)) /\
      (forall f sv i f' thr' s', nth_error sorted f = Some sv ->
         split_candidate R_ops R_ops imp H ys ws ncls mask tab f sv i = Some (f', thr', s') -> (s <= s')%R)
  end.
Proof.
  pose proof (best_split_first_minimal R_ops R_ops imp H ys ws ncls R_strict_weak_order sorted mask tab) as T.
  destruct (best_split R_ops R_ops imp H ys ws ncls sorted mask tab) as [[[bf thr] s]|].
  - destruct T as (l1 & l2 & El & H1 & H2). split.
    + assert (Hin : In (bf, thr, s) (split_candidates R_ops R_ops imp H ys ws ncls sorted mask tab))
        by (rewrite El; apply in_or_app; right; left; reflexivity).
      apply in_split_candidates in Hin as (f & sv & i & Es & Ec).
      assert (f = bf).
      { unfold split_candidate, cand_gen in Ec.
        destruct (nth_error sv i) as [[? ?]|]; [|discriminate]. destruct (nth_error sv (S i)) as [[? ?]|]; [|discriminate].
        destruct (_ && _ && _); [|discriminate]. injection Ec as -> _ _. reflexivity. }
      subst f. exists sv, i. auto.
    + intros f sv i f' thr' s' Es Ec.
      assert (Hin : In (f', thr', s') (split_candidates R_ops R_ops imp H ys ws ncls sorted mask tab))
        by (apply in_split_candidates; exists f, sv, i; auto).
      rewrite El in Hin. apply in_app_or in Hin as [Hin|[Hin|Hin]].
      * apply H1 in Hin. simpl in Hin. apply Rltb_true in Hin. unfold score in Hin. simpl in Hin. lra.
      * injection Hin as _ _ <-. lra.
      * apply H2 in Hin. simpl in Hin. apply Rltb_false in Hin. unfold score in Hin. simpl in Hin. lra.
  - intros f sv i Es. destruct (split_candidate R_ops R_ops imp H ys ws ncls mask tab f sv i) as [c|] eqn:Ec; [|reflexivity].
    assert (Hin : In c (split_candidates R_ops R_ops imp H ys ws ncls sorted mask tab))
      by (apply in_split_candidates; exists f, sv, i; auto).
    rewrite T in Hin. destruct Hin.
Qed.

(* ---------------------------------------------------------------------------------------- *)
(** * Example (the statements are not vacuous): exact rational arithmetic, one feature with the
      values 0,1,2,3 and the classes 0,0,1,1: three admissible candidates with the Gini scores
      1/3, 0, 1/3; the search returns the middle one with threshold 3/2 *)
From Coq Require Import QArith.
From LinfaVerif Require Import Common.QF.
Local Close Scope Q_scope.

Definition Qx_ops : NumOps Q :=
  mkNumOps Q 0%Q 1%Q Qplus Qminus Qmult Qdiv Qopp Qabs' (fun x => x) Qltb Qleb Qeq_bool
           (fun n => inject_Z (Z.of_N n)).

Lemma Qltb_lt a b : Qltb a b = true <-> (a < b)%Q.
Proof.
  unfold Qltb. rewrite negb_true_iff. split; intros E.
  - apply Qnot_le_lt. intros C. apply Qle_bool_iff in C. rewrite C in E. discriminate.
  - destruct (Qle_bool b a) eqn:C; [|reflexivity]. apply Qle_bool_iff in C. exfalso. exact (Qlt_not_le _ _ E C).
Qed.

Lemma Q_strict_weak_order : strict_weak_order Qx_ops.
Proof.
  split; simpl.
  - intros a b c H1 H2. apply Qltb_lt in H1, H2. apply Qltb_lt. exact (Qlt_trans _ _ _ H1 H2).
  - intros a b c H1. apply Qltb_lt in H1. destruct (Qlt_le_dec a c) as [Hc|Hc].
    + left. apply Qltb_lt, Hc.
    + right. apply Qltb_lt. exact (Qle_lt_trans _ _ _ Hc H1).
Qed.

Definition exH : hyper (W := Q) (X := Q) :=
  {| h_maxdepth := None; h_mws := 2%Q; h_mwl := 1%Q; h_mid := (1 # 100000)%Q; h_eps := (1 # 100000)%Q;
     h_two := 2%Q; h_le := true |}.
Definition ex_sorted : list (list (nat * Q)) := [[(0, 0%Q); (1, 1%Q); (2, 2%Q); (3, 3%Q)]].
Definition ex_ys := [0; 0; 1; 1].
Definition ex_ws := [1%Q; 1%Q; 1%Q; 1%Q].
Definition ex_mask := [true; true; true; true].
Definition ex_tab : freq_tab (W := Q) := [Some 2%Q; Some 2%Q].

Example ex_split_candidates :
  map (fun c => (fst (fst c), Qred (snd (fst c)), Qred (score c)))
      (split_candidates Qx_ops Qx_ops (gini Qx_ops) exH ex_ys ex_ws 2 ex_sorted ex_mask ex_tab)
  = [(0, (1 # 2)%Q, (1 # 3)%Q); (0, (3 # 2)%Q, 0%Q); (0, (5 # 2)%Q, (1 # 3)%Q)].
Proof. vm_compute. reflexivity. Qed.

Example ex_best_split :
  option_map (fun c : cand => (fst (fst c), Qred (snd (fst c)), Qred (score c)))
             (best_split Qx_ops Qx_ops (gini Qx_ops) exH ex_ys ex_ws 2 ex_sorted ex_mask ex_tab)
  = Some (0, (3 # 2)%Q, 0%Q).
Proof. vm_compute. reflexivity. Qed.

(** with min_weight_leaf = 2 only the middle position stays admissible; a masked-out row is skipped *)
Example ex_split_candidates_mwl2 :
  map (fun c => Qred (snd (fst c)))
      (split_candidates Qx_ops Qx_ops (gini Qx_ops)
         {| h_maxdepth := None; h_mws := 2%Q; h_mwl := 2%Q; h_mid := (1 # 100000)%Q; h_eps := (1 # 100000)%Q;
            h_two := 2%Q; h_le := true |} ex_ys ex_ws 2 ex_sorted ex_mask ex_tab)
  = [(3 # 2)%Q].
Proof. vm_compute. reflexivity. Qed.
