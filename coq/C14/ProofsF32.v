(** C14 - proved bounds for the binary32 evaluation of the Gini impurity, of the split score and of
    the reported impurity decrease (the allowance 2^-18 of the checker, for exact class counts).

    Part 1  links the SpecFloat operations at precision 24 / emax 128 (the arithmetic [B32_ops] the
            model of TreeNode::fit is executed with against the Rust code) to Flocq's IEEE-754
            formalisation: on valid finite operands, without overflow, every operation returns the
            correctly rounded (to nearest, ties to even) exact result.
    Part 2  analyses  1 - sum_c ((x_c / n) * (x_c / n)),  w * gR + (1 - w) * gL  and  gP - s  for any
            rounding operator with |rd x - x| <= u |x| + eta.
    Part 3  instantiates it for the model's [gini] run in binary32 on a table of exact counts
            (unit sample weights - or any weights whose class sums are integers - with a total
            below 2^24): the result is within (k + 6) * 2^-24 of the real Gini impurity, k the
            number of classes present ([gini32_error]).
    Part 4  the score of a candidate split ([split_score] of C14/ProofsSplit.v) within
            (k + 11) * 2^-24 and the decrease gini(parent) - score, as computed for F = f32, within
            (kP + k + 19) * 2^-24 of their real values; hence within 2^-18 for up to 22 classes.
    For F = f64 the two scores are widened exactly and subtracted in binary64 (a rounding of 2^-53
    instead of 2^-24): that last step is not covered here (SF2Prim on non-canonical operands). *)
From Coq Require Import ZArith Reals Lra Lia SpecFloat Bool List Psatz.
From Flocq Require Import Core Relative BinarySingleNaN.
From LinfaVerif Require Import Common.Num Common.QF Common.B32 C14.Model C14.Proofs C14.ProofsSplit.
Import ListNotations.

(* ---------------------------------------------------------------------------------------- *)
(** * Part 1: SpecFloat at binary32 = Flocq's binary_float 24 128 (the statements of
      Flocq.IEEE754.PrimFloat for binary64, replayed at single precision) *)
Local Instance Hprec32 : FLX.Prec_gt_0 24 := eq_refl _.
Local Instance Hmax32 : Prec_lt_emax 24 128 := eq_refl _.
Notation b32 := (binary_float 24 128).

Lemma rne_equiv s m l : round_nearest_even m l = choice_mode mode_NE s m l.
Proof.
case l; [reflexivity|intro c].
case c; [ | reflexivity..].
now simpl; unfold Round.cond_incr; case Z.even.
Qed.

Lemma bra_equiv sx mx ex lx :
  SpecFloat.binary_round_aux 24 128 sx mx ex lx = binary_round_aux 24 128 mode_NE sx mx ex lx.
Proof.
unfold SpecFloat.binary_round_aux, binary_round_aux.
set (mrse' := shr_fexp _ _ _ _ _).
case mrse'; intros mrs' e'; simpl.
now rewrite (rne_equiv sx).
Qed.

Lemma br_equiv s m e :
  SpecFloat.binary_round 24 128 s m e = binary_round 24 128 mode_NE s m e.
Proof.
unfold SpecFloat.binary_round, binary_round, shl_align_fexp.
set (mez := shl_align _ _ _); case mez as [mz ez].
apply bra_equiv.
Qed.

Lemma bn_equiv m e szero :
  SpecFloat.binary_normalize 24 128 m e szero
  = B2SF (binary_normalize 24 128 Hprec32 Hmax32 mode_NE m e szero).
Proof.
case m as [ | p | p].
- now simpl.
- simpl; rewrite B2SF_SF2B; apply br_equiv.
- simpl; rewrite B2SF_SF2B; apply br_equiv.
Qed.

Lemma SFadd_B (x y : b32) : SFadd 24 128 (B2SF x) (B2SF y) = B2SF (Bplus mode_NE x y).
Proof.
case x as [sx|sx| |sx mx ex Bx]; case y as [sy|sy| |sy my ey By];
  [now (trivial || simpl; case Bool.eqb).. | ].
apply bn_equiv.
Qed.

Lemma SFsub_B (x y : b32) : SFsub 24 128 (B2SF x) (B2SF y) = B2SF (Bminus mode_NE x y).
Proof.
case x as [sx|sx| |sx mx ex Bx]; case y as [sy|sy| |sy my ey By];
  [now (trivial || simpl; case Bool.eqb).. | ].
simpl. unfold Zminus. rewrite <- cond_Zopp_negb. apply bn_equiv.
Qed.

Lemma SFmul_B (x y : b32) : SFmul 24 128 (B2SF x) (B2SF y) = B2SF (Bmult mode_NE x y).
Proof.
case x as [sx|sx| |sx mx ex Bx]; case y as [sy|sy| |sy my ey By]; [now trivial.. | ].
simpl. rewrite B2SF_SF2B. apply bra_equiv.
Qed.

Lemma SFdiv_B (x y : b32) : SFdiv 24 128 (B2SF x) (B2SF y) = B2SF (Bdiv mode_NE x y).
Proof.
case x as [sx|sx| |sx mx ex Bx]; case y as [sy|sy| |sy my ey By];
  [now (trivial || simpl; case Bool.eqb).. | ].
simpl. rewrite B2SF_SF2B.
set (melz := SFdiv_core_binary _ _ _ _ _ _).
case melz as [[mz ez] lz].
apply bra_equiv.
Qed.

Local Open Scope R_scope.

(** real value, well-formedness and the rounding operator of binary32 *)
Definition val (x : spec_float) : R := SF2R radix2 x.
Definition okf (x : spec_float) : Prop := valid_binary 24 128 x = true /\ is_finite_SF x = true.
Definition rnd (x : R) : R := round radix2 (FLT_exp (-149) 24) ZnearestE x.
Definition u32 : R := bpow radix2 (-24).
Definition eta32 : R := bpow radix2 (-150).

Lemma rnd_err x : Rabs (rnd x - x) <= u32 * Rabs x + eta32.
Proof.
  destruct (error_N_FLT radix2 (-149) 24 ltac:(lia) (fun z => negb (Z.even z)) x) as (eps & eta & He & Ht & _ & E).
  unfold rnd. rewrite E.
  replace (x * (1 + eps) + eta - x) with (x * eps + eta) by ring.
  eapply Rle_trans; [apply Rabs_triang|]. rewrite Rabs_mult.
  apply Rplus_le_compat.
  - rewrite Rmult_comm. apply Rmult_le_compat_r; [apply Rabs_pos|].
    unfold u32. replace (bpow radix2 (-24)) with (/2 * bpow radix2 (-24 + 1)); [exact He|].
    rewrite bpow_plus. simpl. lra.
  - unfold eta32. replace (bpow radix2 (-150)) with (/2 * bpow radix2 (-149)); [exact Ht|].
    change (-149)%Z with (-150 + 1)%Z. rewrite bpow_plus. simpl. lra.
Qed.

Lemma rnd_int z : (Z.abs z < 2 ^ 24)%Z -> rnd (IZR z) = IZR z.
Proof.
  intros Hz. unfold rnd. apply round_generic; [typeclasses eauto|].
  apply generic_format_FLT. apply (FLT_spec _ _ _ _ (Float radix2 z 0)).
  - unfold F2R. simpl. ring.
  - simpl. exact Hz.
  - simpl. lia.
Qed.

Lemma okf_SF2B x (Hx : okf x) : exists b : b32, B2SF b = x /\ is_finite b = true /\ B2R b = val x.
Proof.
  destruct Hx as [V F]. exists (SF2B x V). split; [apply B2SF_SF2B|]. split.
  - rewrite is_finite_SF2B. exact F.
  - apply B2R_SF2B.
Qed.

Lemma okf_B2SF (b : b32) : is_finite b = true -> okf (B2SF b).
Proof. intros F. split; [apply valid_binary_B2SF|]. rewrite is_finite_SF_B2SF. exact F. Qed.

Lemma add32 x y : okf x -> okf y -> Rabs (rnd (val x + val y)) < bpow radix2 128 ->
  okf (SFadd 24 128 x y) /\ val (SFadd 24 128 x y) = rnd (val x + val y).
Proof.
  intros Hx Hy Hov.
  destruct (okf_SF2B x Hx) as (bx & <- & Fx & Rx). destruct (okf_SF2B y Hy) as (by_ & <- & Fy & Ry).
  rewrite SFadd_B. generalize (Bplus_correct 24 128 Hprec32 Hmax32 mode_NE bx by_ Fx Fy).
  rewrite Rx, Ry. simpl round_mode. fold rnd.
  rewrite Rlt_bool_true by exact Hov. intros (HR & HF & _).
  split; [apply okf_B2SF, HF|]. unfold val at 1. rewrite SF2R_B2SF. exact HR.
Qed.

Lemma sub32 x y : okf x -> okf y -> Rabs (rnd (val x - val y)) < bpow radix2 128 ->
  okf (SFsub 24 128 x y) /\ val (SFsub 24 128 x y) = rnd (val x - val y).
Proof.
  intros Hx Hy Hov.
  destruct (okf_SF2B x Hx) as (bx & <- & Fx & Rx). destruct (okf_SF2B y Hy) as (by_ & <- & Fy & Ry).
  rewrite SFsub_B. generalize (Bminus_correct 24 128 Hprec32 Hmax32 mode_NE bx by_ Fx Fy).
  rewrite Rx, Ry. simpl round_mode. fold rnd.
  rewrite Rlt_bool_true by exact Hov. intros (HR & HF & _).
  split; [apply okf_B2SF, HF|]. unfold val at 1. rewrite SF2R_B2SF. exact HR.
Qed.

Lemma mul32 x y : okf x -> okf y -> Rabs (rnd (val x * val y)) < bpow radix2 128 ->
  okf (SFmul 24 128 x y) /\ val (SFmul 24 128 x y) = rnd (val x * val y).
Proof.
  intros Hx Hy Hov.
  destruct (okf_SF2B x Hx) as (bx & <- & Fx & Rx). destruct (okf_SF2B y Hy) as (by_ & <- & Fy & Ry).
  rewrite SFmul_B. generalize (Bmult_correct 24 128 Hprec32 Hmax32 mode_NE bx by_).
  rewrite Rx, Ry. simpl round_mode. fold rnd.
  rewrite Rlt_bool_true by exact Hov. intros (HR & HF & _).
  split; [apply okf_B2SF; rewrite HF, Fx, Fy; reflexivity|]. unfold val at 1. rewrite SF2R_B2SF. exact HR.
Qed.

Lemma div32 x y : okf x -> okf y -> val y <> 0 -> Rabs (rnd (val x / val y)) < bpow radix2 128 ->
  okf (SFdiv 24 128 x y) /\ val (SFdiv 24 128 x y) = rnd (val x / val y).
Proof.
  intros Hx Hy Hy0 Hov.
  destruct (okf_SF2B x Hx) as (bx & <- & Fx & Rx). destruct (okf_SF2B y Hy) as (by_ & <- & Fy & Ry).
  rewrite SFdiv_B. rewrite <- Ry in Hy0. generalize (Bdiv_correct 24 128 Hprec32 Hmax32 mode_NE bx by_ Hy0).
  rewrite Rx, Ry. simpl round_mode. fold rnd.
  rewrite Rlt_bool_true by exact Hov. intros (HR & HF & _).
  split; [apply okf_B2SF; rewrite HF; exact Fx|]. unfold val at 1. rewrite SF2R_B2SF. exact HR.
Qed.

(* ---------------------------------------------------------------------------------------- *)
(** * Part 2: error analysis of the Gini computation for any rounding operator with
      |rd x - x| <= u |x| + eta *)
Section Analysis.
Variables (u eta : R) (rd : R -> R).
Hypothesis Hu0 : 0 < u.
Hypothesis Hu1 : u <= 1 / 1000000.
Hypothesis He0 : 0 <= eta.
Hypothesis He1 : eta <= u / 1000000.
Hypothesis rd_err : forall x, Rabs (rd x - x) <= u * Rabs x + eta.

Definition sq (q : R) : R := rd (rd q * rd q).
Definition radd (a s : R) : R := rd (a + s).
Definition gini_rd (qs : list R) : R := rd (1 - fold_left radd (map sq qs) 0).
Definition sumsq (qs : list R) : R := fold_right (fun q a => q * q + a) 0 qs.
Definition kappa : R := 1002 / 1000 * u + 6 * eta.

Lemma sumsq_nonneg qs : 0 <= sumsq qs.
Proof. induction qs as [|q qs IH]; simpl; [lra|]. nra. Qed.

Lemma sq_err q : 0 <= q <= 1 -> Rabs (sq q - q * q) <= (3 * u + 4 * u * u) * (q * q) + 5 * eta.
Proof.
  intros [Hq0 Hq1]. unfold sq. set (p := rd q).
  assert (Hp : Rabs (p - q) <= u * q + eta).
  { unfold p. pose proof (rd_err q) as E. rewrite (Rabs_pos_eq q) in E by exact Hq0. exact E. }
  pose proof (rd_err (p * p)) as Hs. set (s := rd (p * p)) in *.
  apply Rabs_le_inv in Hp. 
  assert (Hpp : 0 <= p * p) by nra.
  rewrite (Rabs_pos_eq (p * p)) in Hs by exact Hpp.
  apply Rabs_le_inv in Hs.
  set (d := u * q + eta) in *.
  assert (Hd0 : 0 <= d) by (unfold d; nra).
  assert (Hd1 : d * d <= u * u * (q * q) + eta).
  { unfold d. assert (2 * u * q + eta <= 1) by nra. nra. }
  assert (Hqd : 2 * q * d <= 2 * u * (q * q) + 2 * eta) by (unfold d; nra).
  assert (HD : - ((2 * u + u * u) * (q * q) + 3 * eta) <= p * p - q * q <= (2 * u + u * u) * (q * q) + 3 * eta).
  { replace (p * p - q * q) with (2 * q * (p - q) + (p - q) * (p - q)) by ring.
    assert ((p - q) * (p - q) <= d * d) by nra.
    assert (0 <= (p - q) * (p - q)) by (pose proof (Rle_0_sqr (p - q)) as Z; unfold Rsqr in Z; exact Z).
    assert (- (2 * q * d) <= 2 * q * (p - q) <= 2 * q * d) by nra.
    lra. }
  assert (Hup : u * (p * p) <= u * (q * q) + (2 * u * u + u * u * u) * (q * q) + 3 * u * eta).
  { assert (p * p <= q * q + (2 * u + u * u) * (q * q) + 3 * eta) by lra. nra. }
  apply Rabs_le.
  assert (Hqq : 0 <= q * q) by nra.
  assert (u * u * u * (q * q) <= u * u * (q * q)) by nra.
  assert (3 * u * eta <= eta) by nra.
  split; lra.
Qed.

Lemma kappa_bounds : 0 <= kappa /\ kappa <= 1003 / 1000 * u.
Proof. unfold kappa. split; lra. Qed.

Lemma step_bound a R0 J q :
  0 <= q -> 0 <= R0 -> R0 + q * q <= 1 -> 0 <= J <= 999 ->
  Rabs (a - R0) <= (3 * u + 4 * u * u) * R0 + J * kappa ->
  Rabs (a + sq q) <= 1002 / 1000 /\
  Rabs (radd a (sq q) - (R0 + q * q)) <= (3 * u + 4 * u * u) * (R0 + q * q) + (J + 1) * kappa.
Proof.
  intros Hq0 HR0 HR1 [HJ0 HJ1] Ha.
  assert (Hq1 : q <= 1) by nra.
  pose proof (sq_err q (conj Hq0 Hq1)) as Hs.
  destruct kappa_bounds as [Hk0 Hk1].
  assert (HJk : 0 <= J * kappa <= 999 * kappa) by (split; nra).
  assert (Hqq : 0 <= q * q) by nra.
  assert (Huu : 0 <= u * u <= u / 1000000) by (split; nra).
  set (x := a + sq q). set (t := R0 + q * q).
  assert (Hxt : Rabs (x - t) <= (3 * u + 4 * u * u) * t + J * kappa + 5 * eta).
  { unfold x, t. replace (a + sq q - (R0 + q * q)) with ((a - R0) + (sq q - q * q)) by ring.
    eapply Rle_trans; [apply Rabs_triang|]. lra. }
  assert (Ht : 0 <= t <= 1) by (unfold t; lra).
  assert (Hx : Rabs x <= 1002 / 1000).
  { replace x with (t + (x - t)) by ring. eapply Rle_trans; [apply Rabs_triang|].
    rewrite (Rabs_pos_eq t) by lra.
    assert ((3 * u + 4 * u * u) * t <= 3 * u + 4 * u * u) by nra. lra. }
  split; [exact Hx|].
  unfold radd. fold x.
  replace (rd x - t) with ((rd x - x) + (x - t)) by ring.
  eapply Rle_trans; [apply Rabs_triang|].
  pose proof (rd_err x) as Er.
  assert (u * Rabs x <= u * (1002 / 1000)) by (apply Rmult_le_compat_l; lra).
  unfold kappa in *. lra.
Qed.

Lemma fold_bound : forall qs a R0 (j : nat),
  Forall (fun q => 0 <= q) qs -> 0 <= R0 -> R0 + sumsq qs <= 1 -> (j + length qs <= 999)%nat ->
  Rabs (a - R0) <= (3 * u + 4 * u * u) * R0 + INR j * kappa ->
  Rabs (fold_left radd (map sq qs) a - (R0 + sumsq qs))
  <= (3 * u + 4 * u * u) * (R0 + sumsq qs) + INR (j + length qs) * kappa.
Proof.
  induction qs as [|q qs IH]; intros a R0 j Hq HR0 HR1 Hj Ha.
  - simpl. rewrite Nat.add_0_r, Rplus_0_r. exact Ha.
  - inversion Hq as [|q' qs' Hq0 Hqs]; subst. simpl sumsq in *. simpl length in *. simpl map. simpl fold_left.
    pose proof (sumsq_nonneg qs) as Hn.
    assert (HJ : 0 <= INR j <= 999).
    { split; [apply pos_INR|]. replace 999 with (INR 999) by (simpl; lra). apply le_INR. lia. }
    destruct (step_bound a R0 (INR j) q Hq0 HR0 ltac:(lra) HJ Ha) as [_ Hstep].
    specialize (IH (radd a (sq q)) (R0 + q * q) (S j) Hqs ltac:(nra) ltac:(lra) ltac:(lia)).
    rewrite S_INR in IH. specialize (IH Hstep).
    replace (R0 + (q * q + sumsq qs)) with (R0 + q * q + sumsq qs) by ring.
    replace (j + S (length qs))%nat with (S j + length qs)%nat by lia. exact IH.
Qed.

Theorem gini_rd_err qs :
  Forall (fun q => 0 <= q) qs -> sumsq qs <= 1 -> (length qs <= 900)%nat ->
  Rabs (gini_rd qs - (1 - sumsq qs)) <= (INR (length qs) + 6) * u.
Proof.
  intros Hq HQ Hl. unfold gini_rd.
  pose proof (fold_bound qs 0 0 0 Hq (Rle_refl 0) ltac:(lra) ltac:(simpl; lia)) as F.
  rewrite Rminus_0_r, Rabs_R0 in F. simpl INR in F at 1. specialize (F ltac:(lra)).
  rewrite !Rplus_0_l in F. simpl plus in F.
  set (S := fold_left radd (map sq qs) 0) in *. set (Q := sumsq qs) in *. set (k := INR (length qs)) in *.
  pose proof (sumsq_nonneg qs) as HQ0. fold Q in HQ0.
  assert (Hk : 0 <= k <= 900).
  { unfold k. split; [apply pos_INR|]. replace 900 with (INR 900) by (simpl; lra). apply le_INR, Hl. }
  destruct kappa_bounds as [Hk0 Hk1].
  assert (Hkk : 0 <= k * kappa <= 900 * kappa) by (split; nra).
  assert (Huu : 0 <= u * u <= u / 1000000) by (split; nra).
  assert (HuQ : (3 * u + 4 * u * u) * Q <= 3 * u + 4 * u * u) by nra.
  assert (H1S : Rabs (1 - S) <= 1002 / 1000).
  { replace (1 - S) with ((1 - Q) + (Q - S)) by ring. eapply Rle_trans; [apply Rabs_triang|].
    rewrite (Rabs_pos_eq (1 - Q)) by lra. rewrite (Rabs_minus_sym Q S). lra. }
  replace (rd (1 - S) - (1 - Q)) with ((rd (1 - S) - (1 - S)) + (Q - S)) by ring.
  eapply Rle_trans; [apply Rabs_triang|]. rewrite (Rabs_minus_sym Q S).
  pose proof (rd_err (1 - S)) as Er.
  assert (u * Rabs (1 - S) <= u * (1002 / 1000)) by (apply Rmult_le_compat_l; lra).
  assert (Hku : k * kappa = 1002 / 1000 * (k * u) + 6 * (k * eta)) by (unfold kappa; ring).
  assert (0 <= k * u <= 900 * u) by (split; nra).
  assert (0 <= k * eta <= 900 * eta) by (split; nra).
  lra.
Qed.

(** the weighted score  w * gR + (1 - w) * gL  with w = rd (W) *)
Definition score_rd (W gR gL : R) : R :=
  let w := rd W in rd (rd (w * gR) + rd (rd (1 - w) * gL)).

Lemma rd_abs x B : Rabs x <= B -> Rabs (rd x - x) <= u * B + eta.
Proof.
  intros Hx. eapply Rle_trans; [apply rd_err|]. apply Rplus_le_compat_r. apply Rmult_le_compat_l; lra.
Qed.

Lemma abs_le_add x y e B : Rabs (x - y) <= e -> Rabs y <= B -> Rabs x <= B + e.
Proof.
  intros H1 H2. replace x with (y + (x - y)) by ring. eapply Rle_trans; [apply Rabs_triang|]. lra.
Qed.

Lemma score_err W gR gL GR GL eR eL :
  0 <= W <= 1 -> 0 <= GR <= 1 -> 0 <= GL <= 1 ->
  Rabs (gR - GR) <= eR -> eR <= 1 / 1000 -> Rabs (gL - GL) <= eL -> eL <= 1 / 1000 ->
  let w := rd W in
  Rabs w <= 2 /\ Rabs (w * gR) <= 2 /\ Rabs (1 - w) <= 2 /\ Rabs (rd (1 - w) * gL) <= 2 /\
  Rabs (rd (w * gR) + rd (rd (1 - w) * gL)) <= 2 /\
  Rabs (score_rd W gR gL - (W * GR + (1 - W) * GL)) <= W * eR + (1 - W) * eL + 5 * u.
Proof.
  intros [W0 W1] [R0 R1] [L0 L1] HR HeR HL HeL w.
  assert (eR0 : 0 <= eR) by (eapply Rle_trans; [apply Rabs_pos|exact HR]).
  assert (eL0 : 0 <= eL) by (eapply Rle_trans; [apply Rabs_pos|exact HL]).
  assert (Huu : 0 <= u * u <= u / 1000000) by (clear - Hu0 Hu1; split; nra).
  assert (HuW : 0 <= u * W <= u) by (clear - Hu0 W0 W1; split; nra).
  assert (Hu1W : 0 <= u * (1 - W) <= u) by (clear - Hu0 W0 W1; split; nra).
  assert (Hue : 0 <= u * eta <= eta) by (clear - Hu0 Hu1 He0; split; nra).
  assert (HWeR : 0 <= W * eR <= W / 1000) by (clear - W0 W1 eR0 HeR; split; nra).
  assert (H1WeL : 0 <= (1 - W) * eL <= (1 - W) / 1000) by (clear - W0 W1 eL0 HeL; split; nra).
  assert (HWGR : 0 <= W * GR <= W) by (clear - W0 W1 R0 R1; split; nra).
  assert (H1WGL : 0 <= (1 - W) * GL <= 1 - W) by (clear - W0 W1 L0 L1; split; nra).
  assert (HgR : Rabs gR <= 1001 / 1000).
  { apply (abs_le_add gR GR eR 1) in HR; [lra|]. rewrite Rabs_pos_eq; lra. }
  assert (HgL : Rabs gL <= 1001 / 1000).
  { apply (abs_le_add gL GL eL 1) in HL; [lra|]. rewrite Rabs_pos_eq; lra. }
  (* w *)
  set (dw := u * W + eta).
  assert (Hdw : 0 <= dw <= u + eta) by (unfold dw; lra).
  assert (Hw : Rabs (w - W) <= dw).
  { unfold w, dw. pose proof (rd_err W) as E. rewrite (Rabs_pos_eq W) in E by lra. exact E. }
  assert (Hwm : Rabs w <= 1 + dw) by (apply (abs_le_add w W dw 1 Hw); rewrite Rabs_pos_eq; lra).
  (* a = rd (w * gR) *)
  assert (HwgR : Rabs (w * gR - W * GR) <= (1001 / 1000) * dw + W * eR).
  { replace (w * gR - W * GR) with ((w - W) * gR + W * (gR - GR)) by ring.
    eapply Rle_trans; [apply Rabs_triang|]. rewrite !Rabs_mult, (Rabs_pos_eq W) by lra.
    apply Rplus_le_compat.
    - rewrite Rmult_comm. apply Rmult_le_compat; try apply Rabs_pos; assumption.
    - apply Rmult_le_compat_l; [lra|exact HR]. }
  assert (Hmag_a : Rabs (w * gR) <= (1001 / 1000) * W + 2 * u).
  { apply (abs_le_add _ _ _ W) in HwgR; [|rewrite Rabs_pos_eq; lra]. unfold dw in *. lra. }
  set (a := rd (w * gR)).
  assert (Ha : Rabs (a - w * gR) <= u * ((1001 / 1000) * W + 2 * u) + eta) by (apply rd_abs; exact Hmag_a).
  assert (Ea : u * ((1001 / 1000) * W + 2 * u) = (1001 / 1000) * (u * W) + 2 * (u * u)) by ring.
  rewrite Ea in Ha.
  assert (HaT : Rabs (a - W * GR) <= W * eR + (2003 / 1000) * (u * W) + 2 * (u * u) + 3 * eta).
  { replace (a - W * GR) with ((a - w * gR) + (w * gR - W * GR)) by ring.
    eapply Rle_trans; [apply Rabs_triang|]. unfold dw in *. lra. }
  (* c = rd (1 - w) *)
  assert (Hmag_1w : Rabs (1 - w) <= (1 - W) + dw).
  { replace (1 - w) with ((1 - W) + - (w - W)) by ring. eapply Rle_trans; [apply Rabs_triang|].
    rewrite Rabs_Ropp, Rabs_pos_eq by lra. lra. }
  set (c := rd (1 - w)).
  assert (Hc : Rabs (c - (1 - w)) <= u * ((1 - W) + dw) + eta) by (apply rd_abs; exact Hmag_1w).
  assert (Ec : u * ((1 - W) + dw) = u * (1 - W) + u * (u * W) + u * eta) by (unfold dw; ring).
  assert (HuuW : 0 <= u * (u * W) <= u * u) by (clear - Hu0 HuW; split; nra).
  rewrite Ec in Hc.
  assert (HcT : Rabs (c - (1 - W)) <= u + 2 * (u * u) + 3 * eta).
  { replace (c - (1 - W)) with ((c - (1 - w)) + - (w - W)) by ring.
    eapply Rle_trans; [apply Rabs_triang|]. rewrite Rabs_Ropp. unfold dw in *.
    assert (u * (1 - W) + u * W = u) by ring. lra. }
  set (dc := u + 2 * (u * u) + 3 * eta) in *.
  assert (Hdc : 0 <= dc <= 2 * u) by (unfold dc; lra).
  (* b = rd (c * gL) *)
  assert (HcgL : Rabs (c * gL - (1 - W) * GL) <= (1001 / 1000) * dc + (1 - W) * eL).
  { replace (c * gL - (1 - W) * GL) with ((c - (1 - W)) * gL + (1 - W) * (gL - GL)) by ring.
    eapply Rle_trans; [apply Rabs_triang|]. rewrite !Rabs_mult, (Rabs_pos_eq (1 - W)) by lra.
    apply Rplus_le_compat.
    - rewrite Rmult_comm. apply Rmult_le_compat; try apply Rabs_pos; assumption.
    - apply Rmult_le_compat_l; [lra|exact HL]. }
  assert (Hmag_b : Rabs (c * gL) <= (1001 / 1000) * (1 - W) + 3 * u).
  { apply (abs_le_add _ _ _ (1 - W)) in HcgL; [|rewrite Rabs_pos_eq; lra]. lra. }
  set (b := rd (c * gL)).
  assert (Hb : Rabs (b - c * gL) <= u * ((1001 / 1000) * (1 - W) + 3 * u) + eta) by (apply rd_abs; exact Hmag_b).
  assert (Eb : u * ((1001 / 1000) * (1 - W) + 3 * u) = (1001 / 1000) * (u * (1 - W)) + 3 * (u * u)) by ring.
  rewrite Eb in Hb.
  assert (HbT : Rabs (b - (1 - W) * GL) <= (1 - W) * eL + (1001 / 1000) * dc + (1001 / 1000) * (u * (1 - W)) + 3 * (u * u) + eta).
  { replace (b - (1 - W) * GL) with ((b - c * gL) + (c * gL - (1 - W) * GL)) by ring.
    eapply Rle_trans; [apply Rabs_triang|]. lra. }
  (* s = rd (a + b) *)
  assert (Hmag_ab : Rabs (a + b) <= 1002 / 1000 + 6 * u).
  { replace (a + b) with ((W * GR + (1 - W) * GL) + ((a - W * GR) + (b - (1 - W) * GL))) by ring.
    eapply Rle_trans; [apply Rabs_triang|]. rewrite Rabs_pos_eq by lra.
    eapply Rle_trans; [apply Rplus_le_compat_l, Rabs_triang|]. unfold dc in *. lra. }
  assert (Hs : Rabs (rd (a + b) - (a + b)) <= u * (1002 / 1000 + 6 * u) + eta) by (apply rd_abs; exact Hmag_ab).
  assert (Es : u * (1002 / 1000 + 6 * u) = (1002 / 1000) * u + 6 * (u * u)) by ring.
  rewrite Es in Hs.
  split; [unfold dw in *; lra|]. split; [lra|]. split; [unfold dw in *; lra|]. split; [fold c; lra|].
  split; [fold a; fold c; fold b; lra|].
  unfold score_rd. fold w. fold a. fold c. fold b.
  replace (rd (a + b) - (W * GR + (1 - W) * GL)) with ((rd (a + b) - (a + b)) + ((a - W * GR) + (b - (1 - W) * GL))) by ring.
  eapply Rle_trans; [apply Rabs_triang|]. eapply Rle_trans; [apply Rplus_le_compat_l, Rabs_triang|].
  assert (u * W + u * (1 - W) = u) by ring. unfold dc in *. lra.
Qed.

(** the reported decrease  rd' (gP - s)  for a (possibly different) rounding operator rd' *)
Lemma decrease_err (rd' : R -> R) (u' eta' : R) gP GP s SC eP eS :
  (forall x, Rabs (rd' x - x) <= u' * Rabs x + eta') -> 0 <= u' ->
  0 <= GP <= 1 -> 0 <= SC <= 1 -> Rabs (gP - GP) <= eP -> eP <= 1 / 1000 -> Rabs (s - SC) <= eS -> eS <= 1 / 1000 ->
  Rabs (gP - s) <= 2 /\
  Rabs (rd' (gP - s) - (GP - SC)) <= eP + eS + u' * (1002 / 1000) + eta'.
Proof.
  intros Hrd Hu' [P0 P1] [S0 S1] HP HeP HS HeS.
  apply Rabs_le_inv in HP. apply Rabs_le_inv in HS.
  assert (Hm : Rabs (gP - s) <= 1002 / 1000) by (apply Rabs_le; lra).
  split; [lra|].
  pose proof (Hrd (gP - s)) as E.
  assert (u' * Rabs (gP - s) <= u' * (1002 / 1000)) by (apply Rmult_le_compat_l; lra).
  replace (rd' (gP - s) - (GP - SC)) with ((rd' (gP - s) - (gP - s)) + (gP - GP) - (s - SC)) by ring.
  apply Rabs_le. apply Rabs_le_inv in E. lra.
Qed.

End Analysis.

(* ---------------------------------------------------------------------------------------- *)
(** * Part 3: the binary32 run of the model's [gini] on a table of exact counts *)

Lemma u32_val : u32 = / 16777216.
Proof. unfold u32, bpow. simpl. reflexivity. Qed.

Lemma u32_ok : 0 < u32 /\ u32 <= 1 / 1000000.
Proof. rewrite u32_val. split; lra. Qed.

Lemma eta32_ok : 0 <= eta32 /\ eta32 <= u32 / 1000000.
Proof.
  split; [apply bpow_ge_0|].
  unfold eta32, u32. change (-150)%Z with (-24 + -126)%Z. rewrite bpow_plus.
  assert (bpow radix2 (-126) <= bpow radix2 (-20)) by (apply bpow_le; lia).
  assert (bpow radix2 (-20) = / 1048576) by (unfold bpow; simpl; reflexivity).
  pose proof (bpow_gt_0 radix2 (-24)). nra.
Qed.

Lemma bpow128_big : 33554432 <= bpow radix2 128.
Proof.
  replace 33554432 with (bpow radix2 25) by (unfold bpow; simpl; lra).
  apply bpow_le. lia.
Qed.

Lemma rnd_small x : Rabs x <= 4 -> Rabs (rnd x) < bpow radix2 128.
Proof.
  intros Hx. pose proof (rnd_err x) as E. destruct u32_ok as [U0 U1]. destruct eta32_ok as [E0 E1].
  assert (Rabs (rnd x) <= Rabs x + Rabs (rnd x - x)).
  { replace (rnd x) with (x + (rnd x - x)) at 1 by ring. apply Rabs_triang. }
  assert (u32 * Rabs x <= u32 * 4) by (apply Rmult_le_compat_l; lra).
  pose proof bpow128_big. lra.
Qed.

Definition Zsum (cs : list Z) : Z := fold_right Z.add 0%Z cs.
Definition is_count (v : spec_float) (c : Z) : Prop := okf v /\ val v = IZR c /\ (0 <= c)%Z.

Lemma Zsum_nonneg vs cs : Forall2 is_count vs cs -> (0 <= Zsum cs)%Z.
Proof. induction 1 as [|v c vs cs (_ & _ & Hc) _ IH]; simpl; lia. Qed.

Lemma okf_negzero : okf (S754_zero true) /\ val (S754_zero true) = 0.
Proof. split; [split; reflexivity|reflexivity]. Qed.

Lemma okf_one : okf (S754_finite false 8388608 (-23)) /\ val (S754_finite false 8388608 (-23)) = 1.
Proof.
  split; [split; reflexivity|]. unfold val, SF2R, F2R. simpl. unfold bpow. simpl. lra.
Qed.

(** sums of counts are exact *)
Lemma fsum_counts : forall vs cs acc A,
  Forall2 is_count vs cs -> okf acc -> val acc = IZR A -> (0 <= A)%Z -> (A + Zsum cs < 2 ^ 24)%Z ->
  okf (fold_left (SFadd 24 128) vs acc) /\ val (fold_left (SFadd 24 128) vs acc) = IZR (A + Zsum cs).
Proof.
  induction vs as [|v vs IH]; intros cs acc A HF Hacc Hv HA Hlt; inversion HF as [|v' c vs' cs' (Hok & Hval & Hc) HF']; subst.
  - simpl. rewrite Z.add_0_r. auto.
  - simpl fold_left. simpl Zsum in *. pose proof (Zsum_nonneg _ _ HF') as Hn.
    assert (Hr : rnd (val acc + val v) = IZR (A + c)).
    { rewrite Hv, Hval, <- plus_IZR. apply rnd_int. lia. }
    destruct (add32 acc v Hacc Hok) as [Hok' Hval'].
    { rewrite Hr. apply Rlt_le_trans with 33554432; [|apply bpow128_big].
      rewrite <- abs_IZR. apply IZR_lt. lia. }
    rewrite Hr in Hval'.
    destruct (IH cs' _ (A + c)%Z HF' Hok' Hval' ltac:(lia) ltac:(lia)) as [H1 H2].
    split; [exact H1|]. rewrite H2. f_equal. lia.
Qed.

Notation sq32 := (sq rnd).
Notation radd32 := (radd rnd).

Lemma rnd_q_bound q : 0 <= q <= 1 -> Rabs (rnd q) <= 1001 / 1000.
Proof.
  intros [Q0 Q1]. pose proof (rnd_err q) as E. rewrite (Rabs_pos_eq q) in E by exact Q0.
  destruct u32_ok as [U0 U1]. destruct eta32_ok as [E0 E1].
  assert (Rabs (rnd q) <= Rabs q + Rabs (rnd q - q)).
  { replace (rnd q) with (q + (rnd q - q)) at 1 by ring. apply Rabs_triang. }
  rewrite (Rabs_pos_eq q) in H by exact Q0. nra.
Qed.

(** the terms (x / n) * (x / n) *)
Lemma square_terms n N : okf n -> val n = IZR N -> (0 < N)%Z -> forall vs cs,
  Forall2 is_count vs cs -> Forall (fun c => (c <= N)%Z) cs ->
  Forall2 (fun s q => okf s /\ val s = sq32 q)
          (map (fun x => let p := SFdiv 24 128 x n in SFmul 24 128 p p) vs)
          (map (fun c => IZR c / IZR N) cs).
Proof.
  intros Hn Hvn HN. induction 1 as [|v c vs cs (Hok & Hval & Hc) HF IH]; intros Hle; simpl; constructor.
  - inversion Hle as [|c' cs' HcN _]; subst.
    assert (HNr : 0 < IZR N) by (apply IZR_lt; exact HN).
    assert (Hq : 0 <= IZR c / IZR N <= 1).
    { split; [unfold Rdiv; apply Rmult_le_pos; [apply IZR_le; exact Hc|left; apply Rinv_0_lt_compat; exact HNr]|].
      apply Rmult_le_reg_r with (IZR N); [exact HNr|]. unfold Rdiv. rewrite Rmult_assoc, Rinv_l by lra.
      rewrite Rmult_1_r, Rmult_1_l. apply IZR_le. exact HcN. }
    destruct (div32 v n Hok Hn) as [Hp Hpv].
    { rewrite Hvn. lra. }
    { apply rnd_small. rewrite Hval, Hvn. rewrite Rabs_pos_eq by lra. lra. }
    rewrite Hval, Hvn in Hpv.
    pose proof (rnd_q_bound _ Hq) as Hb.
    destruct (mul32 _ _ Hp Hp) as [Hs Hsv].
    { apply rnd_small. rewrite Hpv, Rabs_mult. pose proof (Rabs_pos (rnd (IZR c / IZR N))). nra. }
    split; [exact Hs|]. rewrite Hsv, Hpv. reflexivity.
  - apply IH. inversion Hle; assumption.
Qed.

Notation kap32 := (kappa u32 eta32).

(** the sum of the squares: every addition stays in range, the value is the rounded fold *)
Lemma fold_squares : forall sl qs acc R0 (j : nat),
  Forall2 (fun s q => okf s /\ val s = sq32 q) sl qs -> Forall (fun q => 0 <= q) qs ->
  okf acc -> 0 <= R0 -> R0 + sumsq qs <= 1 -> (j + length qs <= 999)%nat ->
  Rabs (val acc - R0) <= (3 * u32 + 4 * u32 * u32) * R0 + INR j * kap32 ->
  okf (fold_left (SFadd 24 128) sl acc) /\
  val (fold_left (SFadd 24 128) sl acc) = fold_left radd32 (map sq32 qs) (val acc).
Proof.
  destruct u32_ok as [U0 U1]. destruct eta32_ok as [E0 E1].
  induction sl as [|s sl IH]; intros qs acc R0 j HF Hq Hacc HR0 HR1 Hj Ha;
    inversion HF as [|s' q sl' qs' (Hs & Hsv) HF']; subst.
  - simpl. auto.
  - inversion Hq as [|q' qs'' Hq0 Hqs]; subst. simpl sumsq in *. simpl length in *. simpl map. simpl fold_left.
    pose proof (sumsq_nonneg qs') as Hn.
    assert (HJ : 0 <= INR j <= 999).
    { split; [apply pos_INR|]. replace 999 with (INR 999) by (simpl; lra). apply le_INR. lia. }
    destruct (step_bound u32 eta32 rnd U0 U1 E0 E1 rnd_err (val acc) R0 (INR j) q Hq0 HR0 ltac:(lra) HJ Ha) as [Hmag Hstep].
    destruct (add32 acc s Hacc Hs) as [Hok' Hval'].
    { apply rnd_small. rewrite Hsv. lra. }
    rewrite Hsv in Hval'. fold (radd32 (val acc) (sq32 q)) in Hval'.
    rewrite <- Hval' in Hstep. rewrite <- S_INR in Hstep.
    destruct (IH qs' _ (R0 + q * q) (S j) HF' Hqs Hok' ltac:(nra) ltac:(lra) ltac:(lia) Hstep) as [H1 H2].
    split; [exact H1|]. rewrite H2, Hval'. reflexivity.
Qed.

Lemma sumsq_le_sum qs : Forall (fun q => 0 <= q <= 1) qs -> sumsq qs <= fold_right Rplus 0 qs.
Proof. induction 1 as [|q qs [Q0 Q1] _ IH]; simpl; [lra|]. nra. Qed.

Lemma sum_div cs N : fold_right Rplus 0 (map (fun c => IZR c / IZR N) cs) = IZR (Zsum cs) / IZR N.
Proof.
  induction cs as [|c cs IH]; simpl; [unfold Rdiv; ring|]. rewrite IH, plus_IZR. unfold Rdiv. ring.
Qed.

Lemma counts_le_sum vs cs : Forall2 is_count vs cs -> Forall (fun c => (c <= Zsum cs)%Z) cs.
Proof.
  induction 1 as [|v c vs cs (_ & _ & Hc) HF IH]; simpl; constructor.
  - pose proof (Zsum_nonneg _ _ HF). lia.
  - eapply Forall_impl; [|exact IH]. simpl. intros a Ha. lia.
Qed.

Lemma Rsum_IZR cs : Rsum (map IZR cs) = IZR (Zsum cs).
Proof. induction cs as [|c cs IH]; simpl; [reflexivity|]. rewrite IH, plus_IZR. reflexivity. Qed.

Lemma rgini_counts cs :
  rgini (map IZR cs) = 1 - sumsq (map (fun c => IZR c / IZR (Zsum cs)) cs).
Proof.
  unfold rgini. rewrite Rsum_IZR. f_equal. generalize (IZR (Zsum cs)). intros N.
  induction cs as [|c cs IH]; simpl; [reflexivity|]. rewrite IH. reflexivity.
Qed.

(** ** the f32 Gini impurity of a table of exact counts is within (k + 6) * 2^-24 of the real one

    [t] is a class table whose present entries are binary32 numbers holding the integers [cs]
    (class counts: unit sample weights; any weights whose class sums are integers) with a total
    below 2^24; [k] is the number of present classes.  [gini B32_ops t] is the model of
    gini_impurity executed in binary32 (C14/Model.v, the function the correspondence compares with
    the Rust code bit for bit); [rgini] is the real-number Gini impurity of the specification. *)
Theorem gini32_error (t : freq_tab (W := spec_float)) (cs : list Z) :
  Forall2 is_count (tab_vals t) cs -> (0 < Zsum cs < 2 ^ 24)%Z -> (length cs <= 900)%nat ->
  okf (gini B32_ops t) /\
  Rabs (val (gini B32_ops t) - rgini (map IZR cs)) <= (INR (length cs) + 6) * u32.
Proof.
  intros HF [HN0 HN1] Hl.
  destruct u32_ok as [U0 U1]. destruct eta32_ok as [E0 E1].
  destruct okf_negzero as [Z0 Zv]. destruct okf_one as [O0 Ov].
  set (N := Zsum cs) in *. set (vs := tab_vals t) in *.
  destruct (fsum_counts vs cs (S754_zero true) 0%Z HF Z0 Zv (Z.le_refl 0) ltac:(fold N; lia)) as [Hn Hnv].
  rewrite Z.add_0_l in Hnv. fold N in Hnv.
  set (n := fold_left (SFadd 24 128) vs (S754_zero true)) in *.
  set (qs := map (fun c => IZR c / IZR N) cs).
  pose proof (square_terms n N Hn Hnv HN0 vs cs HF (counts_le_sum _ _ HF)) as HS. fold qs in HS.
  set (sl := map (fun x => let p := SFdiv 24 128 x n in SFmul 24 128 p p) vs) in *.
  assert (HNr : 0 < IZR N) by (apply IZR_lt; exact HN0).
  assert (Hq01 : Forall (fun q => 0 <= q <= 1) qs).
  { unfold qs. apply Forall_forall. intros q Hq. apply in_map_iff in Hq as (c & <- & Hc).
    pose proof (counts_le_sum _ _ HF) as Hle. rewrite Forall_forall in Hle. specialize (Hle c Hc). fold N in Hle.
    assert (Hc0 : (0 <= c)%Z).
    { clear -HF Hc. induction HF as [|v c' vs cs (_ & _ & H0) _ IH]; [destruct Hc|]. destruct Hc as [<-|Hc]; auto. }
    split; [unfold Rdiv; apply Rmult_le_pos; [apply IZR_le; exact Hc0|left; apply Rinv_0_lt_compat; exact HNr]|].
    apply Rmult_le_reg_r with (IZR N); [exact HNr|]. unfold Rdiv. rewrite Rmult_assoc, Rinv_l by lra.
    rewrite Rmult_1_r, Rmult_1_l. apply IZR_le. exact Hle. }
  assert (Hq0 : Forall (fun q => 0 <= q) qs) by (eapply Forall_impl; [|exact Hq01]; simpl; intros a Ha; lra).
  assert (HQ : sumsq qs <= 1).
  { eapply Rle_trans; [apply sumsq_le_sum, Hq01|]. unfold qs. rewrite sum_div. fold N. unfold Rdiv. rewrite Rinv_r by lra. lra. }
  assert (Hlen : length qs = length cs) by (unfold qs; apply map_length).
  assert (Ha0 : Rabs (val (S754_zero true) - 0) <= (3 * u32 + 4 * u32 * u32) * 0 + INR 0 * kap32).
  { rewrite Zv, Rminus_0_r, Rabs_R0. simpl. lra. }
  destruct (fold_squares sl qs (S754_zero true) 0 0 HS Hq0 Z0 (Rle_refl 0) ltac:(lra) ltac:(simpl; lia) Ha0) as [HSok HSv].
  rewrite Zv in HSv.
  set (S := fold_left (SFadd 24 128) sl (S754_zero true)) in *.
  pose proof (fold_bound u32 eta32 rnd U0 U1 E0 E1 rnd_err qs 0 0 0 Hq0 (Rle_refl 0) ltac:(lra) ltac:(simpl; lia)) as FB.
  rewrite Rminus_0_r, Rabs_R0 in FB. simpl INR in FB at 1. specialize (FB ltac:(lra)).
  rewrite !Rplus_0_l in FB. simpl plus in FB. rewrite <- HSv in FB.
  pose proof (sumsq_nonneg qs) as HQ0.
  assert (HSmag : Rabs (val S) <= 11 / 10).
  { replace (val S) with (sumsq qs + (val S - sumsq qs)) by ring. eapply Rle_trans; [apply Rabs_triang|].
    rewrite (Rabs_pos_eq (sumsq qs)) by exact HQ0.
    destruct (kappa_bounds u32 eta32 U0 E0 E1) as [K0 K1].
    assert (INR (length qs) <= 900) by (replace 900 with (INR 900) by (simpl; lra); apply le_INR; lia).
    assert (0 <= INR (length qs)) by apply pos_INR.
    assert (INR (length qs) * kap32 <= 900 * kap32) by nra.
    assert ((3 * u32 + 4 * u32 * u32) * sumsq qs <= 3 * u32 + 4 * u32 * u32) by nra.
    nra. }
  destruct (sub32 _ S O0 HSok) as [Hg Hgv].
  { apply rnd_small. rewrite Ov. unfold Rminus. eapply Rle_trans; [apply Rabs_triang|]. rewrite Rabs_Ropp, Rabs_R1. lra. }
  rewrite Ov, HSv in Hgv. fold (gini_rd rnd qs) in Hgv.
  assert (Egini : gini B32_ops t = SFsub 24 128 (S754_finite false 8388608 (-23)) S) by reflexivity.
  rewrite Egini. split; [exact Hg|].
  rewrite Hgv, rgini_counts. fold N. fold qs. rewrite <- Hlen.
  apply (gini_rd_err u32 eta32 rnd U0 U1 E0 E1 rnd_err qs Hq0 HQ). lia.
Qed.

(** the hypotheses are satisfiable: the table {class 0: 3.0, class 2: 1.0} *)
Definition ex_count_tab : freq_tab (W := spec_float) := [Some (b32_of_Z 3); None; Some (b32_of_Z 1)].

Lemma is_count_of_Z z : (0 <= z < 2 ^ 24)%Z -> is_count (b32_of_Z z) z.
Proof.
  intros Hz. destruct z as [|p|p]; [split; [split; reflexivity|split; [reflexivity|lia]]| |lia].
  unfold b32_of_Z.
  pose proof (binary_normalize_correct 24 128 Hprec32 Hmax32 mode_NE (Zpos p) 0 false) as C.
  cbv zeta in C.
  replace (F2R (Float radix2 (Zpos p) 0)) with (IZR (Zpos p)) in C by (unfold F2R; simpl; ring).
  change (round radix2 (fexp 24 128) (round_mode mode_NE) (IZR (Zpos p))) with (rnd (IZR (Zpos p))) in C.
  rewrite (rnd_int (Zpos p)) in C by lia. rewrite Rlt_bool_true in C.
  2:{ apply Rlt_le_trans with 33554432; [|apply bpow128_big]. rewrite <- abs_IZR. apply IZR_lt. lia. }
  destruct C as (CR & CF & _).
  assert (E : SpecFloat.binary_normalize p32 e32 (Zpos p) 0 false
              = B2SF (binary_normalize 24 128 Hprec32 Hmax32 mode_NE (Zpos p) 0 false)) by apply bn_equiv.
  rewrite E. split; [apply okf_B2SF, CF|]. split; [|lia]. unfold val. rewrite SF2R_B2SF. exact CR.
Qed.

Example gini32_error_example :
  Forall2 is_count (tab_vals ex_count_tab) [3%Z; 1%Z] /\ (0 < Zsum [3; 1] < 2 ^ 24)%Z /\
  Rabs (val (gini B32_ops ex_count_tab) - rgini (map IZR [3%Z; 1%Z])) <= 8 * u32.
Proof.
  assert (H : Forall2 is_count (tab_vals ex_count_tab) [3%Z; 1%Z]).
  { unfold ex_count_tab, tab_vals. cbn [flat_map app]. constructor; [apply is_count_of_Z; lia|].
    constructor; [apply is_count_of_Z; lia|constructor]. }
  split; [exact H|]. split; [cbn; lia|].
  destruct (gini32_error ex_count_tab [3%Z; 1%Z] H ltac:(cbn; lia) ltac:(cbn; lia)) as [_ B].
  cbn [length INR] in B. replace (1 + 1 + 6) with 8 in B by ring. exact B.
Qed.

(* ---------------------------------------------------------------------------------------- *)
(** * Part 4: the split score and the reported decrease in binary32 *)

Lemma counts_nonneg vs cs : Forall2 is_count vs cs -> Forall (fun c => (0 <= c)%Z) cs.
Proof. induction 1 as [|v c vs cs (_ & _ & Hc) _ IH]; constructor; assumption. Qed.

Lemma rgini_range vs cs : Forall2 is_count vs cs -> (0 < Zsum cs)%Z -> 0 <= rgini (map IZR cs) <= 1.
Proof.
  intros HF HN. rewrite rgini_counts. set (N := Zsum cs) in *. set (qs := map (fun c => IZR c / IZR N) cs).
  assert (HNr : 0 < IZR N) by (apply IZR_lt; exact HN).
  assert (Hq01 : Forall (fun q => 0 <= q <= 1) qs).
  { unfold qs. apply Forall_forall. intros q Hq. apply in_map_iff in Hq as (c & <- & Hc).
    pose proof (counts_le_sum _ _ HF) as Hle. rewrite Forall_forall in Hle. specialize (Hle c Hc). fold N in Hle.
    pose proof (counts_nonneg _ _ HF) as H0. rewrite Forall_forall in H0. specialize (H0 c Hc).
    split; [unfold Rdiv; apply Rmult_le_pos; [apply IZR_le; exact H0|left; apply Rinv_0_lt_compat; exact HNr]|].
    apply Rmult_le_reg_r with (IZR N); [exact HNr|]. unfold Rdiv. rewrite Rmult_assoc, Rinv_l by lra.
    rewrite Rmult_1_r, Rmult_1_l. apply IZR_le. exact Hle. }
  assert (HQ : sumsq qs <= 1).
  { eapply Rle_trans; [apply sumsq_le_sum, Hq01|]. unfold qs. rewrite sum_div. fold N. unfold Rdiv. rewrite Rinv_r by lra. lra. }
  pose proof (sumsq_nonneg qs). lra.
Qed.

Lemma k6_small (k : nat) : (k <= 900)%nat -> 0 <= (INR k + 6) * u32 <= 1 / 1000.
Proof.
  intros Hk. destruct u32_ok as [U0 U1].
  assert (0 <= INR k <= 900).
  { split; [apply pos_INR|]. replace 900 with (INR 900) by (simpl; lra). apply le_INR, Hk. }
  split; nra.
Qed.

(** the score  wr/total * gini(right) + (1 - wr/total) * gini(left)  of a candidate split whose two
    class tables hold exact counts, evaluated in binary32, against its real value *)
Theorem score32_error (r l : freq_tab (W := spec_float)) (csR csL : list Z) (wr total : spec_float) :
  Forall2 is_count (tab_vals r) csR -> Forall2 is_count (tab_vals l) csL ->
  (0 < Zsum csR)%Z -> (0 < Zsum csL)%Z -> (Zsum csR + Zsum csL < 2 ^ 24)%Z ->
  (length csR <= 900)%nat -> (length csL <= 900)%nat ->
  okf wr -> val wr = IZR (Zsum csR) -> okf total -> val total = IZR (Zsum csR + Zsum csL) ->
  let W := IZR (Zsum csR) / IZR (Zsum csR + Zsum csL) in
  let SC := W * rgini (map IZR csR) + (1 - W) * rgini (map IZR csL) in
  let s := split_score B32_ops (gini B32_ops) total r l wr in
  okf s /\ 0 <= SC <= 1 /\
  Rabs (val s - SC) <= (INR (Nat.max (length csR) (length csL)) + 11) * u32.
Proof.
  intros HFR HFL HR0 HL0 HT HkR HkL Hwr Hwrv Htot Htotv W SC s.
  destruct u32_ok as [U0 U1]. destruct eta32_ok as [E0 E1]. destruct okf_one as [O0 Ov].
  destruct (gini32_error r csR HFR ltac:(lia) HkR) as [HgR HeR].
  destruct (gini32_error l csL HFL ltac:(lia) HkL) as [HgL HeL].
  pose proof (rgini_range _ _ HFR HR0) as RR. pose proof (rgini_range _ _ HFL HL0) as RL.
  set (GR := rgini (map IZR csR)) in *. set (GL := rgini (map IZR csL)) in *.
  set (gR := gini B32_ops r) in *. set (gL := gini B32_ops l) in *.
  set (k := Nat.max (length csR) (length csL)).
  assert (HkRk : INR (length csR) <= INR k) by (apply le_INR; unfold k; lia).
  assert (HkLk : INR (length csL) <= INR k) by (apply le_INR; unfold k; lia).
  assert (HTr : 0 < IZR (Zsum csR + Zsum csL)) by (apply IZR_lt; lia).
  assert (HW : 0 <= W <= 1).
  { unfold W. split.
    - unfold Rdiv. apply Rmult_le_pos; [apply IZR_le; lia|left; apply Rinv_0_lt_compat; exact HTr].
    - apply Rmult_le_reg_r with (IZR (Zsum csR + Zsum csL)); [exact HTr|]. unfold Rdiv.
      rewrite Rmult_assoc, Rinv_l by lra. rewrite Rmult_1_r, Rmult_1_l. apply IZR_le. lia. }
  pose proof (k6_small _ HkR) as SR. pose proof (k6_small _ HkL) as SL.
  destruct (score_err u32 eta32 rnd U0 U1 E0 E1 rnd_err W (val gR) (val gL) GR GL _ _ HW RR RL HeR (proj2 SR) HeL (proj2 SL))
    as (M1 & M2 & M3 & M4 & M5 & HE).
  (* the operations *)
  destruct (div32 wr total Hwr Htot) as [Hw Hwv].
  { rewrite Htotv. lra. }
  { apply rnd_small. rewrite Hwrv, Htotv. fold W. rewrite Rabs_pos_eq; lra. }
  rewrite Hwrv, Htotv in Hwv. fold W in Hwv.
  set (w := SFdiv 24 128 wr total) in *.
  destruct (mul32 w gR Hw HgR) as [Ha Hav].
  { apply rnd_small. rewrite Hwv. lra. }
  destruct (sub32 _ w O0 Hw) as [Hc Hcv].
  { apply rnd_small. rewrite Ov, Hwv. lra. }
  set (c := SFsub 24 128 (S754_finite false 8388608 (-23)) w) in *.
  destruct (mul32 c gL Hc HgL) as [Hb Hbv].
  { apply rnd_small. rewrite Hcv, Ov, Hwv. lra. }
  destruct (add32 _ _ Ha Hb) as [Hs Hsv].
  { apply rnd_small. rewrite Hav, Hbv, Hcv, Ov, Hwv. lra. }
  assert (Es : s = SFadd 24 128 (SFmul 24 128 w gR) (SFmul 24 128 c gL)) by reflexivity.
  assert (HSC : 0 <= SC <= 1).
  { unfold SC. clear - HW RR RL. destruct HW, RR, RL. split; nra. }
  rewrite Es. split; [exact Hs|]. split; [exact HSC|].
  rewrite Hsv, Hav, Hbv, Hcv, Ov, Hwv. fold (score_rd rnd W (val gR) (val gL)).
  eapply Rle_trans; [exact HE|].
  assert (W * ((INR (length csR) + 6) * u32) <= W * ((INR k + 6) * u32)).
  { apply Rmult_le_compat_l; [lra|]. apply Rmult_le_compat_r; lra. }
  assert ((1 - W) * ((INR (length csL) + 6) * u32) <= (1 - W) * ((INR k + 6) * u32)).
  { apply Rmult_le_compat_l; [lra|]. apply Rmult_le_compat_r; lra. }
  replace ((INR k + 11) * u32) with (W * ((INR k + 6) * u32) + (1 - W) * ((INR k + 6) * u32) + 5 * u32) by ring.
  lra.
Qed.

(** the impurity decrease  gini(parent) - score  as TreeNode::fit computes it for F = f32 (the cast of
    the scores is the identity, the subtraction a binary32 operation), all three class tables
    holding exact counts: within (kP + k + 19) * 2^-24 of the real decrease, kP / k the numbers of
    classes present in the parent / in the larger child *)
Theorem decrease32_error (p r l : freq_tab (W := spec_float)) (csP csR csL : list Z) (wr total : spec_float) :
  Forall2 is_count (tab_vals p) csP -> (0 < Zsum csP < 2 ^ 24)%Z -> (length csP <= 900)%nat ->
  Forall2 is_count (tab_vals r) csR -> Forall2 is_count (tab_vals l) csL ->
  (0 < Zsum csR)%Z -> (0 < Zsum csL)%Z -> (Zsum csR + Zsum csL < 2 ^ 24)%Z ->
  (length csR <= 900)%nat -> (length csL <= 900)%nat ->
  okf wr -> val wr = IZR (Zsum csR) -> okf total -> val total = IZR (Zsum csR + Zsum csL) ->
  let W := IZR (Zsum csR) / IZR (Zsum csR + Zsum csL) in
  let D := rgini (map IZR csP) - (W * rgini (map IZR csR) + (1 - W) * rgini (map IZR csL)) in
  let dec := sub B32_ops (gini B32_ops p) (split_score B32_ops (gini B32_ops) total r l wr) in
  okf dec /\
  Rabs (val dec - D) <= (INR (length csP) + INR (Nat.max (length csR) (length csL)) + 19) * u32.
Proof.
  intros HFP HP HkP HFR HFL HR0 HL0 HT HkR HkL Hwr Hwrv Htot Htotv W D dec.
  destruct u32_ok as [U0 U1]. destruct eta32_ok as [E0 E1].
  destruct (gini32_error p csP HFP HP HkP) as [HgP HeP].
  destruct (score32_error r l csR csL wr total HFR HFL HR0 HL0 HT HkR HkL Hwr Hwrv Htot Htotv) as (Hs & HSC & HeS).
  pose proof (rgini_range _ _ HFP (proj1 HP)) as RP.
  set (k := Nat.max (length csR) (length csL)) in *.
  assert (Hk : (k <= 900)%nat) by (unfold k; lia).
  pose proof (k6_small _ HkP) as SP.
  assert (SS : (INR k + 11) * u32 <= 1 / 1000).
  { assert (0 <= INR k <= 900).
    { split; [apply pos_INR|]. replace 900 with (INR 900) by (simpl; lra). apply le_INR, Hk. }
    nra. }
  destruct (decrease_err rnd u32 eta32 _ _ _ _ _ _ rnd_err (Rlt_le _ _ U0) RP HSC HeP (proj2 SP) HeS SS) as [Hm HE].
  destruct (sub32 _ _ HgP Hs) as [Hd Hdv].
  { apply rnd_small. lra. }
  split; [exact Hd|]. unfold dec. change (sub B32_ops) with (SFsub 24 128). rewrite Hdv.
  eapply Rle_trans; [exact HE|]. fold k. nra.
Qed.

(** in particular the allowance 2^-18 of the checker covers the binary32 evaluation for up to 22
    classes *)
Corollary decrease32_within_tolerance (p r l : freq_tab (W := spec_float)) (csP csR csL : list Z) (wr total : spec_float) :
  Forall2 is_count (tab_vals p) csP -> (0 < Zsum csP < 2 ^ 24)%Z -> (length csP <= 22)%nat ->
  Forall2 is_count (tab_vals r) csR -> Forall2 is_count (tab_vals l) csL ->
  (0 < Zsum csR)%Z -> (0 < Zsum csL)%Z -> (Zsum csR + Zsum csL < 2 ^ 24)%Z ->
  (length csR <= 22)%nat -> (length csL <= 22)%nat ->
  okf wr -> val wr = IZR (Zsum csR) -> okf total -> val total = IZR (Zsum csR + Zsum csL) ->
  let W := IZR (Zsum csR) / IZR (Zsum csR + Zsum csL) in
  let D := rgini (map IZR csP) - (W * rgini (map IZR csR) + (1 - W) * rgini (map IZR csL)) in
  Rabs (val (sub B32_ops (gini B32_ops p) (split_score B32_ops (gini B32_ops) total r l wr)) - D) <= / 262144.
Proof.
  intros HFP HP HkP HFR HFL HR0 HL0 HT HkR HkL Hwr Hwrv Htot Htotv W D.
  destruct (decrease32_error p r l csP csR csL wr total HFP HP ltac:(lia) HFR HFL HR0 HL0 HT ltac:(lia) ltac:(lia) Hwr Hwrv Htot Htotv) as [_ B].
  eapply Rle_trans; [exact B|]. rewrite u32_val.
  assert (INR (length csP) <= 22) by (replace 22 with (INR 22) by (simpl; lra); apply le_INR, HkP).
  assert (INR (Nat.max (length csR) (length csL)) <= 22) by (replace 22 with (INR 22) by (simpl; lra); apply le_INR; lia).
  lra.
Qed.
