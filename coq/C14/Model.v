(** C14 - executable definitions for linfa-trees decision trees
    (algorithms/linfa-trees/src/decision_trees/{algorithm,hyperparams,iter}.rs).

    Part 1  tree type, [predict] (make_prediction), the fit-time routing rule, [prune],
            level-order iteration (iter.rs) and the impurity-decrease statistics.
    Part 2  a transliteration of [TreeNode::fit] (label frequencies with mask, modal class, the
            sweep over presorted values, Gini / entropy score with the class weights summed in
            ascending class order, midpoint threshold, recursive masks),
            polymorphic in the arithmetic of weights/scores (f32 in Rust) and of features (F).
    Part 3  the exact-arithmetic checker [chk_tree] (pattern B) that is evaluated on the trees the
            implementation returns.
    No proofs in this file. *)
From Coq Require Import List NArith ZArith QArith Bool Arith.
From Interval Require Import Specific_bigint Specific_ops Float_full Xreal Interval.
From LinfaVerif Require Import Common.Num Common.QF Common.Run.
Import ListNotations.
Local Close Scope Q_scope.
Local Open Scope nat_scope.

(** A fitted tree as it is observable after [fit]: leaves carry the prediction, split nodes the
    feature index, the threshold and the reported impurity decrease. Every node stores its depth. *)
Inductive tree (X : Type) : Type :=
| Leaf (depth : nat) (pred : nat)
| Node (depth : nat) (feat : nat) (thr dec : X) (l r : tree X).
Arguments Leaf {X}. Arguments Node {X}.

Fixpoint upd {A} (l : list A) (k : nat) (f : A -> A) : list A :=
  match l, k with
  | [], _ => []
  | a :: t, O => f a :: t
  | a :: t, S k' => a :: upd t k' f
  end.

Fixpoint map2 {A B C} (f : A -> B -> C) (a : list A) (b : list B) : list C :=
  match a, b with
  | x :: a', y :: b' => f x y :: map2 f a' b'
  | _, _ => []
  end.

Definition count_true (m : list bool) : nat := length (filter (fun b => b) m).

Fixpoint tmap {X Y} (g : X -> Y) (t : tree X) : tree Y :=
  match t with
  | Leaf d p => Leaf d p
  | Node d f thr dec l r => Node d f (g thr) (g dec) (tmap g l) (tmap g r)
  end.

Fixpoint size {X} (t : tree X) : nat :=
  match t with Leaf _ _ => 1 | Node _ _ _ _ l r => S (size l + size r) end.

Definition tdepth {X} (t : tree X) : nat :=
  match t with Leaf d _ => d | Node d _ _ _ _ _ => d end.

Definition is_leaf {X} (t : tree X) : bool :=
  match t with Leaf _ _ => true | Node _ _ _ _ _ _ => false end.

(* ------------------------------------------------------------------------------------------ *)
(** * Part 1: prediction, routing, pruning, iteration, importances *)
Section Generic.
Context {X : Type} (ox : NumOps X).

(** the comparison of make_prediction. [le = true]: `x[feature] <= split_value`, the code as it
    stands (since commit 472304f; the rule of the documentation and of the fit-time masks);
    [le = false]: `x[feature] < split_value`, the code before that commit (finding F27) *)
Definition goes_left (le : bool) (v thr : X) : bool := if le then leb ox v thr else ltb ox v thr.

(** make_prediction: descend to the left while the comparison holds *)
Fixpoint predict (le : bool) (t : tree X) (x : list X) : nat :=
  match t with
  | Leaf _ p => p
  | Node _ f thr _ l r =>
      if goes_left le (nth f x (zero ox)) thr then predict le l x else predict le r x
  end.

(** the path taken at prediction time ([true] = left) *)
Fixpoint route (le : bool) (t : tree X) (x : list X) : list bool :=
  match t with
  | Leaf _ _ => []
  | Node _ f thr _ l r =>
      if goes_left le (nth f x (zero ox)) thr then true :: route le l x else false :: route le r x
  end.

(** the path a training row took while fitting: masks are split with x[feature] <= split_value *)
Definition route_fit (t : tree X) (x : list X) : list bool := route true t x.

(** TreeNode::prune: bottom-up, two sibling leaves with the same prediction are merged *)
Fixpoint prune (t : tree X) : tree X * option nat :=
  match t with
  | Leaf d p => (Leaf d p, Some p)
  | Node d f thr dec l r =>
      let '(l', pl) := prune l in
      let '(r', pr) := prune r in
      match pl, pr with
      | Some x, Some y =>
          if Nat.eqb x y then (Leaf d x, Some x) else (Node d f thr dec l' r', None)
      | _, _ => (Node d f thr dec l' r', None)
      end
  end.

(** no split node has two leaf children with the same prediction *)
Fixpoint pruned (t : tree X) : bool :=
  match t with
  | Leaf _ _ => true
  | Node _ _ _ _ l r =>
      match l, r with
      | Leaf _ p, Leaf _ q => negb (Nat.eqb p q)
      | _, _ => true
      end && pruned l && pruned r
  end.

(** NodeIter (iter.rs): level order through a queue, children pushed left then right *)
Fixpoint bfs (fuel : nat) (q : list (tree X)) : list (tree X) :=
  match fuel with
  | O => []
  | S fuel' =>
      match q with
      | [] => []
      | t :: q' =>
          t :: bfs fuel' (q' ++ match t with Leaf _ _ => [] | Node _ _ _ _ l r => [l; r] end)
      end
  end.
Definition iter_nodes (t : tree X) : list (tree X) := bfs (size t) [t].

Definition max_depth_of (t : tree X) : nat := fold_left (fun m nd => Nat.max m (tdepth nd)) (iter_nodes t) 0.
Definition num_leaves (t : tree X) : nat := length (filter is_leaf (iter_nodes t)).

(** mean_impurity_decrease: per feature, the sum (in level order) of the decreases of its split
    nodes divided by their number; 0 for unused features *)
Definition mean_impurity_decrease (nfeat : nat) (t : tree X) : list X :=
  let acc :=
    fold_left (fun a nd =>
                 match nd with
                 | Leaf _ _ => a
                 | Node _ f _ dec _ _ => upd a f (fun sc => (add ox (fst sc) dec, N.succ (snd sc)))
                 end)
              (iter_nodes t) (repeat (zero ox, 0%N) nfeat) in
  map (fun sc => if N.eqb (snd sc) 0 then zero ox else div ox (fst sc) (of_N ox (snd sc))) acc.

(** relative_impurity_decrease = feature_importance: each mean divided by the sum of the means *)
Definition relative_impurity_decrease (nfeat : nat) (t : tree X) : list X :=
  let m := mean_impurity_decrease nfeat t in
  let s := fold_left (add ox) m (zero ox) in
  map (fun x => div ox x s) m.

End Generic.

(* ------------------------------------------------------------------------------------------ *)
(** * Part 2: TreeNode::fit *)
Section Fit.
Context {W X : Type} (ow : NumOps W) (ox : NumOps X) (cast : W -> X).

(** class-frequency table = HashMap<L, f32>; position = class, [None] = key absent *)
Definition freq_tab := list (option W).

(** sorted_frequencies (commit 46699a6): the values of the present keys in ascending order of the
    class (position = rank of the label in its [Ord]) *)
Definition tab_vals (t : freq_tab) : list W :=
  flat_map (fun e => match e with Some v => [v] | None => [] end) t.

(** `iter().sum::<f32>()`: a left fold of `+` starting from the neutral element of the float
    addition, which is -0.0 in the standard library (`impl Sum for f32`, Rust >= 1.83) *)
Definition neg_zero : W := opp ow (zero ow).
Definition fsum (l : list W) : W := fold_left (add ow) l neg_zero.

(** total_weight = sorted_frequencies(&parent_class_freq).iter().sum::<f32>() *)
Definition tab_sum (t : freq_tab) : W := fsum (tab_vals t).

(* entry(c).or_insert(0.0) += w *)
Definition tab_add (t : freq_tab) (c : nat) (w : W) : freq_tab :=
  upd t c (fun e => Some (add ow (match e with Some v => v | None => zero ow end) w)).
(* get_mut(c).unwrap() -= w  (the key is always present in the clone of the parent table) *)
Definition tab_sub (t : freq_tab) (c : nat) (w : W) : freq_tab :=
  upd t c (fun e => match e with Some v => Some (sub ow v w) | None => None end).

(** gini_impurity: n = sum of the class weights in ascending class order;
    1 - sum over the classes (same order) of (x / n) * (x / n) *)
Definition gini (t : freq_tab) : W :=
  let vs := tab_vals t in
  let n := fsum vs in
  sub ow (one ow) (fsum (map (fun x => let p := div ow x n in mul ow p p) vs)).

(** entropy: sum over the classes (ascending order) of `if p > 0.0 { -p * p.log2() } else { 0.0 }`
    for p = x / n.  [log2] stands for `f32::log2` (not an IEEE operation: a parameter of the model;
    over the reals ln p / ln 2, in the f32 runs the values the Rust run time returned, C14/Corr.v) *)
Definition entropy (log2 : W -> W) (t : freq_tab) : W :=
  let vs := tab_vals t in
  let n := fsum vs in
  fsum (map (fun x => let p := div ow x n in
                      if ltb ow (zero ow) p then mul ow (opp ow p) (log2 p) else zero ow) vs).

(** find_modal_class (after commit 2eff895): the accumulator survives when its frequency is larger,
    or equal with a smaller label; evaluated here over the present keys in increasing label order
    (the rule is a total order on (frequency, label), so the hash-map order does not matter) *)
Definition modal (t : freq_tab) : nat :=
  match
    fold_left (fun acc ce =>
                 match snd ce with
                 | None => acc
                 | Some fr =>
                     match acc with
                     | None => Some (fst ce, fr)
                     | Some (bi, bf) =>
                         if ltb ow fr bf || (eqb ow bf fr && Nat.ltb bi (fst ce)) then acc
                         else Some (fst ce, fr)
                     end
                 end)
              (combine (seq 0 (length t)) t) None
  with
  | Some (c, _) => c
  | None => 0%nat         (* Rust: unwrap on an empty table panics; excluded by n >= 1 *)
  end.

(** SortedIndex::of_array_column: stable sort of (row index, value) by value *)
Fixpoint insert_sorted (p : nat * X) (l : list (nat * X)) : list (nat * X) :=
  match l with
  | [] => [p]
  | q :: l' => if ltb ox (snd p) (snd q) then p :: l else q :: insert_sorted p l'
  end.
Definition sorted_index (col : list X) : list (nat * X) :=
  fold_left (fun acc p => insert_sorted p acc) (combine (seq 0 (length col)) col) [].

Record hyper := {
  h_maxdepth : option nat;
  h_mws : W;            (* min_weight_split  (f32) *)
  h_mwl : W;            (* min_weight_leaf   (f32) *)
  h_mid : X;            (* min_impurity_decrease (F) *)
  h_eps : X;            (* F::cast(1e-5): values closer than this are never separated *)
  h_two : X;            (* F::cast(2.0) *)
  h_le : bool           (* true: the code as it stands (since commit 472304f): a midpoint that is not
                           below the next value falls back to the current value; false: the code
                           before that commit (always the rounded midpoint) *)
}.

Section Data.
Variable imp : freq_tab -> W.            (* split criterion *)
Variable H : hyper.
Variable xs : list (list X).             (* records, row major *)
Variable ys : list nat.                  (* class index of every row *)
Variable ws : list W.                    (* weight_for(i) of every row (1.0 without weights) *)
Variable ncls : nat.

(** label_frequencies_with_mask *)
Definition label_freqs (mask : list bool) : freq_tab :=
  fold_left (fun t myw => let '(m, y, w) := myw in if (m : bool) then tab_add t y w else t)
            (combine (combine mask ys) ws) (repeat None ncls).

Record sweep_state := {
  ss_right : freq_tab; ss_left : freq_tab; ss_wr : W; ss_wl : W;
  ss_best : option (nat * X * W)
}.

(** the inner loop `for i in 0..mask.len() - 1` for one feature; [sv] is the presorted column *)
Fixpoint sweep (f : nat) (total : W) (mask : list bool) (sv : list (nat * X)) (st : sweep_state)
  : sweep_state :=
  match sv with
  | [] => st
  | (idx, v) :: rest =>
      match rest with
      | [] => st                                        (* the last sorted value is never moved *)
      | (_, vnext) :: _ =>
          if negb (nth idx mask false) then sweep f total mask rest st
          else
            let c := nth idx ys 0%nat in
            let w := nth idx ws (one ow) in
            let right := tab_sub (ss_right st) c w in
            let wr := sub ow (ss_wr st) w in
            let left := tab_add (ss_left st) c w in
            let wl := add ow (ss_wl st) w in
            let moved := {| ss_right := right; ss_left := left; ss_wr := wr; ss_wl := wl;
                            ss_best := ss_best st |} in
            if ltb ox (abs ox (sub ox v vnext)) (h_eps H) then sweep f total mask rest moved
            else if ltb ow wr (h_mwl H) || ltb ow wl (h_mwl H) then sweep f total mask rest moved
            else
              let wfrac := div ow wr total in
              let score := add ow (mul ow wfrac (imp right))
                                  (mul ow (sub ow (one ow) wfrac) (imp left)) in
              let mid := div ox (add ox v vnext) (h_two H) in
              let thr := if h_le H && negb (ltb ox mid vnext) then v else mid in
              let best' :=
                match ss_best st with
                | None => Some (f, thr, score)
                | Some (_, _, bs) => if ltb ow score bs then Some (f, thr, score) else ss_best st
                end in
              sweep f total mask rest
                    {| ss_right := right; ss_left := left; ss_wr := wr; ss_wl := wl;
                       ss_best := best' |}
      end
  end.

Definition best_split (sorted : list (list (nat * X))) (mask : list bool) (tab : freq_tab)
  : option (nat * X * W) :=
  let total := tab_sum tab in
  fold_left (fun best fsv =>
               ss_best (sweep (fst fsv) total mask (snd fsv)
                              {| ss_right := tab; ss_left := repeat None ncls;
                                 ss_wr := total; ss_wl := zero ow; ss_best := best |}))
            (combine (seq 0 (length sorted)) sorted) None.

Definition feat_of (row : list X) (f : nat) : X := nth f row (zero ox).

(** TreeNode::fit. [None] = the Rust code would panic (or the fuel, n + 1, ran out - impossible
    while both children of every split are non-empty). A node one of whose masks comes out empty is
    flagged as a leaf by Rust (its only child is unreachable): modelled as a leaf. *)
Fixpoint fit_node (sorted : list (list (nat * X))) (fuel : nat) (mask : list bool) (depth : nat)
  : option (tree X) :=
  match fuel with
  | O => None
  | S fuel' =>
      let tab := label_freqs mask in
      let pred := modal tab in
      let ns := count_true mask in
      if ltb ow (of_N ow (N.of_nat ns)) (h_mws H)
         || match h_maxdepth H with Some m => Nat.leb m depth | None => false end
      then Some (Leaf depth pred)
      else
        let best := best_split sorted mask tab in
        let dec := match best with
                   | Some (_, _, bs) => sub ox (cast (imp tab)) (cast bs)
                   | None => zero ox
                   end in
        if ltb ox dec (h_mid H) then Some (Leaf depth pred)
        else
          match best with
          | None => None                                  (* best.unwrap() *)
          | Some (bf, thr, _) =>
              let lm := map2 (fun (m : bool) row => m && leb ox (feat_of row bf) thr) mask xs in
              let rm := map2 (fun (m : bool) row => m && negb (leb ox (feat_of row bf) thr)) mask xs in
              if Nat.eqb (count_true lm) 0 || Nat.eqb (count_true rm) 0 then Some (Leaf depth pred)
              else
                match fit_node sorted fuel' lm (S depth), fit_node sorted fuel' rm (S depth) with
                | Some l, Some r => Some (Node depth bf thr dec l r)
                | _, _ => None
                end
          end
  end.

Definition column (j : nat) : list X := map (fun row => feat_of row j) xs.

(** Fit::fit: presort every column, fit the root on the full mask, prune *)
Definition fit (nfeat : nat) : option (tree X) :=
  let sorted := map (fun j => sorted_index (column j)) (seq 0 nfeat) in
  match fit_node sorted (S (length xs)) (map (fun _ => true) xs) 0 with
  | Some t => Some (fst (prune t))
  | None => None
  end.

End Data.
End Fit.

(* ------------------------------------------------------------------------------------------ *)
(** * Part 3: exact checker on a returned tree (rational arithmetic) *)

Record qsample := { qs_x : list Q; qs_y : nat; qs_w : Q }.
Record qparams := {
  qp_maxdepth : option nat;
  qp_mws : Q; qp_mwl : Q; qp_mid : Q;
  qp_tol : Q;               (* allowance for the f32 evaluation of the criterion *)
  qp_ncls : nat;
  qp_le : bool;             (* comparison used by prediction: false `<`, true `<=` *)
  qp_wslack : Q;            (* rounding allowance of the f32 running weight sums, relative to the weight
                               of the node: 0 when all sums are exact (unit / dyadic sample weights),
                               n * 2^-23 for n samples otherwise (C14/Corr.v [wslack]) *)
  qp_nfeat : nat            (* number of features: split features must lie below it *)
}.

Definition qfeat (s : qsample) (f : nat) : Q := nth f (qs_x s) 0%Q.
Definition qweight (smp : list qsample) : Q := Qsum (map qs_w smp).
Definition qwfreq (smp : list qsample) (c : nat) : Q :=
  qweight (filter (fun s => Nat.eqb (qs_y s) c) smp).
Definition qfreqs (k : nat) (smp : list qsample) : list Q := map (qwfreq smp) (seq 0 k).
Definition qgini (fr : list Q) : Q :=
  let n := Qsum fr in (1 - Qsum (map (fun x => (x / n) * (x / n)) fr))%Q.

Definition qgoes_left (le : bool) (v thr : Q) : bool := if le then Qleb v thr else Qltb v thr.
Definition qleft (le : bool) (f : nat) (thr : Q) (smp : list qsample) : list qsample :=
  filter (fun s => qgoes_left le (qfeat s f) thr) smp.
Definition qright (le : bool) (f : nat) (thr : Q) (smp : list qsample) : list qsample :=
  filter (fun s => negb (qgoes_left le (qfeat s f) thr)) smp.

(** the decrease of the Gini criterion achieved by splitting S into SL / SR *)
Definition qdecrease (k : nat) (smp SL SR : list qsample) : Q :=
  (qgini (qfreqs k smp)
   - ((qweight SR / qweight smp) * qgini (qfreqs k SR)
      + (1 - qweight SR / qweight smp) * qgini (qfreqs k SL)))%Q.

Definition depth_ok (md : option nat) (depth : nat) : bool :=
  match md with Some m => Nat.leb depth m | None => true end.

(** ** Entropy: verified interval enclosures (Coq Interval library, 50-bit radix-2 floats)

    The logarithm is not available in exact arithmetic; the entropy decrease is written as an
    expression over rational constants and evaluated in interval arithmetic; [nonneg e = true]
    certifies that the real value of [e] is defined and non-negative (C14/Proofs.v). *)
Module IF := SpecificFloat BigIntRadix2.
Module II := FloatIntervalFull IF.

Inductive ex : Type :=
| EQ (q : Q) | ENeg (a : ex) | EAdd (a b : ex) | ESub (a b : ex) | EMul (a b : ex) | EDiv (a b : ex)
| ELn (a : ex).

Definition iprec := IF.PtoP 50.
Fixpoint evalI (e : ex) : II.type :=
  match e with
  | EQ q => II.div iprec (II.fromZ iprec (Qnum q)) (II.fromZ iprec (Zpos (Qden q)))
  | ENeg a => II.neg (evalI a)
  | EAdd a b => II.add iprec (evalI a) (evalI b)
  | ESub a b => II.sub iprec (evalI a) (evalI b)
  | EMul a b => II.mul iprec (evalI a) (evalI b)
  | EDiv a b => II.div iprec (evalI a) (evalI b)
  | ELn a => II.ln iprec (evalI a)
  end.
Definition nonneg (e : ex) : bool :=
  match II.sign_large (evalI e) with Xgt | Xeq => true | _ => false end.

(** entropy: sum over the table of  -p * log2 p  for p = x / n > 0  *)
Definition ent_term (p : Q) : ex :=
  if Qltb 0 p then EMul (ENeg (EQ p)) (EDiv (ELn (EQ p)) (ELn (EQ 2))) else EQ 0.
Definition ent_expr (fr : list Q) : ex :=
  let n := Qsum fr in
  fold_right (fun x acc => EAdd (ent_term (x / n)) acc) (EQ 0) fr.
Definition qentropy_decrease (k : nat) (smp SL SR : list qsample) : ex :=
  let w := (qweight SR / qweight smp)%Q in
  ESub (ent_expr (qfreqs k smp))
       (EAdd (EMul (EQ w) (ent_expr (qfreqs k SR))) (EMul (EQ (1 - w)%Q) (ent_expr (qfreqs k SL)))).

Inductive criterion := CNone | CGini | CEntropy.

(** is the reported decrease within [tol] of the real decrease of the criterion? *)
Definition dec_check (cr : criterion) (tol : Q) (k : nat) (smp SL SR : list qsample) (dec : Q) : bool :=
  match cr with
  | CNone => true
  | CGini =>
      Qltb 0 (qweight smp) && Qltb 0 (Qsum (qfreqs k smp))
      && Qltb 0 (Qsum (qfreqs k SL)) && Qltb 0 (Qsum (qfreqs k SR))
      && Qleb (Qabs' (dec - qdecrease k smp SL SR)) tol
  | CEntropy =>
      Qltb 0 (qweight smp) && Qltb 0 (Qsum (qfreqs k smp))
      && Qltb 0 (Qsum (qfreqs k SL)) && Qltb 0 (Qsum (qfreqs k SR))
      && nonneg (ESub (EQ tol) (ESub (EQ dec) (qentropy_decrease k smp SL SR)))
      && nonneg (EAdd (EQ tol) (ESub (EQ dec) (qentropy_decrease k smp SL SR)))
  end.

(** [chk_node P cr S depth t]: bit mask of the violated conjuncts (0 = all hold) for the
    subtree [t] reached by the training samples [S]; [cr] is the criterion the tree was fitted with.
    The weight limits (bit 8) and the leaf majority (bit 128) compare EXACT rational weights; the code
    under test compares f32 running sums, which differ from the exact sums by at most
    [qp_wslack P] times the weight of the node: that much is allowed (nothing when the sums are exact). *)
Fixpoint chk_node (P : qparams) (gc : criterion) (smp : list qsample) (depth : nat) (t : tree Q) : N :=
  match t with
  | Leaf d p =>
      N.lor (flag (Nat.eqb d depth) 1)
     (N.lor (flag (depth_ok (qp_maxdepth P) depth) 2)
            (flag (existsb (fun s => Nat.eqb (qs_y s) p) smp
                   && forallb (fun c => Qleb (qwfreq smp c) (qwfreq smp p + qp_wslack P * qweight smp)%Q)
                              (seq 0 (qp_ncls P))) 128))
  | Node d f thr dec l r =>
      let SL := qleft (qp_le P) f thr smp in
      let SR := qright (qp_le P) f thr smp in
      N.lor (flag (Nat.eqb d depth) 1)
     (N.lor (flag (depth_ok (qp_maxdepth P) depth) 2)
     (N.lor (flag (Qleb (qp_mws P) (inject_Z (Z.of_nat (length smp)))) 4)
     (N.lor (flag (Nat.ltb f (qp_nfeat P)) 4096)
     (N.lor (flag (Qleb (qp_mwl P) (qweight SL + qp_wslack P * qweight smp)%Q
                   && Qleb (qp_mwl P) (qweight SR + qp_wslack P * qweight smp)%Q
                   && Qltb 0 (qweight SL) && Qltb 0 (qweight SR)) 8)
     (N.lor (flag (forallb (fun s => Bool.eqb (qgoes_left (qp_le P) (qfeat s f) thr) (Qleb (qfeat s f) thr)) smp) 16)
     (N.lor (flag (dec_check gc (qp_tol P) (qp_ncls P) smp SL SR dec) 32)
     (N.lor (flag (Qleb (qp_mid P) dec) 64)
     (N.lor (chk_node P gc SL (S depth) l) (chk_node P gc SR (S depth) r)))))))))
  end.

(** reported importances: non-negative and summing to one (within [tol]) when the tree has a split *)
Definition chk_importance (tol : Q) (has_split : bool) (imps : list Q) : bool :=
  negb has_split
  || (forallb (fun x => Qleb 0 x) imps && Qleb (Qabs' (Qsum imps - 1)) tol).

(** whole-tree checker: labels in range, weights non-negative, the node conjuncts from the root
    (depth 0, all samples), pruning, importances *)
Definition chk_tree (P : qparams) (gc : criterion) (itol : Q) (smp : list qsample) (t : tree Q) (imps : list Q) : N :=
  N.lor (flag (forallb (fun s => Nat.ltb (qs_y s) (qp_ncls P) && Qleb 0 (qs_w s)) smp
               && Qleb 0 (qp_wslack P)) 8192)
 (N.lor (chk_node P gc smp 0 t)
 (N.lor (flag (chk_importance itol (negb (is_leaf t)) imps) 256)
        (flag (pruned t) 512))).
