(** C14 (round 5) - for-all-inputs lemmas about the recursion of the fit model [fit_node]
    (C14/Model.v): the stop tests and the candidate filter hold at every split node of the fitted
    tree, every leaf predicts the modal class of the rows routed to it, the masks of the children
    partition the rows of the parent.  Every NumOps (f32 / f64 execution and exact reals). *)
From Coq Require Import List NArith Bool Arith Lia Reals Lra Permutation Sorted.
From LinfaVerif Require Import Common.Num C14.Model C14.Proofs C14.ProofsSplit C14.ModelR5.
Import ListNotations.
Local Open Scope nat_scope.

(* ------------------------------------------------------------------------------------------ *)
(** * masks of the two children *)

Lemma map2_and_nth {A} (p : A -> bool) : forall (mask : list bool) (xs : list A) i,
  nth i (map2 (fun (m : bool) row => m && p row) mask xs) false =
  match nth_error xs i with Some row => nth i mask false && p row | None => false end.
Proof.
  induction mask as [|m mask IH]; intros xs i.
  - destruct xs, i; simpl; try reflexivity; destruct (nth_error xs i); reflexivity.
  - destruct xs as [|row xs]; [destruct i; reflexivity|].
    destruct i as [|i]; simpl; [reflexivity|]. apply IH.
Qed.

Lemma children_masks_partition {X} (ox : NumOps X) (xs : list (list X)) mask f thr i :
  (nth i (left_mask ox xs mask f thr) false = true -> nth i (right_mask ox xs mask f thr) false = true -> False) /\
  (nth i (left_mask ox xs mask f thr) false = true -> nth i mask false = true /\ i < length xs) /\
  (nth i (right_mask ox xs mask f thr) false = true -> nth i mask false = true /\ i < length xs) /\
  (nth i mask false = true -> i < length xs ->
   nth i (left_mask ox xs mask f thr) false = true \/ nth i (right_mask ox xs mask f thr) false = true) /\
  (nth i (left_mask ox xs mask f thr) false = true <->
   nth i mask false = true /\ exists row, nth_error xs i = Some row /\ leb ox (feat_of ox row f) thr = true).
Proof.
  unfold left_mask, right_mask.
  rewrite (map2_and_nth (fun row => leb ox (feat_of ox row f) thr)).
  rewrite (map2_and_nth (fun row => negb (leb ox (feat_of ox row f) thr))).
  destruct (nth_error xs i) as [row|] eqn:E.
  - assert (Hi : i < length xs) by (apply nth_error_Some; congruence).
    split; [|split; [|split; [|split]]].
    1-4: destruct (nth i mask false); destruct (leb ox (feat_of ox row f) thr); simpl; intros;
      try discriminate; auto.
    split.
    + intros Hx. apply andb_true_iff in Hx as [A B]. split; [exact A|]. exists row; auto.
    + intros [A (row' & Er & Hl)]. injection Er as <-. rewrite A, Hl. reflexivity.
  - apply nth_error_None in E. repeat split; intros; try discriminate; try lia.
    destruct H as [_ (row' & Er & _)]. apply nth_error_None in E. congruence.
Qed.

(* ------------------------------------------------------------------------------------------ *)
(** * the result of the search is one of the admissible candidates (no order needed) *)
Section SplitR5.
Context {W X : Type} (ow : NumOps W) (ox : NumOps X).
Variable imp : freq_tab (W := W) -> W.
Variable H : hyper (W := W) (X := X).
Variable ys : list nat.
Variable ws : list W.
Variable ncls : nat.

Lemma fold_upd_best_in : forall (l : list (cand (W := W) (X := X))) b c,
  fold_left (upd_best ow) l b = Some c -> b = Some c \/ In c l.
Proof.
  induction l as [|a l IH]; intros b c E; cbn [fold_left] in E; [left; exact E|].
  apply IH in E as [E|E]; [|right; right; exact E].
  unfold upd_best in E. destruct b as [[[bf bt] bs]|].
  - destruct (ltb ow (score a) bs); [injection E as <-; right; left; reflexivity|left; exact E].
  - injection E as <-. right; left; reflexivity.
Qed.

Lemma best_split_admissible sorted mask tab f thr bs :
  best_split ow ox imp H ys ws ncls sorted mask tab = Some (f, thr, bs) ->
  exists sv i, nth_error sorted f = Some sv /\
               split_candidate ow ox imp H ys ws ncls mask tab f sv i = Some (f, thr, bs).
Proof.
  rewrite best_split_fold. intros E. apply fold_upd_best_in in E as [E|E]; [discriminate|].
  apply in_split_candidates in E as (f' & sv & i & Es & Ec).
  assert (f' = f).
  { unfold split_candidate, cand_gen in Ec.
    destruct (nth_error sv i) as [[? ?]|]; [|discriminate]. destruct (nth_error sv (S i)) as [[? ?]|]; [|discriminate].
    destruct (_ && _ && _); [|discriminate]. injection Ec as -> _ _. reflexivity. }
  subst f'. exists sv, i. auto.
Qed.

(** what being an admissible candidate means for the weights: after moving the node's rows among
    the positions 0..i of the presorted column to the left, neither running weight (f32 in Rust)
    is below min_weight_leaf; the row at position i belongs to the node and position i+1 exists *)
Lemma split_candidate_weights mask tab f sv i c :
  split_candidate ow ox imp H ys ws ncls mask tab f sv i = Some c ->
  ltb ow (right_weight ow ws (tab_sum ow tab) (moved mask sv i)) (h_mwl H) = false /\
  ltb ow (left_weight ow ws (zero ow) (moved mask sv i)) (h_mwl H) = false /\
  exists idx v idx' vnext, nth_error sv i = Some (idx, v) /\ nth_error sv (S i) = Some (idx', vnext) /\
    nth idx mask false = true /\ ltb ox (abs ox (sub ox v vnext)) (h_eps H) = false /\
    fst (fst c) = f /\ snd (fst c) = threshold ox H v vnext.
Proof.
  unfold split_candidate, cand_gen. intros E.
  destruct (nth_error sv i) as [[idx v]|]; [|discriminate].
  destruct (nth_error sv (S i)) as [[idx' vnext]|]; [|discriminate].
  match type of E with (if ?c then _ else _) = _ => destruct c eqn:Ec end; [|discriminate].
  apply andb_true_iff in Ec as [Ec E3]. apply andb_true_iff in Ec as [E1 E2].
  apply negb_true_iff in E2, E3. apply orb_false_iff in E3 as [E3 E4].
  injection E as <-. split; [exact E3|]. split; [exact E4|].
  exists idx, v, idx', vnext. repeat split; auto.
Qed.
End SplitR5.

(* ------------------------------------------------------------------------------------------ *)
(** * the invariant of the recursion *)
Section FitInv.
Context {W X : Type} (ow : NumOps W) (ox : NumOps X) (cast : W -> X).
Variable imp : freq_tab (W := W) -> W.
Variable H : hyper (W := W) (X := X).
Variable xs : list (list X).
Variable ys : list nat.
Variable ws : list W.
Variable ncls : nat.
Variable sorted : list (list (nat * X)).

(** [node_inv mask t]: [t] is a tree the recursion can have produced for the rows [mask] *)
Fixpoint node_inv (mask : list bool) (t : tree X) : Prop :=
  match t with
  | Leaf _ p => p = modal ow (label_freqs ow ys ws ncls mask)
  | Node _ f thr dec l r =>
      let tab := label_freqs ow ys ws ncls mask in
      ltb ow (of_N ow (N.of_nat (count_true mask))) (h_mws H) = false /\
      (exists bs, best_split ow ox imp H ys ws ncls sorted mask tab = Some (f, thr, bs) /\
                  dec = sub ox (cast (imp tab)) (cast bs)) /\
      ltb ox dec (h_mid H) = false /\
      count_true (left_mask ox xs mask f thr) <> 0 /\ count_true (right_mask ox xs mask f thr) <> 0 /\
      node_inv (left_mask ox xs mask f thr) l /\ node_inv (right_mask ox xs mask f thr) r
  end.

Lemma fit_node_inv : forall fuel mask depth t,
  fit_node ow ox cast imp H xs ys ws ncls sorted fuel mask depth = Some t -> node_inv mask t.
Proof.
  induction fuel as [|fuel IH]; intros mask depth t E; cbn [fit_node] in E; [discriminate|].
  match type of E with (if ?c then _ else _) = _ => destruct c eqn:E1 end.
  - inversion E; subst. reflexivity.
  - apply orb_false_iff in E1 as [E1 _].
    match type of E with context [match ?b with Some _ => _ | None => zero ox end] =>
      destruct b as [[[bf thr] bs]|] eqn:Eb end.
    + match type of E with (if ?c then _ else _) = _ => destruct c eqn:E2 end.
      * inversion E; subst. reflexivity.
      * match type of E with (if ?c then _ else _) = _ => destruct c eqn:E3 end.
        -- inversion E; subst. reflexivity.
        -- apply orb_false_iff in E3 as [E3l E3r]. apply Nat.eqb_neq in E3l. apply Nat.eqb_neq in E3r.
           match type of E with context [match ?a with Some _ => _ | None => None end] =>
             destruct a as [l|] eqn:El end; [|discriminate].
           match type of E with context [match ?a with Some _ => _ | None => None end] =>
             destruct a as [r|] eqn:Er end; [|discriminate].
           inversion E; subst. cbn [node_inv]. cbv zeta.
           split; [exact E1|]. split; [exists bs; split; [exact Eb|reflexivity]|].
           split; [exact E2|]. split; [exact E3l|]. split; [exact E3r|].
           split; [exact (IH _ _ _ El)|exact (IH _ _ _ Er)].
    + match type of E with (if ?c then _ else _) = _ => destruct c eqn:E2 end; [|discriminate].
      inversion E; subst. reflexivity.
Qed.

Lemma node_inv_at : forall path mask t s,
  node_inv mask t -> subtree_at t path = Some s -> node_inv (mask_at ox xs mask t path) s.
Proof.
  induction path as [|b p IH]; intros mask t s Hi E.
  - cbn [subtree_at] in E. injection E as <-. exact Hi.
  - destruct t as [d q|d f thr dec l r]; [discriminate|].
    cbn [subtree_at] in E. cbn [mask_at]. cbn [node_inv] in Hi. cbv zeta in Hi.
    destruct Hi as (_ & _ & _ & _ & _ & Hl & Hr). destruct b; eapply IH; eauto.
Qed.

Lemma mask_at_snoc : forall path mask t d f thr dec l r b,
  subtree_at t path = Some (Node d f thr dec l r) ->
  mask_at ox xs mask t (path ++ [b]) =
  if b then left_mask ox xs (mask_at ox xs mask t path) f thr
  else right_mask ox xs (mask_at ox xs mask t path) f thr.
Proof.
  induction path as [|a p IH]; intros mask t d f thr dec l r b E.
  - cbn [subtree_at] in E. injection E as ->. cbn [app mask_at]. destruct b; reflexivity.
  - destruct t as [d0 q|d0 f0 thr0 dec0 l0 r0]; [discriminate|].
    cbn [subtree_at] in E. cbn [app mask_at]. destruct a; eapply IH; eauto.
Qed.

(** ** the statements at a node given by its path *)
Section AtPath.
Variables (fuel : nat) (mask : list bool) (depth : nat) (t : tree X).
Hypothesis Hfit : fit_node ow ox cast imp H xs ys ws ncls sorted fuel mask depth = Some t.

Lemma fit_node_split_at path d f thr dec l r :
  subtree_at t path = Some (Node d f thr dec l r) ->
  let m := mask_at ox xs mask t path in
  let tab := label_freqs ow ys ws ncls m in
  (* the `(nsamples as f32) < min_weight_split` test did not fire *)
  ltb ow (of_N ow (N.of_nat (count_true m))) (h_mws H) = false /\
  (* (f, thr) is the result of the split search on the rows of the node, dec = imp - score *)
  (exists bs, best_split ow ox imp H ys ws ncls sorted m tab = Some (f, thr, bs) /\
              dec = sub ox (cast (imp tab)) (cast bs)) /\
  (* the `impurity_decrease < min_impurity_decrease` test did not fire *)
  ltb ox dec (h_mid H) = false /\
  (* both children received rows *)
  count_true (mask_at ox xs mask t (path ++ [true])) <> 0 /\
  count_true (mask_at ox xs mask t (path ++ [false])) <> 0.
Proof.
  intros E m tab. pose proof (node_inv_at path mask t _ (fit_node_inv _ _ _ _ Hfit) E) as Hi.
  cbn [node_inv] in Hi. cbv zeta in Hi. destruct Hi as (A & B & C & D1 & D2 & _ & _).
  rewrite (mask_at_snoc path mask t d f thr dec l r true E).
  rewrite (mask_at_snoc path mask t d f thr dec l r false E). auto.
Qed.

Lemma fit_node_split_weights_at path d f thr dec l r :
  subtree_at t path = Some (Node d f thr dec l r) ->
  let m := mask_at ox xs mask t path in
  let tab := label_freqs ow ys ws ncls m in
  exists sv i, nth_error sorted f = Some sv /\
    ltb ow (right_weight ow ws (tab_sum ow tab) (moved m sv i)) (h_mwl H) = false /\
    ltb ow (left_weight ow ws (zero ow) (moved m sv i)) (h_mwl H) = false /\
    exists idx v idx' vnext, nth_error sv i = Some (idx, v) /\ nth_error sv (S i) = Some (idx', vnext) /\
      nth idx m false = true /\ ltb ox (abs ox (sub ox v vnext)) (h_eps H) = false /\
      thr = threshold ox H v vnext.
Proof.
  intros E m tab. destruct (fit_node_split_at path d f thr dec l r E) as (_ & (bs & Eb & _) & _).
  apply best_split_admissible in Eb as (sv & i & Es & Ec).
  destruct (split_candidate_weights ow ox imp H ys ws ncls _ _ _ _ _ _ Ec)
    as (A & B & idx & v & idx' & vnext & E1 & E2 & E3 & E4 & _ & E6).
  exists sv, i. split; [exact Es|]. split; [exact A|]. split; [exact B|].
  exists idx, v, idx', vnext. cbn [fst snd] in E6. auto.
Qed.

Lemma fit_node_leaf_at path d p :
  subtree_at t path = Some (Leaf d p) ->
  p = modal ow (label_freqs ow ys ws ncls (mask_at ox xs mask t path)).
Proof.
  intros E. exact (node_inv_at path mask t _ (fit_node_inv _ _ _ _ Hfit) E).
Qed.

Lemma fit_node_children_partition path d f thr dec l r i :
  subtree_at t path = Some (Node d f thr dec l r) ->
  let m := mask_at ox xs mask t path in
  let ml := mask_at ox xs mask t (path ++ [true]) in
  let mr := mask_at ox xs mask t (path ++ [false]) in
  (nth i ml false = true -> nth i mr false = true -> False) /\
  (nth i ml false = true -> nth i m false = true /\ i < length xs) /\
  (nth i mr false = true -> nth i m false = true /\ i < length xs) /\
  (nth i m false = true -> i < length xs -> nth i ml false = true \/ nth i mr false = true) /\
  (nth i ml false = true <->
   nth i m false = true /\ exists row, nth_error xs i = Some row /\ leb ox (feat_of ox row f) thr = true).
Proof.
  intros E m ml mr. subst ml mr.
  rewrite (mask_at_snoc path mask t d f thr dec l r true E).
  rewrite (mask_at_snoc path mask t d f thr dec l r false E).
  apply children_masks_partition.
Qed.
End AtPath.
End FitInv.

(* ------------------------------------------------------------------------------------------ *)
(** * pruning keeps every surviving split node where it was *)
Lemma prune_keeps_splits {X} : forall path (t : tree X) d f thr dec l' r',
  subtree_at (fst (prune t)) path = Some (Node d f thr dec l' r') ->
  exists l r, subtree_at t path = Some (Node d f thr dec l r).
Proof.
  induction path as [|b p IH]; intros t d f thr dec l' r' E.
  - cbn [subtree_at] in E. injection E as E.
    destruct t as [d0 q|d0 f0 thr0 dec0 l0 r0]; [discriminate|].
    cbn [prune] in E. destruct (prune l0) as [l1 pl]; destruct (prune r0) as [r1 pr].
    assert (G : fst (Node d0 f0 thr0 dec0 l1 r1, @None nat) = Node d f thr dec l' r' ->
                exists l r, subtree_at (Node d0 f0 thr0 dec0 l0 r0) [] = Some (Node d f thr dec l r)).
    { cbn [fst]. intros G. injection G as -> -> -> -> _ _. exists l0, r0. reflexivity. }
    destruct pl as [a|]; destruct pr as [c|]; try (apply G; exact E).
    destruct (Nat.eqb a c); [discriminate|apply G; exact E].
  - destruct t as [d0 q|d0 f0 thr0 dec0 l0 r0]; [discriminate|].
    cbn [prune] in E. specialize (IH l0) as IHl. specialize (IH r0) as IHr.
    destruct (prune l0) as [l1 pl]; destruct (prune r0) as [r1 pr]. cbn [fst] in IHl, IHr.
    assert (G : subtree_at (fst (Node d0 f0 thr0 dec0 l1 r1, @None nat)) (b :: p) = Some (Node d f thr dec l' r') ->
                exists l r, subtree_at (Node d0 f0 thr0 dec0 l0 r0) (b :: p) = Some (Node d f thr dec l r)).
    { cbn [fst subtree_at]. destruct b; intros G; [eapply IHl|eapply IHr]; exact G. }
    destruct pl as [a|]; destruct pr as [c|]; try (apply G; exact E).
    destruct (Nat.eqb a c); [discriminate|apply G; exact E].
Qed.

Lemma fit_is_pruned_unpruned {W X} (ow : NumOps W) (ox : NumOps X) cast imp H xs ys ws ncls nfeat :
  fit ow ox cast imp H xs ys ws ncls nfeat =
  option_map (fun t => fst (prune t)) (fit_unpruned ow ox cast imp H xs ys ws ncls nfeat).
Proof.
  unfold fit, fit_unpruned, presorted, full_mask.
  destruct (fit_node _ _ _ _ _ _ _ _ _ _ _ _ _); reflexivity.
Qed.

(* ------------------------------------------------------------------------------------------ *)
(** * over the reals: the tests read as inequalities; the modal class has the largest entry *)
Local Open Scope R_scope.

Definition moved_weight (ws : list R) (mv : list nat) : R :=
  fold_right (fun idx a => wgt R_ops ws idx + a) 0 mv.

Lemma left_weight_R ws : forall mv a, left_weight R_ops ws a mv = a + moved_weight ws mv.
Proof.
  unfold left_weight. induction mv as [|idx mv IH]; intros a; cbn [fold_left moved_weight fold_right].
  - lra.
  - rewrite IH. cbn [add R_ops]. fold (moved_weight ws mv). lra.
Qed.

Lemma right_weight_R ws : forall mv a, right_weight R_ops ws a mv = a - moved_weight ws mv.
Proof.
  unfold right_weight. induction mv as [|idx mv IH]; intros a; cbn [fold_left moved_weight fold_right].
  - lra.
  - rewrite IH. cbn [sub R_ops]. fold (moved_weight ws mv). lra.
Qed.

Lemma mstep_max_R (tab : freq_tab (W := R)) : forall l acc,
  match fold_left (mstep R_ops) l acc with
  | Some (c, f) => (forall i v, In (i, Some v) l -> v <= f) /\ (forall bi bf, acc = Some (bi, bf) -> bf <= f)
  | None => True
  end.
Proof.
  induction l as [|[i e] l IH]; intros acc.
  - cbn [fold_left]. destruct acc as [[c f]|]; [|exact I]. split; [intros i v []|].
    intros bi bf E. injection E as _ <-. lra.
  - cbn [fold_left]. specialize (IH (mstep R_ops acc (i, e))).
    destruct (fold_left (mstep R_ops) l (mstep R_ops acc (i, e))) as [[c f]|]; [|exact I].
    destruct IH as [IH1 IH2]. unfold mstep in IH2; cbn [fst snd] in IH2.
    destruct e as [fr|].
    + destruct acc as [[bi bf]|].
      * destruct (ltb R_ops fr bf || (eqb R_ops bf fr && Nat.ltb bi i)) eqn:Ec.
        -- pose proof (IH2 _ _ eq_refl) as Hb.
           assert (fr <= bf).
           { apply orb_true_iff in Ec as [Ec|Ec].
             - cbn [ltb R_ops] in Ec. apply Rltb_true in Ec. lra.
             - apply andb_true_iff in Ec as [Ec _]. cbn [eqb R_ops] in Ec. apply Reqb_true in Ec. lra. }
           split.
           ++ intros i0 v [E|Hin]; [injection E as _ <-; lra|eapply IH1; eauto].
           ++ intros bi0 bf0 E. injection E as _ <-. exact Hb.
        -- pose proof (IH2 _ _ eq_refl) as Hb.
           apply orb_false_iff in Ec as [Ec _]. cbn [ltb R_ops] in Ec. apply Rltb_false in Ec.
           split.
           ++ intros i0 v [E|Hin]; [injection E as _ <-; lra|eapply IH1; eauto].
           ++ intros bi0 bf0 E. injection E as _ <-. lra.
      * pose proof (IH2 _ _ eq_refl) as Hb. split.
        -- intros i0 v [E|Hin]; [injection E as _ <-; lra|eapply IH1; eauto].
        -- intros bi0 bf0 E. discriminate.
    + split.
      * intros i0 v [E|Hin]; [discriminate|eapply IH1; eauto].
      * intros bi0 bf0 E. eapply IH2. exact E.
Qed.

Lemma modal_argmax_R (tab : freq_tab (W := R)) c v :
  nth_error tab c = Some (Some v) ->
  exists vm, nth_error tab (modal R_ops tab) = Some (Some vm) /\ v <= vm.
Proof.
  intros Hc. rewrite modal_unfold.
  pose proof (mstep_inv R_ops tab (combine (seq 0 (length tab)) tab) None) as Inv.
  pose proof (mstep_max_R tab (combine (seq 0 (length tab)) tab) None) as Mx.
  assert (Hin : In (c, Some v) (combine (seq 0 (length tab)) tab)) by (apply (combine_seq_in tab 0 c); exact Hc).
  assert (Hne : fold_left (mstep R_ops) (combine (seq 0 (length tab)) tab) None <> None).
  { eapply mstep_becomes_some. exact Hin. }
  destruct (fold_left (mstep R_ops) (combine (seq 0 (length tab)) tab) None) as [[c' f']|]; [|congruence].
  exists f'. split.
  - apply Inv; auto.
    intros i e Hi. destruct (combine_seq_nth tab 0 i e Hi) as [_ E]. rewrite Nat.sub_0_r in E. exact E.
  - destruct Mx as [Mx _]. eapply Mx; eauto.
Qed.

Section FitR.
Variable cast : R -> R.
Variable imp : freq_tab (W := R) -> R.
Variable H : hyper (W := R) (X := R).
Variable xs : list (list R).
Variable ys : list nat.
Variable ws : list R.
Variable ncls : nat.
Variable sorted : list (list (nat * R)).
Variables (fuel : nat) (mask : list bool) (depth : nat) (t : tree R).
Hypothesis Hfit : fit_node R_ops R_ops cast imp H xs ys ws ncls sorted fuel mask depth = Some t.

Lemma fit_node_split_limits_R path d f thr dec l r :
  subtree_at t path = Some (Node d f thr dec l r) ->
  let m := mask_at R_ops xs mask t path in
  let total := tab_sum R_ops (label_freqs R_ops ys ws ncls m) in
  h_mws H <= INR (count_true m) /\
  h_mid H <= dec /\
  (count_true (mask_at R_ops xs mask t (path ++ [true])) > 0)%nat /\
  (count_true (mask_at R_ops xs mask t (path ++ [false])) > 0)%nat /\
  exists sv i, nth_error sorted f = Some sv /\
    h_mwl H <= moved_weight ws (moved m sv i) /\
    h_mwl H <= total - moved_weight ws (moved m sv i).
Proof.
  intros E m total.
  destruct (fit_node_split_at R_ops R_ops cast imp H xs ys ws ncls sorted fuel mask depth t Hfit path d f thr dec l r E)
    as (A & _ & C & D1 & D2).
  destruct (fit_node_split_weights_at R_ops R_ops cast imp H xs ys ws ncls sorted fuel mask depth t Hfit path d f thr dec l r E)
    as (sv & i & Es & Wr & Wl & _).
  cbn [ltb R_ops of_N] in A, C, Wr, Wl. rewrite Nat2N.id in A.
  apply Rltb_false in A, C, Wr, Wl. rewrite right_weight_R in Wr. rewrite left_weight_R in Wl.
  cbn [zero R_ops] in Wl.
  split; [exact A|]. split; [exact C|]. split; [lia|]. split; [lia|].
  exists sv, i. split; [exact Es|]. fold m in Wr, Wl. fold total in Wr. split; lra.
Qed.

Lemma fit_node_leaf_modal_R path d p :
  subtree_at t path = Some (Leaf d p) ->
  let tab := label_freqs R_ops ys ws ncls (mask_at R_ops xs mask t path) in
  forall c v, nth_error tab c = Some (Some v) ->
  exists vp, nth_error tab p = Some (Some vp) /\ v <= vp.
Proof.
  intros E tab c v Hc.
  rewrite (fit_node_leaf_at R_ops R_ops cast imp H xs ys ws ncls sorted fuel mask depth t Hfit path d p E).
  apply modal_argmax_R with (c := c). exact Hc.
Qed.
End FitR.

(* ------------------------------------------------------------------------------------------ *)
(** * the same limits for the tree [fit] returns (after pruning): pruning only replaces subtrees
      by leaves, the surviving split nodes keep their place, their test and hence their rows *)
Local Close Scope R_scope.

Lemma prune_mask_at {X} (ox : NumOps X) (xs : list (list X)) : forall path (t : tree X) mask s,
  subtree_at (fst (prune t)) path = Some s ->
  mask_at ox xs mask (fst (prune t)) path = mask_at ox xs mask t path.
Proof.
  induction path as [|b p IH]; intros t mask s E; [reflexivity|].
  destruct t as [d0 q|d0 f0 thr0 dec0 l0 r0]; [discriminate|].
  cbn [prune] in *. pose proof (IH l0) as IHl. pose proof (IH r0) as IHr.
  destruct (prune l0) as [l1 pl]; destruct (prune r0) as [r1 pr]. cbn [fst] in IHl, IHr.
  assert (G : subtree_at (fst (Node d0 f0 thr0 dec0 l1 r1, @None nat)) (b :: p) = Some s ->
              mask_at ox xs mask (fst (Node d0 f0 thr0 dec0 l1 r1, @None nat)) (b :: p) =
              mask_at ox xs mask (Node d0 f0 thr0 dec0 l0 r0) (b :: p)).
  { cbn [fst subtree_at mask_at]. destruct b; intros G; [eapply IHl|eapply IHr]; exact G. }
  destruct pl as [a|]; destruct pr as [c|]; try (apply G; exact E).
  destruct (Nat.eqb a c); [discriminate|apply G; exact E].
Qed.

Section FitPruned.
Context {W X : Type} (ow : NumOps W) (ox : NumOps X) (cast : W -> X).
Variable imp : freq_tab (W := W) -> W.
Variable H : hyper (W := W) (X := X).
Variable xs : list (list X).
Variable ys : list nat.
Variable ws : list W.
Variable ncls : nat.

Lemma fit_split_limits nfeat t path d f thr dec l r :
  fit ow ox cast imp H xs ys ws ncls nfeat = Some t ->
  subtree_at t path = Some (Node d f thr dec l r) ->
  let m := mask_at ox xs (full_mask xs) t path in
  let tab := label_freqs ow ys ws ncls m in
  ltb ow (of_N ow (N.of_nat (count_true m))) (h_mws H) = false /\
  ltb ox dec (h_mid H) = false /\
  (exists bs, best_split ow ox imp H ys ws ncls (presorted ox xs nfeat) m tab = Some (f, thr, bs) /\
              dec = sub ox (cast (imp tab)) (cast bs)) /\
  exists sv i, nth_error (presorted ox xs nfeat) f = Some sv /\
    ltb ow (right_weight ow ws (tab_sum ow tab) (moved m sv i)) (h_mwl H) = false /\
    ltb ow (left_weight ow ws (zero ow) (moved m sv i)) (h_mwl H) = false.
Proof.
  intros E Es m tab. rewrite fit_is_pruned_unpruned in E.
  destruct (fit_unpruned ow ox cast imp H xs ys ws ncls nfeat) as [t0|] eqn:E0; [|discriminate].
  cbn [option_map] in E. injection E as <-.
  subst tab m. rewrite (prune_mask_at ox xs path t0 (full_mask xs) _ Es).
  destruct (prune_keeps_splits path t0 d f thr dec l r Es) as (l0 & r0 & Es0).
  unfold fit_unpruned in E0.
  destruct (fit_node_split_at ow ox cast imp H xs ys ws ncls _ _ _ _ _ E0 path d f thr dec l0 r0 Es0)
    as (A & B & C & _).
  destruct (fit_node_split_weights_at ow ox cast imp H xs ys ws ncls _ _ _ _ _ E0 path d f thr dec l0 r0 Es0)
    as (sv & i & Esv & Wr & Wl & _).
  split; [exact A|]. split; [exact C|]. split; [exact B|]. exists sv, i. auto.
Qed.
End FitPruned.

Lemma fit_split_limits_R cast imp (H : hyper (W := R) (X := R)) xs ys ws ncls nfeat t path d f thr dec l r :
  fit R_ops R_ops cast imp H xs ys ws ncls nfeat = Some t ->
  subtree_at t path = Some (Node d f thr dec l r) ->
  let m := mask_at R_ops xs (full_mask xs) t path in
  let total := tab_sum R_ops (label_freqs R_ops ys ws ncls m) in
  (h_mws H <= INR (count_true m))%R /\
  (h_mid H <= dec)%R /\
  exists sv i, nth_error (presorted R_ops xs nfeat) f = Some sv /\
    (h_mwl H <= moved_weight ws (moved m sv i))%R /\
    (h_mwl H <= total - moved_weight ws (moved m sv i))%R.
Proof.
  intros E Es m total.
  destruct (fit_split_limits R_ops R_ops cast imp H xs ys ws ncls nfeat t path d f thr dec l r E Es)
    as (A & C & _ & sv & i & Esv & Wr & Wl).
  cbn [ltb R_ops of_N] in A, C, Wr, Wl. rewrite Nat2N.id in A.
  apply Rltb_false in A, C, Wr, Wl. rewrite right_weight_R in Wr. rewrite left_weight_R in Wl.
  cbn [zero R_ops] in Wl.
  split; [exact A|]. split; [exact C|].
  exists sv, i. split; [exact Esv|]. fold m in Wr, Wl. fold total in Wr. split; lra.
Qed.

(* ------------------------------------------------------------------------------------------ *)
(** * over the reals: the rows the sweep had moved ARE the rows of the left child *)


(** * the presorted index is a sorted permutation of the (row, value) pairs *)
Definition le_snd (a b : nat * R) : Prop := (snd a <= snd b)%R.

Lemma insert_sorted_perm (p : nat * R) : forall l, Permutation (insert_sorted R_ops p l) (p :: l).
Proof.
  induction l as [|q l IH]; cbn [insert_sorted]; [apply Permutation_refl|].
  destruct (ltb R_ops (snd p) (snd q)); [apply Permutation_refl|].
  eapply Permutation_trans; [apply perm_skip, IH|apply perm_swap].
Qed.

Lemma insert_sorted_sorted (p : nat * R) : forall l,
  StronglySorted le_snd l -> StronglySorted le_snd (insert_sorted R_ops p l).
Proof.
  induction l as [|q l IH]; intros S; cbn [insert_sorted].
  - constructor; [constructor|constructor].
  - inversion S as [|q' l' Sl Fq]; subst.
    destruct (ltb R_ops (snd p) (snd q)) eqn:E; cbn [ltb R_ops] in E.
    + apply Rltb_true in E. constructor; [exact S|]. constructor; [unfold le_snd; lra|].
      eapply Forall_impl; [|exact Fq]. intros a Ha. unfold le_snd in *. lra.
    + apply Rltb_false in E. constructor; [apply IH; exact Sl|].
      eapply Permutation_Forall; [apply Permutation_sym, insert_sorted_perm|].
      constructor; [exact E|exact Fq].
Qed.

Lemma sorted_index_fold : forall ps acc,
  StronglySorted le_snd acc ->
  let r := fold_left (fun acc p => insert_sorted R_ops p acc) ps acc in
  Permutation r (ps ++ acc) /\ StronglySorted le_snd r.
Proof.
  induction ps as [|p ps IH]; intros acc S; cbn [fold_left app].
  - split; [apply Permutation_refl|exact S].
  - destruct (IH (insert_sorted R_ops p acc) (insert_sorted_sorted p acc S)) as [P S'].
    split; [|exact S'].
    eapply Permutation_trans; [exact P|].
    eapply Permutation_trans; [apply Permutation_app_head, insert_sorted_perm|].
    apply Permutation_sym, Permutation_middle.
Qed.

Lemma sorted_index_spec (col : list R) :
  Permutation (sorted_index R_ops col) (combine (seq 0 (length col)) col) /\
  StronglySorted le_snd (sorted_index R_ops col).
Proof.
  unfold sorted_index.
  destruct (sorted_index_fold (combine (seq 0 (length col)) col) [] (SSorted_nil _)) as [P S].
  rewrite app_nil_r in P. split; assumption.
Qed.

Lemma SS_nth (l : list (nat * R)) : StronglySorted le_snd l ->
  forall k k' a b, k <= k' -> nth_error l k = Some a -> nth_error l k' = Some b -> le_snd a b.
Proof.
  induction 1 as [|x l S IH F]; intros k k' a b Hk Ea Eb; [destruct k; discriminate|].
  destruct k as [|k]; destruct k' as [|k']; cbn [nth_error] in *; try lia.
  - injection Ea as <-. injection Eb as <-. unfold le_snd; lra.
  - injection Ea as <-. apply nth_error_In in Eb. rewrite Forall_forall in F. apply F, Eb.
  - eapply IH; [|exact Ea|exact Eb]. lia.
Qed.

Lemma in_firstn_nth {A} : forall n (l : list A) a, In a (firstn n l) <-> exists k, k < n /\ nth_error l k = Some a.
Proof.
  induction n as [|n IH]; intros l a; cbn [firstn].
  - split; [intros []|intros (k & Hk & _); lia].
  - destruct l as [|x l]; cbn [firstn].
    + split; [intros []|intros (k & _ & E); destruct k; discriminate].
    + split.
      * intros [<-|Hin]; [exists 0; split; [lia|reflexivity]|].
        apply IH in Hin as (k & Hk & E). exists (S k). split; [lia|exact E].
      * intros (k & Hk & E). destruct k as [|k]; cbn [nth_error] in E.
        -- injection E as <-. left; reflexivity.
        -- right. apply IH. exists k. split; [lia|exact E].
Qed.

Lemma NoDup_app_l {A} (l1 l2 : list A) : NoDup (l1 ++ l2) -> NoDup l1.
Proof.
  induction l1 as [|a l1 IH]; cbn [app]; intros N; [constructor|].
  inversion N as [|a' l' Hn N']; subst. constructor; [|apply IH; exact N'].
  intros C. apply Hn. apply in_or_app. left; exact C.
Qed.

Lemma map_fst_combine_seq {A} (l : list A) : forall s, map fst (combine (seq s (length l)) l) = seq s (length l).
Proof. induction l as [|a l IH]; intros s; simpl; [reflexivity|]. rewrite IH. reflexivity. Qed.

Lemma moved_weight_perm ws l l' : Permutation l l' -> moved_weight ws l = moved_weight ws l'.
Proof.
  induction 1 as [|x l l' P IH|x y l|l l' l'' P1 IH1 P2 IH2].
  - reflexivity.
  - cbn [moved_weight fold_right]. unfold moved_weight in IH. rewrite IH. reflexivity.
  - cbn [moved_weight fold_right]. lra.
  - congruence.
Qed.

(** the rows of a mask, in row order *)
Definition mask_rows (n : nat) (m : list bool) : list nat := filter (fun j => nth j m false) (seq 0 n).

Section MovedIsLeft.
Variable H : hyper (W := R) (X := R).
Variable xs : list (list R).
Variable f : nat.
Hypothesis Heps : (0 < h_eps H)%R.
Hypothesis Htwo : h_two H = 2%R.

Let sv := sorted_index R_ops (column R_ops xs f).

Lemma sv_entry j vj : In (j, vj) sv <-> exists row, nth_error xs j = Some row /\ vj = feat_of R_ops row f.
Proof.
  destruct (sorted_index_spec (column R_ops xs f)) as [P _]. fold sv in P.
  split.
  - intros Hin. eapply Permutation_in in Hin; [|exact P].
    apply combine_seq_nth in Hin as [_ E]. rewrite Nat.sub_0_r in E. unfold column in E.
    rewrite nth_error_map in E. destruct (nth_error xs j) as [row|]; [|discriminate].
    injection E as <-. exists row; auto.
  - intros (row & E & ->). eapply Permutation_in; [apply Permutation_sym, P|].
    apply (combine_seq_in (column R_ops xs f) 0 j). unfold column. rewrite nth_error_map, E. reflexivity.
Qed.

Lemma sv_nodup : NoDup (map fst sv).
Proof.
  destruct (sorted_index_spec (column R_ops xs f)) as [P _]. fold sv in P.
  eapply Permutation_NoDup; [apply Permutation_sym, Permutation_map, P|].
  rewrite map_fst_combine_seq. apply seq_NoDup.
Qed.

Lemma moved_is_left_child m i idx v idx' vnext :
  nth_error sv i = Some (idx, v) -> nth_error sv (S i) = Some (idx', vnext) ->
  ltb R_ops (abs R_ops (sub R_ops v vnext)) (h_eps H) = false ->
  Permutation (moved m sv i) (mask_rows (length xs) (left_mask R_ops xs m f (threshold R_ops H v vnext))).
Proof.
  intros E1 E2 Eeps.
  destruct (sorted_index_spec (column R_ops xs f)) as [_ Ssv]. fold sv in Ssv.
  assert (Hle : (v <= vnext)%R) by (apply (SS_nth sv Ssv i (S i) _ _ (Nat.le_succ_diag_r i) E1 E2)).
  cbn [ltb abs sub R_ops] in Eeps. apply Rltb_false in Eeps.
  assert (Hlt : (v < vnext)%R).
  { unfold Rabs in Eeps. destruct (Rcase_abs (v - vnext)); lra. }
  assert (Hthr : (v <= threshold R_ops H v vnext < vnext)%R).
  { unfold threshold. cbv zeta. rewrite Htwo. cbn [ltb div add R_ops].
    assert (Hm : Rltb ((v + vnext) / 2) vnext = true) by (apply Rltb_true; lra).
    rewrite Hm. cbn [negb]. rewrite andb_false_r. lra. }
  set (thr := threshold R_ops H v vnext) in *.
  apply NoDup_Permutation.
  - unfold moved. apply NoDup_filter. rewrite <- firstn_map.
    pose proof sv_nodup as N. rewrite <- (firstn_skipn (S i) (map fst sv)) in N.
    apply NoDup_app_l in N. exact N.
  - unfold mask_rows. apply NoDup_filter, seq_NoDup.
  - intros j. unfold moved, mask_rows. rewrite !filter_In.
    destruct (children_masks_partition R_ops xs m f thr j) as (_ & _ & _ & _ & Iff).
    split.
    + intros [Hin Hm]. apply in_map_iff in Hin as ([j' vj] & Ej & Hin). cbn [fst] in Ej. subst j'.
      apply in_firstn_nth in Hin as (k & Hk & Ek).
      assert (Hv : (vj <= v)%R) by (apply (SS_nth sv Ssv k i _ _ ltac:(lia) Ek E1)).
      pose proof (proj1 (sv_entry j vj) (nth_error_In _ _ Ek)) as (row & Er & Ev).
      assert (Hl : nth j (left_mask R_ops xs m f thr) false = true).
      { apply Iff. split; [exact Hm|]. exists row. split; [exact Er|]. subst vj. cbn [leb R_ops]. apply Rleb_true. lra. }
      split; [|exact Hl]. apply in_seq. split; [lia|]. cbn. apply nth_error_Some. congruence.
    + intros [_ Hl]. apply Iff in Hl as (Hm & row & Er & Hle').
      cbn [leb R_ops] in Hle'. apply Rleb_true in Hle'.
      assert (Hin : In (j, feat_of R_ops row f) sv) by (apply sv_entry; exists row; auto).
      apply In_nth_error in Hin as (k & Ek).
      split; [|exact Hm].
      destruct (le_lt_dec k i) as [Hk|Hk].
      * apply in_map_iff. exists (j, feat_of R_ops row f). split; [reflexivity|].
        apply in_firstn_nth. exists k. split; [lia|exact Ek].
      * exfalso. assert (Hv : (vnext <= feat_of R_ops row f)%R) by (apply (SS_nth sv Ssv (S i) k _ _ ltac:(lia) E2 Ek)).
        lra.
Qed.
End MovedIsLeft.

Lemma presorted_nth (xs : list (list R)) nfeat f sv :
  nth_error (presorted R_ops xs nfeat) f = Some sv -> sv = sorted_index R_ops (column R_ops xs f).
Proof.
  unfold presorted. rewrite nth_error_map. destruct (nth_error (seq 0 nfeat) f) as [j|] eqn:E; [|discriminate].
  cbn [option_map]. intros G. injection G as <-.
  assert (Hf : f < length (seq 0 nfeat)) by (apply nth_error_Some; congruence).
  rewrite seq_length in Hf. apply (nth_error_nth _ _ 0) in E. rewrite seq_nth in E by exact Hf. subst j. reflexivity.
Qed.

Lemma fit_node_left_child_weight_R cast imp (H : hyper (W := R) (X := R)) xs ys ws ncls nfeat fuel mask depth t
      path d f thr dec l r :
  fit_node R_ops R_ops cast imp H xs ys ws ncls (presorted R_ops xs nfeat) fuel mask depth = Some t ->
  (0 < h_eps H)%R -> h_two H = 2%R ->
  subtree_at t path = Some (Node d f thr dec l r) ->
  let m := mask_at R_ops xs mask t path in
  let ml := mask_at R_ops xs mask t (path ++ [true]) in
  let total := tab_sum R_ops (label_freqs R_ops ys ws ncls m) in
  (h_mwl H <= moved_weight ws (mask_rows (length xs) ml))%R /\
  (h_mwl H <= total - moved_weight ws (mask_rows (length xs) ml))%R.
Proof.
  intros Hfit Heps Htwo E m ml total.
  destruct (fit_node_split_weights_at R_ops R_ops cast imp H xs ys ws ncls _ fuel mask depth t Hfit path d f thr dec l r E)
    as (sv & i & Es & Wr & Wl & idx & v & idx' & vnext & E1 & E2 & _ & E4 & Ethr).
  apply presorted_nth in Es. subst sv.
  pose proof (moved_is_left_child H xs f Heps Htwo (mask_at R_ops xs mask t path) i idx v idx' vnext E1 E2 E4) as P.
  rewrite <- Ethr in P. apply (moved_weight_perm ws) in P.
  subst ml. rewrite (mask_at_snoc R_ops xs path mask t d f thr dec l r true E).
  rewrite <- P.
  cbn [ltb R_ops] in Wr, Wl. apply Rltb_false in Wr, Wl.
  rewrite right_weight_R in Wr. rewrite left_weight_R in Wl. cbn [zero R_ops] in Wl.
  fold m in Wr, Wl |- *. fold total in Wr. split; lra.
Qed.



(** * the total weight of a node's class table is the weight of its rows (exact reals) *)
Definition tsum (t : freq_tab (W := R)) : R :=
  fold_right (fun e a => match e with Some v => v + a | None => a end)%R 0%R t.
Definition lsum (l : list (bool * nat * R)) : R :=
  fold_right (fun (myw : bool * nat * R) a => if fst (fst myw) then snd myw + a else a)%R 0%R l.

Lemma fold_left_Rplus : forall l a, fold_left Rplus l a = (a + fold_right Rplus 0 l)%R.
Proof. induction l as [|x l IH]; intros a; cbn [fold_left fold_right]; [lra|]. rewrite IH. lra. Qed.

Lemma tab_sum_tsum (t : freq_tab (W := R)) : tab_sum R_ops t = tsum t.
Proof.
  unfold tab_sum, fsum, neg_zero. cbn [add opp zero R_ops]. rewrite fold_left_Rplus.
  assert (G : fold_right Rplus 0%R (tab_vals t) = tsum t).
  { unfold tab_vals. induction t as [|e t IH]; cbn [flat_map tsum fold_right]; [reflexivity|].
    destruct e as [v|]; cbn [app fold_right]; fold (tsum t); rewrite IH; reflexivity. }
  rewrite G. lra.
Qed.

Lemma tsum_tab_add : forall (t : freq_tab (W := R)) c w, c < length t ->
  tsum (tab_add R_ops t c w) = (tsum t + w)%R.
Proof.
  unfold tab_add. induction t as [|e t IH]; intros c w Hc; [simpl in Hc; lia|].
  destruct c as [|c]; cbn [upd tsum fold_right].
  - destruct e as [v|]; cbn [add zero R_ops]; lra.
  - fold (tsum t). fold (tsum (upd t c (fun e0 => Some (add R_ops match e0 with Some v => v | None => zero R_ops end w)))).
    rewrite IH by (simpl in Hc; lia). destruct e; lra.
Qed.

Lemma tsum_lstep : forall l (t0 : freq_tab (W := R)),
  (forall m y w, In (m, y, w) l -> y < length t0) ->
  tsum (fold_left (lstep R_ops) l t0) = (tsum t0 + lsum l)%R.
Proof.
  induction l as [|[[m y] w] l IH]; intros t0 Hl; cbn [fold_left lsum fold_right fst snd]; [lra|].
  fold (lsum l). rewrite IH.
  - cbn [lstep]. destruct m; cbv iota; [|lra]. rewrite tsum_tab_add; [ring|]. eapply Hl. left; reflexivity.
  - intros m' y' w' Hin. assert (Hy : y' < length t0) by (eapply Hl; right; exact Hin).
    cbn [lstep]. destruct m; [|exact Hy]. unfold tab_add. rewrite upd_length. exact Hy.
Qed.

Lemma tsum_repeat_None n : tsum (repeat None n) = 0%R.
Proof. induction n as [|n IH]; cbn [repeat tsum fold_right]; [reflexivity|exact IH]. Qed.

Lemma moved_weight_app ws l1 l2 : moved_weight ws (l1 ++ l2) = (moved_weight ws l1 + moved_weight ws l2)%R.
Proof.
  unfold moved_weight. induction l1 as [|x l1 IH]; cbn [app fold_right]; [lra|].
  rewrite IH. lra.
Qed.

Lemma moved_weight_shift w ws l : moved_weight (w :: ws) (map S l) = moved_weight ws l.
Proof.
  induction l as [|x l IH]; cbn [map moved_weight fold_right]; [reflexivity|].
  fold (moved_weight (w :: ws) (map S l)). fold (moved_weight ws l). rewrite IH. reflexivity.
Qed.

Lemma mask_rows_cons n b m : mask_rows (S n) (b :: m) = (if b then [0] else []) ++ map S (mask_rows n m).
Proof.
  unfold mask_rows. change (seq 0 (S n)) with (0 :: seq 1 n). rewrite <- seq_shift.
  assert (G : forall l, filter (fun j => nth j (b :: m) false) (map S l) = map S (filter (fun j => nth j m false) l)).
  { induction l as [|x l IH]; cbn [map filter]; [reflexivity|]. change (nth (S x) (b :: m) false) with (nth x m false). rewrite IH. destruct (nth x m false); reflexivity. }
  cbn [filter]. rewrite G. cbn [nth]. destruct b; reflexivity.
Qed.

Lemma lsum_mask_rows : forall (m : list bool) (ys : list nat) (ws : list R),
  length ys = length ws -> length m <= length ys ->
  lsum (combine (combine m ys) ws) = moved_weight ws (mask_rows (length ys) m).
Proof.
  induction m as [|b m IH]; intros ys ws Hl Hm.
  - cbn [combine lsum fold_right]. unfold mask_rows.
    assert (G : forall l, filter (fun j => nth j (@nil bool) false) l = []).
    { induction l as [|x l IHl]; cbn [filter]; [reflexivity|]. destruct x; exact IHl. }
    rewrite G. reflexivity.
  - destruct ys as [|y ys]; [simpl in Hm; lia|]. destruct ws as [|w ws]; [simpl in Hl; lia|].
    cbn [combine lsum fold_right fst snd length]. fold (lsum (combine (combine m ys) ws)).
    rewrite mask_rows_cons, moved_weight_app, moved_weight_shift.
    rewrite IH by (simpl in *; lia).
    destruct b; cbn [moved_weight fold_right]; unfold wgt; cbn [nth]; lra.
Qed.

Lemma node_total_weight_R ys ws ncls (m : list bool) :
  (forall y, In y ys -> y < ncls) -> length ys = length ws -> length m <= length ys ->
  tab_sum R_ops (label_freqs R_ops ys ws ncls m) = moved_weight ws (mask_rows (length ys) m).
Proof.
  intros Hy Hl Hm. rewrite tab_sum_tsum, label_freqs_unfold, tsum_lstep.
  - rewrite tsum_repeat_None, lsum_mask_rows by assumption. lra.
  - intros b y w Hin. rewrite repeat_length. apply Hy.
    apply in_combine_l in Hin. apply in_combine_r in Hin. exact Hin.
Qed.

(** weight of a node's rows = weight of the left child's rows + weight of the right child's rows *)
Lemma filter_split_weight ws (pm pl pr : nat -> bool) : forall l,
  (forall j, In j l -> pm j = (pl j || pr j) /\ (pl j && pr j = false)) ->
  moved_weight ws (filter pm l) = (moved_weight ws (filter pl l) + moved_weight ws (filter pr l))%R.
Proof.
  induction l as [|x l IH]; intros Hp; cbn [filter moved_weight fold_right]; [lra|].
  destruct (Hp x (or_introl eq_refl)) as [A B].
  assert (IH' := IH (fun j Hj => Hp j (or_intror Hj))).
  rewrite A. destruct (pl x); destruct (pr x); cbn [orb andb] in *; try discriminate;
    cbn [moved_weight fold_right];
    fold (moved_weight ws (filter pm l)); fold (moved_weight ws (filter pl l)); fold (moved_weight ws (filter pr l)); lra.
Qed.

Lemma children_rows_weight_R (xs : list (list R)) ws m f thr :
  moved_weight ws (mask_rows (length xs) m) =
  (moved_weight ws (mask_rows (length xs) (left_mask R_ops xs m f thr)) +
   moved_weight ws (mask_rows (length xs) (right_mask R_ops xs m f thr)))%R.
Proof.
  unfold mask_rows. apply filter_split_weight. intros j Hj. apply in_seq in Hj.
  destruct (children_masks_partition R_ops xs m f thr j) as (A & B & C & D & _).
  destruct (nth j (left_mask R_ops xs m f thr) false) eqn:El;
  destruct (nth j (right_mask R_ops xs m f thr) false) eqn:Er;
  destruct (nth j m false) eqn:Em; cbn [orb andb]; split; try reflexivity.
  all: try (exfalso; apply A; reflexivity).
  all: try (destruct (B eq_refl) as [? _]; discriminate).
  all: try (destruct (C eq_refl) as [? _]; discriminate).
  all: try (destruct (D eq_refl ltac:(lia)) as [?|?]; discriminate).
Qed.



Lemma map2_len {A B C} (g : A -> B -> C) : forall a b, length (map2 g a b) <= length b.
Proof. induction a as [|x a IH]; intros [|y b]; simpl; try lia. specialize (IH b). lia. Qed.

Lemma mask_at_length {X} (ox : NumOps X) (xs : list (list X)) : forall path mask (t : tree X),
  length mask <= length xs -> length (mask_at ox xs mask t path) <= length xs.
Proof.
  induction path as [|b p IH]; intros mask t Hm; cbn [mask_at]; [exact Hm|].
  destruct t as [d q|d f thr dec l r]; [exact Hm|].
  destruct b; apply IH; unfold left_mask, right_mask; apply map2_len.
Qed.

Lemma subtree_at_snoc {X} : forall path (t : tree X) d f thr dec l r b,
  subtree_at t path = Some (Node d f thr dec l r) ->
  subtree_at t (path ++ [b]) = Some (if b then l else r).
Proof.
  induction path as [|a p IH]; intros t d f thr dec l r b E.
  - cbn [subtree_at] in E. injection E as ->. cbn [app subtree_at]. reflexivity.
  - destruct t as [d0 q|d0 f0 thr0 dec0 l0 r0]; [discriminate|].
    cbn [subtree_at] in E. cbn [app subtree_at]. eapply IH; eauto.
Qed.

(** the weight of the rows of a mask (exact reals) *)
Definition rows_weight (n : nat) (ws : list R) (m : list bool) : R := moved_weight ws (mask_rows n m).

Section ChildrenWeights.
Variable cast : R -> R.
Variable imp : freq_tab (W := R) -> R.
Variable H : hyper (W := R) (X := R).
Variable xs : list (list R).
Variable ys : list nat.
Variable ws : list R.
Variable ncls : nat.
Hypothesis Heps : (0 < h_eps H)%R.
Hypothesis Htwo : h_two H = 2%R.
Hypothesis Hys : forall y, In y ys -> y < ncls.
Hypothesis Hlen_y : length ys = length xs.
Hypothesis Hlen_w : length ws = length xs.

Lemma fit_node_children_weights_R nfeat fuel mask depth t path d f thr dec l r :
  fit_node R_ops R_ops cast imp H xs ys ws ncls (presorted R_ops xs nfeat) fuel mask depth = Some t ->
  length mask <= length xs ->
  subtree_at t path = Some (Node d f thr dec l r) ->
  let W := rows_weight (length xs) ws in
  let m := mask_at R_ops xs mask t path in
  let ml := mask_at R_ops xs mask t (path ++ [true]) in
  let mr := mask_at R_ops xs mask t (path ++ [false]) in
  (h_mwl H <= W ml)%R /\ (h_mwl H <= W mr)%R /\ W m = (W ml + W mr)%R.
Proof.
  intros Hfit Hm E W m ml mr.
  destruct (fit_node_left_child_weight_R cast imp H xs ys ws ncls nfeat fuel mask depth t path d f thr dec l r
              Hfit Heps Htwo E) as [A B].
  fold m in B. fold ml in A, B.
  assert (T : tab_sum R_ops (label_freqs R_ops ys ws ncls m) = W m).
  { unfold W, rows_weight. rewrite <- Hlen_y. apply node_total_weight_R; [exact Hys|congruence|].
    rewrite Hlen_y. apply mask_at_length. exact Hm. }
  assert (P : W m = (W ml + W mr)%R).
  { subst ml mr. rewrite (mask_at_snoc R_ops xs path mask t d f thr dec l r true E).
    rewrite (mask_at_snoc R_ops xs path mask t d f thr dec l r false E).
    unfold W, rows_weight. apply children_rows_weight_R. }
  rewrite T in B. fold (rows_weight (length xs) ws ml) in A, B. fold W in A, B.
  split; [exact A|]. split; [lra|exact P].
Qed.

Lemma fit_children_weights_R nfeat t path d f thr dec l r :
  fit R_ops R_ops cast imp H xs ys ws ncls nfeat = Some t ->
  subtree_at t path = Some (Node d f thr dec l r) ->
  let W := rows_weight (length xs) ws in
  let m := mask_at R_ops xs (full_mask xs) t path in
  let ml := mask_at R_ops xs (full_mask xs) t (path ++ [true]) in
  let mr := mask_at R_ops xs (full_mask xs) t (path ++ [false]) in
  (h_mwl H <= W ml)%R /\ (h_mwl H <= W mr)%R /\ W m = (W ml + W mr)%R.
Proof.
  intros E Es W m ml mr. rewrite fit_is_pruned_unpruned in E.
  destruct (fit_unpruned R_ops R_ops cast imp H xs ys ws ncls nfeat) as [t0|] eqn:E0; [|discriminate].
  cbn [option_map] in E. injection E as <-.
  subst m ml mr.
  rewrite (prune_mask_at R_ops xs path t0 (full_mask xs) _ Es).
  rewrite (prune_mask_at R_ops xs (path ++ [true]) t0 (full_mask xs) _ (subtree_at_snoc path _ d f thr dec l r true Es)).
  rewrite (prune_mask_at R_ops xs (path ++ [false]) t0 (full_mask xs) _ (subtree_at_snoc path _ d f thr dec l r false Es)).
  destruct (prune_keeps_splits path t0 d f thr dec l r Es) as (l0 & r0 & Es0).
  unfold fit_unpruned in E0.
  apply (fit_node_children_weights_R nfeat _ _ _ _ path d f thr dec l0 r0 E0); [|exact Es0].
  unfold full_mask. rewrite map_length. lia.
Qed.
End ChildrenWeights.

(* ------------------------------------------------------------------------------------------ *)
(** * Non-vacuity: the toy fit of C14/Proofs.v [ex_fit_model], before pruning, has a split at the
      root whose children hold rows {0,1} and {2,3} *)
From Coq Require Import Floats.
From LinfaVerif Require Import Common.B32.
Definition ex5_H : hyper (W := SpecFloat.spec_float) (X := PrimFloat.float) :=
  {| h_maxdepth := Some 1%nat; h_mws := b32_of_Z 2; h_mwl := b32_of_Z 1; h_mid := 0x1p-20%float;
     h_eps := 0x1p-17%float; h_two := 2%float; h_le := true |}.
Definition ex5_xs : list (list PrimFloat.float) := [[0%float]; [1%float]; [2%float]; [3%float]].
Example ex5_fit_unpruned :
  fit_unpruned B32_ops B64_ops SF2Prim (gini B32_ops) ex5_H ex5_xs [0; 0; 1; 1]%nat (repeat (b32_of_Z 1) 4) 2 1
  = Some (Node 0 0 1.5%float 0.5%float (Leaf 1 0) (Leaf 1 1)).
Proof. vm_compute. reflexivity. Qed.
Example ex5_masks :
  mask_at B64_ops ex5_xs (full_mask ex5_xs) (Node 0 0 1.5%float 0.5%float (Leaf 1 0) (Leaf 1 1)) [true]
  = [true; true; false; false] /\
  mask_at B64_ops ex5_xs (full_mask ex5_xs) (Node 0 0 1.5%float 0.5%float (Leaf 1 0) (Leaf 1 1)) [false]
  = [false; false; true; true].
Proof. split; vm_compute; reflexivity. Qed.
