(** C19 - executable definitions only.

    (1) the serde data model as a universe of values (what a `Serialize` impl hands to a
        `Serializer`, struct / field / variant names included, floats as raw IEEE bit patterns);
    (2) bincode 1.3's default wire format (`bincode::serialize` / `bincode::deserialize`:
        little-endian fixed-width integers, u64 lengths, u32 variant tags, u8 option tags,
        no names on the wire) as `encode : value -> list N` and the type-directed
        `decode : shape -> list N -> option (value * list N)`;
    (3) the shape of a type declaration as produced by tools/c19_serde2coq.py from the Rust
        sources (`type_decl`), the classification of `serde(...)` attributes, and what
        serde_derive 1.0.x generates for them: which fields reach the wire, how skipped fields
        come back (their default), how enum variants are numbered by the generated serialiser
        (position among all variants) and by the generated deserialiser (position among the
        variants that are not skipped). *)
From Coq Require Import List String Ascii NArith ZArith Bool.
Import ListNotations.
Local Open Scope N_scope.

(* ------------------------------------------------------------------ values *)
Inductive ikind := U8 | U16 | U32 | U64 | I8 | I16 | I32 | I64.
Inductive skind := KUnit | KNewtype | KTuple | KNamed.

Inductive value :=
| VBool (b : bool)
| VInt (k : ikind) (z : Z)
| VF32 (bits : N)
| VF64 (bits : N)
| VStr (s : string)
| VUnit
| VNone
| VSome (v : value)
| VSeq (l : list value)
| VMap (l : list (value * value))
| VTuple (l : list value)
| VStruct (k : skind) (name : string) (fs : list (string * value))
| VEnum (name : string) (idx : N) (vname : string) (k : skind) (fs : list (string * value)).

(** type-level description used by the decoder; [None] = no information (only the empty /
    absent value is accepted there) *)
Inductive shape :=
| SBool | SInt (k : ikind) | SF32 | SF64 | SStr | SUnit
| SOpt (s : option shape)
| SSeq (s : option shape)
| SMap (kv : option (shape * shape))
| STuple (l : list shape)
| SStruct (k : skind) (name : string) (fs : list (string * shape))
| SEnum (name : string) (vs : list (option (string * skind * list (string * shape)))).

Definition ikind_eqb (a b : ikind) : bool :=
  match a, b with
  | U8, U8 | U16, U16 | U32, U32 | U64, U64 | I8, I8 | I16, I16 | I32, I32 | I64, I64 => true
  | _, _ => false
  end.
Definition skind_eqb (a b : skind) : bool :=
  match a, b with
  | KUnit, KUnit | KNewtype, KNewtype | KTuple, KTuple | KNamed, KNamed => true
  | _, _ => false
  end.

Definition width (k : ikind) : nat :=
  match k with U8 | I8 => 1 | U16 | I16 => 2 | U32 | I32 => 4 | U64 | I64 => 8 end%nat.
Definition is_signed (k : ikind) : bool :=
  match k with I8 | I16 | I32 | I64 => true | _ => false end.
Definition modulus (n : nat) : N := 2 ^ (8 * N.of_nat n).
Definition in_range (k : ikind) (z : Z) : bool :=
  let m := Z.of_N (modulus (width k)) in
  if is_signed k then (Z.leb (- (m / 2)) z && Z.ltb z (m / 2))%Z else (Z.leb 0 z && Z.ltb z m)%Z.

(* ------------------------------------------------------------------ bytes *)
Fixpoint le (n : nat) (x : N) : list N :=
  match n with O => [] | S m => (x mod 256) :: le m (x / 256) end.
Fixpoint unle (l : list N) : N :=
  match l with [] => 0 | b :: r => b + 256 * unle r end.

Definition to_unsigned (k : ikind) (z : Z) : N := Z.to_N (z mod Z.of_N (modulus (width k))).
Definition of_unsigned (k : ikind) (u : N) : Z :=
  if is_signed k && (modulus (width k) / 2 <=? u) then (Z.of_N u - Z.of_N (modulus (width k)))%Z else Z.of_N u.

Definition str_bytes (s : string) : list N := map N_of_ascii (list_ascii_of_string s).
Definition bytes_str (l : list N) : string := string_of_list_ascii (map ascii_of_N l).

Definition enc_fields (enc : value -> list N) (fs : list (string * value)) : list N :=
  flat_map (fun f => enc (snd f)) fs.

Fixpoint encode (v : value) : list N :=
  match v with
  | VBool b => [if b then 1 else 0]
  | VInt k z => le (width k) (to_unsigned k z)
  | VF32 b => le 4 b
  | VF64 b => le 8 b
  | VStr s => le 8 (N.of_nat (String.length s)) ++ str_bytes s
  | VUnit => []
  | VNone => [0]
  | VSome v => 1 :: encode v
  | VSeq l => le 8 (N.of_nat (List.length l)) ++ flat_map encode l
  | VMap l => le 8 (N.of_nat (List.length l)) ++ flat_map (fun kv => encode (fst kv) ++ encode (snd kv)) l
  | VTuple l => flat_map encode l
  | VStruct _ _ fs => flat_map (fun f => encode (snd f)) fs
  | VEnum _ idx _ _ fs => le 4 idx ++ flat_map (fun f => encode (snd f)) fs
  end.

(** genuine bytes *)
Definition bytes_ok (bs : list N) : Prop := Forall (fun b => b < 256) bs.

Fixpoint take (n : nat) (bs : list N) : option (list N * list N) :=
  match n with
  | O => Some ([], bs)
  | S m => match bs with
           | [] => None
           | b :: r => match take m r with Some (a, r') => Some (b :: a, r') | None => None end
           end
  end.
Definition dec_le (n : nat) (bs : list N) : option (N * list N) :=
  match take n bs with Some (a, r) => Some (unle a, r) | None => None end.

(** [n] consecutive items *)
Fixpoint rep {A} (f : list N -> option (A * list N)) (n : nat) (bs : list N) : option (list A * list N) :=
  match n with
  | O => Some ([], bs)
  | S m => match f bs with
           | Some (a, r) => match rep f m r with Some (l, r') => Some (a :: l, r') | None => None end
           | None => None
           end
  end.

Fixpoint nth_N {A} (l : list A) (i : N) : option A :=
  match l with
  | [] => None
  | x :: r => if i =? 0 then Some x else nth_N r (N.pred i)
  end.

(** combinators (the recursive functions below go through them; they are transparent to the guard checker) *)
Definition dec_seq {A B} (dec : A -> list N -> option (B * list N)) : list A -> list N -> option (list B * list N) :=
  fix go (ss : list A) (bs : list N) : option (list B * list N) :=
    match ss with
    | [] => Some ([], bs)
    | s' :: ss' => match dec s' bs with
                   | Some (v, r) => match go ss' r with Some (l, r') => Some (v :: l, r') | None => None end
                   | None => None
                   end
    end.
Definition pick_N {A B} (f : A -> option B) : list A -> N -> option B :=
  fix pick (vs : list A) (j : N) : option B :=
    match vs with
    | [] => None
    | x :: r => if j =? 0 then f x else pick r (N.pred j)
    end.
Definition forall2b {A B} (f : A -> B -> bool) : list A -> list B -> bool :=
  fix go (l : list A) (ss : list B) : bool :=
    match l, ss with
    | [], [] => true
    | a :: l', b :: ss' => f a b && go l' ss'
    | _, _ => false
    end.

Definition dec_field (dec : shape -> list N -> option (value * list N)) (f : string * shape) (bs : list N)
  : option ((string * value) * list N) :=
  match dec (snd f) bs with Some (v, r) => Some ((fst f, v), r) | None => None end.

Fixpoint decode (s : shape) (bs : list N) {struct s} : option (value * list N) :=
  match s with
  | SBool => match bs with
             | b :: r => if b =? 0 then Some (VBool false, r) else if b =? 1 then Some (VBool true, r) else None
             | [] => None
             end
  | SInt k => match dec_le (width k) bs with Some (u, r) => Some (VInt k (of_unsigned k u), r) | None => None end
  | SF32 => match dec_le 4 bs with Some (u, r) => Some (VF32 u, r) | None => None end
  | SF64 => match dec_le 8 bs with Some (u, r) => Some (VF64 u, r) | None => None end
  | SStr => match dec_le 8 bs with
            | Some (n, r) => match take (N.to_nat n) r with Some (a, r') => Some (VStr (bytes_str a), r') | None => None end
            | None => None
            end
  | SUnit => Some (VUnit, bs)
  | SOpt os => match bs with
               | b :: r =>
                   if b =? 0 then Some (VNone, r)
                   else if b =? 1 then
                     match os with
                     | Some s' => match decode s' r with Some (v, r') => Some (VSome v, r') | None => None end
                     | None => None
                     end
                   else None
               | [] => None
               end
  | SSeq os => match dec_le 8 bs with
               | Some (n, r) =>
                   match os with
                   | Some s' => match rep (decode s') (N.to_nat n) r with Some (l, r') => Some (VSeq l, r') | None => None end
                   | None => if n =? 0 then Some (VSeq [], r) else None
                   end
               | None => None
               end
  | SMap okv => match dec_le 8 bs with
                | Some (n, r) =>
                    match okv with
                    | Some (ks, vs) =>
                        match rep (fun b => match decode ks b with
                                            | Some (k, b') => match decode vs b' with Some (v, b'') => Some ((k, v), b'') | None => None end
                                            | None => None
                                            end) (N.to_nat n) r with
                        | Some (l, r') => Some (VMap l, r')
                        | None => None
                        end
                    | None => if n =? 0 then Some (VMap [], r) else None
                    end
                | None => None
                end
  | STuple ss => match dec_seq decode ss bs with Some (l, r) => Some (VTuple l, r) | None => None end
  | SStruct k name fs =>
      match dec_seq (dec_field decode) fs bs with Some (l, r) => Some (VStruct k name l, r) | None => None end
  | SEnum name vs =>
      match dec_le 4 bs with
      | Some (i, r) =>
          pick_N (fun ov : option (string * skind * list (string * shape)) =>
                    match ov with
                    | Some (vn, k, fs) =>
                        match dec_seq (dec_field decode) fs r with
                        | Some (l, r') => Some (VEnum name i vn k l, r')
                        | None => None
                        end
                    | None => None
                    end) vs i
      | None => None
      end
  end.

(* ------------------------------------------------------------------ typing of values *)
Definition len_ok {A} (l : list A) : bool := N.of_nat (List.length l) <? modulus 8.
Definition is_nil {A} (l : list A) : bool := match l with [] => true | _ => false end.
Definition field_shape (hs : value -> shape -> bool) (f : string * value) (s : string * shape) : bool :=
  String.eqb (fst f) (fst s) && hs (snd f) (snd s).

Fixpoint has_shape (v : value) (s : shape) {struct v} : bool :=
  match v, s with
  | VBool _, SBool => true
  | VInt k z, SInt k' => ikind_eqb k k' && in_range k z
  | VF32 b, SF32 => b <? modulus 4
  | VF64 b, SF64 => b <? modulus 8
  | VStr st, SStr => N.of_nat (String.length st) <? modulus 8
  | VUnit, SUnit => true
  | VNone, SOpt _ => true
  | VSome v', SOpt (Some s') => has_shape v' s'
  | VSeq l, SSeq os =>
      len_ok l && match os with
                  | Some s' => forallb (fun v' => has_shape v' s') l
                  | None => is_nil l
                  end
  | VMap l, SMap okv =>
      len_ok l && match okv with
                  | Some (ks, vs) => forallb (fun kv => has_shape (fst kv) ks && has_shape (snd kv) vs) l
                  | None => is_nil l
                  end
  | VTuple l, STuple ss => forall2b has_shape l ss
  | VStruct k n fs, SStruct k' n' ss =>
      skind_eqb k k' && String.eqb n n' && forall2b (field_shape has_shape) fs ss
  | VEnum n idx vn k fs, SEnum n' vs =>
      String.eqb n n' && (idx <? modulus 4) &&
      match nth_N vs idx with
      | Some (Some (vn', k', ss)) =>
          String.eqb vn vn' && skind_eqb k k' && forall2b (field_shape has_shape) fs ss
      | _ => false
      end
  | _, _ => false
  end.

(* ------------------------------------------------------------------ equality of values *)
Fixpoint list_eqb {A} (eq : A -> A -> bool) (a b : list A) : bool :=
  match a, b with
  | [], [] => true
  | x :: a', y :: b' => eq x y && list_eqb eq a' b'
  | _, _ => false
  end.
Definition field_eqb (eq : value -> value -> bool) (u w : string * value) : bool :=
  String.eqb (fst u) (fst w) && eq (snd u) (snd w).

Fixpoint value_eqb (a b : value) {struct a} : bool :=
  match a, b with
  | VBool x, VBool y => Bool.eqb x y
  | VInt k x, VInt k' y => ikind_eqb k k' && Z.eqb x y
  | VF32 x, VF32 y => x =? y
  | VF64 x, VF64 y => x =? y
  | VStr x, VStr y => String.eqb x y
  | VUnit, VUnit => true
  | VNone, VNone => true
  | VSome x, VSome y => value_eqb x y
  | VSeq x, VSeq y => forall2b value_eqb x y
  | VMap x, VMap y => forall2b (fun u w => value_eqb (fst u) (fst w) && value_eqb (snd u) (snd w)) x y
  | VTuple x, VTuple y => forall2b value_eqb x y
  | VStruct k n x, VStruct k' n' y => skind_eqb k k' && String.eqb n n' && forall2b (field_eqb value_eqb) x y
  | VEnum n i vn k x, VEnum n' i' vn' k' y =>
      String.eqb n n' && (i =? i') && String.eqb vn vn' && skind_eqb k k' && forall2b (field_eqb value_eqb) x y
  | _, _ => false
  end.

(* ------------------------------------------------------------------ declarations (translated) *)
Definition sattr := (string * string)%type.      (* serde attribute: name, raw argument text *)
Record field_decl := mkF { fd_name : string; fd_wire : string; fd_ty : string; fd_attrs : list sattr }.
Record variant_decl := mkV { vd_name : string; vd_wire : string; vd_kind : skind; vd_attrs : list sattr;
                             vd_fields : list field_decl }.
Inductive body_decl := BStruct (k : skind) (fs : list field_decl) | BEnum (vs : list variant_decl).
Record type_decl := mkT { td_name : string; td_src : string; td_ser : bool; td_de : bool;
                          td_attrs : list sattr; td_body : body_decl }.

Local Open Scope string_scope.
Definition has_attr (n : string) (l : list sattr) : bool := existsb (fun a => String.eqb (fst a) n) l.

(** attributes that do not change which data reaches the wire or how it is read back
    (symmetric renames are already applied to [fd_wire] / [vd_wire] by the translator) *)
Definition harmless_attr (n : string) : bool :=
  existsb (String.eqb n) ["crate"; "bound"; "rename"; "rename_all"; "deny_unknown_fields"; "alias"; "expecting"; "borrow"].
(** everything else (skip, skip_serializing, skip_deserializing, skip_serializing_if, default, with,
    serialize_with, deserialize_with, from, try_from, into, other, flatten, tag, content, untagged,
    transparent, remote, getter, rename_asymmetric, anything unknown) is treated as lossy *)
Definition attr_lossless (a : sattr) : bool := harmless_attr (fst a).
Definition skips_ser (l : list sattr) : bool := has_attr "skip" l || has_attr "skip_serializing" l.
Definition skips_de (l : list sattr) : bool := has_attr "skip" l || has_attr "skip_deserializing" l.

Definition field_lossless (f : field_decl) : bool := forallb attr_lossless (fd_attrs f).
Definition variant_lossless (v : variant_decl) : bool :=
  forallb attr_lossless (vd_attrs v) && forallb field_lossless (vd_fields v).
Definition lossless_decl (d : type_decl) : bool :=
  td_ser d && td_de d && forallb attr_lossless (td_attrs d) &&
  match td_body d with
  | BStruct _ fs => forallb field_lossless fs
  | BEnum vs => forallb variant_lossless vs
  end.

(* ---- what the derived impls do with a struct's fields ---- *)
(** Serialize: the fields that are not skipped, in declaration order, under their wire names *)
Fixpoint ser_fields (fds : list field_decl) (vals : list value) : list (string * value) :=
  match fds, vals with
  | f :: fds', v :: vals' =>
      if skips_ser (fd_attrs f) then ser_fields fds' vals' else (fd_wire f, v) :: ser_fields fds' vals'
  | _, _ => []
  end.
(** Deserialize (sequence access, as driven by bincode): the fields that are not skipped are read in
    order, a skipped field is filled with its default *)
Fixpoint de_fields (fds : list field_decl) (dflt : list value) (wire : list (string * value)) : option (list value) :=
  match fds, dflt with
  | [], [] => match wire with [] => Some [] | _ => None end
  | f :: fds', d :: dflt' =>
      if skips_de (fd_attrs f) then
        match de_fields fds' dflt' wire with Some l => Some (d :: l) | None => None end
      else
        match wire with
        | (n, v) :: wire' =>
            if String.eqb n (fd_wire f) then
              match de_fields fds' dflt' wire' with Some l => Some (v :: l) | None => None end
            else None
        | [] => None
        end
  | _, _ => None
  end.
(** the value that comes back: skipped fields replaced by their defaults *)
Fixpoint merge_defaults (fds : list field_decl) (dflt vals : list value) : list value :=
  match fds, dflt, vals with
  | f :: fds', d :: dflt', v :: vals' =>
      (if skips_de (fd_attrs f) then d else v) :: merge_defaults fds' dflt' vals'
  | _, _, _ => []
  end.

Definition wire_field_names (fds : list field_decl) : list string :=
  map fd_wire (filter (fun f => negb (skips_ser (fd_attrs f))) fds).

Definition ser_struct (name : string) (k : skind) (fds : list field_decl) (vals : list value) : value :=
  VStruct k name (ser_fields fds vals).

(* ---- enum variants ---- *)
(** generated Serialize: variant at position [p] (counted among ALL variants) is written with index p;
    a skipped variant cannot be serialised *)
Definition ser_variant (vs : list variant_decl) (p : nat) : option N :=
  match nth_error vs p with
  | Some v => if skips_ser (vd_attrs v) then None else Some (N.of_nat p)
  | None => None
  end.
(** generated Deserialize (identifier visitor, `visit_u64`): index i selects the i-th variant among
    those that are NOT skipped; the result is its position in the declaration *)
Fixpoint de_variant_from (vs : list variant_decl) (i : nat) (pos : nat) : option nat :=
  match vs with
  | [] => None
  | v :: r =>
      if skips_de (vd_attrs v) then de_variant_from r i (S pos)
      else match i with O => Some pos | S i' => de_variant_from r i' (S pos) end
  end.
Definition de_variant (vs : list variant_decl) (i : N) : option nat := de_variant_from vs (N.to_nat i) 0.

(** no live variant comes after a skipped one (then both numberings agree on the live variants) *)
Fixpoint index_stable (vs : list variant_decl) : bool :=
  match vs with
  | [] => true
  | v :: r => if skips_ser (vd_attrs v) || skips_de (vd_attrs v)
              then forallb (fun w => skips_ser (vd_attrs w) && skips_de (vd_attrs w)) r
              else index_stable r
  end.

(* ---- lookup ---- *)
Fixpoint find_decl (ds : list type_decl) (n : string) : option type_decl :=
  match ds with
  | [] => None
  | d :: r => if String.eqb (td_name d) n then Some d else find_decl r n
  end.

(** the documented exceptions (finding F17): type, field-or-variant *)
Definition known_skips : list (string * string) :=
  [("CountVectorizerValidParams", "tokenizer_function"); ("Error", "NdShape")].
Definition is_known_skip (t m : string) : bool :=
  existsb (fun p => String.eqb (fst p) t && String.eqb (snd p) m) known_skips.
Definition known_type (t : string) : bool := existsb (fun p => String.eqb (fst p) t) known_skips.
Definition minus_known (ds : list type_decl) : list type_decl :=
  filter (fun d => negb (known_type (td_name d))) ds.

(** no lossy attribute on the declaration of a recorded type, the documented exceptions apart *)
Definition attrs_ok_except (t m : string) (l : list sattr) : bool :=
  forallb attr_lossless l || is_known_skip t m.
Definition decl_lossless_or_known (d : type_decl) : bool :=
  lossless_decl d ||
  (known_type (td_name d) && td_ser d && td_de d && forallb attr_lossless (td_attrs d) &&
   match td_body d with
   | BStruct _ fs => forallb (fun f => attrs_ok_except (td_name d) (fd_name f) (fd_attrs f)) fs
   | BEnum vs => forallb (fun v => attrs_ok_except (td_name d) (vd_name v) (vd_attrs v)
                                   && forallb field_lossless (vd_fields v)) vs
   end).

(** an enum is index-stable, or it is one of the documented exceptions *)
Definition enum_stable (d : type_decl) : bool :=
  match td_body d with BEnum vs => index_stable vs | BStruct _ _ => true end.
