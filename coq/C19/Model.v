(** C19 - executable definitions only.

    (1) the serde data model as a universe of values (what a `Serialize` impl hands to a
        `Serializer`, struct / field / variant names included, floats as raw IEEE bit patterns);
    (2) bincode 1.3's default wire format (`bincode::serialize` / `bincode::deserialize`:
        little-endian fixed-width integers, u64 lengths, u32 variant tags, u8 option tags,
        no names on the wire) as `encode : value -> list N` and the type-directed
        `decode : shape -> list N -> option (value * list N)`;
    (3) the shape of a type declaration as produced by tools/c19_serde2coq.py from the Rust
        sources (`type_decl`), the table of `serde(...)` attributes ([attr_kind], [treatment_of])
        and what serde_derive 1.0.x generates for them, for the two disciplines a format can follow:
        POSITIONAL (non-self-describing: bincode - a struct is the sequence of the fields that are
        written, an enum variant is its index) and KEYED (self-describing: serde_json - a struct is
        a map from names to values, read in any order, unknown keys ignored unless denied, a
        variant is its name). Which fields are written ([ser_pos]: skip, skip_serializing,
        skip_serializing_if), how they are read back ([de_pos], [de_key]: skip,
        skip_deserializing, default, rename / alias, deny_unknown_fields, missing Option), how
        variants are numbered / named ([ser_variant], [de_variant], [de_variant_key]), the
        container representations (transparent, untagged, tag, content) and the attributes that
        hand control to user code (with, from, into, ...: [TOpaque], never counted as lossless). *)
From Coq Require Import List String Ascii NArith ZArith Bool.
Import ListNotations.
Local Open Scope N_scope.

(* ------------------------------------------------------------------ values *)
Inductive ikind := U8 | U16 | U32 | U64 | I8 | I16 | I32 | I64.
Inductive skind := KUnit | KNewtype | KTuple | KNamed.

Inductive value :=
| VBool (b : bool)
| VInt (k : ikind) (z : Z)
| VF32 (bits : N)
| VF64 (bits : N)
| VStr (s : string)
| VUnit
| VNone
| VSome (v : value)
| VSeq (l : list value)
| VMap (l : list (value * value))
| VTuple (l : list value)
| VStruct (k : skind) (name : string) (fs : list (string * value))
| VEnum (name : string) (idx : N) (vname : string) (k : skind) (fs : list (string * value)).

(** type-level description used by the decoder; [None] = no information (only the empty /
    absent value is accepted there) *)
Inductive shape :=
| SBool | SInt (k : ikind) | SF32 | SF64 | SStr | SUnit
| SOpt (s : option shape)
| SSeq (s : option shape)
| SMap (kv : option (shape * shape))
| STuple (l : list shape)
| SStruct (k : skind) (name : string) (fs : list (string * shape))
| SEnum (name : string) (vs : list (option (string * skind * list (string * shape)))).

Definition ikind_eqb (a b : ikind) : bool :=
  match a, b with
  | U8, U8 | U16, U16 | U32, U32 | U64, U64 | I8, I8 | I16, I16 | I32, I32 | I64, I64 => true
  | _, _ => false
  end.
Definition skind_eqb (a b : skind) : bool :=
  match a, b with
  | KUnit, KUnit | KNewtype, KNewtype | KTuple, KTuple | KNamed, KNamed => true
  | _, _ => false
  end.

Definition width (k : ikind) : nat :=
  match k with U8 | I8 => 1 | U16 | I16 => 2 | U32 | I32 => 4 | U64 | I64 => 8 end%nat.
Definition is_signed (k : ikind) : bool :=
  match k with I8 | I16 | I32 | I64 => true | _ => false end.
Definition modulus (n : nat) : N := 2 ^ (8 * N.of_nat n).
Definition in_range (k : ikind) (z : Z) : bool :=
  let m := Z.of_N (modulus (width k)) in
  if is_signed k then (Z.leb (- (m / 2)) z && Z.ltb z (m / 2))%Z else (Z.leb 0 z && Z.ltb z m)%Z.

(* ------------------------------------------------------------------ bytes *)
Fixpoint le (n : nat) (x : N) : list N :=
  match n with O => [] | S m => (x mod 256) :: le m (x / 256) end.
Fixpoint unle (l : list N) : N :=
  match l with [] => 0 | b :: r => b + 256 * unle r end.

Definition to_unsigned (k : ikind) (z : Z) : N := Z.to_N (z mod Z.of_N (modulus (width k))).
Definition of_unsigned (k : ikind) (u : N) : Z :=
  if is_signed k && (modulus (width k) / 2 <=? u) then (Z.of_N u - Z.of_N (modulus (width k)))%Z else Z.of_N u.

Definition str_bytes (s : string) : list N := map N_of_ascii (list_ascii_of_string s).
Definition bytes_str (l : list N) : string := string_of_list_ascii (map ascii_of_N l).

Definition enc_fields (enc : value -> list N) (fs : list (string * value)) : list N :=
  flat_map (fun f => enc (snd f)) fs.

Fixpoint encode (v : value) : list N :=
  match v with
  | VBool b => [if b then 1 else 0]
  | VInt k z => le (width k) (to_unsigned k z)
  | VF32 b => le 4 b
  | VF64 b => le 8 b
  | VStr s => le 8 (N.of_nat (String.length s)) ++ str_bytes s
  | VUnit => []
  | VNone => [0]
  | VSome v => 1 :: encode v
  | VSeq l => le 8 (N.of_nat (List.length l)) ++ flat_map encode l
  | VMap l => le 8 (N.of_nat (List.length l)) ++ flat_map (fun kv => encode (fst kv) ++ encode (snd kv)) l
  | VTuple l => flat_map encode l
  | VStruct _ _ fs => flat_map (fun f => encode (snd f)) fs
  | VEnum _ idx _ _ fs => le 4 idx ++ flat_map (fun f => encode (snd f)) fs
  end.

(** genuine bytes *)
Definition bytes_ok (bs : list N) : Prop := Forall (fun b => b < 256) bs.

Fixpoint take (n : nat) (bs : list N) : option (list N * list N) :=
  match n with
  | O => Some ([], bs)
  | S m => match bs with
           | [] => None
           | b :: r => match take m r with Some (a, r') => Some (b :: a, r') | None => None end
           end
  end.
Definition dec_le (n : nat) (bs : list N) : option (N * list N) :=
  match take n bs with Some (a, r) => Some (unle a, r) | None => None end.

(** [n] consecutive items *)
Fixpoint rep {A} (f : list N -> option (A * list N)) (n : nat) (bs : list N) : option (list A * list N) :=
  match n with
  | O => Some ([], bs)
  | S m => match f bs with
           | Some (a, r) => match rep f m r with Some (l, r') => Some (a :: l, r') | None => None end
           | None => None
           end
  end.

Fixpoint nth_N {A} (l : list A) (i : N) : option A :=
  match l with
  | [] => None
  | x :: r => if i =? 0 then Some x else nth_N r (N.pred i)
  end.

(** combinators (the recursive functions below go through them; they are transparent to the guard checker) *)
Definition dec_seq {A B} (dec : A -> list N -> option (B * list N)) : list A -> list N -> option (list B * list N) :=
  fix go (ss : list A) (bs : list N) : option (list B * list N) :=
    match ss with
    | [] => Some ([], bs)
    | s' :: ss' => match dec s' bs with
                   | Some (v, r) => match go ss' r with Some (l, r') => Some (v :: l, r') | None => None end
                   | None => None
                   end
    end.
Definition pick_N {A B} (f : A -> option B) : list A -> N -> option B :=
  fix pick (vs : list A) (j : N) : option B :=
    match vs with
    | [] => None
    | x :: r => if j =? 0 then f x else pick r (N.pred j)
    end.
Definition forall2b {A B} (f : A -> B -> bool) : list A -> list B -> bool :=
  fix go (l : list A) (ss : list B) : bool :=
    match l, ss with
    | [], [] => true
    | a :: l', b :: ss' => f a b && go l' ss'
    | _, _ => false
    end.

Definition dec_field (dec : shape -> list N -> option (value * list N)) (f : string * shape) (bs : list N)
  : option ((string * value) * list N) :=
  match dec (snd f) bs with Some (v, r) => Some ((fst f, v), r) | None => None end.

Fixpoint decode (s : shape) (bs : list N) {struct s} : option (value * list N) :=
  match s with
  | SBool => match bs with
             | b :: r => if b =? 0 then Some (VBool false, r) else if b =? 1 then Some (VBool true, r) else None
             | [] => None
             end
  | SInt k => match dec_le (width k) bs with Some (u, r) => Some (VInt k (of_unsigned k u), r) | None => None end
  | SF32 => match dec_le 4 bs with Some (u, r) => Some (VF32 u, r) | None => None end
  | SF64 => match dec_le 8 bs with Some (u, r) => Some (VF64 u, r) | None => None end
  | SStr => match dec_le 8 bs with
            | Some (n, r) => match take (N.to_nat n) r with Some (a, r') => Some (VStr (bytes_str a), r') | None => None end
            | None => None
            end
  | SUnit => Some (VUnit, bs)
  | SOpt os => match bs with
               | b :: r =>
                   if b =? 0 then Some (VNone, r)
                   else if b =? 1 then
                     match os with
                     | Some s' => match decode s' r with Some (v, r') => Some (VSome v, r') | None => None end
                     | None => None
                     end
                   else None
               | [] => None
               end
  | SSeq os => match dec_le 8 bs with
               | Some (n, r) =>
                   match os with
                   | Some s' => match rep (decode s') (N.to_nat n) r with Some (l, r') => Some (VSeq l, r') | None => None end
                   | None => if n =? 0 then Some (VSeq [], r) else None
                   end
               | None => None
               end
  | SMap okv => match dec_le 8 bs with
                | Some (n, r) =>
                    match okv with
                    | Some (ks, vs) =>
                        match rep (fun b => match decode ks b with
                                            | Some (k, b') => match decode vs b' with Some (v, b'') => Some ((k, v), b'') | None => None end
                                            | None => None
                                            end) (N.to_nat n) r with
                        | Some (l, r') => Some (VMap l, r')
                        | None => None
                        end
                    | None => if n =? 0 then Some (VMap [], r) else None
                    end
                | None => None
                end
  | STuple ss => match dec_seq decode ss bs with Some (l, r) => Some (VTuple l, r) | None => None end
  | SStruct k name fs =>
      match dec_seq (dec_field decode) fs bs with Some (l, r) => Some (VStruct k name l, r) | None => None end
  | SEnum name vs =>
      match dec_le 4 bs with
      | Some (i, r) =>
          pick_N (fun ov : option (string * skind * list (string * shape)) =>
                    match ov with
                    | Some (vn, k, fs) =>
                        match dec_seq (dec_field decode) fs r with
                        | Some (l, r') => Some (VEnum name i vn k l, r')
                        | None => None
                        end
                    | None => None
                    end) vs i
      | None => None
      end
  end.

(* ------------------------------------------------------------------ typing of values *)
Definition len_ok {A} (l : list A) : bool := N.of_nat (List.length l) <? modulus 8.
Definition is_nil {A} (l : list A) : bool := match l with [] => true | _ => false end.
Definition field_shape (hs : value -> shape -> bool) (f : string * value) (s : string * shape) : bool :=
  String.eqb (fst f) (fst s) && hs (snd f) (snd s).

Fixpoint has_shape (v : value) (s : shape) {struct v} : bool :=
  match v, s with
  | VBool _, SBool => true
  | VInt k z, SInt k' => ikind_eqb k k' && in_range k z
  | VF32 b, SF32 => b <? modulus 4
  | VF64 b, SF64 => b <? modulus 8
  | VStr st, SStr => N.of_nat (String.length st) <? modulus 8
  | VUnit, SUnit => true
  | VNone, SOpt _ => true
  | VSome v', SOpt (Some s') => has_shape v' s'
  | VSeq l, SSeq os =>
      len_ok l && match os with
                  | Some s' => forallb (fun v' => has_shape v' s') l
                  | None => is_nil l
                  end
  | VMap l, SMap okv =>
      len_ok l && match okv with
                  | Some (ks, vs) => forallb (fun kv => has_shape (fst kv) ks && has_shape (snd kv) vs) l
                  | None => is_nil l
                  end
  | VTuple l, STuple ss => forall2b has_shape l ss
  | VStruct k n fs, SStruct k' n' ss =>
      skind_eqb k k' && String.eqb n n' && forall2b (field_shape has_shape) fs ss
  | VEnum n idx vn k fs, SEnum n' vs =>
      String.eqb n n' && (idx <? modulus 4) &&
      match nth_N vs idx with
      | Some (Some (vn', k', ss)) =>
          String.eqb vn vn' && skind_eqb k k' && forall2b (field_shape has_shape) fs ss
      | _ => false
      end
  | _, _ => false
  end.

(* ------------------------------------------------------------------ equality of values *)
Fixpoint list_eqb {A} (eq : A -> A -> bool) (a b : list A) : bool :=
  match a, b with
  | [], [] => true
  | x :: a', y :: b' => eq x y && list_eqb eq a' b'
  | _, _ => false
  end.
Definition field_eqb (eq : value -> value -> bool) (u w : string * value) : bool :=
  String.eqb (fst u) (fst w) && eq (snd u) (snd w).

Fixpoint value_eqb (a b : value) {struct a} : bool :=
  match a, b with
  | VBool x, VBool y => Bool.eqb x y
  | VInt k x, VInt k' y => ikind_eqb k k' && Z.eqb x y
  | VF32 x, VF32 y => x =? y
  | VF64 x, VF64 y => x =? y
  | VStr x, VStr y => String.eqb x y
  | VUnit, VUnit => true
  | VNone, VNone => true
  | VSome x, VSome y => value_eqb x y
  | VSeq x, VSeq y => forall2b value_eqb x y
  | VMap x, VMap y => forall2b (fun u w => value_eqb (fst u) (fst w) && value_eqb (snd u) (snd w)) x y
  | VTuple x, VTuple y => forall2b value_eqb x y
  | VStruct k n x, VStruct k' n' y => skind_eqb k k' && String.eqb n n' && forall2b (field_eqb value_eqb) x y
  | VEnum n i vn k x, VEnum n' i' vn' k' y =>
      String.eqb n n' && (i =? i') && String.eqb vn vn' && skind_eqb k k' && forall2b (field_eqb value_eqb) x y
  | _, _ => false
  end.

(* ------------------------------------------------------------------ declarations (translated) *)
Definition sattr := (string * string)%type.      (* serde attribute: name, raw argument text *)
(** [fd_wire]: the name written by the generated serialiser; [fd_de]: the names the generated
    deserialiser accepts (rename / rename_all / alias resolved by the translator) *)
Record field_decl := mkF { fd_name : string; fd_wire : string; fd_de : list string; fd_ty : string;
                           fd_attrs : list sattr }.
Record variant_decl := mkV { vd_name : string; vd_wire : string; vd_de : list string; vd_kind : skind;
                             vd_attrs : list sattr; vd_fields : list field_decl }.
Inductive body_decl := BStruct (k : skind) (fs : list field_decl) | BEnum (vs : list variant_decl).
Record type_decl := mkT { td_name : string; td_wire : string; td_src : string; td_ser : bool; td_de : bool;
                          td_attrs : list sattr; td_body : body_decl }.

Local Open Scope string_scope.
Definition has_attr (n : string) (l : list sattr) : bool := existsb (fun a => String.eqb (fst a) n) l.
Definition mem (s : string) (l : list string) : bool := existsb (String.eqb s) l.
Fixpoint assoc {A} (n : string) (l : list (string * A)) : option A :=
  match l with
  | [] => None
  | (k, v) :: r => if String.eqb k n then Some v else assoc n r
  end.

(* ------------------------------------------------------------------ the attribute table *)
(** every attribute serde_derive accepts, plus the three names the translator produces itself *)
Inductive attr_kind :=
| ACrate | ABound | AExpecting | ABorrow | AOther
| ARename | ARenameAsym | ARenameAll | ARenameAllFields | AAlias
| ASkip | ASkipSer | ASkipDe | ASkipSerIf | ADefault | ADenyUnknown | AFlatten
| ATransparent | AUntagged | ATag | AContent
| AWith | ASerWith | ADeWith | AFrom | ATryFrom | AInto | ARemote | AGetter | AVariantIdent | AFieldIdent
| ARenameAllUnknown | AUnsupported.

Definition attr_table : list (string * attr_kind) :=
  [("crate", ACrate); ("bound", ABound); ("expecting", AExpecting); ("borrow", ABorrow); ("other", AOther);
   ("rename", ARename); ("rename_asymmetric", ARenameAsym); ("rename_all", ARenameAll);
   ("rename_all_fields", ARenameAllFields); ("alias", AAlias);
   ("skip", ASkip); ("skip_serializing", ASkipSer); ("skip_deserializing", ASkipDe);
   ("skip_serializing_if", ASkipSerIf); ("default", ADefault); ("deny_unknown_fields", ADenyUnknown);
   ("flatten", AFlatten);
   ("transparent", ATransparent); ("untagged", AUntagged); ("tag", ATag); ("content", AContent);
   ("with", AWith); ("serialize_with", ASerWith); ("deserialize_with", ADeWith); ("from", AFrom);
   ("try_from", ATryFrom); ("into", AInto); ("remote", ARemote); ("getter", AGetter);
   ("variant_identifier", AVariantIdent); ("field_identifier", AFieldIdent);
   ("rename_all_unknown_rule", ARenameAllUnknown); ("unsupported", AUnsupported)].
Definition attr_of_name (n : string) : option attr_kind := assoc n attr_table.

(** how the model treats an attribute *)
Inductive treatment :=
| TNeutral     (* no influence on what is written or on how the type's own output is read back:
                  crate path, trait bounds, error text, borrowing, the catch-all variant for foreign tags *)
| TNames       (* resolved by the translator into fd_wire / fd_de, vd_wire / vd_de, td_wire *)
| TFlow        (* decides whether a field / variant is written, whether it is read, and what a missing
                  one becomes: [ser_pos], [de_pos], [de_key], [ser_variant], [de_variant] *)
| TRepr        (* the representation of the container: [ser_container], [repr_of] *)
| TOpaque.     (* hands control to user code, or is unknown to the translator: no model; a declaration
                  that carries one is never counted as lossless *)
Definition treatment_of (k : attr_kind) : treatment :=
  match k with
  | ACrate | ABound | AExpecting | ABorrow | AOther => TNeutral
  | ARename | ARenameAsym | ARenameAll | ARenameAllFields | AAlias => TNames
  | ASkip | ASkipSer | ASkipDe | ASkipSerIf | ADefault | ADenyUnknown | AFlatten => TFlow
  | ATransparent | AUntagged | ATag | AContent => TRepr
  | AWith | ASerWith | ADeWith | AFrom | ATryFrom | AInto | ARemote | AGetter | AVariantIdent | AFieldIdent
  | ARenameAllUnknown | AUnsupported => TOpaque
  end.
Definition attr_known (n : string) : bool := match attr_of_name n with Some _ => true | None => false end.
Definition attr_opaque (a : sattr) : bool :=
  match attr_of_name (fst a) with
  | Some k => match treatment_of k with TOpaque => true | _ => false end
  | None => true
  end.
Definition no_opaque (l : list sattr) : bool := negb (existsb attr_opaque l).

(* ------------------------------------------------------------------ fields: what is written, what is read *)
Definition skips_ser (l : list sattr) : bool := has_attr "skip" l || has_attr "skip_serializing" l.
Definition skips_de (l : list sattr) : bool := has_attr "skip" l || has_attr "skip_deserializing" l.
Definition f_sif (f : field_decl) : bool := has_attr "skip_serializing_if" (fd_attrs f).
Definition f_flatten (f : field_decl) : bool := has_attr "flatten" (fd_attrs f).
Definition f_read (f : field_decl) : bool := negb (skips_de (fd_attrs f)).
(** [cd]: the container carries `serde(default)` (every field then falls back to the container's default) *)
Definition f_has_default (cd : bool) (f : field_decl) : bool := cd || has_attr "default" (fd_attrs f).
(** serde's `missing_field` helper answers `None` for an `Option` without any default *)
Definition f_is_option (f : field_decl) : bool := prefix "Option<" (fd_ty f).
Definition f_self_named (f : field_decl) : bool := mem (fd_wire f) (fd_de f).

(** one field of one value: the value it holds, the value it gets when nothing is read for it
    (`Default::default()`, the `default = "path"` function or the container default's field), and
    whether its `skip_serializing_if` predicate holds on the value *)
Record fin := mkIn { in_val : value; in_dflt : value; in_sif : bool }.
Definition f_written (f : field_decl) (i : fin) : bool :=
  negb (skips_ser (fd_attrs f)) && negb (f_sif f && in_sif i).

(** generated Serialize: the fields that are written, in declaration order, under their names *)
Fixpoint ser_pos (fds : list field_decl) (ins : list fin) : list (string * value) :=
  match fds, ins with
  | f :: fds', i :: ins' =>
      if f_written f i then (fd_wire f, in_val i) :: ser_pos fds' ins' else ser_pos fds' ins'
  | _, _ => []
  end.
(** generated Deserialize driven POSITIONALLY (`visit_seq`, bincode): every field that is read takes the
    next element. The names carried along stand for the alignment of the byte stream: where the element at
    hand is not the one the field wrote, the model answers [None] (bincode then fails or reinterprets the
    bytes of another field - either way the value is not the original one). *)
Fixpoint de_pos (fds : list field_decl) (ins : list fin) (wire : list (string * value)) : option (list value) :=
  match fds, ins with
  | [], [] => match wire with [] => Some [] | _ => None end
  | f :: fds', i :: ins' =>
      if f_read f then
        match wire with
        | (n, v) :: wire' =>
            if String.eqb n (fd_wire f) then
              match de_pos fds' ins' wire' with Some l => Some (v :: l) | None => None end
            else None
        | [] => None
        end
      else match de_pos fds' ins' wire with Some l => Some (in_dflt i :: l) | None => None end
  | _, _ => None
  end.

(** generated Deserialize driven BY KEY (`visit_map`, serde_json) *)
Definition matches (names : list string) (obj : list (string * value)) : list value :=
  map snd (filter (fun kv => mem (fst kv) names) obj).
Definition de_key_field (cd : bool) (obj : list (string * value)) (f : field_decl) (i : fin) : option value :=
  if f_read f then
    match matches (fd_de f) obj with
    | [] => if f_has_default cd f then Some (in_dflt i) else if f_is_option f then Some VNone else None
    | [v] => Some v
    | _ => None                                      (* "duplicate field" *)
    end
  else Some (in_dflt i).
Definition known_key (fds : list field_decl) (k : string) : bool :=
  existsb (fun f => f_read f && mem k (fd_de f)) fds.
Fixpoint map_opt2 {A B C} (g : A -> B -> option C) (l : list A) (m : list B) : option (list C) :=
  match l, m with
  | [], [] => Some []
  | a :: l', b :: m' =>
      match g a b, map_opt2 g l' m' with Some c, Some r => Some (c :: r) | _, _ => None end
  | _, _ => None
  end.
Definition de_key (deny cd : bool) (fds : list field_decl) (ins : list fin) (obj : list (string * value))
  : option (list value) :=
  if deny && negb (forallb (fun kv => known_key fds (fst kv)) obj) then None
  else map_opt2 (de_key_field cd obj) fds ins.

(** what comes back for one field through a keyed format, without any lookup *)
Definition f_present (f : field_decl) (i : fin) : bool := f_written f i && f_self_named f.
Definition key_field_result (cd : bool) (f : field_decl) (i : fin) : option value :=
  if f_read f then
    if f_present f i then Some (in_val i)
    else if f_has_default cd f then Some (in_dflt i) else if f_is_option f then Some VNone else None
  else Some (in_dflt i).
(** a field that is written under a name no field reads *)
Definition f_stray (f : field_decl) (i : fin) : bool := f_written f i && negb (f_read f && f_self_named f).
Fixpoint any2 {A B} (p : A -> B -> bool) (l : list A) (m : list B) : bool :=
  match l, m with a :: l', b :: m' => p a b || any2 p l' m' | _, _ => false end.
Definition key_result (deny cd : bool) (fds : list field_decl) (ins : list fin) : option (list value) :=
  if deny && any2 f_stray fds ins then None else map_opt2 (key_field_result cd) fds ins.

(** no field writes a name that another field reads *)
Definition silent (f : field_decl) (l : list field_decl) : bool :=
  forallb (fun g => negb (mem (fd_wire g) (fd_de f))) l.
Fixpoint names_ok_from (pre post : list field_decl) : bool :=
  match post with
  | [] => true
  | f :: post' => silent f pre && silent f post' && names_ok_from (pre ++ [f]) post'
  end.
Definition names_ok (fds : list field_decl) : bool := names_ok_from [] fds.

(** the value that comes back through a positional format when the layout is aligned *)
Fixpoint merge_pos (fds : list field_decl) (ins : list fin) : list value :=
  match fds, ins with
  | f :: fds', i :: ins' => (if f_read f then in_val i else in_dflt i) :: merge_pos fds' ins'
  | _, _ => []
  end.
Fixpoint aligned (fds : list field_decl) (ins : list fin) : bool :=
  match fds, ins with
  | f :: fds', i :: ins' => Bool.eqb (f_written f i) (f_read f) && aligned fds' ins'
  | [], [] => true
  | _, _ => false
  end.
Fixpoint wire_nodup (fds : list field_decl) : bool :=
  match fds with [] => true | f :: r => negb (mem (fd_wire f) (map fd_wire r)) && wire_nodup r end.

(* ---- the older, attribute-poorer interface (skip only): kept for the layout correspondence ---- *)
Definition field_pos_static (f : field_decl) : bool :=
  no_opaque (fd_attrs f) && negb (skips_ser (fd_attrs f)) && f_read f && negb (f_sif f) && negb (f_flatten f).
Definition field_lossless (f : field_decl) : bool := field_pos_static f.
(** Serialize: the fields that are not skipped, in declaration order, under their wire names *)
Fixpoint ser_fields (fds : list field_decl) (vals : list value) : list (string * value) :=
  match fds, vals with
  | f :: fds', v :: vals' =>
      if skips_ser (fd_attrs f) then ser_fields fds' vals' else (fd_wire f, v) :: ser_fields fds' vals'
  | _, _ => []
  end.
(** Deserialize (sequence access, as driven by bincode): the fields that are not skipped are read in
    order, a skipped field is filled with its default *)
Fixpoint de_fields (fds : list field_decl) (dflt : list value) (wire : list (string * value)) : option (list value) :=
  match fds, dflt with
  | [], [] => match wire with [] => Some [] | _ => None end
  | f :: fds', d :: dflt' =>
      if skips_de (fd_attrs f) then
        match de_fields fds' dflt' wire with Some l => Some (d :: l) | None => None end
      else
        match wire with
        | (n, v) :: wire' =>
            if String.eqb n (fd_wire f) then
              match de_fields fds' dflt' wire' with Some l => Some (v :: l) | None => None end
            else None
        | [] => None
        end
  | _, _ => None
  end.
(** the value that comes back: skipped fields replaced by their defaults *)
Fixpoint merge_defaults (fds : list field_decl) (dflt vals : list value) : list value :=
  match fds, dflt, vals with
  | f :: fds', d :: dflt', v :: vals' =>
      (if skips_de (fd_attrs f) then d else v) :: merge_defaults fds' dflt' vals'
  | _, _, _ => []
  end.

Definition wire_field_names (fds : list field_decl) : list string :=
  map fd_wire (filter (fun f => negb (skips_ser (fd_attrs f))) fds).
(** the names a recorded struct may show: every field that is always written, in order; a field under
    `skip_serializing_if` may be absent *)
Fixpoint layout_ok (fds : list field_decl) (names : list string) : bool :=
  match fds with
  | [] => match names with [] => true | _ => false end
  | f :: fds' =>
      if skips_ser (fd_attrs f) then layout_ok fds' names
      else match names with
           | n :: names' =>
               if String.eqb n (fd_wire f) then layout_ok fds' names'
               else f_sif f && layout_ok fds' names
           | [] => f_sif f && layout_ok fds' []
           end
  end.

Definition ser_struct (name : string) (k : skind) (fds : list field_decl) (vals : list value) : value :=
  VStruct k name (ser_fields fds vals).

(* ---- containers ---- *)
Definition c_default (d : type_decl) : bool := has_attr "default" (td_attrs d).
Definition c_deny (d : type_decl) : bool := has_attr "deny_unknown_fields" (td_attrs d).
Definition c_transparent (d : type_decl) : bool := has_attr "transparent" (td_attrs d).
(** what the generated Serialize hands to the serializer for a struct: `transparent` passes the single
    written field through, a flattened field turns the struct into a map of unknown length, otherwise a
    struct node *)
Definition ser_container (d : type_decl) (k : skind) (fds : list field_decl) (ins : list fin) : value :=
  if c_transparent d then match ser_pos fds ins with [(_, v)] => v | _ => VUnit end
  else VStruct k (td_wire d) (ser_pos fds ins).
(** a positional format needs the number of elements in advance: `flatten` (serialize_map(None)) is refused *)
Definition pos_serializable (fds : list field_decl) : bool := negb (existsb f_flatten fds).

(** `flatten`, read by key: the ordinary fields take the members they know; what nobody knows is collected and
    offered to the flattened fields; a flattened struct (attribute-free) picks its own member names out of it *)
Fixpoint plain2 (fds : list field_decl) (ins : list fin) : list field_decl * list fin :=
  match fds, ins with
  | f :: fds', i :: ins' =>
      let r := plain2 fds' ins' in
      if f_flatten f then r else (f :: fst r, i :: snd r)
  | _, _ => ([], [])
  end.
Definition collect (fds : list field_decl) (obj : list (string * value)) : list (string * value) :=
  filter (fun kv => negb (known_key fds (fst kv))) obj.
Fixpoint ser_key_flat (fds : list field_decl) (ins : list fin) : list (string * value) :=
  match fds, ins with
  | f :: fds', i :: ins' =>
      (if f_flatten f then match in_val i with VStruct KNamed _ es => es | _ => [] end
       else if f_written f i then [(fd_wire f, in_val i)] else []) ++ ser_key_flat fds' ins'
  | _, _ => []
  end.
Fixpoint pick_entries (coll : list (string * value)) (es : list (string * value)) : option (list (string * value)) :=
  match es with
  | [] => Some []
  | e :: r => match matches [fst e] coll, pick_entries coll r with
              | [v], Some m => Some ((fst e, v) :: m)
              | _, _ => None
              end
  end.
Definition de_key_flat (cd : bool) (fds : list field_decl) (ins : list fin) (obj : list (string * value))
  : option (list value) :=
  let coll := collect (fst (plain2 fds ins)) obj in
  map_opt2 (fun f i => if f_flatten f then
                         match in_val i with
                         | VStruct KNamed n es => match pick_entries coll es with Some m => Some (VStruct KNamed n m) | None => None end
                         | _ => None
                         end
                       else de_key_field cd obj f i) fds ins.

(** enum representations *)
Inductive repr := RExternal | RInternal (tag : string) | RAdjacent (tag content : string) | RUntagged.
Definition repr_of (l : list sattr) : repr :=
  if has_attr "untagged" l then RUntagged
  else match assoc "tag" l with
       | Some t => match assoc "content" l with Some c => RAdjacent t c | None => RInternal t end
       | None => RExternal
       end.
(** internally / adjacently tagged and untagged enums are read through `deserialize_any` /
    `deserialize_identifier`, which a positional format cannot offer: only the external
    representation (variant index) can be read back *)
Definition repr_pos_ok (r : repr) : bool := match r with RExternal => true | _ => false end.
Definition repr_key_by_name (r : repr) : bool := match r with RUntagged => false | _ => true end.

(* ---- enum variants ---- *)
(** generated Serialize: variant at position [p] (counted among ALL variants) is written with index p;
    a skipped variant cannot be serialised *)
Definition ser_variant (vs : list variant_decl) (p : nat) : option N :=
  match nth_error vs p with
  | Some v => if skips_ser (vd_attrs v) then None else Some (N.of_nat p)
  | None => None
  end.
(** generated Deserialize (identifier visitor, `visit_u64`): index i selects the i-th variant among
    those that are NOT skipped; the result is its position in the declaration *)
Fixpoint de_variant_from (vs : list variant_decl) (i : nat) (pos : nat) : option nat :=
  match vs with
  | [] => None
  | v :: r =>
      if skips_de (vd_attrs v) then de_variant_from r i (S pos)
      else match i with O => Some pos | S i' => de_variant_from r i' (S pos) end
  end.
Definition de_variant (vs : list variant_decl) (i : N) : option nat := de_variant_from vs (N.to_nat i) 0.

(** KEYED: the variant is written as its name (`visit_str`: the arms are tried in declaration order over the
    variants that are not skipped); UNTAGGED: the variants that are not skipped are tried in order on the
    payload, the first that accepts it wins. Both are "the first live variant that satisfies [p]". *)
Fixpoint first_live (p : variant_decl -> bool) (vs : list variant_decl) (pos : nat) : option nat :=
  match vs with
  | [] => None
  | v :: r => if negb (skips_de (vd_attrs v)) && p v then Some pos else first_live p r (S pos)
  end.
Definition ser_variant_key (vs : list variant_decl) (p : nat) : option string :=
  match nth_error vs p with
  | Some v => if skips_ser (vd_attrs v) then None else Some (vd_wire v)
  | None => None
  end.
Definition de_variant_key (vs : list variant_decl) (name : string) : option nat :=
  first_live (fun v => mem name (vd_de v)) vs 0.
Definition de_untagged {A} (accepts : variant_decl -> A -> bool) (vs : list variant_decl) (payload : A) : option nat :=
  first_live (fun v => accepts v payload) vs 0.

(** no live variant comes after a skipped one (then both numberings agree on the live variants) *)
Fixpoint index_stable (vs : list variant_decl) : bool :=
  match vs with
  | [] => true
  | v :: r => if skips_ser (vd_attrs v) || skips_de (vd_attrs v)
              then forallb (fun w => skips_ser (vd_attrs w) && skips_de (vd_attrs w)) r
              else index_stable r
  end.
(** no live variant answers to the name another live variant writes *)
Fixpoint vnames_ok (vs : list variant_decl) : bool :=
  match vs with
  | [] => true
  | v :: r => forallb (fun w => negb (mem (vd_wire w) (vd_de v)) && negb (mem (vd_wire v) (vd_de w))) r && vnames_ok r
  end.

(* ------------------------------------------------------------------ static losslessness of a declaration *)
(** sufficient for EVERY value of the field to come back: always written, always read, under a name it reads
    itself. The one value-dependent attribute that is lossless by construction is the idiom
    `skip_serializing_if = "Option::is_none"` on an `Option` without default (keyed formats only). *)
Definition sif_none_idiom (cd : bool) (f : field_decl) : bool :=
  match assoc "skip_serializing_if" (fd_attrs f) with
  | Some a => String.eqb a """Option::is_none""" && f_is_option f && negb (f_has_default cd f)
  | None => false
  end.
Definition field_key_static (cd : bool) (f : field_decl) : bool :=
  no_opaque (fd_attrs f) && negb (skips_ser (fd_attrs f)) && f_read f && f_self_named f && negb (f_flatten f)
  && (negb (f_sif f) || sif_none_idiom cd f).
Definition variant_pos_static (v : variant_decl) : bool :=
  no_opaque (vd_attrs v) && negb (skips_ser (vd_attrs v)) && negb (skips_de (vd_attrs v))
  && negb (has_attr "untagged" (vd_attrs v)) && forallb field_pos_static (vd_fields v).
Definition variant_key_static (v : variant_decl) : bool :=
  no_opaque (vd_attrs v) && negb (skips_ser (vd_attrs v)) && negb (skips_de (vd_attrs v))
  && negb (has_attr "untagged" (vd_attrs v)) && mem (vd_wire v) (vd_de v)
  && forallb (field_key_static false) (vd_fields v) && names_ok (vd_fields v).
Definition variant_lossless (v : variant_decl) : bool := variant_pos_static v.

Definition lossless_decl_pos (d : type_decl) : bool :=
  td_ser d && td_de d && no_opaque (td_attrs d) &&
  match td_body d with
  | BStruct _ fs => forallb field_pos_static fs
  | BEnum vs => repr_pos_ok (repr_of (td_attrs d)) && forallb variant_pos_static vs
  end.
Definition lossless_decl_key (d : type_decl) : bool :=
  td_ser d && td_de d && no_opaque (td_attrs d) &&
  match td_body d with
  | BStruct _ fs => forallb (field_key_static (c_default d)) fs && names_ok fs
  | BEnum vs => repr_key_by_name (repr_of (td_attrs d)) && forallb variant_key_static vs && vnames_ok vs
  end.
(** lossless in both disciplines *)
Definition lossless_decl (d : type_decl) : bool := lossless_decl_pos d && lossless_decl_key d.

(* ---- lookup (by the name the serialiser shows) ---- *)
Fixpoint find_decl (ds : list type_decl) (n : string) : option type_decl :=
  match ds with
  | [] => None
  | d :: r => if String.eqb (td_wire d) n then Some d else find_decl r n
  end.

(** the documented exceptions (finding F17): type, field-or-variant *)
Definition known_skips : list (string * string) :=
  [("CountVectorizerValidParams", "tokenizer_function"); ("Error", "NdShape")].
Definition is_known_skip (t m : string) : bool :=
  existsb (fun p => String.eqb (fst p) t && String.eqb (snd p) m) known_skips.
Definition known_type (t : string) : bool := existsb (fun p => String.eqb (fst p) t) known_skips.
Definition minus_known (ds : list type_decl) : list type_decl :=
  filter (fun d => negb (known_type (td_name d))) ds.

(** the declaration with the documented `skip`s (and nothing else) taken away *)
Definition drop_skip (l : list sattr) : list sattr := filter (fun a => negb (String.eqb (fst a) "skip")) l.
Definition forgive (d : type_decl) : type_decl :=
  let t := td_name d in
  mkT t (td_wire d) (td_src d) (td_ser d) (td_de d) (td_attrs d)
      match td_body d with
      | BStruct k fs =>
          BStruct k (map (fun f => if is_known_skip t (fd_name f)
                                   then mkF (fd_name f) (fd_wire f) (fd_de f) (fd_ty f) (drop_skip (fd_attrs f)) else f) fs)
      | BEnum vs =>
          BEnum (map (fun v => if is_known_skip t (vd_name v)
                               then mkV (vd_name v) (vd_wire v) (vd_de v) (vd_kind v) (drop_skip (vd_attrs v)) (vd_fields v)
                               else v) vs)
      end.
(** no lossy attribute on the declaration, the documented exceptions apart *)
Definition decl_lossless_or_known (d : type_decl) : bool :=
  lossless_decl d || (known_type (td_name d) && lossless_decl (forgive d)).

(** an enum is index-stable, or it is one of the documented exceptions *)
Definition enum_stable (d : type_decl) : bool :=
  match td_body d with BEnum vs => index_stable vs | BStruct _ _ => true end.
