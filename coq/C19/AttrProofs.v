(** C19 - lemmas about the attribute model (what serde_derive generates for every serde attribute, read back
    positionally and by key). *)
From Coq Require Import List String Ascii NArith ZArith Bool Lia Permutation.
From LinfaVerif Require Import C19.Model gen.C19_types C19.Proofs.
Import ListNotations.
Local Open Scope string_scope.
Local Open Scope list_scope.

(* ------------------------------------------------------------------ the attribute table *)
Lemma attribute_table_complete_c : forallb attr_known parser_attr_names = true.
Proof. vm_compute. reflexivity. Qed.

Definition decl_attr_names (d : type_decl) : list string :=
  map fst (td_attrs d) ++
  match td_body d with
  | BStruct _ fs => flat_map (fun f => map fst (fd_attrs f)) fs
  | BEnum vs => flat_map (fun v => map fst (vd_attrs v) ++ flat_map (fun f => map fst (fd_attrs f)) (vd_fields v)) vs
  end.
Lemma declared_attrs_in_table_c :
  forallb (fun d => forallb (fun n => mem n parser_attr_names) (decl_attr_names d)) (declared ++ zoo_declared) = true.
Proof. vm_compute. reflexivity. Qed.

Lemma attr_table_unambiguous_c : nodupb (map fst attr_table) = true.
Proof. vm_compute. reflexivity. Qed.

(** every kind is reachable from some name: the table has no dead case *)
Definition kind_eqb (a b : attr_kind) : bool :=
  match a, b with
  | ACrate, ACrate | ABound, ABound | AExpecting, AExpecting | ABorrow, ABorrow | AOther, AOther
  | ARename, ARename | ARenameAsym, ARenameAsym | ARenameAll, ARenameAll
  | ARenameAllFields, ARenameAllFields | AAlias, AAlias
  | ASkip, ASkip | ASkipSer, ASkipSer | ASkipDe, ASkipDe | ASkipSerIf, ASkipSerIf
  | ADefault, ADefault | ADenyUnknown, ADenyUnknown | AFlatten, AFlatten
  | ATransparent, ATransparent | AUntagged, AUntagged | ATag, ATag | AContent, AContent
  | AWith, AWith | ASerWith, ASerWith | ADeWith, ADeWith | AFrom, AFrom | ATryFrom, ATryFrom
  | AInto, AInto | ARemote, ARemote | AGetter, AGetter | AVariantIdent, AVariantIdent
  | AFieldIdent, AFieldIdent | ARenameAllUnknown, ARenameAllUnknown
  | AUnsupported, AUnsupported => true
  | _, _ => false
  end.
Definition kind_named (k : attr_kind) : bool := existsb (fun p => kind_eqb (snd p) k) attr_table.
Lemma attr_table_onto : forall k, kind_named k = true.
Proof. destruct k; vm_compute; reflexivity. Qed.

(* ------------------------------------------------------------------ small facts *)
Lemma mem_false_neq : forall n m l, mem n l = true -> mem m l = false -> String.eqb n m = false.
Proof.
  intros n m l Hn Hm. destruct (String.eqb n m) eqn:E; [| reflexivity].
  apply String.eqb_eq in E. subst. congruence.
Qed.

Lemma mem_cons : forall s x l, mem s (x :: l) = String.eqb s x || mem s l.
Proof. reflexivity. Qed.

(* ------------------------------------------------------------------ positional round trip *)
Lemma de_pos_aligned : forall fds ins,
  aligned fds ins = true -> de_pos fds ins (ser_pos fds ins) = Some (merge_pos fds ins).
Proof.
  induction fds as [|f fds IH]; intros [|i ins] H; simpl in *; try discriminate; [reflexivity |].
  apply andb_prop in H as [H1 H2]. apply eqb_prop in H1. rewrite H1.
  destruct (f_read f); simpl.
  - rewrite String.eqb_refl. now rewrite (IH ins H2).
  - now rewrite (IH ins H2).
Qed.

Lemma de_pos_stray : forall fds ins n v w,
  mem n (map fd_wire fds) = false -> de_pos fds ins ((n, v) :: w) = None.
Proof.
  induction fds as [|f fds IH]; intros [|i ins] n v w H; simpl in *; try reflexivity.
  apply orb_false_elim in H as [H1 H2].
  destruct (f_read f).
  - now rewrite H1.
  - now rewrite (IH ins n v w H2).
Qed.

Lemma ser_pos_head : forall fds ins n v w,
  ser_pos fds ins = (n, v) :: w -> mem n (map fd_wire fds) = true.
Proof.
  induction fds as [|f fds IH]; intros [|i ins] n v w H; simpl in *; try discriminate.
  destruct (f_written f i).
  - injection H as <- _ _. now rewrite String.eqb_refl.
  - rewrite (IH ins n v w H). apply orb_true_r.
Qed.

Lemma de_pos_misaligned : forall fds ins,
  wire_nodup fds = true -> List.length ins = List.length fds -> aligned fds ins = false ->
  de_pos fds ins (ser_pos fds ins) = None.
Proof.
  induction fds as [|f fds IH]; intros [|i ins] Hn Hl Ha; simpl in *; try discriminate.
  apply andb_prop in Hn as [Hn1 Hn2]. apply negb_true_iff in Hn1. injection Hl as Hl.
  destruct (f_written f i) eqn:Hw, (f_read f) eqn:Hr; simpl in *.
  - rewrite String.eqb_refl. now rewrite (IH ins Hn2 Hl Ha).
  - now rewrite de_pos_stray.
  - destruct (ser_pos fds ins) as [|[n v] w] eqn:E; [reflexivity |].
    rewrite (mem_false_neq n (fd_wire f) _ (ser_pos_head _ _ _ _ _ E) Hn1). reflexivity.
  - now rewrite (IH ins Hn2 Hl Ha).
Qed.

(** the fields that are not read hold the value they are given back *)
Fixpoint unread_hold_defaults (fds : list field_decl) (ins : list fin) : Prop :=
  match fds, ins with
  | f :: fds', i :: ins' => (f_read f = false -> in_val i = in_dflt i) /\ unread_hold_defaults fds' ins'
  | _, _ => True
  end.

Lemma merge_pos_eq_iff : forall fds ins, List.length ins = List.length fds ->
  (merge_pos fds ins = map in_val ins <-> unread_hold_defaults fds ins).
Proof.
  induction fds as [|f fds IH]; intros [|i ins] Hl; simpl in *; try discriminate; [tauto |].
  injection Hl as Hl. specialize (IH ins Hl). split.
  - intro E. injection E as E1 E2. split; [| now apply IH].
    intro Hr. rewrite Hr in E1. now symmetry.
  - intros [H1 H2]. f_equal; [| now apply IH].
    destruct (f_read f); [reflexivity | symmetry; now apply H1].
Qed.

Lemma pos_roundtrip_iff_l : forall fds ins,
  wire_nodup fds = true -> List.length ins = List.length fds ->
  (de_pos fds ins (ser_pos fds ins) = Some (map in_val ins) <->
   aligned fds ins = true /\ unread_hold_defaults fds ins).
Proof.
  intros fds ins Hn Hl. split.
  - intro E. destruct (aligned fds ins) eqn:Ha.
    + rewrite (de_pos_aligned fds ins Ha) in E. injection E as E.
      split; [reflexivity | now apply merge_pos_eq_iff].
    + rewrite (de_pos_misaligned fds ins Hn Hl Ha) in E. discriminate.
  - intros [Ha Hd]. rewrite (de_pos_aligned fds ins Ha). f_equal. now apply merge_pos_eq_iff.
Qed.

Lemma static_pos_aligned : forall fds ins, List.length ins = List.length fds ->
  forallb field_pos_static fds = true -> aligned fds ins = true /\ unread_hold_defaults fds ins.
Proof.
  induction fds as [|f fds IH]; intros [|i ins] Hl H; simpl in *; try discriminate; [split; [reflexivity | exact I] |].
  injection Hl as Hl. apply andb_prop in H as [Hf Hr]. destruct (IH ins Hl Hr) as [A B].
  unfold field_pos_static in Hf. repeat (apply andb_prop in Hf as [Hf ?]).
  assert (Hw : f_written f i = true).
  { unfold f_written. apply andb_true_intro. split; [assumption |].
    apply negb_true_iff. apply andb_false_intro1. now apply negb_true_iff. }
  split.
  - rewrite Hw. replace (f_read f) with true by (symmetry; assumption). simpl. exact A.
  - split; [| exact B]. intro Hr'. congruence.
Qed.

Lemma static_pos_roundtrip : forall fds ins, List.length ins = List.length fds ->
  forallb field_pos_static fds = true -> de_pos fds ins (ser_pos fds ins) = Some (map in_val ins).
Proof.
  intros fds ins Hl H. destruct (static_pos_aligned fds ins Hl H) as [A B].
  rewrite (de_pos_aligned fds ins A). f_equal. now apply merge_pos_eq_iff.
Qed.

Fixpoint nodup_fst (es : list (string * value)) : bool :=
  match es with [] => true | e :: r => negb (mem (fst e) (map fst r)) && nodup_fst r end.

(* ------------------------------------------------------------------ keyed round trip *)
(** the values the object [ser_pos fds ins] holds under one of [names] *)
Fixpoint hits (names : list string) (fds : list field_decl) (ins : list fin) : list value :=
  match fds, ins with
  | f :: fds', i :: ins' =>
      (if f_written f i && mem (fd_wire f) names then [in_val i] else []) ++ hits names fds' ins'
  | _, _ => []
  end.

Lemma matches_ser_pos : forall names fds ins, matches names (ser_pos fds ins) = hits names fds ins.
Proof.
  intros names. induction fds as [|f fds IH]; intros [|i ins]; simpl; try reflexivity.
  destruct (f_written f i); simpl; [| apply IH].
  unfold matches in *. simpl. destruct (mem (fd_wire f) names); simpl; now rewrite IH.
Qed.

Lemma hits_silent : forall f fds ins, silent f fds = true -> hits (fd_de f) fds ins = [].
Proof.
  intros f. induction fds as [|g fds IH]; intros [|i ins] H; simpl in *; try reflexivity.
  apply andb_prop in H as [H1 H2]. apply negb_true_iff in H1. rewrite H1, andb_false_r. simpl. now apply IH.
Qed.

Lemma hits_app : forall names pre ipre post ipost, List.length ipre = List.length pre ->
  hits names (pre ++ post) (ipre ++ ipost) = hits names pre ipre ++ hits names post ipost.
Proof.
  intros names. induction pre as [|f pre IH]; intros [|i ipre] post ipost Hl; simpl in *; try discriminate; [reflexivity |].
  injection Hl as Hl. rewrite (IH ipre post ipost Hl). now rewrite app_assoc.
Qed.

Lemma silent_app : forall f a b, silent f (a ++ b) = silent f a && silent f b.
Proof. intros f a b. unfold silent. apply forallb_app. Qed.

Lemma key_field_at : forall cd pre ipre f i post ipost,
  List.length ipre = List.length pre -> silent f pre = true -> silent f post = true ->
  de_key_field cd (ser_pos (pre ++ f :: post) (ipre ++ i :: ipost)) f i = key_field_result cd f i.
Proof.
  intros cd pre ipre f i post ipost Hl Hp Hq.
  unfold de_key_field, key_field_result. destruct (f_read f); [| reflexivity].
  rewrite matches_ser_pos, (hits_app _ pre ipre (f :: post) (i :: ipost) Hl). simpl.
  rewrite (hits_silent f pre ipre Hp), (hits_silent f post ipost Hq). simpl. rewrite app_nil_r.
  unfold f_present, f_self_named. destruct (f_written f i && mem (fd_wire f) (fd_de f)); reflexivity.
Qed.

Lemma key_fields_from : forall cd post ipost pre ipre,
  List.length ipre = List.length pre -> List.length ipost = List.length post ->
  names_ok_from pre post = true ->
  map_opt2 (de_key_field cd (ser_pos (pre ++ post) (ipre ++ ipost))) post ipost
  = map_opt2 (key_field_result cd) post ipost.
Proof.
  intros cd. induction post as [|f post IH]; intros [|i ipost] pre ipre Hl1 Hl2 Hn; simpl in *; try discriminate; [reflexivity |].
  injection Hl2 as Hl2. apply andb_prop in Hn as [Hn Hn3]. apply andb_prop in Hn as [Hn1 Hn2].
  rewrite (key_field_at cd pre ipre f i post ipost Hl1 Hn1 Hn2).
  specialize (IH ipost (pre ++ [f]) (ipre ++ [i])).
  rewrite <- !app_assoc in IH. simpl in IH. rewrite IH; [reflexivity | | exact Hl2 | exact Hn3].
  rewrite !app_length. simpl. now rewrite Hl1.
Qed.

(** nobody else reads the name a field writes *)
Lemma names_ok_from_others : forall post pre, names_ok_from pre post = true ->
  forall p1 f p2, post = p1 ++ f :: p2 ->
  silent f (pre ++ p1) = true /\ silent f p2 = true.
Proof.
  induction post as [|g post IH]; intros pre H p1 f p2 E; [destruct p1; discriminate |].
  simpl in H. apply andb_prop in H as [H H3]. apply andb_prop in H as [H1 H2].
  destruct p1 as [|g' p1]; simpl in E; injection E as <- E.
  - subst post. rewrite app_nil_r. now split.
  - subst post. destruct (IH (pre ++ [g]) H3 p1 f p2 eq_refl) as [A B].
    rewrite <- app_assoc in A. simpl in A. now split.
Qed.

Lemma silent_in : forall f l g, silent f l = true -> In g l -> mem (fd_wire g) (fd_de f) = false.
Proof.
  intros f l g H Hg. unfold silent in H. rewrite forallb_forall in H. apply negb_true_iff. now apply H.
Qed.

(** [g] and [f] sit at different places of a list whose names are fine: g does not read what f writes *)
Lemma names_ok_cross : forall l, names_ok l = true ->
  forall p1 f p2 g, l = p1 ++ f :: p2 -> In g (p1 ++ p2) -> mem (fd_wire f) (fd_de g) = false.
Proof.
  intros l H p1 f p2 g E Hg. unfold names_ok in H.
  apply in_app_or in Hg as [Hg | Hg]; apply in_split in Hg as [q1 [q2 Eq]]; subst.
  - (* g before f *)
    destruct (names_ok_from_others _ [] H q1 g (q2 ++ f :: p2)) as [_ B].
    { now rewrite <- app_assoc. }
    apply (silent_in g _ f B). apply in_or_app. right. now left.
  - (* g after f *)
    destruct (names_ok_from_others _ [] H (p1 ++ f :: q1) g q2) as [A _].
    { rewrite <- app_assoc. reflexivity. }
    simpl in A. apply (silent_in g _ f A). apply in_or_app. right. now left.
Qed.

Lemma known_key_own : forall p1 f p2, names_ok (p1 ++ f :: p2) = true ->
  known_key (p1 ++ f :: p2) (fd_wire f) = f_read f && f_self_named f.
Proof.
  intros p1 f p2 H. unfold known_key. rewrite existsb_app. simpl.
  assert (Hother : forall l, (forall g, In g l -> In g (p1 ++ p2)) ->
                             existsb (fun g => f_read g && mem (fd_wire f) (fd_de g)) l = false).
  { induction l as [|g l IHl]; intro Hin; [reflexivity |]. simpl.
    rewrite (names_ok_cross _ H p1 f p2 g eq_refl (Hin g (or_introl eq_refl))), andb_false_r. simpl.
    apply IHl. intros g' Hg'. apply Hin. now right. }
  rewrite (Hother p1), (Hother p2); [| intros g Hg; apply in_or_app; now right | intros g Hg; apply in_or_app; now left].
  simpl. now rewrite orb_false_r.
Qed.

Lemma deny_check_from : forall post ipost pre,
  names_ok (pre ++ post) = true -> List.length ipost = List.length post ->
  forallb (fun kv : string * value => known_key (pre ++ post) (fst kv)) (ser_pos post ipost)
  = negb (any2 f_stray post ipost).
Proof.
  induction post as [|f post IH]; intros [|i ipost] pre H Hl; simpl in *; try discriminate; [reflexivity |].
  injection Hl as Hl.
  assert (IH' := IH ipost (pre ++ [f])). rewrite <- app_assoc in IH'. simpl in IH'. specialize (IH' H Hl).
  unfold f_stray at 1. destruct (f_written f i); simpl; [| exact IH'].
  rewrite (known_key_own pre f post H), IH'.
  destruct (f_read f && f_self_named f); reflexivity.
Qed.

Lemma de_key_ser_key_l : forall deny cd fds ins,
  names_ok fds = true -> List.length ins = List.length fds ->
  de_key deny cd fds ins (ser_pos fds ins) = key_result deny cd fds ins.
Proof.
  intros deny cd fds ins Hn Hl. unfold de_key, key_result.
  pose proof (deny_check_from fds ins [] Hn Hl) as Hd. simpl in Hd. rewrite Hd, negb_involutive.
  destruct (deny && any2 f_stray fds ins); [reflexivity |].
  exact (key_fields_from cd fds ins [] [] eq_refl Hl Hn).
Qed.

(** when one field comes back *)
Definition key_field_ok (cd : bool) (f : field_decl) (i : fin) : Prop :=
  if f_read f then
    f_present f i = true
    \/ (f_present f i = false /\ f_has_default cd f = true /\ in_val i = in_dflt i)
    \/ (f_present f i = false /\ f_has_default cd f = false /\ f_is_option f = true /\ in_val i = VNone)
  else in_val i = in_dflt i.

Lemma key_field_result_iff : forall cd f i, key_field_result cd f i = Some (in_val i) <-> key_field_ok cd f i.
Proof.
  intros cd f i. unfold key_field_result, key_field_ok.
  destruct (f_read f); [| split; intro E; [now injection E | now rewrite E]].
  destruct (f_present f i); [split; [now left | reflexivity] |].
  destruct (f_has_default cd f).
  - split.
    + intro E. injection E as E. right. left. repeat split. now symmetry.
    + intros [E | [[_ [_ E]] | [_ [E _]]]]; try discriminate. now rewrite E.
  - destruct (f_is_option f).
    + split.
      * intro E. injection E as E. right. right. repeat split. now symmetry.
      * intros [E | [[_ [E _]] | [_ [_ [_ E]]]]]; try discriminate. now rewrite E.
    + split; [discriminate |]. intros [E | [[_ [E _]] | [_ [_ [E _]]]]]; discriminate.
Qed.

Fixpoint key_fields_ok (cd : bool) (fds : list field_decl) (ins : list fin) : Prop :=
  match fds, ins with
  | f :: fds', i :: ins' => key_field_ok cd f i /\ key_fields_ok cd fds' ins'
  | _, _ => True
  end.

Lemma map_key_result_iff : forall cd fds ins, List.length ins = List.length fds ->
  (map_opt2 (key_field_result cd) fds ins = Some (map in_val ins) <-> key_fields_ok cd fds ins).
Proof.
  intros cd. induction fds as [|f fds IH]; intros [|i ins] Hl; simpl in *; try discriminate; [tauto |].
  injection Hl as Hl. specialize (IH ins Hl). split.
  - intro E. destruct (key_field_result cd f i) as [v|] eqn:E1; [| discriminate].
    destruct (map_opt2 (key_field_result cd) fds ins) as [r|] eqn:E2; [| discriminate].
    injection E as -> ->. split; [now apply key_field_result_iff | now apply IH].
  - intros [H1 H2]. apply key_field_result_iff in H1. apply IH in H2. now rewrite H1, H2.
Qed.

Lemma key_roundtrip_iff_l : forall deny cd fds ins, List.length ins = List.length fds ->
  (key_result deny cd fds ins = Some (map in_val ins) <->
   (deny = true -> any2 f_stray fds ins = false) /\ key_fields_ok cd fds ins).
Proof.
  intros deny cd fds ins Hl. unfold key_result.
  destruct deny; simpl.
  - destruct (any2 f_stray fds ins).
    + split; [discriminate | intros [H _]; specialize (H eq_refl); discriminate].
    + rewrite (map_key_result_iff cd fds ins Hl). tauto.
  - rewrite (map_key_result_iff cd fds ins Hl). split; [intro H; split; [discriminate | exact H] | tauto].
Qed.

(** statically lossless fields: the `Option::is_none` idiom needs its meaning as a hypothesis *)
Fixpoint sif_idiom_sound (cd : bool) (fds : list field_decl) (ins : list fin) : Prop :=
  match fds, ins with
  | f :: fds', i :: ins' =>
      (sif_none_idiom cd f = true -> in_sif i = true -> in_val i = VNone) /\ sif_idiom_sound cd fds' ins'
  | _, _ => True
  end.

Lemma sif_idiom_facts : forall cd f, sif_none_idiom cd f = true -> f_is_option f = true /\ f_has_default cd f = false.
Proof.
  intros cd f H. unfold sif_none_idiom in H. destruct (assoc _ _); [| discriminate].
  apply andb_prop in H as [H H2]. apply andb_prop in H as [_ H1]. apply negb_true_iff in H2. now split.
Qed.

Lemma static_key_ok : forall cd fds ins, List.length ins = List.length fds ->
  forallb (field_key_static cd) fds = true -> sif_idiom_sound cd fds ins ->
  any2 f_stray fds ins = false /\ key_fields_ok cd fds ins.
Proof.
  intros cd. induction fds as [|f fds IH]; intros [|i ins] Hl H Hs; simpl in *; try discriminate; [split; [reflexivity | exact I] |].
  injection Hl as Hl. apply andb_prop in H as [Hf Hr]. destruct Hs as [Hs1 Hs2].
  destruct (IH ins Hl Hr Hs2) as [A B].
  unfold field_key_static in Hf. repeat (apply andb_prop in Hf as [Hf ?]).
  assert (Hrd : f_read f = true) by assumption.
  assert (Hsn : f_self_named f = true) by assumption.
  assert (Hns : skips_ser (fd_attrs f) = false) by (now apply negb_true_iff).
  split.
  - unfold f_stray. rewrite Hrd, Hsn. simpl. rewrite andb_false_r. exact A.
  - split; [| exact B]. unfold key_field_ok. rewrite Hrd.
    unfold f_present, f_written. rewrite Hns, Hsn. simpl. rewrite andb_true_r.
    destruct (f_sif f) eqn:Hsif; simpl; [| now left].
    destruct (in_sif i) eqn:Hp; simpl; [| now left].
    right. right.
    match goal with Hx : (negb true || sif_none_idiom cd f) = true |- _ => simpl in Hx; rename Hx into Hid end.
    destruct (sif_idiom_facts cd f Hid) as [Ho Hd]. repeat split; try assumption. now apply Hs1.
Qed.

Lemma static_key_roundtrip : forall deny cd fds ins, List.length ins = List.length fds ->
  forallb (field_key_static cd) fds = true -> names_ok fds = true -> sif_idiom_sound cd fds ins ->
  de_key deny cd fds ins (ser_pos fds ins) = Some (map in_val ins).
Proof.
  intros deny cd fds ins Hl H Hn Hs. rewrite (de_key_ser_key_l deny cd fds ins Hn Hl).
  apply (key_roundtrip_iff_l deny cd fds ins Hl).
  destruct (static_key_ok cd fds ins Hl H Hs) as [A B]. split; [intros _; exact A | exact B].
Qed.

(* ---- reading by key: order of the members, unknown members ---- *)
Lemma filter_perm : forall {A} (p : A -> bool) l l', Permutation l l' -> Permutation (filter p l) (filter p l').
Proof.
  intros A p l l' H. induction H as [| x l l' H IH | x y l | l l' l'' H1 IH1 H2 IH2]; simpl.
  - constructor.
  - destruct (p x); [now constructor | exact IH].
  - destruct (p x), (p y); try apply Permutation_refl. apply perm_swap.
  - now apply Permutation_trans with (filter p l').
Qed.

Lemma matches_perm : forall names obj obj', Permutation obj obj' -> Permutation (matches names obj) (matches names obj').
Proof. intros names obj obj' H. unfold matches. apply Permutation_map. now apply filter_perm. Qed.

Lemma short_perm_eq : forall {A} (l l' : list A), Permutation l l' -> (List.length l <= 1)%nat -> l = l'.
Proof.
  intros A l l' H Hl. destruct l as [|a [|b l]]; simpl in Hl; try lia.
  - apply Permutation_nil in H. now subst.
  - apply Permutation_length_1_inv in H. now subst.
Qed.

Lemma de_key_field_perm : forall cd obj obj' f i, Permutation obj obj' ->
  de_key_field cd obj f i = de_key_field cd obj' f i.
Proof.
  intros cd obj obj' f i H. unfold de_key_field. destruct (f_read f); [| reflexivity].
  pose proof (matches_perm (fd_de f) obj obj' H) as Hm.
  pose proof (Permutation_length Hm) as Hlen.
  destruct (matches (fd_de f) obj) as [|a [|b l]] eqn:E.
  - apply Permutation_nil in Hm. now rewrite Hm.
  - apply Permutation_length_1_inv in Hm. now rewrite Hm.
  - destruct (matches (fd_de f) obj') as [|a' [|b' l']]; simpl in Hlen; try discriminate. reflexivity.
Qed.

Lemma map_opt2_ext : forall {A B C} (g g' : A -> B -> option C) l m,
  (forall a b, g a b = g' a b) -> map_opt2 g l m = map_opt2 g' l m.
Proof.
  intros A B C g g' l. induction l as [|a l IH]; intros [|b m] H; simpl; try reflexivity.
  now rewrite (H a b), (IH m H).
Qed.

Lemma forallb_perm : forall {A} (p : A -> bool) l l', Permutation l l' -> forallb p l = forallb p l'.
Proof.
  intros A p l l' H. induction H as [| x l l' H IH | x y l | l l' l'' H1 IH1 H2 IH2]; simpl.
  - reflexivity.
  - now rewrite IH.
  - destruct (p x), (p y); reflexivity.
  - now rewrite IH1.
Qed.

Lemma de_key_perm_l : forall deny cd fds ins obj obj', Permutation obj obj' ->
  de_key deny cd fds ins obj = de_key deny cd fds ins obj'.
Proof.
  intros deny cd fds ins obj obj' H. unfold de_key.
  rewrite (forallb_perm _ obj obj' H).
  destruct (deny && _); [reflexivity |].
  apply map_opt2_ext. intros f i. now apply de_key_field_perm.
Qed.

Lemma de_key_unknown_l : forall cd fds ins obj k v,
  known_key fds k = false -> de_key false cd fds ins ((k, v) :: obj) = de_key false cd fds ins obj.
Proof.
  intros cd fds ins obj k v H. unfold de_key. simpl.
  revert ins. induction fds as [|f fds IH]; intros [|i ins]; simpl; try reflexivity.
  unfold known_key in H. simpl in H. apply orb_false_elim in H as [H1 H2].
  rewrite (IH H2 ins).
  replace (de_key_field cd ((k, v) :: obj) f i) with (de_key_field cd obj f i); [reflexivity |].
  unfold de_key_field. destruct (f_read f); [| reflexivity]. simpl in H1.
  unfold matches. simpl. now rewrite H1.
Qed.

(* ---- flatten ---- *)
(** members nobody reads do not disturb the reading of the others, wherever they stand *)
Lemma de_key_unknown_app : forall cd fds ins obj es,
  forallb (fun kv : string * value => negb (known_key fds (fst kv))) es = true ->
  de_key false cd fds ins (obj ++ es) = de_key false cd fds ins obj.
Proof.
  intros cd fds ins obj es H.
  rewrite (de_key_perm_l false cd fds ins (obj ++ es) (es ++ obj) (Permutation_app_comm obj es)).
  induction es as [|[k v] es IH]; [reflexivity |].
  simpl in H. apply andb_prop in H as [H1 H2]. apply negb_true_iff in H1. simpl.
  rewrite (de_key_unknown_l cd fds ins (es ++ obj) k v H1). now apply IH.
Qed.

Lemma collect_own : forall (post : list field_decl) (ipost : list fin) (pre : list field_decl),
  names_ok (pre ++ post) = true -> List.length ipost = List.length post ->
  any2 f_stray post ipost = false ->
  collect (pre ++ post) (ser_pos post ipost) = [].
Proof.
  induction post as [|f post IH]; intros [|i ipost] pre H Hl Hs; simpl in *; try discriminate; try reflexivity.
  injection Hl as Hl. apply orb_false_elim in Hs as [Hs1 Hs2].
  assert (IH' := IH ipost (pre ++ [f])). rewrite <- app_assoc in IH'. simpl in IH'. specialize (IH' H Hl Hs2).
  unfold f_stray in Hs1. destruct (f_written f i); simpl in *; [| exact IH'].
  unfold collect in *. simpl. rewrite (known_key_own pre f post H).
  apply negb_false_iff in Hs1. rewrite Hs1. simpl. exact IH'.
Qed.

Lemma collect_flat : forall fds ins es,
  names_ok fds = true -> List.length ins = List.length fds -> any2 f_stray fds ins = false ->
  forallb (fun kv : string * value => negb (known_key fds (fst kv))) es = true ->
  collect fds (ser_pos fds ins ++ es) = es.
Proof.
  intros fds ins es Hn Hl Hs He. unfold collect. rewrite filter_app.
  pose proof (collect_own fds ins [] Hn Hl Hs) as Hc. unfold collect in Hc. simpl in Hc. rewrite Hc. simpl.
  clear -He. induction es as [|kv es IH]; [reflexivity |]. simpl in *. apply andb_prop in He as [H1 H2].
  rewrite H1. now rewrite (IH H2).
Qed.

Lemma pick_entries_own : forall es, nodup_fst es = true -> pick_entries es es = Some es.
Proof.
  assert (G : forall all es, nodup_fst all = true -> (forall e, In e es -> In e all) -> pick_entries all es = Some es).
  { intros all. induction es as [|[k v] es IH]; intros Hn Hin; [reflexivity |]. simpl.
    rewrite (IH Hn (fun e He => Hin e (or_intror He))).
    assert (Hm : matches [k] all = [v]).
    { specialize (Hin (k, v) (or_introl eq_refl)). clear IH. induction all as [|[k' v'] all IHa]; [destruct Hin |].
      simpl in Hn. apply andb_prop in Hn as [Hn1 Hn2]. apply negb_true_iff in Hn1.
      unfold matches in *. simpl. destruct Hin as [E | Hin].
      - injection E as -> ->. rewrite String.eqb_refl. simpl. f_equal.
        clear -Hn1. induction all as [|[k2 v2] all IH2]; [reflexivity |]. simpl in *.
        apply orb_false_elim in Hn1 as [A B]. rewrite String.eqb_sym, A. simpl. now apply IH2.
      - assert (Hne : String.eqb k' k = false).
        { destruct (String.eqb k' k) eqn:E; [| reflexivity]. apply String.eqb_eq in E. subst k'.
          assert (mem k (map fst all) = true).
          { unfold mem. apply existsb_exists. exists k. split; [apply (in_map fst all (k, v) Hin) | apply String.eqb_refl]. }
          congruence. }
        rewrite Hne. simpl. exact (IHa Hn2 Hin). }
    now rewrite Hm. }
  intros es Hn. apply G; auto.
Qed.

(* ------------------------------------------------------------------ variants by name / untagged *)
Lemma first_live_ge : forall P vs pos q, first_live P vs pos = Some q -> (pos <= q)%nat.
Proof.
  intros P. induction vs as [|v vs IH]; intros pos q E; simpl in E; [discriminate |].
  destruct (negb (skips_de (vd_attrs v)) && P v); [injection E as E; lia | apply IH in E; lia].
Qed.

Lemma first_live_iff_from : forall P vs p pos v,
  nth_error vs p = Some v -> skips_de (vd_attrs v) = false -> P v = true ->
  (first_live P vs pos = Some (pos + p)%nat <->
   forall j w, (j < p)%nat -> nth_error vs j = Some w -> skips_de (vd_attrs w) = false -> P w = false).
Proof.
  intros P. induction vs as [|x vs IH]; intros p pos v Hn Hs HP; [destruct p; discriminate |].
  destruct p as [|p]; simpl in Hn.
  - injection Hn as ->. simpl. rewrite Hs, HP. simpl. split; [intros _ j w Hj; lia | intros _; f_equal; lia].
  - simpl. specialize (IH p (S pos) v Hn Hs HP).
    replace (S pos + p)%nat with (pos + S p)%nat in IH by lia.
    destruct (negb (skips_de (vd_attrs x)) && P x) eqn:Hx.
    + split.
      * intro E. injection E as E. lia.
      * intro H. apply andb_prop in Hx as [Hx1 Hx2]. apply negb_true_iff in Hx1.
        specialize (H 0%nat x ltac:(lia) eq_refl Hx1). congruence.
    + rewrite IH. split.
      * intros H j w Hj Hw Hsw. destruct j as [|j]; simpl in Hw.
        -- injection Hw as <-. rewrite Hsw in Hx. simpl in Hx. exact Hx.
        -- apply (H j w); [lia | exact Hw | exact Hsw].
      * intros H j w Hj Hw Hsw. apply (H (S j) w); [lia | exact Hw | exact Hsw].
Qed.

Lemma first_live_iff : forall P vs p v,
  nth_error vs p = Some v -> skips_de (vd_attrs v) = false -> P v = true ->
  (first_live P vs 0 = Some p <->
   forall j w, (j < p)%nat -> nth_error vs j = Some w -> skips_de (vd_attrs w) = false -> P w = false).
Proof. intros P vs p v Hn Hs HP. exact (first_live_iff_from P vs p 0 v Hn Hs HP). Qed.

Lemma vnames_ok_cross : forall vs, vnames_ok vs = true ->
  forall j p w v, (j < p)%nat -> nth_error vs j = Some w -> nth_error vs p = Some v ->
  mem (vd_wire v) (vd_de w) = false.
Proof.
  induction vs as [|x vs IH]; intros H j p w v Hj Hw Hv; [destruct j; discriminate |].
  simpl in H. apply andb_prop in H as [H1 H2].
  destruct p as [|p]; [lia |]. simpl in Hv.
  destruct j as [|j]; simpl in Hw.
  - injection Hw as <-. rewrite forallb_forall in H1. specialize (H1 v (nth_error_In _ _ Hv)).
    apply andb_prop in H1 as [A _]. now apply negb_true_iff.
  - apply (IH H2 j p w v); [lia | exact Hw | exact Hv].
Qed.

Lemma keyed_variant_roundtrip_l : forall vs p v,
  vnames_ok vs = true -> nth_error vs p = Some v ->
  skips_ser (vd_attrs v) = false -> skips_de (vd_attrs v) = false -> mem (vd_wire v) (vd_de v) = true ->
  exists n, ser_variant_key vs p = Some n /\ de_variant_key vs n = Some p.
Proof.
  intros vs p v Hok Hn Hs Hd Hm. exists (vd_wire v). unfold ser_variant_key, de_variant_key. rewrite Hn, Hs.
  split; [reflexivity |].
  apply (first_live_iff (fun w => mem (vd_wire v) (vd_de w)) vs p v Hn Hd Hm).
  intros j w Hj Hw _. exact (vnames_ok_cross vs Hok j p w v Hj Hw Hn).
Qed.

(* ------------------------------------------------------------------ containers *)
Lemma transparent_wire_l : forall d k fds ins n v,
  c_transparent d = true -> ser_pos fds ins = [(n, v)] -> ser_container d k fds ins = v.
Proof. intros d k fds ins n v Ht E. unfold ser_container. now rewrite Ht, E. Qed.

(* ------------------------------------------------------------------ declarations of the repository *)
Lemma declared_struct_attr_roundtrip_l : forall d k fds ins,
  In d (minus_known declared) -> td_body d = BStruct k fds -> List.length ins = List.length fds ->
  sif_idiom_sound (c_default d) fds ins ->
  de_pos fds ins (ser_pos fds ins) = Some (map in_val ins)
  /\ de_key (c_deny d) (c_default d) fds ins (ser_pos fds ins) = Some (map in_val ins).
Proof.
  intros d k fds ins Hd Hb Hl Hs.
  pose proof (declared_lossless_in d Hd) as H. unfold lossless_decl in H. apply andb_prop in H as [Hp Hk].
  unfold lossless_decl_pos in Hp. unfold lossless_decl_key in Hk. rewrite Hb in Hp, Hk.
  apply andb_prop in Hp as [_ Hp]. apply andb_prop in Hk as [_ Hk]. apply andb_prop in Hk as [Hk Hn].
  split; [now apply static_pos_roundtrip | now apply static_key_roundtrip].
Qed.

Lemma declared_enum_key_roundtrip_l : forall d vs p v,
  In d (minus_known declared) -> td_body d = BEnum vs -> nth_error vs p = Some v ->
  exists n, ser_variant_key vs p = Some n /\ de_variant_key vs n = Some p.
Proof.
  intros d vs p v Hd Hb Hn.
  pose proof (declared_lossless_in d Hd) as H. unfold lossless_decl in H. apply andb_prop in H as [_ Hk].
  unfold lossless_decl_key in Hk. rewrite Hb in Hk.
  apply andb_prop in Hk as [_ Hk]. apply andb_prop in Hk as [Hk Hnames]. apply andb_prop in Hk as [_ Hv].
  rewrite forallb_forall in Hv. specialize (Hv v (nth_error_In _ _ Hn)).
  unfold variant_key_static in Hv. repeat (apply andb_prop in Hv as [Hv ?]).
  apply (keyed_variant_roundtrip_l vs p v Hnames Hn); try (now apply negb_true_iff); assumption.
Qed.

(* ------------------------------------------------------------------ witnesses / non-vacuity *)
Definition ex_c_fields : list field_decl :=
  [mkF "threshold" "threshold" ["threshold"] "F" [("skip", ""); ("default", """default_threshold""")];
   mkF "intercept" "intercept" ["intercept"] "F" []].
Definition half : value := VF64 4602678819172646912.
Definition third : value := VF64 4599075939470750515.
(** the shape of the seeded change C19-c: a skipped field with a constant default function *)
Example ex_skip_default_constant :
  de_pos ex_c_fields [mkIn half half false; mkIn third third false]
         (ser_pos ex_c_fields [mkIn half half false; mkIn third third false]) = Some [half; third]
  /\ de_pos ex_c_fields [mkIn third half false; mkIn third third false]
            (ser_pos ex_c_fields [mkIn third half false; mkIn third third false]) = Some [half; third]
  /\ de_key false false ex_c_fields [mkIn third half false; mkIn third third false]
            (ser_pos ex_c_fields [mkIn third half false; mkIn third third false]) = Some [half; third]
  /\ forallb field_pos_static ex_c_fields = false.
Proof. vm_compute. repeat split; reflexivity. Qed.

Definition ex_sif_fields : list field_decl :=
  [mkF "a" "a" ["a"] "u32" [];
   mkF "b" "b" ["b"] "Option<u32>" [("skip_serializing_if", """Option::is_none""")];
   mkF "c" "c" ["c"] "u32" []].
Definition u (n : Z) : value := VInt U32 n.
(** skip_serializing_if = "Option::is_none": lost positionally exactly when the option is empty, never by key *)
Example ex_sif_option :
  let some := [mkIn (u 1) (u 0) false; mkIn (VSome (u 2)) VNone false; mkIn (u 3) (u 0) false] in
  let none := [mkIn (u 1) (u 0) false; mkIn VNone VNone true; mkIn (u 3) (u 0) false] in
  de_pos ex_sif_fields some (ser_pos ex_sif_fields some) = Some (map in_val some)
  /\ de_pos ex_sif_fields none (ser_pos ex_sif_fields none) = None
  /\ de_key false false ex_sif_fields some (ser_pos ex_sif_fields some) = Some (map in_val some)
  /\ de_key false false ex_sif_fields none (ser_pos ex_sif_fields none) = Some (map in_val none)
  /\ forallb (field_key_static false) ex_sif_fields = true /\ forallb field_pos_static ex_sif_fields = false
  /\ wire_nodup ex_sif_fields = true /\ names_ok ex_sif_fields = true.
Proof. vm_compute. repeat split; reflexivity. Qed.

Definition ex_asym_fields : list field_decl :=
  [mkF "a" "x" ["y"] "u32" [("rename_asymmetric", "")]; mkF "b" "b" ["b"] "u32" [("skip_deserializing", "")]].
(** an asymmetric rename is invisible positionally and fatal by key; skip_deserializing the other way round
    (garbage positionally, default by key; refused by key under deny_unknown_fields) *)
Example ex_asym_and_skip_de :
  let ins := [mkIn (u 1) (u 0) false; mkIn (u 0) (u 0) false] in
  de_pos (firstn 1 ex_asym_fields) (firstn 1 ins) (ser_pos (firstn 1 ex_asym_fields) (firstn 1 ins)) = Some [u 1]
  /\ de_key false false (firstn 1 ex_asym_fields) (firstn 1 ins) (ser_pos (firstn 1 ex_asym_fields) (firstn 1 ins)) = None
  /\ de_pos (skipn 1 ex_asym_fields) (skipn 1 ins) (ser_pos (skipn 1 ex_asym_fields) (skipn 1 ins)) = None
  /\ de_key false false (skipn 1 ex_asym_fields) (skipn 1 ins) (ser_pos (skipn 1 ex_asym_fields) (skipn 1 ins)) = Some [u 0]
  /\ de_key true false (skipn 1 ex_asym_fields) (skipn 1 ins) (ser_pos (skipn 1 ex_asym_fields) (skipn 1 ins)) = None.
Proof. vm_compute. repeat split; reflexivity. Qed.

(** the enum with a skipped variant in the middle (the class of the repaired F28) keeps every live variant
    when variants travel by name *)
Example ex_middle_skip_by_name :
  vnames_ok ex_error_variants = true
  /\ ser_variant_key ex_error_variants 4 = Some "NotEnoughSamples" /\ de_variant_key ex_error_variants "NotEnoughSamples" = Some 4%nat
  /\ ser_variant_key ex_error_variants 5 = Some "MismatchedShapes" /\ de_variant_key ex_error_variants "MismatchedShapes" = Some 5%nat
  /\ de_variant_key ex_error_variants "NdShape" = None.
Proof. vm_compute. repeat split; reflexivity. Qed.

Definition ex_untagged : list variant_decl :=
  [mkV "A" "A" ["A"] KNewtype [] [mkF "0" "0" ["0"] "u32" []];
   mkV "B" "B" ["B"] KNewtype [] [mkF "0" "0" ["0"] "u64" []]].
(** untagged: a payload both variants accept always comes back as the first one *)
Example ex_untagged_overlap :
  de_untagged (fun _ (_ : nat) => true) ex_untagged 5%nat = Some 0%nat
  /\ de_untagged (fun v (x : nat) => if String.eqb (vd_name v) "A" then Nat.leb x 9 else true) ex_untagged 10%nat = Some 1%nat.
Proof. vm_compute. split; reflexivity. Qed.

Example ex_reprs :
  repr_of [("tag", """t""")] = RInternal """t""" /\ repr_of [("tag", """t"""); ("content", """c""")] = RAdjacent """t""" """c"""
  /\ repr_of [("untagged", "")] = RUntagged /\ repr_of [("crate", "x")] = RExternal
  /\ repr_pos_ok (RInternal "t") = false /\ repr_pos_ok RUntagged = false /\ repr_pos_ok RExternal = true.
Proof. vm_compute. repeat split; reflexivity. Qed.

(** an opaque attribute breaks static losslessness whatever else the declaration says *)
Example ex_opaque_breaks :
  lossless_decl (mkT "T" "T" "x.rs:1" true true [] (BStruct KNamed [mkF "a" "a" ["a"] "u32" []])) = true
  /\ lossless_decl (mkT "T" "T" "x.rs:1" true true [] (BStruct KNamed [mkF "a" "a" ["a"] "u32" [("with", """m""")]])) = false
  /\ lossless_decl (mkT "T" "T" "x.rs:1" true true [] (BStruct KNamed [mkF "a" "a" ["a"] "u32" [("unsupported", "frobnicate")]])) = false
  /\ lossless_decl (mkT "T" "T" "x.rs:1" true true [] (BStruct KNamed [mkF "a" "a" ["a"] "u32" [("some_future_attribute", "")]])) = false
  /\ lossless_decl (mkT "T" "T" "x.rs:1" true true [("into", """U""")] (BStruct KNamed [mkF "a" "a" ["a"] "u32" []])) = false
  /\ lossless_decl (mkT "T" "T" "x.rs:1" true true [] (BStruct KNamed [mkF "a" "a" ["a"] "u32" [("default", "")]])) = true
  /\ lossless_decl (mkT "T" "T" "x.rs:1" true true [("transparent", "")] (BStruct KNamed [mkF "a" "a" ["a"] "u32" []])) = true
  /\ lossless_decl (mkT "T" "T" "x.rs:1" true true [] (BStruct KNamed [mkF "a" "a" ["a"] "u32" [("flatten", "")]])) = false.
Proof. vm_compute. repeat split; reflexivity. Qed.

Definition ex_flat_fields : list field_decl :=
  [mkF "a" "a" ["a"] "u32" []; mkF "inner" "inner" ["inner"] "Inner" [("flatten", "")]; mkF "z" "z" ["z"] "u32" []].
(** flatten: refused positionally; by key the outer fields and the flattened struct each get their own members
    back when the names are disjoint, and a shared name is a "duplicate field" error *)
Example ex_flatten :
  let ok := [mkIn (u 1) (u 0) false; mkIn (VStruct KNamed "Inner" [("x", u 2); ("y", VStr "q")]) VUnit false; mkIn (u 3) (u 0) false] in
  let clash := [mkIn (u 1) (u 0) false; mkIn (VStruct KNamed "Inner" [("a", u 2)]) VUnit false; mkIn (u 3) (u 0) false] in
  pos_serializable ex_flat_fields = false
  /\ ser_key_flat ex_flat_fields ok = [("a", u 1); ("x", u 2); ("y", VStr "q"); ("z", u 3)]
  /\ de_key_flat false ex_flat_fields ok (ser_key_flat ex_flat_fields ok) = Some (map in_val ok)
  /\ de_key_flat false ex_flat_fields clash (ser_key_flat ex_flat_fields clash) = None.
Proof. vm_compute. repeat split; reflexivity. Qed.

Example zoo_nonempty : (20 <= List.length zoo_declared)%nat.
Proof. vm_compute. repeat constructor. Qed.
