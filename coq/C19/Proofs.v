(** C19 - lemmas. *)
From Coq Require Import List String Ascii NArith ZArith Bool Lia.
From LinfaVerif Require Import C19.Model gen.C19_types.
Import ListNotations.
Local Open Scope N_scope.

(* ------------------------------------------------------------------ induction over values *)
Section value_induction.
  Variable P : value -> Prop.
  Hypothesis HBool : forall b, P (VBool b).
  Hypothesis HInt : forall k z, P (VInt k z).
  Hypothesis HF32 : forall b, P (VF32 b).
  Hypothesis HF64 : forall b, P (VF64 b).
  Hypothesis HStr : forall s, P (VStr s).
  Hypothesis HUnit : P VUnit.
  Hypothesis HNone : P VNone.
  Hypothesis HSome : forall v, P v -> P (VSome v).
  Hypothesis HSeq : forall l, Forall P l -> P (VSeq l).
  Hypothesis HMap : forall l, Forall (fun kv => P (fst kv) /\ P (snd kv)) l -> P (VMap l).
  Hypothesis HTuple : forall l, Forall P l -> P (VTuple l).
  Hypothesis HStruct : forall k n fs, Forall (fun f => P (snd f)) fs -> P (VStruct k n fs).
  Hypothesis HEnum : forall n i vn k fs, Forall (fun f => P (snd f)) fs -> P (VEnum n i vn k fs).

  Fixpoint value_ind' (v : value) : P v :=
    match v with
    | VBool b => HBool b
    | VInt k z => HInt k z
    | VF32 b => HF32 b
    | VF64 b => HF64 b
    | VStr s => HStr s
    | VUnit => HUnit
    | VNone => HNone
    | VSome v' => HSome v' (value_ind' v')
    | VSeq l => HSeq l ((fix go (l : list value) : Forall P l :=
                           match l with [] => Forall_nil _ | x :: r => Forall_cons _ (value_ind' x) (go r) end) l)
    | VMap l => HMap l ((fix go (l : list (value * value)) : Forall (fun kv => P (fst kv) /\ P (snd kv)) l :=
                           match l with
                           | [] => Forall_nil _
                           | x :: r => Forall_cons _ (conj (value_ind' (fst x)) (value_ind' (snd x))) (go r)
                           end) l)
    | VTuple l => HTuple l ((fix go (l : list value) : Forall P l :=
                               match l with [] => Forall_nil _ | x :: r => Forall_cons _ (value_ind' x) (go r) end) l)
    | VStruct k n fs => HStruct k n fs ((fix go (l : list (string * value)) : Forall (fun f => P (snd f)) l :=
                                           match l with [] => Forall_nil _ | x :: r => Forall_cons _ (value_ind' (snd x)) (go r) end) fs)
    | VEnum n i vn k fs => HEnum n i vn k fs ((fix go (l : list (string * value)) : Forall (fun f => P (snd f)) l :=
                                                 match l with [] => Forall_nil _ | x :: r => Forall_cons _ (value_ind' (snd x)) (go r) end) fs)
    end.
End value_induction.

(* ------------------------------------------------------------------ little-endian bytes *)
Lemma modulus_S : forall n, modulus (S n) = 256 * modulus n.
Proof.
  intro n. unfold modulus. rewrite Nat2N.inj_succ.
  replace (8 * N.succ (N.of_nat n)) with (8 + 8 * N.of_nat n) by lia.
  rewrite N.pow_add_r. reflexivity.
Qed.
Lemma modulus_pos : forall n, 0 < modulus n.
Proof. intro n. unfold modulus. apply N.neq_0_lt_0. apply N.pow_nonzero. discriminate. Qed.

Lemma le_length : forall n x, List.length (le n x) = n.
Proof. induction n as [|n IH]; intro x; simpl; [reflexivity | now rewrite IH]. Qed.

Lemma unle_le : forall n x, x < modulus n -> unle (le n x) = x.
Proof.
  induction n as [|n IH]; intros x Hx.
  - unfold modulus in Hx. simpl in Hx. simpl. lia.
  - rewrite modulus_S in Hx. cbn [le unle].
    rewrite IH.
    + pose proof (N.div_mod x 256 ltac:(discriminate)). lia.
    + apply N.div_lt_upper_bound; [discriminate | lia].
Qed.

Lemma take_app : forall (a r : list N), take (List.length a) (a ++ r) = Some (a, r).
Proof. induction a as [|x a IH]; intro r; simpl; [reflexivity | now rewrite IH]. Qed.

Lemma dec_le_le : forall n x r, x < modulus n -> dec_le n (le n x ++ r) = Some (x, r).
Proof.
  intros n x r Hx. unfold dec_le.
  rewrite <- (le_length n x) at 1. rewrite take_app. now rewrite unle_le.
Qed.

(* ------------------------------------------------------------------ integers *)
Lemma to_unsigned_lt : forall k z, to_unsigned k z < modulus (width k).
Proof.
  intros k z. unfold to_unsigned.
  pose proof (modulus_pos (width k)) as Hp.
  assert (Hm : (0 < Z.of_N (modulus (width k)))%Z) by lia.
  pose proof (Z.mod_pos_bound z _ Hm). lia.
Qed.

Lemma signed_roundtrip : forall k z, in_range k z = true -> of_unsigned k (to_unsigned k z) = z.
Proof.
  intros k z H. unfold in_range in H. unfold of_unsigned, to_unsigned.
  pose proof (modulus_pos (width k)) as Hp.
  set (m := modulus (width k)) in *.
  assert (Hm : (0 < Z.of_N m)%Z) by lia.
  assert (Heven : (Z.of_N m = 2 * (Z.of_N m / 2))%Z).
  { unfold m, modulus. destruct k; reflexivity. }
  assert (Hhalf : Z.of_N (m / 2) = (Z.of_N m / 2)%Z) by (rewrite N2Z.inj_div; reflexivity).
  destruct (is_signed k) eqn:Hs; simpl.
  - apply andb_prop in H as [H1 H2]. apply Z.leb_le in H1. apply Z.ltb_lt in H2.
    destruct (Z_lt_le_dec z 0) as [Hneg | Hpos].
    + assert (Hmod : (z mod Z.of_N m = z + Z.of_N m)%Z).
      { symmetry. apply Z.mod_unique with (q := (-1)%Z); lia. }
      rewrite Hmod. rewrite Z2N.id by lia.
      replace (m / 2 <=? Z.to_N (z + Z.of_N m)) with true; [lia |].
      symmetry. apply N.leb_le. lia.
    + rewrite Z.mod_small by lia. rewrite Z2N.id by lia.
      replace (m / 2 <=? Z.to_N z) with false; [reflexivity |].
      symmetry. apply N.leb_gt. lia.
  - apply andb_prop in H as [H1 H2]. apply Z.leb_le in H1. apply Z.ltb_lt in H2.
    rewrite Z.mod_small by lia. now rewrite Z2N.id.
Qed.

Lemma ikind_eqb_eq : forall a b, ikind_eqb a b = true -> a = b.
Proof. destruct a, b; simpl; intro H; try reflexivity; discriminate. Qed.
Lemma skind_eqb_eq : forall a b, skind_eqb a b = true -> a = b.
Proof. destruct a, b; simpl; intro H; try reflexivity; discriminate. Qed.

(* ------------------------------------------------------------------ strings *)
Lemma str_bytes_length : forall s, List.length (str_bytes s) = String.length s.
Proof.
  intro s. unfold str_bytes. rewrite map_length.
  induction s as [|c s IH]; simpl; [reflexivity | now rewrite IH].
Qed.
Lemma bytes_str_bytes : forall s, bytes_str (str_bytes s) = s.
Proof.
  intro s. unfold bytes_str, str_bytes. rewrite map_map.
  rewrite (map_ext _ (fun a => a)) by (intro a; apply ascii_N_embedding).
  rewrite map_id. apply string_of_list_ascii_of_string.
Qed.

(* ------------------------------------------------------------------ sequences of items *)
Lemma rep_ok : forall {A} (enc : A -> list N) (f : list N -> option (A * list N)) (l : list A) rest,
  Forall (fun a => forall r, f (enc a ++ r) = Some (a, r)) l ->
  rep f (List.length l) (flat_map enc l ++ rest) = Some (l, rest).
Proof.
  intros A enc f l rest H. induction H as [|a l Ha Hl IH]; simpl; [reflexivity |].
  rewrite <- app_assoc. rewrite Ha. now rewrite IH.
Qed.

Lemma dec_seq_ok : forall {A B} (enc : B -> list N) (ok : B -> A -> bool) (dec : A -> list N -> option (B * list N))
                          (l : list B) (ss : list A) rest,
  Forall (fun b => forall s r, ok b s = true -> dec s (enc b ++ r) = Some (b, r)) l ->
  forall2b ok l ss = true ->
  dec_seq dec ss (flat_map enc l ++ rest) = Some (l, rest).
Proof.
  intros A B enc ok dec l ss rest H. revert ss.
  induction H as [|b l Hb Hl IH]; intros [|s ss] Hok; simpl in *; try discriminate; [reflexivity |].
  apply andb_prop in Hok as [H1 H2].
  rewrite <- app_assoc. rewrite (Hb s _ H1). now rewrite (IH ss H2).
Qed.

Lemma pick_nth : forall {A B} (f : A -> option B) (vs : list A) i,
  pick_N f vs i = match nth_N vs i with Some x => f x | None => None end.
Proof.
  intros A B f vs. induction vs as [|x vs IH]; intro i; simpl; [reflexivity |].
  destruct (i =? 0); [reflexivity | apply IH].
Qed.

Lemma len_ok_lt : forall {A} (l : list A), len_ok l = true -> N.of_nat (List.length l) < modulus 8.
Proof. intros A l H. unfold len_ok in H. now apply N.ltb_lt in H. Qed.

(* ------------------------------------------------------------------ the wire format is lossless *)
Definition roundtrips (v : value) : Prop :=
  forall s rest, has_shape v s = true -> decode s (encode v ++ rest) = Some (v, rest).

Lemma fields_roundtrip : forall (fs : list (string * value)) (ss : list (string * shape)) rest,
  Forall (fun f => roundtrips (snd f)) fs ->
  forall2b (field_shape has_shape) fs ss = true ->
  dec_seq (dec_field decode) ss (flat_map (fun f => encode (snd f)) fs ++ rest) = Some (fs, rest).
Proof.
  intros fs ss rest H Hok.
  apply (dec_seq_ok (fun f : string * value => encode (snd f)) (field_shape has_shape)); [| exact Hok].
  eapply Forall_impl; [| exact H].
  intros [n v] Hv [n' s] r Hfs. unfold field_shape in Hfs. simpl in *.
  apply andb_prop in Hfs as [Hn Hs]. apply String.eqb_eq in Hn. subst n'.
  unfold dec_field. simpl. now rewrite (Hv s r Hs).
Qed.

Lemma decode_encode_all : forall v, roundtrips v.
Proof.
  induction v as [b|k z|b|b|st| | |v IHv|l H|l H|l H|k n fs H|n i vn k fs H] using value_ind';
    intros sh rest Hs; destruct sh as [|k'| | | | |os|os|okv|ss|k' n' ss|n' vs]; simpl in Hs; try discriminate.
  - (* bool *) destruct b; reflexivity.
  - (* int *)
    apply andb_prop in Hs as [Hk Hr]. apply ikind_eqb_eq in Hk. subst k'.
    cbn [encode decode]. rewrite dec_le_le by apply to_unsigned_lt. now rewrite signed_roundtrip.
  - (* f32 *) apply N.ltb_lt in Hs. cbn [encode decode]. now rewrite dec_le_le.
  - (* f64 *) apply N.ltb_lt in Hs. cbn [encode decode]. now rewrite dec_le_le.
  - (* str *)
    apply N.ltb_lt in Hs. cbn [encode decode]. rewrite <- app_assoc. rewrite dec_le_le by exact Hs.
    rewrite Nat2N.id. rewrite <- (str_bytes_length st). rewrite take_app. now rewrite bytes_str_bytes.
  - (* unit *) reflexivity.
  - (* none *) reflexivity.
  - (* some *)
    destruct os as [s'|]; [| discriminate]. cbn [encode decode app]. simpl. now rewrite (IHv s' rest Hs).
  - (* seq *)
    apply andb_prop in Hs as [Hlen Hall]. apply len_ok_lt in Hlen.
    cbn [encode decode]. rewrite <- app_assoc. rewrite dec_le_le by exact Hlen. rewrite Nat2N.id.
    destruct os as [s'|].
    + rewrite (rep_ok encode); [reflexivity |].
      rewrite forallb_forall in Hall. rewrite Forall_forall in H |- *.
      intros a Ha r. apply (H a Ha). now apply Hall.
    + destruct l; [reflexivity | discriminate].
  - (* map *)
    apply andb_prop in Hs as [Hlen Hall]. apply len_ok_lt in Hlen.
    cbn [encode decode]. rewrite <- app_assoc. rewrite dec_le_le by exact Hlen. rewrite Nat2N.id.
    destruct okv as [[ks vs]|].
    + rewrite (rep_ok (fun kv : value * value => encode (fst kv) ++ encode (snd kv))); [reflexivity |].
      rewrite forallb_forall in Hall. rewrite Forall_forall in H |- *.
      intros [k v] Ha r. destruct (H _ Ha) as [Hk Hv]. specialize (Hall _ Ha). simpl in *.
      apply andb_prop in Hall as [Hks Hvs].
      rewrite <- app_assoc. rewrite (Hk ks _ Hks). now rewrite (Hv vs r Hvs).
    + destruct l; [reflexivity | discriminate].
  - (* tuple *)
    cbn [encode decode].
    rewrite (dec_seq_ok encode has_shape decode l ss rest); [reflexivity | | exact Hs].
    eapply Forall_impl; [| exact H]. intros a Ha s r Hsa. now apply Ha.
  - (* struct *)
    apply andb_prop in Hs as [Hkn Hfs]. apply andb_prop in Hkn as [Hk Hn].
    apply skind_eqb_eq in Hk. apply String.eqb_eq in Hn. subst k' n'.
    cbn [encode decode]. now rewrite (fields_roundtrip fs ss rest H Hfs).
  - (* enum *)
    apply andb_prop in Hs as [Hni Hv]. apply andb_prop in Hni as [Hn Hi].
    apply String.eqb_eq in Hn. apply N.ltb_lt in Hi. subst n'.
    cbn [encode decode]. rewrite <- app_assoc. rewrite dec_le_le by exact Hi.
    rewrite pick_nth. destruct (nth_N vs i) as [[[[vn' k'] ss]|]|]; try discriminate.
    apply andb_prop in Hv as [Hvk Hfs]. apply andb_prop in Hvk as [Hvn Hk].
    apply String.eqb_eq in Hvn. apply skind_eqb_eq in Hk. subst vn' k'.
    now rewrite (fields_roundtrip fs ss rest H Hfs).
Qed.

Lemma decode_encode_nil : forall v s, has_shape v s = true -> decode s (encode v) = Some (v, []).
Proof. intros v s H. rewrite <- (app_nil_r (encode v)). now apply decode_encode_all. Qed.

(** two values of one shape with the same bytes (even followed by different tails) are equal *)
Lemma encode_prefix_free : forall s v1 v2 r1 r2,
  has_shape v1 s = true -> has_shape v2 s = true ->
  encode v1 ++ r1 = encode v2 ++ r2 -> v1 = v2 /\ r1 = r2.
Proof.
  intros s v1 v2 r1 r2 H1 H2 E.
  pose proof (decode_encode_all v1 s r1 H1) as D1.
  pose proof (decode_encode_all v2 s r2 H2) as D2.
  rewrite E in D1. rewrite D1 in D2. now inversion D2.
Qed.

Lemma encode_inj : forall s v1 v2, has_shape v1 s = true -> has_shape v2 s = true -> encode v1 = encode v2 -> v1 = v2.
Proof.
  intros s v1 v2 H1 H2 E.
  apply (encode_prefix_free s v1 v2 [] [] H1 H2). now rewrite E.
Qed.

(* ------------------------------------------------------------------ the decoder accepts only encodings *)
Definition optP {A} (P : A -> Prop) (o : option A) : Prop := match o with Some a => P a | None => True end.

Section shape_induction.
  Variable P : shape -> Prop.
  Hypothesis HBool : P SBool.
  Hypothesis HInt : forall k, P (SInt k).
  Hypothesis HF32 : P SF32.
  Hypothesis HF64 : P SF64.
  Hypothesis HStr : P SStr.
  Hypothesis HUnit : P SUnit.
  Hypothesis HOpt : forall os, optP P os -> P (SOpt os).
  Hypothesis HSeq : forall os, optP P os -> P (SSeq os).
  Hypothesis HMap : forall okv, optP (fun kv : shape * shape => P (fst kv) /\ P (snd kv)) okv -> P (SMap okv).
  Hypothesis HTuple : forall l, Forall P l -> P (STuple l).
  Hypothesis HStruct : forall k n fs, Forall (fun f => P (snd f)) fs -> P (SStruct k n fs).
  Hypothesis HEnum : forall n vs,
    Forall (optP (fun t : string * skind * list (string * shape) => Forall (fun f => P (snd f)) (snd t))) vs ->
    P (SEnum n vs).

  Fixpoint shape_ind' (s : shape) : P s :=
    let fields := fix go (l : list (string * shape)) : Forall (fun f => P (snd f)) l :=
                    match l with [] => Forall_nil _ | x :: r => Forall_cons _ (shape_ind' (snd x)) (go r) end in
    match s with
    | SBool => HBool | SInt k => HInt k | SF32 => HF32 | SF64 => HF64 | SStr => HStr | SUnit => HUnit
    | SOpt os => HOpt os (match os as o return optP P o with Some s' => shape_ind' s' | None => I end)
    | SSeq os => HSeq os (match os as o return optP P o with Some s' => shape_ind' s' | None => I end)
    | SMap okv => HMap okv (match okv as o return optP (fun kv : shape * shape => P (fst kv) /\ P (snd kv)) o with
                            | Some kv => conj (shape_ind' (fst kv)) (shape_ind' (snd kv))
                            | None => I
                            end)
    | STuple l => HTuple l ((fix go (l : list shape) : Forall P l :=
                               match l with [] => Forall_nil _ | x :: r => Forall_cons _ (shape_ind' x) (go r) end) l)
    | SStruct k n fs => HStruct k n fs (fields fs)
    | SEnum n vs =>
        HEnum n vs ((fix go (l : list (option (string * skind * list (string * shape)))) :
                       Forall (optP (fun t : string * skind * list (string * shape) => Forall (fun f => P (snd f)) (snd t))) l :=
                       match l with
                       | [] => Forall_nil _
                       | x :: r => Forall_cons _
                                     (match x as o return optP (fun t : string * skind * list (string * shape) => Forall (fun f => P (snd f)) (snd t)) o with
                                      | Some t => fields (snd t)
                                      | None => I
                                      end) (go r)
                       end) vs)
    end.
End shape_induction.


Lemma take_spec : forall n bs a r, take n bs = Some (a, r) -> bs = a ++ r /\ List.length a = n.
Proof.
  induction n as [|n IH]; intros bs a r H; simpl in H.
  - injection H as <- <-. split; reflexivity.
  - destruct bs as [|b bs]; [discriminate |].
    destruct (take n bs) as [[a' r']|] eqn:E; [| discriminate].
    injection H as <- <-. destruct (IH _ _ _ E) as [-> <-]. split; reflexivity.
Qed.

Lemma le_unle : forall a, bytes_ok a -> le (List.length a) (unle a) = a.
Proof.
  induction a as [|b a IH]; intro H; [reflexivity |].
  inversion H as [|? ? Hb Ha]; subst. cbn [List.length le unle].
  replace ((b + 256 * unle a) mod 256) with b.
  - replace ((b + 256 * unle a) / 256) with (unle a); [now rewrite IH |].
    rewrite N.mul_comm. rewrite N.div_add by discriminate. rewrite N.div_small by exact Hb. reflexivity.
  - rewrite N.mul_comm. rewrite N.mod_add by discriminate. now rewrite N.mod_small.
Qed.

Lemma unle_lt : forall a, bytes_ok a -> unle a < modulus (List.length a).
Proof.
  induction a as [|b a IH]; intro H.
  - unfold modulus. simpl. lia.
  - inversion H as [|? ? Hb Ha]; subst. cbn [List.length unle]. rewrite modulus_S. specialize (IH Ha). lia.
Qed.

Lemma bytes_ok_app : forall a b, bytes_ok (a ++ b) -> bytes_ok a /\ bytes_ok b.
Proof. intros a b H. now apply Forall_app in H. Qed.

Lemma dec_le_spec : forall n bs u r, bytes_ok bs -> dec_le n bs = Some (u, r) ->
  bs = le n u ++ r /\ u < modulus n /\ bytes_ok r.
Proof.
  intros n bs u r Hok H. unfold dec_le in H.
  destruct (take n bs) as [[a r']|] eqn:E; [| discriminate]. injection H as <- <-.
  destruct (take_spec _ _ _ _ E) as [-> <-]. destruct (bytes_ok_app _ _ Hok) as [Ha Hr].
  rewrite (le_unle a Ha). repeat split; [now apply unle_lt | exact Hr].
Qed.

Lemma unsigned_roundtrip : forall k u, u < modulus (width k) ->
  to_unsigned k (of_unsigned k u) = u /\ in_range k (of_unsigned k u) = true.
Proof.
  intros k u Hu. unfold to_unsigned, of_unsigned, in_range.
  pose proof (modulus_pos (width k)) as Hp. set (m := modulus (width k)) in *.
  assert (Heven : (Z.of_N m = 2 * (Z.of_N m / 2))%Z) by (unfold m, modulus; destruct k; reflexivity).
  assert (Hhalf : Z.of_N (m / 2) = (Z.of_N m / 2)%Z) by (rewrite N2Z.inj_div; reflexivity).
  destruct (is_signed k); simpl.
  - destruct (m / 2 <=? u) eqn:E.
    + apply N.leb_le in E. split.
      * replace ((Z.of_N u - Z.of_N m) mod Z.of_N m)%Z with (Z.of_N u).
        { now rewrite N2Z.id. }
        apply Z.mod_unique with (q := (-1)%Z); lia.
      * apply andb_true_intro. split; [apply Z.leb_le | apply Z.ltb_lt]; lia.
    + apply N.leb_gt in E. split.
      * rewrite Z.mod_small by lia. now rewrite N2Z.id.
      * apply andb_true_intro. split; [apply Z.leb_le | apply Z.ltb_lt]; lia.
  - split.
    + rewrite Z.mod_small by lia. now rewrite N2Z.id.
    + apply andb_true_intro. split; [apply Z.leb_le | apply Z.ltb_lt]; lia.
Qed.

Lemma str_bytes_str : forall a, bytes_ok a -> str_bytes (bytes_str a) = a.
Proof.
  intros a H. unfold str_bytes, bytes_str. rewrite list_ascii_of_string_of_list_ascii. rewrite map_map.
  induction H as [|b a Hb Ha IH]; [reflexivity |]. simpl. rewrite IH. f_equal.
  apply N_ascii_embedding. exact Hb.
Qed.

(** what a decoder of items must satisfy *)
Definition item_spec {A} (enc : A -> list N) (Q : A -> Prop) (f : list N -> option (A * list N)) : Prop :=
  forall bs a r, bytes_ok bs -> f bs = Some (a, r) -> bs = enc a ++ r /\ Q a /\ bytes_ok r.

Lemma rep_spec : forall {A} (enc : A -> list N) (Q : A -> Prop) f, item_spec enc Q f ->
  forall n bs l r, bytes_ok bs -> rep f n bs = Some (l, r) ->
  bs = flat_map enc l ++ r /\ Forall Q l /\ List.length l = n /\ bytes_ok r.
Proof.
  intros A enc Q f Hf. induction n as [|n IH]; intros bs l r Hok H; simpl in H.
  - injection H as <- <-. repeat split; [constructor | exact Hok].
  - destruct (f bs) as [[a r1]|] eqn:E1; [| discriminate].
    destruct (Hf _ _ _ Hok E1) as [-> [Ha Hr1]].
    destruct (rep f n r1) as [[l' r2]|] eqn:E2; [| discriminate]. injection H as <- <-.
    destruct (IH _ _ _ Hr1 E2) as [-> [Hl [Hn Hr2]]].
    simpl. rewrite <- app_assoc. repeat split; [now constructor | now rewrite Hn | exact Hr2].
Qed.

Lemma dec_seq_spec : forall {A B} (enc : B -> list N) (ok : B -> A -> bool) (dec : A -> list N -> option (B * list N)) (ss : list A),
  Forall (fun s => forall bs b r, bytes_ok bs -> dec s bs = Some (b, r) -> bs = enc b ++ r /\ ok b s = true /\ bytes_ok r) ss ->
  forall bs l r, bytes_ok bs -> dec_seq dec ss bs = Some (l, r) ->
  bs = flat_map enc l ++ r /\ forall2b ok l ss = true /\ bytes_ok r.
Proof.
  intros A B enc ok dec ss H. induction H as [|s ss Hs Hss IH]; intros bs l r Hok E; simpl in E.
  - injection E as <- <-. repeat split. exact Hok.
  - destruct (dec s bs) as [[b r1]|] eqn:E1; [| discriminate].
    destruct (Hs _ _ _ Hok E1) as [-> [Hb Hr1]].
    destruct (dec_seq dec ss r1) as [[l' r2]|] eqn:E2; [| discriminate]. injection E as <- <-.
    destruct (IH _ _ _ Hr1 E2) as [-> [Hl Hr2]].
    simpl. rewrite <- app_assoc. rewrite Hb, Hl. repeat split. exact Hr2.
Qed.

Definition sound_at (s : shape) : Prop :=
  forall bs v rest, bytes_ok bs -> decode s bs = Some (v, rest) ->
  bs = encode v ++ rest /\ has_shape v s = true /\ bytes_ok rest.

Lemma fields_sound : forall (fs : list (string * shape)),
  Forall (fun f => sound_at (snd f)) fs ->
  forall bs l r, bytes_ok bs -> dec_seq (dec_field decode) fs bs = Some (l, r) ->
  bs = flat_map (fun f : string * value => encode (snd f)) l ++ r
  /\ forall2b (field_shape has_shape) l fs = true /\ bytes_ok r.
Proof.
  intros fs H. apply (dec_seq_spec (fun f : string * value => encode (snd f)) (field_shape has_shape)).
  eapply Forall_impl; [| exact H]. intros [n s] Hs bs [n' v] r Hok E. unfold dec_field in E. simpl in *.
  destruct (decode s bs) as [[v' r']|] eqn:E1; [| discriminate]. injection E as <- <- <-.
  destruct (Hs _ _ _ Hok E1) as [-> [Hv Hr]]. unfold field_shape. simpl.
  rewrite String.eqb_refl, Hv. repeat split. exact Hr.
Qed.

Lemma byte_cases : forall b : N, (b =? 0) = false -> (b =? 1) = true -> b = 1.
Proof. intros b _ H. now apply N.eqb_eq in H. Qed.

Lemma decode_sound_all : forall s, sound_at s.
Proof.
  induction s as [ |k| | | | |os IH|os IH|okv IH|ss IH|k n fs IH|n vs IH] using shape_ind';
    intros bs v rest Hok E; cbn [decode] in E.
  - (* bool *)
    destruct bs as [|b r]; [discriminate |]. inversion Hok as [|? ? Hb Hr]; subst.
    destruct (b =? 0) eqn:E0; [apply N.eqb_eq in E0; subst b; injection E as <- <-; repeat split; exact Hr |].
    destruct (b =? 1) eqn:E1; [| discriminate]. apply N.eqb_eq in E1. subst b. injection E as <- <-. repeat split. exact Hr.
  - (* int *)
    destruct (dec_le (width k) bs) as [[u r]|] eqn:E1; [| discriminate]. injection E as <- <-.
    destruct (dec_le_spec _ _ _ _ Hok E1) as [-> [Hu Hr]].
    destruct (unsigned_roundtrip k u Hu) as [H1 H2]. cbn [encode has_shape]. rewrite H1, H2.
    repeat split; [destruct k; reflexivity | exact Hr].
  - destruct (dec_le 4 bs) as [[u r]|] eqn:E1; [| discriminate]. injection E as <- <-.
    destruct (dec_le_spec _ _ _ _ Hok E1) as [-> [Hu Hr]]. cbn [encode has_shape].
    repeat split; [now apply N.ltb_lt | exact Hr].
  - destruct (dec_le 8 bs) as [[u r]|] eqn:E1; [| discriminate]. injection E as <- <-.
    destruct (dec_le_spec _ _ _ _ Hok E1) as [-> [Hu Hr]]. cbn [encode has_shape].
    repeat split; [now apply N.ltb_lt | exact Hr].
  - (* str *)
    destruct (dec_le 8 bs) as [[u r]|] eqn:E1; [| discriminate].
    destruct (dec_le_spec _ _ _ _ Hok E1) as [-> [Hu Hr]].
    destruct (take (N.to_nat u) r) as [[a r']|] eqn:E2; [| discriminate]. injection E as <- <-.
    destruct (take_spec _ _ _ _ E2) as [-> Hlen]. destruct (bytes_ok_app _ _ Hr) as [Ha Hr'].
    assert (Hl : N.of_nat (String.length (bytes_str a)) = u).
    { rewrite <- str_bytes_length. rewrite (str_bytes_str a Ha). rewrite Hlen. apply N2Nat.id. }
    cbn [encode has_shape]. rewrite Hl, (str_bytes_str a Ha). rewrite <- app_assoc.
    repeat split; [now apply N.ltb_lt | exact Hr'].
  - (* unit *) injection E as <- <-. repeat split. exact Hok.
  - (* option *)
    destruct bs as [|b r]; [discriminate |]. inversion Hok as [|? ? Hb Hr]; subst.
    destruct (b =? 0) eqn:E0; [apply N.eqb_eq in E0; subst b; injection E as <- <-; repeat split; exact Hr |].
    destruct (b =? 1) eqn:E1; [| discriminate]. apply N.eqb_eq in E1. subst b.
    destruct os as [s'|]; [| discriminate].
    destruct (decode s' r) as [[v' r']|] eqn:E2; [| discriminate]. injection E as <- <-.
    destruct (IH _ _ _ Hr E2) as [-> [Hv Hr']]. repeat split; [exact Hv | exact Hr'].
  - (* seq *)
    destruct (dec_le 8 bs) as [[u r]|] eqn:E1; [| discriminate].
    destruct (dec_le_spec _ _ _ _ Hok E1) as [-> [Hu Hr]].
    destruct os as [s'|].
    + destruct (rep (decode s') (N.to_nat u) r) as [[l r']|] eqn:E2; [| discriminate]. injection E as <- <-.
      destruct (rep_spec encode (fun v => has_shape v s' = true) (decode s')
                  (fun bs a r0 Hb Hd => IH bs a r0 Hb Hd) _ _ _ _ Hr E2) as [-> [Hl [Hn Hr']]].
      cbn [encode has_shape]. rewrite Hn, N2Nat.id. rewrite <- app_assoc.
      repeat split; [| exact Hr'].
      apply andb_true_intro. split; [unfold len_ok; rewrite Hn, N2Nat.id; now apply N.ltb_lt |].
      apply forallb_forall. rewrite Forall_forall in Hl. exact Hl.
    + destruct (u =? 0) eqn:E0; [| discriminate]. apply N.eqb_eq in E0. subst u. injection E as <- <-.
      repeat split. exact Hr.
  - (* map *)
    destruct (dec_le 8 bs) as [[u r]|] eqn:E1; [| discriminate].
    destruct (dec_le_spec _ _ _ _ Hok E1) as [-> [Hu Hr]].
    destruct okv as [[ks vs]|].
    + simpl in IH. destruct IH as [IHk IHv].
      match type of E with context [rep ?f _ _] => set (f0 := f) in * end.
      destruct (rep f0 (N.to_nat u) r) as [[l r']|] eqn:E2; [| discriminate]. injection E as <- <-.
      assert (Hf : item_spec (fun kv : value * value => encode (fst kv) ++ encode (snd kv))
                             (fun kv => has_shape (fst kv) ks && has_shape (snd kv) vs = true) f0).
      { intros b [k v] r0 Hb Hd. unfold f0 in Hd.
        destruct (decode ks b) as [[k' b']|] eqn:D1; [| discriminate].
        destruct (IHk _ _ _ Hb D1) as [-> [Hk Hb']].
        destruct (decode vs b') as [[v' b'']|] eqn:D2; [| discriminate]. injection Hd as <- <- <-.
        destruct (IHv _ _ _ Hb' D2) as [-> [Hv Hb'']]. simpl. rewrite Hk, Hv, <- app_assoc. repeat split. exact Hb''. }
      destruct (rep_spec _ _ f0 Hf _ _ _ _ Hr E2) as [-> [Hl [Hn Hr']]].
      cbn [encode has_shape]. rewrite Hn, N2Nat.id. rewrite <- app_assoc.
      repeat split; [| exact Hr'].
      apply andb_true_intro. split; [unfold len_ok; rewrite Hn, N2Nat.id; now apply N.ltb_lt |].
      apply forallb_forall. rewrite Forall_forall in Hl. exact Hl.
    + destruct (u =? 0) eqn:E0; [| discriminate]. apply N.eqb_eq in E0. subst u. injection E as <- <-.
      repeat split. exact Hr.
  - (* tuple *)
    destruct (dec_seq decode ss bs) as [[l r]|] eqn:E1; [| discriminate]. injection E as <- <-.
    destruct (dec_seq_spec encode has_shape decode ss IH _ _ _ Hok E1) as [-> [Hl Hr]].
    repeat split; [exact Hl | exact Hr].
  - (* struct *)
    destruct (dec_seq (dec_field decode) fs bs) as [[l r]|] eqn:E1; [| discriminate]. injection E as <- <-.
    destruct (fields_sound fs IH _ _ _ Hok E1) as [-> [Hl Hr]].
    cbn [encode has_shape]. rewrite String.eqb_refl, Hl.
    repeat split; [destruct k; reflexivity | exact Hr].
  - (* enum *)
    destruct (dec_le 4 bs) as [[i r]|] eqn:E1; [| discriminate].
    destruct (dec_le_spec _ _ _ _ Hok E1) as [-> [Hi Hr]].
    rewrite pick_nth in E. destruct (nth_N vs i) as [[[[vn k] fs]|]|] eqn:En; try discriminate.
    destruct (dec_seq (dec_field decode) fs r) as [[l r']|] eqn:E2; [| discriminate]. injection E as <- <-.
    assert (Hfs : Forall (fun f => sound_at (snd f)) fs).
    { clear - IH En. revert i En. induction IH as [|ov vs Hov Hvs IHvs]; intros i En; simpl in En; [discriminate |].
      destruct (i =? 0); [injection En as ->; exact Hov | exact (IHvs _ En)]. }
    simpl in Hfs.
    destruct (fields_sound fs Hfs _ _ _ Hr E2) as [-> [Hl Hr']].
    cbn [encode has_shape]. rewrite String.eqb_refl, En, String.eqb_refl, Hl. rewrite <- app_assoc.
    repeat split; [| exact Hr'].
    apply andb_true_intro. split; [apply andb_true_intro; split; [reflexivity | now apply N.ltb_lt] | destruct k; reflexivity].
Qed.

Lemma le_bytes_ok : forall n x, bytes_ok (le n x).
Proof.
  induction n as [|n IH]; intro x; simpl; constructor; [| apply IH].
  apply N.mod_lt. discriminate.
Qed.
Lemma flat_map_bytes_ok : forall {A} (f : A -> list N) l, Forall (fun a => bytes_ok (f a)) l -> bytes_ok (flat_map f l).
Proof.
  intros A f l H. induction H as [|a l Ha Hl IH]; simpl; [constructor | apply Forall_app; split; assumption].
Qed.

Lemma encode_bytes_ok : forall v, bytes_ok (encode v).
Proof.
  induction v as [b|k z|b|b|st| | |v IHv|l H|l H|l H|k n fs H|n i vn k fs H] using value_ind'; cbn [encode].
  - constructor; [destruct b; reflexivity | constructor].
  - apply le_bytes_ok.
  - apply le_bytes_ok.
  - apply le_bytes_ok.
  - apply Forall_app. split; [apply le_bytes_ok |].
    unfold str_bytes. apply Forall_forall. intros x Hx. apply in_map_iff in Hx as [a [<- _]]. apply N_ascii_bounded.
  - constructor.
  - constructor; [reflexivity | constructor].
  - constructor; [reflexivity | exact IHv].
  - apply Forall_app. split; [apply le_bytes_ok | now apply flat_map_bytes_ok].
  - apply Forall_app. split; [apply le_bytes_ok |]. apply flat_map_bytes_ok.
    eapply Forall_impl; [| exact H]. intros [a b] [Ha Hb]. apply Forall_app. split; assumption.
  - now apply flat_map_bytes_ok.
  - now apply flat_map_bytes_ok.
  - apply Forall_app. split; [apply le_bytes_ok | now apply flat_map_bytes_ok].
Qed.

Lemma decode_iff : forall s bs v rest, bytes_ok bs ->
  (decode s bs = Some (v, rest) <-> bs = encode v ++ rest /\ has_shape v s = true).
Proof.
  intros s bs v rest Hok. split.
  - intro E. destruct (decode_sound_all s bs v rest Hok E) as [A [B _]]. now split.
  - intros [-> Hs]. now apply decode_encode_all.
Qed.

(* ------------------------------------------------------------------ equality test of the oracle *)
Lemma forall2b_eq : forall {A} (eqb : A -> A -> bool) (x : list A),
  Forall (fun a => forall b, eqb a b = true -> a = b) x -> forall y, forall2b eqb x y = true -> x = y.
Proof.
  intros A eqb x H. induction H as [|a x Ha Hx IH]; intros [|b y] E; simpl in E; try discriminate; [reflexivity |].
  apply andb_prop in E as [E1 E2]. now rewrite (Ha b E1), (IH y E2).
Qed.

Lemma value_eqb_eq : forall a b, value_eqb a b = true -> a = b.
Proof.
  induction a as [x|k x|x|x|x| | |v IHv|l H|l H|l H|k n fs H|n i vn k fs H] using value_ind';
    intros [y|k' y|y|y|y| | |w|m|m|m|k' n' gs|n' i' vn' k' gs] E; simpl in E; try discriminate.
  - now rewrite (Bool.eqb_prop _ _ E).
  - apply andb_prop in E as [E1 E2]. apply ikind_eqb_eq in E1. apply Z.eqb_eq in E2. now subst.
  - apply N.eqb_eq in E. now subst.
  - apply N.eqb_eq in E. now subst.
  - apply String.eqb_eq in E. now subst.
  - reflexivity.
  - reflexivity.
  - now rewrite (IHv w E).
  - now rewrite (forall2b_eq value_eqb l H m E).
  - f_equal. apply (forall2b_eq (fun u w => value_eqb (fst u) (fst w) && value_eqb (snd u) (snd w)) l); [| exact E].
    eapply Forall_impl; [| exact H]. intros [k v] [Hk Hv] [k2 v2] E2. simpl in *.
    apply andb_prop in E2 as [E3 E4]. now rewrite (Hk _ E3), (Hv _ E4).
  - now rewrite (forall2b_eq value_eqb l H m E).
  - apply andb_prop in E as [E1 E3]. apply andb_prop in E1 as [E1 E2].
    apply skind_eqb_eq in E1. apply String.eqb_eq in E2. subst. f_equal.
    apply (forall2b_eq (field_eqb value_eqb) fs); [| exact E3].
    eapply Forall_impl; [| exact H]. intros [f v] Hv [f2 v2] E2. unfold field_eqb in E2. simpl in *.
    apply andb_prop in E2 as [E4 E5]. apply String.eqb_eq in E4. now rewrite E4, (Hv _ E5).
  - apply andb_prop in E as [E1 E5]. apply andb_prop in E1 as [E1 E4]. apply andb_prop in E1 as [E1 E3].
    apply andb_prop in E1 as [E1 E2].
    apply String.eqb_eq in E1. apply N.eqb_eq in E2. apply String.eqb_eq in E3. apply skind_eqb_eq in E4. subst. f_equal.
    apply (forall2b_eq (field_eqb value_eqb) fs); [| exact E5].
    eapply Forall_impl; [| exact H]. intros [f v] Hv [f2 v2] E2. unfold field_eqb in E2. simpl in *.
    apply andb_prop in E2 as [E6 E7]. apply String.eqb_eq in E6. now rewrite E6, (Hv _ E7).
Qed.

(* ------------------------------------------------------------------ what the derived impls do: structs *)
Lemma de_ser_fields : forall fds dflt vals,
  List.length vals = List.length fds -> List.length dflt = List.length fds ->
  Forall (fun f => skips_ser (fd_attrs f) = skips_de (fd_attrs f)) fds ->
  de_fields fds dflt (ser_fields fds vals) = Some (merge_defaults fds dflt vals).
Proof.
  induction fds as [|f fds IH]; intros [|d dflt] [|v vals] Lv Ld Hs; simpl in *; try discriminate; [reflexivity |].
  inversion Hs as [|? ? Hf Hr]; subst.
  injection Lv as Lv. injection Ld as Ld.
  rewrite Hf. destruct (skips_de (fd_attrs f)).
  - now rewrite (IH dflt vals Lv Ld Hr).
  - rewrite String.eqb_refl. now rewrite (IH dflt vals Lv Ld Hr).
Qed.

Lemma lossless_no_skip : forall f, field_lossless f = true ->
  skips_ser (fd_attrs f) = false /\ skips_de (fd_attrs f) = false.
Proof.
  intros f H. unfold field_lossless, field_pos_static, f_read in H.
  repeat (apply andb_prop in H as [H ?]).
  split; now apply negb_true_iff.
Qed.

Lemma merge_no_skip : forall fds dflt vals,
  List.length vals = List.length fds -> List.length dflt = List.length fds ->
  forallb field_lossless fds = true -> merge_defaults fds dflt vals = vals.
Proof.
  induction fds as [|f fds IH]; intros [|d dflt] [|v vals] Lv Ld H; simpl in *; try discriminate; [reflexivity |].
  apply andb_prop in H as [Hf Hr]. injection Lv as Lv. injection Ld as Ld.
  destruct (lossless_no_skip _ Hf) as [_ Hd]. rewrite Hd. now rewrite (IH dflt vals Lv Ld Hr).
Qed.

Lemma lossless_fields_roundtrip : forall fds dflt vals,
  List.length vals = List.length fds -> List.length dflt = List.length fds ->
  forallb field_lossless fds = true ->
  de_fields fds dflt (ser_fields fds vals) = Some vals.
Proof.
  intros fds dflt vals Lv Ld H.
  rewrite de_ser_fields; try assumption.
  - now rewrite merge_no_skip.
  - rewrite forallb_forall in H. apply Forall_forall. intros f Hf.
    destruct (lossless_no_skip _ (H f Hf)) as [A B]. now rewrite A, B.
Qed.

(** skipped fields come back as their defaults: the value survives iff they held their defaults *)
Fixpoint skipped_hold_defaults (fds : list field_decl) (dflt vals : list value) : Prop :=
  match fds, dflt, vals with
  | f :: fds', d :: dflt', v :: vals' =>
      (skips_de (fd_attrs f) = true -> v = d) /\ skipped_hold_defaults fds' dflt' vals'
  | _, _, _ => True
  end.

Lemma merge_eq_iff : forall fds dflt vals,
  List.length vals = List.length fds -> List.length dflt = List.length fds ->
  (merge_defaults fds dflt vals = vals <-> skipped_hold_defaults fds dflt vals).
Proof.
  induction fds as [|f fds IH]; intros [|d dflt] [|v vals] Lv Ld; simpl in *; try discriminate; [tauto |].
  injection Lv as Lv. injection Ld as Ld. specialize (IH dflt vals Lv Ld).
  split.
  - intro E. injection E as E1 E2. split; [| now apply IH].
    intro Hs. rewrite Hs in E1. now symmetry.
  - intros [H1 H2]. f_equal; [| now apply IH].
    destruct (skips_de (fd_attrs f)); [symmetry; now apply H1 | reflexivity].
Qed.

Lemma skip_roundtrip_iff : forall fds dflt vals,
  List.length vals = List.length fds -> List.length dflt = List.length fds ->
  Forall (fun f => skips_ser (fd_attrs f) = skips_de (fd_attrs f)) fds ->
  (de_fields fds dflt (ser_fields fds vals) = Some vals <-> skipped_hold_defaults fds dflt vals).
Proof.
  intros fds dflt vals Lv Ld Hs. rewrite (de_ser_fields fds dflt vals Lv Ld Hs).
  rewrite <- (merge_eq_iff fds dflt vals Lv Ld). split; [intro E; now injection E | intro E; now rewrite E].
Qed.

(* ------------------------------------------------------------------ what the derived impls do: enum variants *)
Lemma de_variant_from_ge : forall vs i pos q, de_variant_from vs i pos = Some q -> (pos + i <= q)%nat.
Proof.
  induction vs as [|v vs IH]; intros i pos q E; simpl in E; [discriminate |].
  destruct (skips_de (vd_attrs v)).
  - apply IH in E. lia.
  - destruct i as [|i]; [injection E as E; lia | apply IH in E; lia].
Qed.

Lemma de_variant_stable : forall vs p pos v,
  nth_error vs p = Some v -> skips_de (vd_attrs v) = false ->
  (forall j w, (j < p)%nat -> nth_error vs j = Some w -> skips_de (vd_attrs w) = false) ->
  de_variant_from vs p pos = Some (pos + p)%nat.
Proof.
  induction vs as [|x vs IH]; intros p pos v Hn Hv Hb; [destruct p; discriminate |].
  destruct p as [|p]; simpl in *.
  - injection Hn as Hn. subst x. rewrite Hv. f_equal. lia.
  - rewrite (Hb 0%nat x ltac:(lia) eq_refl).
    rewrite (IH p (S pos) v Hn Hv); [f_equal; lia |].
    intros j w Hj Hw. apply (Hb (S j) w); [lia | exact Hw].
Qed.

Lemma de_variant_shifted : forall vs p pos,
  (exists j w, (j < p)%nat /\ nth_error vs j = Some w /\ skips_de (vd_attrs w) = true) ->
  de_variant_from vs p pos <> Some (pos + p)%nat.
Proof.
  induction vs as [|x vs IH]; intros p pos [j [w [Hj [Hw Hs]]]]; [destruct j; discriminate |].
  simpl. destruct (skips_de (vd_attrs x)) eqn:Hx.
  - intro E. apply de_variant_from_ge in E. lia.
  - destruct p as [|p]; [lia |].
    destruct j as [|j]; simpl in Hw.
    + injection Hw as Hw. subst w. congruence.
    + intro E. apply (IH p (S pos)); [exists j, w; repeat split; [lia | exact Hw | exact Hs] |].
      rewrite E. f_equal. lia.
Qed.

Lemma variant_roundtrip_iff : forall vs p v,
  nth_error vs p = Some v -> skips_ser (vd_attrs v) = false -> skips_de (vd_attrs v) = false ->
  ((exists i, ser_variant vs p = Some i /\ de_variant vs i = Some p) <->
   (forall j w, (j < p)%nat -> nth_error vs j = Some w -> skips_de (vd_attrs w) = false)).
Proof.
  intros vs p v Hn Hs Hd. unfold ser_variant, de_variant. rewrite Hn, Hs.
  split.
  - intros [i [Hi E]]. injection Hi as Hi. subst i. rewrite Nat2N.id in E.
    intros j w Hj Hw. destruct (skips_de (vd_attrs w)) eqn:Hsw; [| reflexivity].
    exfalso. apply (de_variant_shifted vs p 0); [exists j, w; auto | exact E].
  - intro Hb. exists (N.of_nat p). split; [reflexivity |]. rewrite Nat2N.id.
    now rewrite (de_variant_stable vs p 0 v Hn Hd Hb).
Qed.

(** with [index_stable] every live variant keeps its index *)
Lemma index_stable_prefix : forall vs p v,
  index_stable vs = true -> nth_error vs p = Some v -> skips_ser (vd_attrs v) = false ->
  forall j w, (j < p)%nat -> nth_error vs j = Some w -> skips_de (vd_attrs w) = false.
Proof.
  induction vs as [|x vs IH]; intros p v Hst Hn Hv j w Hj Hw; [destruct p; discriminate |].
  simpl in Hst. destruct p as [|p]; [lia |]. simpl in Hn.
  destruct (skips_ser (vd_attrs x) || skips_de (vd_attrs x)) eqn:Hx.
  - (* every later variant is skipped, contradiction with the live variant at p *)
    rewrite forallb_forall in Hst. apply nth_error_In in Hn. specialize (Hst v Hn).
    apply andb_prop in Hst as [A _]. congruence.
  - apply orb_false_elim in Hx as [_ Hx2].
    destruct j as [|j]; simpl in Hw; [injection Hw as Hw; now subst w |].
    apply (IH p v Hst Hn Hv j w); [lia | exact Hw].
Qed.

Lemma stable_enum_roundtrip : forall vs p v,
  index_stable vs = true -> nth_error vs p = Some v ->
  skips_ser (vd_attrs v) = false -> skips_de (vd_attrs v) = false ->
  exists i, ser_variant vs p = Some i /\ de_variant vs i = Some p.
Proof.
  intros vs p v Hst Hn Hs Hd. apply (variant_roundtrip_iff vs p v Hn Hs Hd).
  now apply (index_stable_prefix vs p v).
Qed.

(* ------------------------------------------------------------------ wire + derive, end to end *)
Lemma lossless_struct_wire_roundtrip : forall name k fds vals dflt ss rest,
  forallb field_lossless fds = true ->
  List.length vals = List.length fds -> List.length dflt = List.length fds ->
  has_shape (ser_struct name k fds vals) (SStruct k name ss) = true ->
  decode (SStruct k name ss) (encode (ser_struct name k fds vals) ++ rest)
    = Some (VStruct k name (ser_fields fds vals), rest)
  /\ de_fields fds dflt (ser_fields fds vals) = Some vals.
Proof.
  intros name k fds vals dflt ss rest Hl Lv Ld Hs. split.
  - exact (decode_encode_all _ _ rest Hs).
  - now apply lossless_fields_roundtrip.
Qed.

Lemma lossless_variants_roundtrip : forall vs p v,
  forallb variant_lossless vs = true -> nth_error vs p = Some v ->
  exists i, ser_variant vs p = Some i /\ de_variant vs i = Some p.
Proof.
  intros vs p v Hl Hn.
  assert (Hall : forall w, In w vs -> skips_ser (vd_attrs w) = false /\ skips_de (vd_attrs w) = false).
  { intros w Hw. rewrite forallb_forall in Hl. specialize (Hl w Hw). unfold variant_lossless, variant_pos_static in Hl.
    repeat (apply andb_prop in Hl as [Hl ?]). split; now apply negb_true_iff. }
  destruct (Hall v (nth_error_In _ _ Hn)) as [Hs Hd].
  apply (variant_roundtrip_iff vs p v Hn Hs Hd).
  intros j w _ Hw. exact (proj2 (Hall w (nth_error_In _ _ Hw))).
Qed.

(* ------------------------------------------------------------------ the translated declarations *)
Lemma all_declared_lossless_c : forallb lossless_decl (minus_known declared) = true.
Proof. vm_compute. reflexivity. Qed.

Lemma known_exceptions_exact_c : forallb decl_lossless_or_known declared = true.
Proof. vm_compute. reflexivity. Qed.

Lemma declared_enums_stable_outside_known_c :
  forallb (fun d => enum_stable d || known_type (td_name d)) declared = true.
Proof. vm_compute. reflexivity. Qed.

Fixpoint nodupb (l : list string) : bool :=
  match l with [] => true | x :: r => negb (existsb (String.eqb x) r) && nodupb r end.
Lemma declared_names_unique_c : nodupb (map td_name declared) = true.
Proof. vm_compute. reflexivity. Qed.

Lemma declared_lossless_in : forall d, In d (minus_known declared) -> lossless_decl d = true.
Proof. intros d Hd. pose proof all_declared_lossless_c as H. rewrite forallb_forall in H. now apply H. Qed.

Lemma declared_struct_roundtrip : forall d k fds vals dflt ss rest,
  In d (minus_known declared) -> td_body d = BStruct k fds ->
  List.length vals = List.length fds -> List.length dflt = List.length fds ->
  has_shape (ser_struct (td_name d) k fds vals) (SStruct k (td_name d) ss) = true ->
  decode (SStruct k (td_name d) ss) (encode (ser_struct (td_name d) k fds vals) ++ rest)
    = Some (VStruct k (td_name d) (ser_fields fds vals), rest)
  /\ de_fields fds dflt (ser_fields fds vals) = Some vals.
Proof.
  intros d k fds vals dflt ss rest Hd Hb Lv Ld Hs.
  apply lossless_struct_wire_roundtrip; try assumption.
  pose proof (declared_lossless_in d Hd) as Hl. unfold lossless_decl, lossless_decl_pos in Hl. rewrite Hb in Hl.
  apply andb_prop in Hl as [Hl _]. now apply andb_prop in Hl as [_ Hl].
Qed.

Lemma declared_enum_roundtrip : forall d vs p v,
  In d (minus_known declared) -> td_body d = BEnum vs -> nth_error vs p = Some v ->
  exists i, ser_variant vs p = Some i /\ de_variant vs i = Some p.
Proof.
  intros d vs p v Hd Hb Hn. apply (lossless_variants_roundtrip vs p v); [| exact Hn].
  pose proof (declared_lossless_in d Hd) as Hl. unfold lossless_decl, lossless_decl_pos in Hl. rewrite Hb in Hl.
  apply andb_prop in Hl as [Hl _]. apply andb_prop in Hl as [_ Hl]. now apply andb_prop in Hl as [_ Hl].
Qed.

(* ------------------------------------------------------------------ witnesses / non-vacuity *)
Local Open Scope string_scope.
(** a fitted-model-like value: struct with a sequence, an option, a nested enum, a map and a tuple *)
Definition ex_value : value :=
  VStruct KNamed "Model"
    [("centroids", VSeq [VF64 4607182418800017408; VF64 13830554455654793216; VF64 9223372036854775808]);
     ("count", VInt U64 17%Z);
     ("offset", VInt I32 (-5)%Z);
     ("best", VSome (VEnum "Init" 1 "Precomputed" KNewtype [("0", VTuple [VInt U8 3%Z; VBool true])]));
     ("absent", VNone);
     ("names", VMap [(VStr "a""b", VF32 1065353216); (VStr "", VF32 0)]);
     ("tag", VEnum "Kind" 2 "Max" KUnit []);
     ("unit", VStruct KUnit "L2Dist" [])].
Definition ex_shape : shape :=
  SStruct KNamed "Model"
    [("centroids", SSeq (Some SF64)); ("count", SInt U64); ("offset", SInt I32);
     ("best", SOpt (Some (SEnum "Init" [Some ("Random", KUnit, []); Some ("Precomputed", KNewtype, [("0", STuple [SInt U8; SBool])])])));
     ("absent", SOpt (Some SStr));
     ("names", SMap (Some (SStr, SF32)));
     ("tag", SEnum "Kind" [None; None; Some ("Max", KUnit, [])]);
     ("unit", SStruct KUnit "L2Dist" [])].
Example ex_value_typed : has_shape ex_value ex_shape = true.
Proof. vm_compute. reflexivity. Qed.
Example ex_value_roundtrips : decode ex_shape (encode ex_value ++ [7; 7]%N) = Some (ex_value, [7; 7]%N).
Proof. vm_compute. reflexivity. Qed.
Example ex_value_bytes : List.length (encode ex_value) = 91%nat.
Proof. vm_compute. reflexivity. Qed.
(** without the shape the bytes are ambiguous: injectivity needs the common shape *)
Example ex_untyped_collision : encode (VInt U32 1%Z) = encode (VF32 1) /\ VInt U32 1%Z <> VF32 1.
Proof. split; [vm_compute; reflexivity | discriminate]. Qed.

Definition ex_fields : list field_decl :=
  [mkF "a" "a" ["a"] "bool" []; mkF "f" "f" ["f"] "Option<fn()>" [("skip", "")]; mkF "g" "g" ["g"] "bool" [("bound", "x")]].
Example ex_skip_default_survives :
  de_fields ex_fields [VBool false; VNone; VBool false] (ser_fields ex_fields [VBool true; VNone; VBool true])
  = Some [VBool true; VNone; VBool true].
Proof. vm_compute. reflexivity. Qed.
Example ex_skip_nondefault_lost :
  de_fields ex_fields [VBool false; VNone; VBool false] (ser_fields ex_fields [VBool true; VSome VUnit; VBool true])
  = Some [VBool true; VNone; VBool true].
Proof. vm_compute. reflexivity. Qed.
Example ex_skip_hyps : Forall (fun f => skips_ser (fd_attrs f) = skips_de (fd_attrs f)) ex_fields.
Proof. repeat constructor. Qed.

(** the shape of `linfa::Error` as found in the repository when this development was written:
    a skipped variant in the middle *)
Definition ex_error_variants : list variant_decl :=
  [mkV ("Param" ++ "eters") ("Param" ++ "eters") ["Param" ++ "eters"] KNewtype [] [mkF "0" "0" ["0"] "String" []];
   mkV "Priors" "Priors" ["Priors"] KNewtype [] [mkF "0" "0" ["0"] "String" []];
   mkV "NotConverged" "NotConverged" ["NotConverged"] KNewtype [] [mkF "0" "0" ["0"] "String" []];
   mkV "NdShape" "NdShape" ["NdShape"] KNewtype [("skip", "")] [mkF "0" "0" ["0"] "ShapeError" []];
   mkV "NotEnoughSamples" "NotEnoughSamples" ["NotEnoughSamples"] KUnit [] [];
   mkV "MismatchedShapes" "MismatchedShapes" ["MismatchedShapes"] KTuple [] [mkF "0" "0" ["0"] "usize" []; mkF "1" "1" ["1"] "usize" []]].
Example ex_middle_skip_shifts :
  ser_variant ex_error_variants 4 = Some 4%N /\ de_variant ex_error_variants 4 = Some 5%nat
  /\ ser_variant ex_error_variants 5 = Some 5%N /\ de_variant ex_error_variants 5 = None
  /\ ser_variant ex_error_variants 3 = None /\ de_variant ex_error_variants 2 = Some 2%nat.
Proof. vm_compute. repeat split; reflexivity. Qed.
Example ex_last_skip_is_stable :
  index_stable (firstn 3 ex_error_variants ++ skipn 4 ex_error_variants ++ [nth 3 ex_error_variants (mkV "" "" [] KUnit [] [])]) = true
  /\ index_stable ex_error_variants = false.
Proof. vm_compute. split; reflexivity. Qed.

Example declared_nonempty : (50 <= List.length (minus_known declared))%nat /\ (List.length declared <= 200)%nat.
Proof. vm_compute. split; repeat constructor. Qed.
