(** C19 - lemmas. *)
From Coq Require Import List String Ascii NArith ZArith Bool Lia.
From LinfaVerif Require Import C19.Model gen.C19_types.
Import ListNotations.
Local Open Scope N_scope.

(* ------------------------------------------------------------------ induction over values *)
Section value_induction.
  Variable P : value -> Prop.
  Hypothesis HBool : forall b, P (VBool b).
  Hypothesis HInt : forall k z, P (VInt k z).
  Hypothesis HF32 : forall b, P (VF32 b).
  Hypothesis HF64 : forall b, P (VF64 b).
  Hypothesis HStr : forall s, P (VStr s).
  Hypothesis HUnit : P VUnit.
  Hypothesis HNone : P VNone.
  Hypothesis HSome : forall v, P v -> P (VSome v).
  Hypothesis HSeq : forall l, Forall P l -> P (VSeq l).
  Hypothesis HMap : forall l, Forall (fun kv => P (fst kv) /\ P (snd kv)) l -> P (VMap l).
  Hypothesis HTuple : forall l, Forall P l -> P (VTuple l).
  Hypothesis HStruct : forall k n fs, Forall (fun f => P (snd f)) fs -> P (VStruct k n fs).
  Hypothesis HEnum : forall n i vn k fs, Forall (fun f => P (snd f)) fs -> P (VEnum n i vn k fs).

  Fixpoint value_ind' (v : value) : P v :=
    match v with
    | VBool b => HBool b
    | VInt k z => HInt k z
    | VF32 b => HF32 b
    | VF64 b => HF64 b
    | VStr s => HStr s
    | VUnit => HUnit
    | VNone => HNone
    | VSome v' => HSome v' (value_ind' v')
    | VSeq l => HSeq l ((fix go (l : list value) : Forall P l :=
                           match l with [] => Forall_nil _ | x :: r => Forall_cons _ (value_ind' x) (go r) end) l)
    | VMap l => HMap l ((fix go (l : list (value * value)) : Forall (fun kv => P (fst kv) /\ P (snd kv)) l :=
                           match l with
                           | [] => Forall_nil _
                           | x :: r => Forall_cons _ (conj (value_ind' (fst x)) (value_ind' (snd x))) (go r)
                           end) l)
    | VTuple l => HTuple l ((fix go (l : list value) : Forall P l :=
                               match l with [] => Forall_nil _ | x :: r => Forall_cons _ (value_ind' x) (go r) end) l)
    | VStruct k n fs => HStruct k n fs ((fix go (l : list (string * value)) : Forall (fun f => P (snd f)) l :=
                                           match l with [] => Forall_nil _ | x :: r => Forall_cons _ (value_ind' (snd x)) (go r) end) fs)
    | VEnum n i vn k fs => HEnum n i vn k fs ((fix go (l : list (string * value)) : Forall (fun f => P (snd f)) l :=
                                                 match l with [] => Forall_nil _ | x :: r => Forall_cons _ (value_ind' (snd x)) (go r) end) fs)
    end.
End value_induction.

(* ------------------------------------------------------------------ little-endian bytes *)
Lemma modulus_S : forall n, modulus (S n) = 256 * modulus n.
Proof.
  intro n. unfold modulus. rewrite Nat2N.inj_succ.
  replace (8 * N.succ (N.of_nat n)) with (8 + 8 * N.of_nat n) by lia.
  rewrite N.pow_add_r. reflexivity.
Qed.
Lemma modulus_pos : forall n, 0 < modulus n.
Proof. intro n. unfold modulus. apply N.neq_0_lt_0. apply N.pow_nonzero. discriminate. Qed.

Lemma le_length : forall n x, List.length (le n x) = n.
Proof. induction n as [|n IH]; intro x; simpl; [reflexivity | now rewrite IH]. Qed.

Lemma unle_le : forall n x, x < modulus n -> unle (le n x) = x.
Proof.
  induction n as [|n IH]; intros x Hx.
  - unfold modulus in Hx. simpl in Hx. simpl. lia.
  - rewrite modulus_S in Hx. cbn [le unle].
    rewrite IH.
    + pose proof (N.div_mod x 256 ltac:(discriminate)). lia.
    + apply N.div_lt_upper_bound; [discriminate | lia].
Qed.

Lemma take_app : forall (a r : list N), take (List.length a) (a ++ r) = Some (a, r).
Proof. induction a as [|x a IH]; intro r; simpl; [reflexivity | now rewrite IH]. Qed.

Lemma dec_le_le : forall n x r, x < modulus n -> dec_le n (le n x ++ r) = Some (x, r).
Proof.
  intros n x r Hx. unfold dec_le.
  rewrite <- (le_length n x) at 1. rewrite take_app. now rewrite unle_le.
Qed.

(* ------------------------------------------------------------------ integers *)
Lemma to_unsigned_lt : forall k z, to_unsigned k z < modulus (width k).
Proof.
  intros k z. unfold to_unsigned.
  pose proof (modulus_pos (width k)) as Hp.
  assert (Hm : (0 < Z.of_N (modulus (width k)))%Z) by lia.
  pose proof (Z.mod_pos_bound z _ Hm). lia.
Qed.

Lemma signed_roundtrip : forall k z, in_range k z = true -> of_unsigned k (to_unsigned k z) = z.
Proof.
  intros k z H. unfold in_range in H. unfold of_unsigned, to_unsigned.
  pose proof (modulus_pos (width k)) as Hp.
  set (m := modulus (width k)) in *.
  assert (Hm : (0 < Z.of_N m)%Z) by lia.
  assert (Heven : (Z.of_N m = 2 * (Z.of_N m / 2))%Z).
  { unfold m, modulus. destruct k; reflexivity. }
  assert (Hhalf : Z.of_N (m / 2) = (Z.of_N m / 2)%Z) by (rewrite N2Z.inj_div; reflexivity).
  destruct (is_signed k) eqn:Hs; simpl.
  - apply andb_prop in H as [H1 H2]. apply Z.leb_le in H1. apply Z.ltb_lt in H2.
    destruct (Z_lt_le_dec z 0) as [Hneg | Hpos].
    + assert (Hmod : (z mod Z.of_N m = z + Z.of_N m)%Z).
      { symmetry. apply Z.mod_unique with (q := (-1)%Z); lia. }
      rewrite Hmod. rewrite Z2N.id by lia.
      replace (m / 2 <=? Z.to_N (z + Z.of_N m)) with true; [lia |].
      symmetry. apply N.leb_le. lia.
    + rewrite Z.mod_small by lia. rewrite Z2N.id by lia.
      replace (m / 2 <=? Z.to_N z) with false; [reflexivity |].
      symmetry. apply N.leb_gt. lia.
  - apply andb_prop in H as [H1 H2]. apply Z.leb_le in H1. apply Z.ltb_lt in H2.
    rewrite Z.mod_small by lia. now rewrite Z2N.id.
Qed.

Lemma ikind_eqb_eq : forall a b, ikind_eqb a b = true -> a = b.
Proof. destruct a, b; simpl; intro H; try reflexivity; discriminate. Qed.
Lemma skind_eqb_eq : forall a b, skind_eqb a b = true -> a = b.
Proof. destruct a, b; simpl; intro H; try reflexivity; discriminate. Qed.

(* ------------------------------------------------------------------ strings *)
Lemma str_bytes_length : forall s, List.length (str_bytes s) = String.length s.
Proof.
  intro s. unfold str_bytes. rewrite map_length.
  induction s as [|c s IH]; simpl; [reflexivity | now rewrite IH].
Qed.
Lemma bytes_str_bytes : forall s, bytes_str (str_bytes s) = s.
Proof.
  intro s. unfold bytes_str, str_bytes. rewrite map_map.
  rewrite (map_ext _ (fun a => a)) by (intro a; apply ascii_N_embedding).
  rewrite map_id. apply string_of_list_ascii_of_string.
Qed.

(* ------------------------------------------------------------------ sequences of items *)
Lemma rep_ok : forall {A} (enc : A -> list N) (f : list N -> option (A * list N)) (l : list A) rest,
  Forall (fun a => forall r, f (enc a ++ r) = Some (a, r)) l ->
  rep f (List.length l) (flat_map enc l ++ rest) = Some (l, rest).
Proof.
  intros A enc f l rest H. induction H as [|a l Ha Hl IH]; simpl; [reflexivity |].
  rewrite <- app_assoc. rewrite Ha. now rewrite IH.
Qed.

Lemma dec_seq_ok : forall {A B} (enc : B -> list N) (ok : B -> A -> bool) (dec : A -> list N -> option (B * list N))
                          (l : list B) (ss : list A) rest,
  Forall (fun b => forall s r, ok b s = true -> dec s (enc b ++ r) = Some (b, r)) l ->
  forall2b ok l ss = true ->
  dec_seq dec ss (flat_map enc l ++ rest) = Some (l, rest).
Proof.
  intros A B enc ok dec l ss rest H. revert ss.
  induction H as [|b l Hb Hl IH]; intros [|s ss] Hok; simpl in *; try discriminate; [reflexivity |].
  apply andb_prop in Hok as [H1 H2].
  rewrite <- app_assoc. rewrite (Hb s _ H1). now rewrite (IH ss H2).
Qed.

Lemma pick_nth : forall {A B} (f : A -> option B) (vs : list A) i,
  pick_N f vs i = match nth_N vs i with Some x => f x | None => None end.
Proof.
  intros A B f vs. induction vs as [|x vs IH]; intro i; simpl; [reflexivity |].
  destruct (i =? 0); [reflexivity | apply IH].
Qed.

Lemma len_ok_lt : forall {A} (l : list A), len_ok l = true -> N.of_nat (List.length l) < modulus 8.
Proof. intros A l H. unfold len_ok in H. now apply N.ltb_lt in H. Qed.

(* ------------------------------------------------------------------ the wire format is lossless *)
Definition roundtrips (v : value) : Prop :=
  forall s rest, has_shape v s = true -> decode s (encode v ++ rest) = Some (v, rest).

Lemma fields_roundtrip : forall (fs : list (string * value)) (ss : list (string * shape)) rest,
  Forall (fun f => roundtrips (snd f)) fs ->
  forall2b (field_shape has_shape) fs ss = true ->
  dec_seq (dec_field decode) ss (flat_map (fun f => encode (snd f)) fs ++ rest) = Some (fs, rest).
Proof.
  intros fs ss rest H Hok.
  apply (dec_seq_ok (fun f : string * value => encode (snd f)) (field_shape has_shape)); [| exact Hok].
  eapply Forall_impl; [| exact H].
  intros [n v] Hv [n' s] r Hfs. unfold field_shape in Hfs. simpl in *.
  apply andb_prop in Hfs as [Hn Hs]. apply String.eqb_eq in Hn. subst n'.
  unfold dec_field. simpl. now rewrite (Hv s r Hs).
Qed.

Lemma decode_encode_all : forall v, roundtrips v.
Proof.
  induction v as [b|k z|b|b|st| | |v IHv|l H|l H|l H|k n fs H|n i vn k fs H] using value_ind';
    intros sh rest Hs; destruct sh as [|k'| | | | |os|os|okv|ss|k' n' ss|n' vs]; simpl in Hs; try discriminate.
  - (* bool *) destruct b; reflexivity.
  - (* int *)
    apply andb_prop in Hs as [Hk Hr]. apply ikind_eqb_eq in Hk. subst k'.
    cbn [encode decode]. rewrite dec_le_le by apply to_unsigned_lt. now rewrite signed_roundtrip.
  - (* f32 *) apply N.ltb_lt in Hs. cbn [encode decode]. now rewrite dec_le_le.
  - (* f64 *) apply N.ltb_lt in Hs. cbn [encode decode]. now rewrite dec_le_le.
  - (* str *)
    apply N.ltb_lt in Hs. cbn [encode decode]. rewrite <- app_assoc. rewrite dec_le_le by exact Hs.
    rewrite Nat2N.id. rewrite <- (str_bytes_length st). rewrite take_app. now rewrite bytes_str_bytes.
  - (* unit *) reflexivity.
  - (* none *) reflexivity.
  - (* some *)
    destruct os as [s'|]; [| discriminate]. cbn [encode decode app]. simpl. now rewrite (IHv s' rest Hs).
  - (* seq *)
    apply andb_prop in Hs as [Hlen Hall]. apply len_ok_lt in Hlen.
    cbn [encode decode]. rewrite <- app_assoc. rewrite dec_le_le by exact Hlen. rewrite Nat2N.id.
    destruct os as [s'|].
    + rewrite (rep_ok encode); [reflexivity |].
      rewrite forallb_forall in Hall. rewrite Forall_forall in H |- *.
      intros a Ha r. apply (H a Ha). now apply Hall.
    + destruct l; [reflexivity | discriminate].
  - (* map *)
    apply andb_prop in Hs as [Hlen Hall]. apply len_ok_lt in Hlen.
    cbn [encode decode]. rewrite <- app_assoc. rewrite dec_le_le by exact Hlen. rewrite Nat2N.id.
    destruct okv as [[ks vs]|].
    + rewrite (rep_ok (fun kv : value * value => encode (fst kv) ++ encode (snd kv))); [reflexivity |].
      rewrite forallb_forall in Hall. rewrite Forall_forall in H |- *.
      intros [k v] Ha r. destruct (H _ Ha) as [Hk Hv]. specialize (Hall _ Ha). simpl in *.
      apply andb_prop in Hall as [Hks Hvs].
      rewrite <- app_assoc. rewrite (Hk ks _ Hks). now rewrite (Hv vs r Hvs).
    + destruct l; [reflexivity | discriminate].
  - (* tuple *)
    cbn [encode decode].
    rewrite (dec_seq_ok encode has_shape decode l ss rest); [reflexivity | | exact Hs].
    eapply Forall_impl; [| exact H]. intros a Ha s r Hsa. now apply Ha.
  - (* struct *)
    apply andb_prop in Hs as [Hkn Hfs]. apply andb_prop in Hkn as [Hk Hn].
    apply skind_eqb_eq in Hk. apply String.eqb_eq in Hn. subst k' n'.
    cbn [encode decode]. now rewrite (fields_roundtrip fs ss rest H Hfs).
  - (* enum *)
    apply andb_prop in Hs as [Hni Hv]. apply andb_prop in Hni as [Hn Hi].
    apply String.eqb_eq in Hn. apply N.ltb_lt in Hi. subst n'.
    cbn [encode decode]. rewrite <- app_assoc. rewrite dec_le_le by exact Hi.
    rewrite pick_nth. destruct (nth_N vs i) as [[[[vn' k'] ss]|]|]; try discriminate.
    apply andb_prop in Hv as [Hvk Hfs]. apply andb_prop in Hvk as [Hvn Hk].
    apply String.eqb_eq in Hvn. apply skind_eqb_eq in Hk. subst vn' k'.
    now rewrite (fields_roundtrip fs ss rest H Hfs).
Qed.

Lemma decode_encode_nil : forall v s, has_shape v s = true -> decode s (encode v) = Some (v, []).
Proof. intros v s H. rewrite <- (app_nil_r (encode v)). now apply decode_encode_all. Qed.

(** two values of one shape with the same bytes (even followed by different tails) are equal *)
Lemma encode_prefix_free : forall s v1 v2 r1 r2,
  has_shape v1 s = true -> has_shape v2 s = true ->
  encode v1 ++ r1 = encode v2 ++ r2 -> v1 = v2 /\ r1 = r2.
Proof.
  intros s v1 v2 r1 r2 H1 H2 E.
  pose proof (decode_encode_all v1 s r1 H1) as D1.
  pose proof (decode_encode_all v2 s r2 H2) as D2.
  rewrite E in D1. rewrite D1 in D2. now inversion D2.
Qed.

Lemma encode_inj : forall s v1 v2, has_shape v1 s = true -> has_shape v2 s = true -> encode v1 = encode v2 -> v1 = v2.
Proof.
  intros s v1 v2 H1 H2 E.
  apply (encode_prefix_free s v1 v2 [] [] H1 H2). now rewrite E.
Qed.

(* ------------------------------------------------------------------ equality test of the oracle *)
Lemma forall2b_eq : forall {A} (eqb : A -> A -> bool) (x : list A),
  Forall (fun a => forall b, eqb a b = true -> a = b) x -> forall y, forall2b eqb x y = true -> x = y.
Proof.
  intros A eqb x H. induction H as [|a x Ha Hx IH]; intros [|b y] E; simpl in E; try discriminate; [reflexivity |].
  apply andb_prop in E as [E1 E2]. now rewrite (Ha b E1), (IH y E2).
Qed.

Lemma value_eqb_eq : forall a b, value_eqb a b = true -> a = b.
Proof.
  induction a as [x|k x|x|x|x| | |v IHv|l H|l H|l H|k n fs H|n i vn k fs H] using value_ind';
    intros [y|k' y|y|y|y| | |w|m|m|m|k' n' gs|n' i' vn' k' gs] E; simpl in E; try discriminate.
  - now rewrite (Bool.eqb_prop _ _ E).
  - apply andb_prop in E as [E1 E2]. apply ikind_eqb_eq in E1. apply Z.eqb_eq in E2. now subst.
  - apply N.eqb_eq in E. now subst.
  - apply N.eqb_eq in E. now subst.
  - apply String.eqb_eq in E. now subst.
  - reflexivity.
  - reflexivity.
  - now rewrite (IHv w E).
  - now rewrite (forall2b_eq value_eqb l H m E).
  - f_equal. apply (forall2b_eq (fun u w => value_eqb (fst u) (fst w) && value_eqb (snd u) (snd w)) l); [| exact E].
    eapply Forall_impl; [| exact H]. intros [k v] [Hk Hv] [k2 v2] E2. simpl in *.
    apply andb_prop in E2 as [E3 E4]. now rewrite (Hk _ E3), (Hv _ E4).
  - now rewrite (forall2b_eq value_eqb l H m E).
  - apply andb_prop in E as [E1 E3]. apply andb_prop in E1 as [E1 E2].
    apply skind_eqb_eq in E1. apply String.eqb_eq in E2. subst. f_equal.
    apply (forall2b_eq (field_eqb value_eqb) fs); [| exact E3].
    eapply Forall_impl; [| exact H]. intros [f v] Hv [f2 v2] E2. unfold field_eqb in E2. simpl in *.
    apply andb_prop in E2 as [E4 E5]. apply String.eqb_eq in E4. now rewrite E4, (Hv _ E5).
  - apply andb_prop in E as [E1 E5]. apply andb_prop in E1 as [E1 E4]. apply andb_prop in E1 as [E1 E3].
    apply andb_prop in E1 as [E1 E2].
    apply String.eqb_eq in E1. apply N.eqb_eq in E2. apply String.eqb_eq in E3. apply skind_eqb_eq in E4. subst. f_equal.
    apply (forall2b_eq (field_eqb value_eqb) fs); [| exact E5].
    eapply Forall_impl; [| exact H]. intros [f v] Hv [f2 v2] E2. unfold field_eqb in E2. simpl in *.
    apply andb_prop in E2 as [E6 E7]. apply String.eqb_eq in E6. now rewrite E6, (Hv _ E7).
Qed.

(* ------------------------------------------------------------------ what the derived impls do: structs *)
Lemma de_ser_fields : forall fds dflt vals,
  List.length vals = List.length fds -> List.length dflt = List.length fds ->
  Forall (fun f => skips_ser (fd_attrs f) = skips_de (fd_attrs f)) fds ->
  de_fields fds dflt (ser_fields fds vals) = Some (merge_defaults fds dflt vals).
Proof.
  induction fds as [|f fds IH]; intros [|d dflt] [|v vals] Lv Ld Hs; simpl in *; try discriminate; [reflexivity |].
  inversion Hs as [|? ? Hf Hr]; subst.
  injection Lv as Lv. injection Ld as Ld.
  rewrite Hf. destruct (skips_de (fd_attrs f)).
  - now rewrite (IH dflt vals Lv Ld Hr).
  - rewrite String.eqb_refl. now rewrite (IH dflt vals Lv Ld Hr).
Qed.

Lemma has_attr_lossless : forall n l, harmless_attr n = false -> forallb attr_lossless l = true -> has_attr n l = false.
Proof.
  intros n l Hn Hl. unfold has_attr. apply Bool.not_true_is_false. intro E.
  apply existsb_exists in E as [a [Ha Ea]]. apply String.eqb_eq in Ea.
  rewrite forallb_forall in Hl. specialize (Hl a Ha). unfold attr_lossless in Hl. rewrite Ea in Hl. congruence.
Qed.

Lemma lossless_no_skip : forall l, forallb attr_lossless l = true -> skips_ser l = false /\ skips_de l = false.
Proof.
  intros l H. unfold skips_ser, skips_de.
  rewrite (has_attr_lossless "skip" l eq_refl H), (has_attr_lossless "skip_serializing" l eq_refl H),
          (has_attr_lossless "skip_deserializing" l eq_refl H). split; reflexivity.
Qed.

Lemma merge_no_skip : forall fds dflt vals,
  List.length vals = List.length fds -> List.length dflt = List.length fds ->
  forallb field_lossless fds = true -> merge_defaults fds dflt vals = vals.
Proof.
  induction fds as [|f fds IH]; intros [|d dflt] [|v vals] Lv Ld H; simpl in *; try discriminate; [reflexivity |].
  apply andb_prop in H as [Hf Hr]. injection Lv as Lv. injection Ld as Ld.
  destruct (lossless_no_skip _ Hf) as [_ Hd]. rewrite Hd. now rewrite (IH dflt vals Lv Ld Hr).
Qed.

Lemma lossless_fields_roundtrip : forall fds dflt vals,
  List.length vals = List.length fds -> List.length dflt = List.length fds ->
  forallb field_lossless fds = true ->
  de_fields fds dflt (ser_fields fds vals) = Some vals.
Proof.
  intros fds dflt vals Lv Ld H.
  rewrite de_ser_fields; try assumption.
  - now rewrite merge_no_skip.
  - rewrite forallb_forall in H. apply Forall_forall. intros f Hf.
    destruct (lossless_no_skip _ (H f Hf)) as [A B]. now rewrite A, B.
Qed.

(** skipped fields come back as their defaults: the value survives iff they held their defaults *)
Fixpoint skipped_hold_defaults (fds : list field_decl) (dflt vals : list value) : Prop :=
  match fds, dflt, vals with
  | f :: fds', d :: dflt', v :: vals' =>
      (skips_de (fd_attrs f) = true -> v = d) /\ skipped_hold_defaults fds' dflt' vals'
  | _, _, _ => True
  end.

Lemma merge_eq_iff : forall fds dflt vals,
  List.length vals = List.length fds -> List.length dflt = List.length fds ->
  (merge_defaults fds dflt vals = vals <-> skipped_hold_defaults fds dflt vals).
Proof.
  induction fds as [|f fds IH]; intros [|d dflt] [|v vals] Lv Ld; simpl in *; try discriminate; [tauto |].
  injection Lv as Lv. injection Ld as Ld. specialize (IH dflt vals Lv Ld).
  split.
  - intro E. injection E as E1 E2. split; [| now apply IH].
    intro Hs. rewrite Hs in E1. now symmetry.
  - intros [H1 H2]. f_equal; [| now apply IH].
    destruct (skips_de (fd_attrs f)); [symmetry; now apply H1 | reflexivity].
Qed.

Lemma skip_roundtrip_iff : forall fds dflt vals,
  List.length vals = List.length fds -> List.length dflt = List.length fds ->
  Forall (fun f => skips_ser (fd_attrs f) = skips_de (fd_attrs f)) fds ->
  (de_fields fds dflt (ser_fields fds vals) = Some vals <-> skipped_hold_defaults fds dflt vals).
Proof.
  intros fds dflt vals Lv Ld Hs. rewrite (de_ser_fields fds dflt vals Lv Ld Hs).
  rewrite <- (merge_eq_iff fds dflt vals Lv Ld). split; [intro E; now injection E | intro E; now rewrite E].
Qed.

(* ------------------------------------------------------------------ what the derived impls do: enum variants *)
Lemma de_variant_from_ge : forall vs i pos q, de_variant_from vs i pos = Some q -> (pos + i <= q)%nat.
Proof.
  induction vs as [|v vs IH]; intros i pos q E; simpl in E; [discriminate |].
  destruct (skips_de (vd_attrs v)).
  - apply IH in E. lia.
  - destruct i as [|i]; [injection E as E; lia | apply IH in E; lia].
Qed.

Lemma de_variant_stable : forall vs p pos v,
  nth_error vs p = Some v -> skips_de (vd_attrs v) = false ->
  (forall j w, (j < p)%nat -> nth_error vs j = Some w -> skips_de (vd_attrs w) = false) ->
  de_variant_from vs p pos = Some (pos + p)%nat.
Proof.
  induction vs as [|x vs IH]; intros p pos v Hn Hv Hb; [destruct p; discriminate |].
  destruct p as [|p]; simpl in *.
  - injection Hn as Hn. subst x. rewrite Hv. f_equal. lia.
  - rewrite (Hb 0%nat x ltac:(lia) eq_refl).
    rewrite (IH p (S pos) v Hn Hv); [f_equal; lia |].
    intros j w Hj Hw. apply (Hb (S j) w); [lia | exact Hw].
Qed.

Lemma de_variant_shifted : forall vs p pos,
  (exists j w, (j < p)%nat /\ nth_error vs j = Some w /\ skips_de (vd_attrs w) = true) ->
  de_variant_from vs p pos <> Some (pos + p)%nat.
Proof.
  induction vs as [|x vs IH]; intros p pos [j [w [Hj [Hw Hs]]]]; [destruct j; discriminate |].
  simpl. destruct (skips_de (vd_attrs x)) eqn:Hx.
  - intro E. apply de_variant_from_ge in E. lia.
  - destruct p as [|p]; [lia |].
    destruct j as [|j]; simpl in Hw.
    + injection Hw as Hw. subst w. congruence.
    + intro E. apply (IH p (S pos)); [exists j, w; repeat split; [lia | exact Hw | exact Hs] |].
      rewrite E. f_equal. lia.
Qed.

Lemma variant_roundtrip_iff : forall vs p v,
  nth_error vs p = Some v -> skips_ser (vd_attrs v) = false -> skips_de (vd_attrs v) = false ->
  ((exists i, ser_variant vs p = Some i /\ de_variant vs i = Some p) <->
   (forall j w, (j < p)%nat -> nth_error vs j = Some w -> skips_de (vd_attrs w) = false)).
Proof.
  intros vs p v Hn Hs Hd. unfold ser_variant, de_variant. rewrite Hn, Hs.
  split.
  - intros [i [Hi E]]. injection Hi as Hi. subst i. rewrite Nat2N.id in E.
    intros j w Hj Hw. destruct (skips_de (vd_attrs w)) eqn:Hsw; [| reflexivity].
    exfalso. apply (de_variant_shifted vs p 0); [exists j, w; auto | exact E].
  - intro Hb. exists (N.of_nat p). split; [reflexivity |]. rewrite Nat2N.id.
    now rewrite (de_variant_stable vs p 0 v Hn Hd Hb).
Qed.

(** with [index_stable] every live variant keeps its index *)
Lemma index_stable_prefix : forall vs p v,
  index_stable vs = true -> nth_error vs p = Some v -> skips_ser (vd_attrs v) = false ->
  forall j w, (j < p)%nat -> nth_error vs j = Some w -> skips_de (vd_attrs w) = false.
Proof.
  induction vs as [|x vs IH]; intros p v Hst Hn Hv j w Hj Hw; [destruct p; discriminate |].
  simpl in Hst. destruct p as [|p]; [lia |]. simpl in Hn.
  destruct (skips_ser (vd_attrs x) || skips_de (vd_attrs x)) eqn:Hx.
  - (* every later variant is skipped, contradiction with the live variant at p *)
    rewrite forallb_forall in Hst. apply nth_error_In in Hn. specialize (Hst v Hn).
    apply andb_prop in Hst as [A _]. congruence.
  - apply orb_false_elim in Hx as [_ Hx2].
    destruct j as [|j]; simpl in Hw; [injection Hw as Hw; now subst w |].
    apply (IH p v Hst Hn Hv j w); [lia | exact Hw].
Qed.

Lemma stable_enum_roundtrip : forall vs p v,
  index_stable vs = true -> nth_error vs p = Some v ->
  skips_ser (vd_attrs v) = false -> skips_de (vd_attrs v) = false ->
  exists i, ser_variant vs p = Some i /\ de_variant vs i = Some p.
Proof.
  intros vs p v Hst Hn Hs Hd. apply (variant_roundtrip_iff vs p v Hn Hs Hd).
  now apply (index_stable_prefix vs p v).
Qed.

(* ------------------------------------------------------------------ wire + derive, end to end *)
Lemma lossless_struct_wire_roundtrip : forall name k fds vals dflt ss rest,
  forallb field_lossless fds = true ->
  List.length vals = List.length fds -> List.length dflt = List.length fds ->
  has_shape (ser_struct name k fds vals) (SStruct k name ss) = true ->
  decode (SStruct k name ss) (encode (ser_struct name k fds vals) ++ rest)
    = Some (VStruct k name (ser_fields fds vals), rest)
  /\ de_fields fds dflt (ser_fields fds vals) = Some vals.
Proof.
  intros name k fds vals dflt ss rest Hl Lv Ld Hs. split.
  - exact (decode_encode_all _ _ rest Hs).
  - now apply lossless_fields_roundtrip.
Qed.

Lemma lossless_variants_roundtrip : forall vs p v,
  forallb variant_lossless vs = true -> nth_error vs p = Some v ->
  exists i, ser_variant vs p = Some i /\ de_variant vs i = Some p.
Proof.
  intros vs p v Hl Hn.
  assert (Hall : forall w, In w vs -> skips_ser (vd_attrs w) = false /\ skips_de (vd_attrs w) = false).
  { intros w Hw. rewrite forallb_forall in Hl. specialize (Hl w Hw). unfold variant_lossless in Hl.
    apply andb_prop in Hl as [Ha _]. now apply lossless_no_skip. }
  destruct (Hall v (nth_error_In _ _ Hn)) as [Hs Hd].
  apply (variant_roundtrip_iff vs p v Hn Hs Hd).
  intros j w _ Hw. exact (proj2 (Hall w (nth_error_In _ _ Hw))).
Qed.

(* ------------------------------------------------------------------ the translated declarations *)
Lemma all_declared_lossless_c : forallb lossless_decl (minus_known declared) = true.
Proof. vm_compute. reflexivity. Qed.

Lemma known_exceptions_exact_c : forallb decl_lossless_or_known declared = true.
Proof. vm_compute. reflexivity. Qed.

Lemma declared_enums_stable_outside_known_c :
  forallb (fun d => enum_stable d || known_type (td_name d)) declared = true.
Proof. vm_compute. reflexivity. Qed.

Fixpoint nodupb (l : list string) : bool :=
  match l with [] => true | x :: r => negb (existsb (String.eqb x) r) && nodupb r end.
Lemma declared_names_unique_c : nodupb (map td_name declared) = true.
Proof. vm_compute. reflexivity. Qed.

Lemma declared_lossless_in : forall d, In d (minus_known declared) -> lossless_decl d = true.
Proof. intros d Hd. pose proof all_declared_lossless_c as H. rewrite forallb_forall in H. now apply H. Qed.

Lemma declared_struct_roundtrip : forall d k fds vals dflt ss rest,
  In d (minus_known declared) -> td_body d = BStruct k fds ->
  List.length vals = List.length fds -> List.length dflt = List.length fds ->
  has_shape (ser_struct (td_name d) k fds vals) (SStruct k (td_name d) ss) = true ->
  decode (SStruct k (td_name d) ss) (encode (ser_struct (td_name d) k fds vals) ++ rest)
    = Some (VStruct k (td_name d) (ser_fields fds vals), rest)
  /\ de_fields fds dflt (ser_fields fds vals) = Some vals.
Proof.
  intros d k fds vals dflt ss rest Hd Hb Lv Ld Hs.
  apply lossless_struct_wire_roundtrip; try assumption.
  pose proof (declared_lossless_in d Hd) as Hl. unfold lossless_decl in Hl. rewrite Hb in Hl.
  now apply andb_prop in Hl as [_ Hl].
Qed.

Lemma declared_enum_roundtrip : forall d vs p v,
  In d (minus_known declared) -> td_body d = BEnum vs -> nth_error vs p = Some v ->
  exists i, ser_variant vs p = Some i /\ de_variant vs i = Some p.
Proof.
  intros d vs p v Hd Hb Hn. apply (lossless_variants_roundtrip vs p v); [| exact Hn].
  pose proof (declared_lossless_in d Hd) as Hl. unfold lossless_decl in Hl. rewrite Hb in Hl.
  now apply andb_prop in Hl as [_ Hl].
Qed.

(* ------------------------------------------------------------------ witnesses / non-vacuity *)
Local Open Scope string_scope.
(** a fitted-model-like value: struct with a sequence, an option, a nested enum, a map and a tuple *)
Definition ex_value : value :=
  VStruct KNamed "Model"
    [("centroids", VSeq [VF64 4607182418800017408; VF64 13830554455654793216; VF64 9223372036854775808]);
     ("count", VInt U64 17%Z);
     ("offset", VInt I32 (-5)%Z);
     ("best", VSome (VEnum "Init" 1 "Precomputed" KNewtype [("0", VTuple [VInt U8 3%Z; VBool true])]));
     ("absent", VNone);
     ("names", VMap [(VStr "a""b", VF32 1065353216); (VStr "", VF32 0)]);
     ("tag", VEnum "Kind" 2 "Max" KUnit []);
     ("unit", VStruct KUnit "L2Dist" [])].
Definition ex_shape : shape :=
  SStruct KNamed "Model"
    [("centroids", SSeq (Some SF64)); ("count", SInt U64); ("offset", SInt I32);
     ("best", SOpt (Some (SEnum "Init" [Some ("Random", KUnit, []); Some ("Precomputed", KNewtype, [("0", STuple [SInt U8; SBool])])])));
     ("absent", SOpt (Some SStr));
     ("names", SMap (Some (SStr, SF32)));
     ("tag", SEnum "Kind" [None; None; Some ("Max", KUnit, [])]);
     ("unit", SStruct KUnit "L2Dist" [])].
Example ex_value_typed : has_shape ex_value ex_shape = true.
Proof. vm_compute. reflexivity. Qed.
Example ex_value_roundtrips : decode ex_shape (encode ex_value ++ [7; 7]%N) = Some (ex_value, [7; 7]%N).
Proof. vm_compute. reflexivity. Qed.
Example ex_value_bytes : List.length (encode ex_value) = 91%nat.
Proof. vm_compute. reflexivity. Qed.
(** without the shape the bytes are ambiguous: injectivity needs the common shape *)
Example ex_untyped_collision : encode (VInt U32 1%Z) = encode (VF32 1) /\ VInt U32 1%Z <> VF32 1.
Proof. split; [vm_compute; reflexivity | discriminate]. Qed.

Definition ex_fields : list field_decl :=
  [mkF "a" "a" "bool" []; mkF "f" "f" "Option<fn()>" [("skip", "")]; mkF "g" "g" "bool" [("bound", "x")]].
Example ex_skip_default_survives :
  de_fields ex_fields [VBool false; VNone; VBool false] (ser_fields ex_fields [VBool true; VNone; VBool true])
  = Some [VBool true; VNone; VBool true].
Proof. vm_compute. reflexivity. Qed.
Example ex_skip_nondefault_lost :
  de_fields ex_fields [VBool false; VNone; VBool false] (ser_fields ex_fields [VBool true; VSome VUnit; VBool true])
  = Some [VBool true; VNone; VBool true].
Proof. vm_compute. reflexivity. Qed.
Example ex_skip_hyps : Forall (fun f => skips_ser (fd_attrs f) = skips_de (fd_attrs f)) ex_fields.
Proof. repeat constructor. Qed.

(** the shape of `linfa::Error` as found in the repository when this development was written:
    a skipped variant in the middle *)
Definition ex_error_variants : list variant_decl :=
  [mkV ("Param" ++ "eters") ("Param" ++ "eters") KNewtype [] [mkF "0" "0" "String" []];
   mkV "Priors" "Priors" KNewtype [] [mkF "0" "0" "String" []];
   mkV "NotConverged" "NotConverged" KNewtype [] [mkF "0" "0" "String" []];
   mkV "NdShape" "NdShape" KNewtype [("skip", "")] [mkF "0" "0" "ShapeError" []];
   mkV "NotEnoughSamples" "NotEnoughSamples" KUnit [] [];
   mkV "MismatchedShapes" "MismatchedShapes" KTuple [] [mkF "0" "0" "usize" []; mkF "1" "1" "usize" []]].
Example ex_middle_skip_shifts :
  ser_variant ex_error_variants 4 = Some 4%N /\ de_variant ex_error_variants 4 = Some 5%nat
  /\ ser_variant ex_error_variants 5 = Some 5%N /\ de_variant ex_error_variants 5 = None
  /\ ser_variant ex_error_variants 3 = None /\ de_variant ex_error_variants 2 = Some 2%nat.
Proof. vm_compute. repeat split; reflexivity. Qed.
Example ex_last_skip_is_stable :
  index_stable (firstn 3 ex_error_variants ++ skipn 4 ex_error_variants ++ [nth 3 ex_error_variants (mkV "" "" KUnit [] [])]) = true
  /\ index_stable ex_error_variants = false.
Proof. vm_compute. split; reflexivity. Qed.

Example declared_nonempty : (50 <= List.length (minus_known declared))%nat /\ (List.length declared <= 200)%nat.
Proof. vm_compute. split; repeat constructor. Qed.
