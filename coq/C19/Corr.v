(** C19 - correspondence (wire model and declaration model vs. bincode / serde_derive as run by the
    harness) and the property oracle evaluated on the implementation's outputs. *)
From Coq Require Import List String Ascii NArith ZArith Bool.
From LinfaVerif Require Export Common.Run C19.Model gen.C19_types.
Import ListNotations.
Local Open Scope N_scope.

Inductive case :=
| Round (id : N) (ty : string)
        (tree : value)                 (* what the value's Serialize impl handed to the serializer *)
        (sh : shape)                   (* type-level shape inferred by the harness (checked by has_shape) *)
        (bytes : string)               (* hex of bincode::serialize(&value) *)
        (restored : option value)      (* tree of bincode::deserialize(bytes), recorded again; None = refused *)
        (unordered : list string)      (* struct fields that hold hash sets: compared as sorted sequences *)
| Refused (id : N) (ty variant : string)   (* bincode::serialize returned an error for this variant *)
| Nominal (id : N) (ty : string)           (* a deriving type the harness cannot instantiate at all *)
| Sweep (id : N) (seen : list string).     (* names of all struct / enum types recorded during the run *)

(* ---- hex ---- *)
Definition hexval (c : ascii) : N :=
  let n := N_of_ascii c in
  if (48 <=? n) && (n <=? 57) then n - 48
  else if (97 <=? n) && (n <=? 102) then n - 87
  else if (65 <=? n) && (n <=? 70) then n - 55 else 0.
Fixpoint hex_bytes (s : string) : list N :=
  match s with
  | String a (String b r) => (16 * hexval a + hexval b) :: hex_bytes r
  | _ => []
  end.

(* ---- canonical form: hash maps and hash sets have no order ---- *)
Fixpoint lex_ltb (a b : list N) : bool :=
  match a, b with
  | [], [] => false
  | [], _ :: _ => true
  | _ :: _, [] => false
  | x :: a', y :: b' => if x <? y then true else if y <? x then false else lex_ltb a' b'
  end.
Fixpoint insert_by {A} (key : A -> list N) (x : A) (l : list A) : list A :=
  match l with
  | [] => [x]
  | y :: r => if lex_ltb (key y) (key x) then y :: insert_by key x r else x :: l
  end.
Definition sort_by {A} (key : A -> list N) (l : list A) : list A := fold_right (insert_by key) [] l.
Definition mem (s : string) (l : list string) : bool := existsb (String.eqb s) l.
Definition sort_seq (v : value) : value :=
  match v with
  | VSeq l => VSeq (sort_by encode l)
  | VSome (VSeq l) => VSome (VSeq (sort_by encode l))
  | _ => v
  end.
Fixpoint canon (un : list string) (v : value) : value :=
  match v with
  | VSome v' => VSome (canon un v')
  | VSeq l => VSeq (map (canon un) l)
  | VMap l => VMap (sort_by (fun kv => encode (fst kv)) (map (fun kv => (canon un (fst kv), canon un (snd kv))) l))
  | VTuple l => VTuple (map (canon un) l)
  | VStruct k n fs =>
      VStruct k n (map (fun f => (fst f, if mem (fst f) un then sort_seq (canon un (snd f)) else canon un (snd f))) fs)
  | VEnum n i vn k fs => VEnum n i vn k (map (fun f => (fst f, canon un (snd f))) fs)
  | _ => v
  end.

(* ---- walking a tree ---- *)
(** conjunction of [p] over every node of the tree *)
Fixpoint all_nodes (p : value -> bool) (v : value) : bool :=
  p v &&
  match v with
  | VSome v' => all_nodes p v'
  | VSeq l => forallb (all_nodes p) l
  | VMap l => forallb (fun kv => all_nodes p (fst kv) && all_nodes p (snd kv)) l
  | VTuple l => forallb (all_nodes p) l
  | VStruct _ _ fs => forallb (fun f => all_nodes p (snd f)) fs
  | VEnum _ _ _ _ fs => forallb (fun f => all_nodes p (snd f)) fs
  | _ => true
  end.
Definition strs_eqb (a b : list string) : bool := list_eqb String.eqb a b.

(** the layout of a recorded struct / variant is the one the declaration model predicts *)
Definition node_layout_ok (v : value) : bool :=
  match v with
  | VStruct k n fs =>
      match find_decl declared n with
      | Some d => match td_body d with
                  | BStruct k' fds => skind_eqb k k' && strs_eqb (map fst fs) (wire_field_names fds)
                  | BEnum _ => false
                  end
      | None => true       (* a type of another crate (ndarray, sprs, rand, ...) *)
      end
  | _ => true
  end.
Definition variant_layout_ok (v : value) : bool :=
  match v with
  | VEnum n i vn k fs =>
      match find_decl declared n with
      | Some d => match td_body d with
                  | BEnum vs =>
                      match nth_N vs i with
                      | Some vd => String.eqb vn (vd_wire vd) && skind_eqb k (vd_kind vd) &&
                                   negb (skips_ser (vd_attrs vd)) &&
                                   strs_eqb (map fst fs) (wire_field_names (vd_fields vd))
                      | None => false
                      end
                  | BStruct _ _ => false
                  end
      | None => true
      end
  | _ => true
  end.

(** the declaration model's prediction: do the generated serialiser and deserialiser agree on the
    variant index of this node? *)
Definition variant_roundtrips (v : value) : bool :=
  match v with
  | VEnum n i _ _ _ =>
      match find_decl declared n with
      | Some d => match td_body d with
                  | BEnum vs => match de_variant vs i with Some p => N.of_nat p =? i | None => false end
                  | BStruct _ _ => true
                  end
      | None => true
      end
  | _ => true
  end.

(** no lossy attribute on the declaration of a recorded type, the documented exceptions apart
    ([decl_lossless_or_known] is in Model.v) *)
Definition node_decl_lossless (v : value) : bool :=
  match v with
  | VStruct _ n _ | VEnum n _ _ _ _ =>
      match find_decl declared n with Some d => decl_lossless_or_known d | None => true end
  | _ => true
  end.

(** types that derive serde but cannot be reached through the crates' public API (the parameter
    wrapper of the logistic solver lives in a private module and is never part of a model);
    everything else must be seen *)
Local Open Scope string_scope.
Definition exempt_private : list string := ["ArgminParam"].
Local Close Scope string_scope.
Definition uninhabitable (n : string) : bool :=
  existsb (fun t => String.eqb (fst (fst t)) n) unsatisfiable_bounds.

Definition corr_round (tree : value) (sh : shape) (bytes : list N) (restored : option value) (un : list string) : N :=
  let enc_ok := list_eqb N.eqb (encode tree) bytes in
  let dec_ok := has_shape tree sh &&
                (if enc_ok then match decode sh bytes with
                                | Some (t, []) => value_eqb t tree
                                | _ => false
                                end else true) in
  let predicted := all_nodes variant_roundtrips tree in
  let observed := match restored with Some t => value_eqb (canon un t) (canon un tree) | None => false end in
  (flag enc_ok 1 + flag dec_ok 2 + flag (all_nodes node_layout_ok tree) 4
   + flag (all_nodes variant_layout_ok tree) 8 + flag (Bool.eqb predicted observed) 16)%N.

Definition oracle_round (tree : value) (restored : option value) (un : list string) : N :=
  (match restored with
   | Some t => flag (value_eqb (canon un t) (canon un tree)) 1
   | None => 8
   end
   + flag (all_nodes node_decl_lossless tree) 4)%N.

Definition refused_by_decl (ty variant : string) : bool :=
  match find_decl declared ty with
  | Some d => match td_body d with
              | BEnum vs => existsb (fun v => String.eqb (vd_name v) variant && skips_ser (vd_attrs v)) vs
              | BStruct _ _ => false
              end
  | None => false
  end.

Definition run_case (c : case) : verdict :=
  match c with
  | Round id _ tree sh bytes restored un =>
      (id, (corr_round tree sh (hex_bytes bytes) restored un, oracle_round tree restored un))
  | Refused id ty variant =>
      (* the model predicts the refusal iff the variant is declared skipped; a refusal is a lost value *)
      (id, (flag (refused_by_decl ty variant) 32, 2))
  | Nominal id ty =>
      (id, (flag (uninhabitable ty) 64, if uninhabitable ty then 64 else 0))
  | Sweep id seen =>
      (id, (flag (forallb (fun d => mem (td_name d) seen || mem (td_name d) exempt_private
                                    || uninhabitable (td_name d)) declared) 128, 0))
  end%N.

Definition run_cases (cs : list case) : list N := report (map run_case cs).
