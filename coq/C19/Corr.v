(** C19 - correspondence (wire model and declaration model vs. bincode / serde_derive as run by the
    harness) and the property oracle evaluated on the implementation's outputs. *)
From Coq Require Import List String Ascii NArith ZArith Bool.
From LinfaVerif Require Export Common.Run C19.Model C19.Json gen.C19_types.
Import ListNotations.
Local Open Scope N_scope.

Inductive case :=
| Round (id : N) (ty : string)
        (tree : value)                 (* what the value's Serialize impl handed to the serializer *)
        (sh : shape)                   (* type-level shape inferred by the harness (checked by has_shape) *)
        (bytes : string)               (* hex of bincode::serialize(&value) *)
        (restored : option value)      (* tree of bincode::deserialize(bytes), recorded again; None = refused *)
        (unordered : list string)      (* struct fields that hold hash sets: compared as sorted sequences *)
| Refused (id : N) (ty variant : string)   (* bincode::serialize returned an error for this variant *)
| Nominal (id : N) (ty : string)           (* a deriving type the harness cannot instantiate at all *)
| Sweep (id : N) (seen : list string)      (* names of all struct / enum types recorded during the run *)
| JRound (id : N) (ty : string)
         (tree : value) (sh : shape)       (* the value as serde_json serialised it, its shape *)
         (parsed : option pjson)           (* the text serde_json wrote, parsed by the harness' own reader; None = refused *)
         (restored : option value)         (* tree of serde_json::from_str(text); None = refused *)
         (unordered : list string)
| Zoo (id : N) (ty : string)               (* a type of the harness' attribute zoo (gen.zoo_declared) *)
      (vidx : N)                           (* enums: position of the variant; structs: 0 *)
      (ins : list fin)                     (* every field (skipped ones included): value, fill-in value, skip_serializing_if outcome *)
      (accepts : list bool)                (* untagged enums: which variants' payload types accept the payload's JSON *)
      (tree : option value)                (* what Serialize handed over; None = refused *)
      (bin js : zres)                      (* through bincode / serde_json *)
| History (id : N) (ty : string)           (* incremental fits: never serialised vs. serialised and restored before every batch *)
          (never restored : value) (unordered : list string)
with zres :=
| ZRefused                                 (* serialisation refused *)
| ZFail                                    (* deserialisation failed *)
| ZBack (vidx : N) (fields : list value).  (* came back: variant position, every field *)

(* ---- hex ---- *)
Definition hexval (c : ascii) : N :=
  let n := N_of_ascii c in
  if (48 <=? n) && (n <=? 57) then n - 48
  else if (97 <=? n) && (n <=? 102) then n - 87
  else if (65 <=? n) && (n <=? 70) then n - 55 else 0.
Fixpoint hex_bytes (s : string) : list N :=
  match s with
  | String a (String b r) => (16 * hexval a + hexval b) :: hex_bytes r
  | _ => []
  end.

(* ---- canonical form: hash maps and hash sets have no order ---- *)
Fixpoint lex_ltb (a b : list N) : bool :=
  match a, b with
  | [], [] => false
  | [], _ :: _ => true
  | _ :: _, [] => false
  | x :: a', y :: b' => if x <? y then true else if y <? x then false else lex_ltb a' b'
  end.
Fixpoint insert_by {A} (key : A -> list N) (x : A) (l : list A) : list A :=
  match l with
  | [] => [x]
  | y :: r => if lex_ltb (key y) (key x) then y :: insert_by key x r else x :: l
  end.
Definition sort_by {A} (key : A -> list N) (l : list A) : list A := fold_right (insert_by key) [] l.
Definition sort_seq (v : value) : value :=
  match v with
  | VSeq l => VSeq (sort_by encode l)
  | VSome (VSeq l) => VSome (VSeq (sort_by encode l))
  | _ => v
  end.
Fixpoint canon (un : list string) (v : value) : value :=
  match v with
  | VSome v' => VSome (canon un v')
  | VSeq l => VSeq (map (canon un) l)
  | VMap l => VMap (sort_by (fun kv => encode (fst kv)) (map (fun kv => (canon un (fst kv), canon un (snd kv))) l))
  | VTuple l => VTuple (map (canon un) l)
  | VStruct k n fs =>
      VStruct k n (map (fun f => (fst f, if mem (fst f) un then sort_seq (canon un (snd f)) else canon un (snd f))) fs)
  | VEnum n i vn k fs => VEnum n i vn k (map (fun f => (fst f, canon un (snd f))) fs)
  | _ => v
  end.

(* ---- walking a tree ---- *)
(** conjunction of [p] over every node of the tree *)
Fixpoint all_nodes (p : value -> bool) (v : value) : bool :=
  p v &&
  match v with
  | VSome v' => all_nodes p v'
  | VSeq l => forallb (all_nodes p) l
  | VMap l => forallb (fun kv => all_nodes p (fst kv) && all_nodes p (snd kv)) l
  | VTuple l => forallb (all_nodes p) l
  | VStruct _ _ fs => forallb (fun f => all_nodes p (snd f)) fs
  | VEnum _ _ _ _ fs => forallb (fun f => all_nodes p (snd f)) fs
  | _ => true
  end.
Definition strs_eqb (a b : list string) : bool := list_eqb String.eqb a b.

(** the layout of a recorded struct / variant is the one the declaration model predicts *)
Definition node_layout_ok (v : value) : bool :=
  match v with
  | VStruct k n fs =>
      match find_decl declared n with
      | Some d => match td_body d with
                  | BStruct k' fds => skind_eqb k k' && layout_ok fds (map fst fs)
                  | BEnum _ => false
                  end
      | None => true       (* a type of another crate (ndarray, sprs, rand, ...) *)
      end
  | _ => true
  end.
Definition variant_layout_ok (v : value) : bool :=
  match v with
  | VEnum n i vn k fs =>
      match find_decl declared n with
      | Some d => match td_body d with
                  | BEnum vs =>
                      match nth_N vs i with
                      | Some vd => String.eqb vn (vd_wire vd) && skind_eqb k (vd_kind vd) &&
                                   negb (skips_ser (vd_attrs vd)) &&
                                   layout_ok (vd_fields vd) (map fst fs)
                      | None => false
                      end
                  | BStruct _ _ => false
                  end
      | None => true
      end
  | _ => true
  end.

(** the declaration model's prediction: do the generated serialiser and deserialiser agree on the
    variant index of this node? *)
Definition variant_roundtrips (v : value) : bool :=
  match v with
  | VEnum n i _ _ _ =>
      match find_decl declared n with
      | Some d => match td_body d with
                  | BEnum vs => match de_variant vs i with Some p => N.of_nat p =? i | None => false end
                  | BStruct _ _ => true
                  end
      | None => true
      end
  | _ => true
  end.

(** the declaration model's prediction for the fields: positionally a struct / variant comes back only when the
    members that were written are exactly the fields that are read (a field under skip_serializing, under
    skip_deserializing, or under a skip_serializing_if that fired breaks the alignment; `skip` does not) *)
Definition node_pos_aligned (v : value) : bool :=
  match v with
  | VStruct _ n fs =>
      match find_decl declared n with
      | Some d => match td_body d with
                  | BStruct _ fds => strs_eqb (map fst fs) (map fd_wire (filter f_read fds))
                  | BEnum _ => true
                  end
      | None => true
      end
  | VEnum n i _ _ fs =>
      match find_decl declared n with
      | Some d => match td_body d with
                  | BEnum vs => match nth_N vs i with
                                | Some vd => strs_eqb (map fst fs) (map fd_wire (filter f_read (vd_fields vd)))
                                | None => true
                                end
                  | BStruct _ _ => true
                  end
      | None => true
      end
  | _ => true
  end.

(** no lossy attribute on the declaration of a recorded type, the documented exceptions apart
    ([decl_lossless_or_known] is in Model.v) *)
Definition node_decl_lossless (v : value) : bool :=
  match v with
  | VStruct _ n _ | VEnum n _ _ _ _ =>
      match find_decl declared n with Some d => decl_lossless_or_known d | None => true end
  | _ => true
  end.

(** types that derive serde but cannot be reached through the crates' public API (the parameter
    wrapper of the logistic solver lives in a private module and is never part of a model);
    everything else must be seen *)
Local Open Scope string_scope.
Definition exempt_private : list string := ["ArgminParam"].
Local Close Scope string_scope.
Definition uninhabitable (n : string) : bool :=
  existsb (fun t => String.eqb (fst (fst t)) n) unsatisfiable_bounds.

Definition corr_round (tree : value) (sh : shape) (bytes : list N) (restored : option value) (un : list string) : N :=
  let enc_ok := list_eqb N.eqb (encode tree) bytes in
  let dec_ok := has_shape tree sh &&
                (if enc_ok then match decode sh bytes with
                                | Some (t, []) => value_eqb t tree
                                | _ => false
                                end else true) in
  let predicted := all_nodes variant_roundtrips tree && all_nodes node_pos_aligned tree in
  let observed := match restored with Some t => value_eqb (canon un t) (canon un tree) | None => false end in
  (flag enc_ok 1 + flag dec_ok 2 + flag (all_nodes node_layout_ok tree) 4
   + flag (all_nodes variant_layout_ok tree) 8 + flag (Bool.eqb predicted observed) 16)%N.

Definition oracle_round (tree : value) (restored : option value) (un : list string) : N :=
  (match restored with
   | Some t => flag (value_eqb (canon un t) (canon un tree)) 1
   | None => 8
   end
   + flag (all_nodes node_decl_lossless tree) 4)%N.

(* ---- the self-describing format ---- *)
(** serde_json's own number reader (no float_roundtrip) may be a few ulp off: calibrated bound, see props/C19.json *)
Definition json_ulps : Z := 4%Z.
Definition keys_ok (v : value) : bool :=
  all_nodes (fun x => match x with VMap l => forallb (fun kv => key_ok (fst kv)) l | _ => true end) v.
Definition corr_json (tree : value) (sh : shape) (parsed : option pjson) (restored : option value) (un : list string) : N :=
  let text_ok := match parsed with
                 | Some p => keys_ok tree && jmatch 0 (to_json tree) p       (* the rendering, token for token *)
                 | None => negb (keys_ok tree)                               (* "key must be a string" *)
                 end in
  let back_ok := match parsed with
                 | None => true
                 | Some _ => match of_json sh (to_json tree), restored with
                             | Some t, Some r => value_close json_ulps (canon un t) (canon un r)
                             | None, None => true
                             | _, _ => false
                             end
                 end in
  (flag text_ok 256 + flag back_ok 512)%N.
(** the property itself, where JSON can express the value: it comes back, floats within the bound *)
Definition oracle_json (tree : value) (sh : shape) (restored : option value) (un : list string) : N :=
  if json_typed tree sh then
    match restored with
    | Some r => flag (value_close json_ulps (canon un tree) (canon un r)) 128
    | None => 128
    end
  else 0.

(* ---- the attribute zoo: the derive model against serde_derive itself ---- *)
Definition zres_eqb (a b : zres) : bool :=
  match a, b with
  | ZRefused, ZRefused => true
  | ZFail, ZFail => true
  | ZBack i l, ZBack j m => (i =? j) && forall2b value_eqb l m
  | _, _ => false
  end.
Definition decl_opaque (d : type_decl) : bool :=
  negb (no_opaque (td_attrs d)) ||
  match td_body d with
  | BStruct _ fs => existsb (fun f => negb (no_opaque (fd_attrs f))) fs
  | BEnum vs => existsb (fun v => negb (no_opaque (vd_attrs v)) || existsb (fun f => negb (no_opaque (fd_attrs f))) (vd_fields v)) vs
  end.
(** positional prediction for a list of fields; [p]: the variant position reported back *)
Definition pos_fields_ok (p : N) (fds : list field_decl) (ins : list fin) (bin : zres) : bool :=
  if negb (pos_serializable fds) then zres_eqb bin ZRefused
  else match de_pos fds ins (ser_pos fds ins) with
       | Some l => zres_eqb bin (ZBack p l)
       | None => negb (zres_eqb bin (ZBack p (map in_val ins))) && negb (zres_eqb bin ZRefused)
       end.
Definition key_fields_ok_b (p : N) (deny cd : bool) (fds : list field_decl) (ins : list fin) (js : zres) : bool :=
  match de_key deny cd fds ins (ser_pos fds ins) with
  | Some l => zres_eqb js (ZBack p l)
  | None => zres_eqb js ZFail
  end.
Fixpoint index_of (n : string) (vs : list variant_decl) (pos : nat) : nat :=
  match vs with [] => pos | v :: r => if String.eqb (vd_name v) n then pos else index_of n r (S pos) end.
Definition same_variant (q : nat) (r : zres) : bool := match r with ZBack i _ => i =? N.of_nat q | _ => false end.

Definition corr_zoo (ty : string) (vidx : N) (ins : list fin) (accepts : list bool) (tree : option value) (bin js : zres) : N :=
  match find_decl zoo_declared ty with
  | None => 8192
  | Some d =>
      if negb (N.of_nat (List.length ins) =? N.of_nat (List.length (match td_body d with
                                                                     | BStruct _ fds => fds
                                                                     | BEnum vs => match nth_error vs (N.to_nat vidx) with Some v => vd_fields v | None => [] end
                                                                     end))) then 8192
      else if decl_opaque d then 0                      (* user code decides: no prediction *)
      else
      match td_body d with
      | BStruct k fds =>
          let flat := existsb f_flatten fds in
          let tree_ok := match tree with
                         | Some t => if flat then value_eqb t (VMap (map (fun kv => (VStr (fst kv), snd kv)) (ser_key_flat fds ins)))
                                     else value_eqb t (ser_container d k fds ins)
                         | None => false
                         end in
          let bin_ok := pos_fields_ok 0 fds ins bin in
          let js_ok := if flat then match de_key_flat (c_default d) fds ins (ser_key_flat fds ins) with
                                    | Some l => zres_eqb js (ZBack 0 l)
                                    | None => zres_eqb js ZFail
                                    end
                       else key_fields_ok_b 0 (c_deny d) (c_default d) fds ins js in
          (flag tree_ok 1024 + flag bin_ok 2048 + flag js_ok 4096)%N
      | BEnum vs =>
          let p := N.to_nat vidx in
          match nth_error vs p with
          | None => 8192
          | Some v =>
              if skips_ser (vd_attrs v) then
                (flag (match tree with None => true | Some _ => false end) 1024
                 + flag (zres_eqb bin ZRefused) 2048 + flag (zres_eqb js ZRefused) 4096)%N
              else
              let r := repr_of (td_attrs d) in
              let fds := vd_fields v in
              let tree_ok := match r, tree with
                             | RExternal, Some t => value_eqb t (VEnum (td_wire d) vidx (vd_wire v) (vd_kind v) (ser_pos fds ins))
                             | RExternal, None => false
                             | _, Some _ => true
                             | _, None => false
                             end in
              let bin_ok := if repr_pos_ok r then
                              match ser_variant vs p with
                              | None => zres_eqb bin ZRefused
                              | Some i => match de_variant vs i with
                                          | Some q => if Nat.eqb q p then pos_fields_ok vidx fds ins bin
                                                      else negb (zres_eqb bin (ZBack vidx (map in_val ins))) && negb (zres_eqb bin ZRefused)
                                          | None => zres_eqb bin ZFail
                                          end
                              end
                            else zres_eqb bin ZFail in
              let by_key := match vd_kind v with KNamed => key_fields_ok_b vidx false false fds ins js
                                                 | _ => zres_eqb js (ZBack vidx (map in_val ins)) end in
              let js_ok := if repr_key_by_name r then
                             match de_variant_key vs (vd_wire v) with
                             | Some q => if Nat.eqb q p then by_key else same_variant q js
                             | None => zres_eqb js ZFail
                             end
                           else
                             match de_untagged (fun w (_ : unit) => nth (index_of (vd_name w) vs 0) accepts false) vs tt with
                             | Some q => if Nat.eqb q p then by_key else same_variant q js
                             | None => zres_eqb js ZFail
                             end in
              (flag tree_ok 1024 + flag bin_ok 2048 + flag js_ok 4096)%N
          end
      end
  end.

Definition refused_by_decl (ty variant : string) : bool :=
  match find_decl declared ty with
  | Some d => match td_body d with
              | BEnum vs => existsb (fun v => String.eqb (vd_name v) variant && skips_ser (vd_attrs v)) vs
              | BStruct _ _ => false
              end
  | None => false
  end.

Definition run_case (c : case) : verdict :=
  match c with
  | Round id _ tree sh bytes restored un =>
      (id, (corr_round tree sh (hex_bytes bytes) restored un, oracle_round tree restored un))
  | Refused id ty variant =>
      (* the model predicts the refusal iff the variant is declared skipped; a refusal is a lost value *)
      (id, (flag (refused_by_decl ty variant) 32, 2))
  | Nominal id ty =>
      (id, (flag (uninhabitable ty) 64, if uninhabitable ty then 64 else 0))
  | Sweep id seen =>
      (id, (flag (forallb (fun d => mem (td_wire d) seen || mem (td_name d) exempt_private
                                    || uninhabitable (td_name d)) declared) 128, 0))
  | JRound id _ tree sh parsed restored un => (id, (corr_json tree sh parsed restored un, oracle_json tree sh restored un))
  | Zoo id ty vidx ins accepts tree bin js => (id, (corr_zoo ty vidx ins accepts tree bin js, 0))
  | History id _ a b un => (id, (0, flag (value_eqb (canon un a) (canon un b)) 1024))
  end%N.

Definition run_cases (cs : list case) : list N := report (map run_case cs).
