(** C19 - lemmas about the self-describing format (C19/Json.v). *)
From Coq Require Import List String Ascii NArith ZArith Bool Lia Permutation DecimalString DecimalZ.
From LinfaVerif Require Import C19.Model C19.Json C19.Proofs C19.AttrProofs.
Import ListNotations.
Local Open Scope string_scope.
Local Open Scope list_scope.

(* ------------------------------------------------------------------ integer keys *)
Lemma dec_roundtrip : forall z, Z_of_dec (dec_of_Z z) = Some z.
Proof.
  intro z. unfold Z_of_dec, dec_of_Z. rewrite NilEmpty.isi. now rewrite DecimalZ.of_to.
Qed.

(* ------------------------------------------------------------------ combinators *)
Lemma map_opt_map : forall {A B} (g : B -> option A) (f : A -> B) l,
  Forall (fun x => g (f x) = Some x) l -> map_opt g (map f l) = Some l.
Proof.
  intros A B g f l H. induction H as [|x l Hx Hl IH]; simpl; [reflexivity |]. now rewrite Hx, IH.
Qed.

Lemma forall2b_Forall2 : forall {A B} (p : A -> B -> bool) l m,
  forall2b p l m = true -> Forall2 (fun a b => p a b = true) l m.
Proof.
  intros A B p. induction l as [|a l IH]; intros [|b m] H; simpl in H; try discriminate; [constructor |].
  apply andb_prop in H as [H1 H2]. constructor; [exact H1 | now apply IH].
Qed.

Definition decodes (v : value) : Prop := forall s, json_typed v s = true -> of_json s (to_json v) = Some v.

Lemma zip_dec_ok : forall l ss, Forall decodes l -> forall2b json_typed l ss = true ->
  zip_dec of_json ss (map to_json l) = Some l.
Proof.
  intros l ss H. revert ss. induction H as [|x l Hx Hl IH]; intros [|s ss] Ht; simpl in *; try discriminate; [reflexivity |].
  apply andb_prop in Ht as [H1 H2]. now rewrite (Hx s H1), (IH ss H2).
Qed.

Lemma zip_fields_ok : forall (fs : list (string * value)) ss,
  Forall (fun f => decodes (snd f)) fs -> forall2b (field_shape json_typed) fs ss = true ->
  zip_fields of_json ss (map (fun f => to_json (snd f)) fs) = Some fs.
Proof.
  intros fs ss H. revert ss. induction H as [|[n x] fs Hx Hl IH]; intros [|[n' s] ss] Ht; simpl in *; try discriminate; [reflexivity |].
  apply andb_prop in Ht as [H1 H2]. unfold field_shape in H1. simpl in H1. apply andb_prop in H1 as [Hn Hs].
  apply String.eqb_eq in Hn. subst n'. now rewrite (Hx s Hs), (IH ss H2).
Qed.

(* ---- named members ---- *)
Lemma jfind_none : forall (tj : value -> json) n (fs : list (string * value)),
  mem n (map fst fs) = false -> jfind n (map (fun f => (fst f, tj (snd f))) fs) = [].
Proof.
  intros tj n. induction fs as [|g fs IH]; intro H; [reflexivity |].
  simpl in H. apply orb_false_elim in H as [H1 H2]. unfold jfind in *. simpl.
  rewrite String.eqb_sym, H1. now apply IH.
Qed.

Lemma jfind_unique : forall (tj : value -> json) (fs : list (string * value)) f,
  nodup_str (map fst fs) = true -> In f fs ->
  jfind (fst f) (map (fun f => (fst f, tj (snd f))) fs) = [tj (snd f)].
Proof.
  intros tj. induction fs as [|g fs IH]; intros f Hn Hf; [destruct Hf |].
  simpl in Hn. apply andb_prop in Hn as [Hn1 Hn2]. apply negb_true_iff in Hn1.
  destruct Hf as [-> | Hf].
  - unfold jfind. simpl. rewrite String.eqb_refl. simpl. f_equal.
    exact (jfind_none tj (fst f) fs Hn1).
  - unfold jfind. simpl.
    assert (Hne : String.eqb (fst g) (fst f) = false).
    { destruct (String.eqb (fst g) (fst f)) eqn:E; [| reflexivity]. apply String.eqb_eq in E.
      assert (Hin : mem (fst g) (map fst fs) = true).
      { unfold mem. apply existsb_exists. exists (fst f). split; [now apply in_map | rewrite E; apply String.eqb_refl]. }
      congruence. }
    rewrite Hne. exact (IH f Hn2 Hf).
Qed.

Lemma named_dec_ok : forall (fs : list (string * value)),
  nodup_str (map fst fs) = true -> Forall (fun f => decodes (snd f)) fs ->
  forall fs' ss', (forall f, In f fs' -> In f fs) -> forall2b (field_shape json_typed) fs' ss' = true ->
  named_dec of_json (map (fun f => (fst f, to_json (snd f))) fs) ss' = Some fs'.
Proof.
  intros fs Hn Hd. induction fs' as [|[n x] fs' IH]; intros [|[n' s] ss'] Hin Ht; simpl in *; try discriminate; [reflexivity |].
  apply andb_prop in Ht as [H1 H2]. unfold field_shape in H1. simpl in H1. apply andb_prop in H1 as [Hnn Hs].
  apply String.eqb_eq in Hnn. subst n'.
  pose proof (jfind_unique to_json fs (n, x) Hn (Hin _ (or_introl eq_refl))) as Hj. simpl in Hj. rewrite Hj.
  rewrite Forall_forall in Hd. pose proof (Hd (n, x) (Hin _ (or_introl eq_refl)) s Hs) as Hx. simpl in Hx. rewrite Hx.
  rewrite (IH ss'); [reflexivity | intros f Hf; apply Hin; now right | exact H2].
Qed.

Lemma payload_roundtrip : forall k (fs : list (string * value)) ss,
  payload_wf k fs = true -> Forall (fun f => decodes (snd f)) fs ->
  forall2b (field_shape json_typed) fs ss = true ->
  payload_of_json of_json k ss (payload_to_json to_json k fs) = Some fs.
Proof.
  intros k fs ss Hw Hd Ht. destruct k; simpl in *.
  - destruct fs; [| discriminate]. destruct ss; [reflexivity | discriminate].
  - destruct fs as [|[n x] [|? ?]]; try discriminate.
    destruct ss as [|[n' s] [|? ?]]; simpl in Ht; try discriminate; [| rewrite andb_false_r in Ht; discriminate].
    rewrite andb_true_r in Ht. unfold field_shape in Ht. simpl in Ht. apply andb_prop in Ht as [Hn Hs].
    apply String.eqb_eq in Hn. subst n'. inversion Hd as [|? ? Hx _]; subst. simpl in *. now rewrite (Hx s Hs).
  - now apply zip_fields_ok.
  - apply (named_dec_ok fs Hw Hd fs ss); [auto | exact Ht].
Qed.

(* ---- variants ---- *)
Lemma variant_dec_spec : forall (dec : shape -> json -> option value) name vn j vs i0,
  variant_dec dec name vn j vs i0 =
  match find_variant vn vs i0 with
  | None => None
  | Some (i, k, ss) =>
      match k, j with
      | KUnit, None => match ss with [] => Some (VEnum name i vn KUnit []) | _ => None end
      | KUnit, Some _ => None
      | _, Some p => match payload_of_json dec k ss p with Some fs => Some (VEnum name i vn k fs) | None => None end
      | _, None => None
      end
  end.
Proof.
  intros dec name vn j. induction vs as [|[[[n k] ss]|] vs IH]; intro i0; simpl; [reflexivity | | apply IH].
  destruct (String.eqb n vn); [reflexivity | apply IH].
Qed.

(* ------------------------------------------------------------------ the rendering can be read back *)
Lemma json_decode_encode_all : forall v, decodes v.
Proof.
  induction v as [b|k z|b|b|st| | |v IHv|l H|l H|l H|k n fs H|n i vn k fs H] using value_ind';
    intros sh Ht; destruct sh as [|k'| | | | |os|os|okv|ss|k' n' ss|n' vs]; simpl in Ht; try discriminate.
  - reflexivity.
  - apply andb_prop in Ht as [Hk Hr]. apply ikind_eqb_eq in Hk. subst k'. simpl. now rewrite Hr.
  - simpl. now rewrite Ht.
  - simpl. now rewrite Ht.
  - reflexivity.
  - reflexivity.
  - reflexivity.
  - (* some *)
    destruct os as [s'|]; [| discriminate]. apply andb_prop in Ht as [H1 H2]. apply negb_true_iff in H2.
    specialize (IHv s' H1). cbn [to_json of_json].
    destruct (to_json v) eqn:E; simpl in H2; try discriminate; now rewrite IHv.
  - (* seq *)
    cbn [to_json of_json]. destruct os as [s'|].
    + rewrite (map_opt_map (of_json s') to_json l); [reflexivity |].
      rewrite forallb_forall in Ht. rewrite Forall_forall in H |- *. intros x Hx. apply (H x Hx). now apply Ht.
    + destruct l; [reflexivity | discriminate].
  - (* map *)
    cbn [to_json of_json]. destruct okv as [[ks vs]|].
    + match goal with |- context [map_opt ?g _] => set (g0 := g) end.
      rewrite (map_opt_map g0 (fun kv : value * value => (key_str (fst kv), to_json (snd kv))) l); [reflexivity |].
      rewrite forallb_forall in Ht. rewrite Forall_forall in H |- *. intros [kk x] Hx.
      specialize (Ht _ Hx). simpl in Ht. apply andb_prop in Ht as [Hk Hv].
      destruct (H _ Hx) as [_ Hdx]. simpl in Hdx. unfold g0. simpl. rewrite (Hdx vs Hv).
      destruct kk; simpl in Hk; try discriminate; destruct ks; try discriminate.
      * apply andb_prop in Hk as [Hk1 Hk2]. apply ikind_eqb_eq in Hk1. subst. simpl. rewrite dec_roundtrip. now rewrite Hk2.
      * reflexivity.
    + destruct l; [reflexivity | discriminate].
  - (* tuple *)
    cbn [to_json of_json]. now rewrite (zip_dec_ok l ss H Ht).
  - (* struct *)
    apply andb_prop in Ht as [Ht Hfs]. apply andb_prop in Ht as [Ht Hw]. apply andb_prop in Ht as [Hk Hn].
    apply skind_eqb_eq in Hk. apply String.eqb_eq in Hn. subst k' n'.
    cbn [to_json of_json]. now rewrite (payload_roundtrip k fs ss Hw H Hfs).
  - (* enum *)
    apply andb_prop in Ht as [Ht Hv]. apply andb_prop in Ht as [Hn Hw]. apply String.eqb_eq in Hn. subst n'.
    destruct (find_variant vn vs 0) as [[[i' k'] ss]|] eqn:Ef; [| discriminate].
    apply andb_prop in Hv as [Hv Hfs]. apply andb_prop in Hv as [Hi Hk].
    apply N.eqb_eq in Hi. apply skind_eqb_eq in Hk. subst i' k'.
    cbn [to_json of_json].
    destruct k; rewrite variant_dec_spec, Ef.
    + simpl in Hw. destruct fs; [| discriminate]. destruct ss; [reflexivity | discriminate].
    + now rewrite (payload_roundtrip KNewtype fs ss Hw H Hfs).
    + now rewrite (payload_roundtrip KTuple fs ss Hw H Hfs).
    + now rewrite (payload_roundtrip KNamed fs ss Hw H Hfs).
Qed.

(* ------------------------------------------------------------------ reading an object: order, unknown members *)
Lemma jfind_perm : forall n obj obj', Permutation obj obj' -> Permutation (jfind n obj) (jfind n obj').
Proof. intros n obj obj' H. unfold jfind. apply Permutation_map. now apply filter_perm. Qed.

Lemma named_dec_perm : forall dec obj obj' ss, Permutation obj obj' ->
  named_dec dec obj ss = named_dec dec obj' ss.
Proof.
  intros dec obj obj' ss H. induction ss as [|s ss IH]; [reflexivity |]. simpl. rewrite IH.
  pose proof (jfind_perm (fst s) obj obj' H) as Hp. pose proof (Permutation_length Hp) as Hl.
  destruct (jfind (fst s) obj) as [|a [|b l]].
  - apply Permutation_nil in Hp. now rewrite Hp.
  - apply Permutation_length_1_inv in Hp. now rewrite Hp.
  - destruct (jfind (fst s) obj') as [|a' [|b' l']]; simpl in Hl; try discriminate. reflexivity.
Qed.

Lemma named_dec_unknown : forall dec obj ss k x, mem k (map fst ss) = false ->
  named_dec dec ((k, x) :: obj) ss = named_dec dec obj ss.
Proof.
  intros dec obj ss k x H. induction ss as [|s ss IH]; [reflexivity |].
  simpl in H. apply orb_false_elim in H as [H1 H2]. simpl. rewrite (IH H2).
  unfold jfind. simpl. now rewrite H1.
Qed.

Lemma json_struct_perm_l : forall n ss obj obj', Permutation obj obj' ->
  of_json (SStruct KNamed n ss) (JObj obj) = of_json (SStruct KNamed n ss) (JObj obj').
Proof. intros n ss obj obj' H. simpl. now rewrite (named_dec_perm of_json obj obj' ss H). Qed.

Lemma json_struct_unknown_l : forall n ss obj k x, mem k (map fst ss) = false ->
  of_json (SStruct KNamed n ss) (JObj ((k, x) :: obj)) = of_json (SStruct KNamed n ss) (JObj obj).
Proof. intros n ss obj k x H. simpl. now rewrite (named_dec_unknown of_json obj ss k x H). Qed.

(** a missing member is `None` for an option and an error for anything else *)
Lemma json_struct_missing_l : forall n f s,
  of_json (SStruct KNamed n [(f, s)]) (JObj []) = if is_opt s then Some (VStruct KNamed n [(f, VNone)]) else None.
Proof. intros n f s. simpl. destruct (is_opt s); reflexivity. Qed.

(* ------------------------------------------------------------------ where the rendering is NOT faithful *)
Local Open Scope N_scope.
Definition ex_jvalue : value :=
  VStruct KNamed "Model"
    [("centroids", VSeq [VF64 4607182418800017408; VF64 13830554455654793216]);
     ("count", VInt U64 17%Z);
     ("best", VSome (VEnum "Init" 1 "Precomputed" KNewtype [("0", VTuple [VInt U8 3%Z; VBool true])]));
     ("absent", VNone);
     ("classes", VMap [(VInt U64 0%Z, VF32 1065353216); (VInt U64 12%Z, VF32 0)]);
     ("tag", VEnum "Kind" 2 "Max" KUnit []);
     ("cfg", VEnum "Cfg" 0 "Range" KNamed [("lo", VF64 0); ("hi", VF64 4607182418800017408)]);
     ("unit", VStruct KUnit "L2Dist" [])].
Definition ex_jshape : shape :=
  SStruct KNamed "Model"
    [("centroids", SSeq (Some SF64)); ("count", SInt U64);
     ("best", SOpt (Some (SEnum "Init" [Some ("Random", KUnit, []); Some ("Precomputed", KNewtype, [("0", STuple [SInt U8; SBool])])])));
     ("absent", SOpt (Some SStr));
     ("classes", SMap (Some (SInt U64, SF32)));
     ("tag", SEnum "Kind" [None; None; Some ("Max", KUnit, [])]);
     ("cfg", SEnum "Cfg" [Some ("Range", KNamed, [("lo", SF64); ("hi", SF64)])]);
     ("unit", SStruct KUnit "L2Dist" [])].
Example ex_jvalue_typed : json_typed ex_jvalue ex_jshape = true.
Proof. vm_compute. reflexivity. Qed.
Example ex_jvalue_roundtrips : of_json ex_jshape (to_json ex_jvalue) = Some ex_jvalue.
Proof. vm_compute. reflexivity. Qed.
Example ex_jvalue_text :
  to_json ex_jvalue =
  JObj [("centroids", JArr [JNum (VF64 4607182418800017408); JNum (VF64 13830554455654793216)]);
        ("count", JNum (VInt U64 17%Z));
        ("best", JObj [("Precomputed", JArr [JNum (VInt U8 3%Z); JBool true])]);
        ("absent", JNull);
        ("classes", JObj [("0", JNum (VF32 1065353216)); ("12", JNum (VF32 0))]);
        ("tag", JStr "Max");
        ("cfg", JObj [("Range", JObj [("lo", JNum (VF64 0)); ("hi", JNum (VF64 4607182418800017408))])]);
        ("unit", JNull)].
Proof. vm_compute. reflexivity. Qed.

(** Some(None), Some(()) and a float that is not finite are rendered as null: they do not come back *)
Example ex_json_lossy :
  of_json (SOpt (Some (SOpt (Some (SInt U32))))) (to_json (VSome VNone)) = Some VNone
  /\ of_json (SOpt (Some SUnit)) (to_json (VSome VUnit)) = Some VNone
  /\ of_json SF64 (to_json (VF64 9218868437227405312)) = None
  /\ json_typed (VSome VNone) (SOpt (Some (SOpt (Some (SInt U32))))) = false
  /\ json_typed (VF64 9218868437227405312) SF64 = false
  /\ json_typed (VF64 9218868437227405311) SF64 = true.
Proof. vm_compute. repeat split; reflexivity. Qed.

(** members in another order, with a member nobody asked for, and with a missing option *)
Example ex_json_tolerant :
  of_json (SStruct KNamed "P" [("a", SInt U8); ("b", SOpt (Some SBool)); ("c", SStr)])
          (JObj [("c", JStr "x"); ("zzz", JArr [JNull]); ("a", JNum (VInt U64 7%Z))])
  = Some (VStruct KNamed "P" [("a", VInt U8 7%Z); ("b", VNone); ("c", VStr "x")])
  /\ of_json (SStruct KNamed "P" [("a", SInt U8)]) (JObj [("a", JNum (VInt U64 7%Z)); ("a", JNum (VInt U64 8%Z))]) = None
  /\ of_json (SStruct KNamed "P" [("a", SInt U8)]) (JObj [("a", JNum (VInt U64 256%Z))]) = None.
Proof. vm_compute. repeat split; reflexivity. Qed.
