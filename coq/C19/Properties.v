(** C19 - property theorems (statements only; proofs are in C19/Proofs.v).

    "Serialised models and parameters deserialise to behaviourally identical values" splits into
    (A) the format is lossless: bincode's encoding of any serde data-model value decodes back to that
        value (for every value, every size), and is injective on the values of a type;
    (B) what each deriving type hands to the format is all of its state: no declaration of the
        repository carries a lossy serde attribute outside the documented exceptions (re-translated
        from the Rust sources on every run), skipped fields come back as their defaults, enum
        variants keep their index exactly when no skipped variant precedes them;
    (B') every serde attribute has a place in the model: what the generated impls write and read back under
        skip / skip_serializing / skip_deserializing / skip_serializing_if / default / rename / alias /
        deny_unknown_fields / transparent / tag / content / untagged, POSITIONALLY (bincode) and BY KEY
        (serde_json), with the exact condition under which a value survives; attributes that hand control
        to user code (with, from, into, ...) or that the translator does not know are opaque and break
        [all_declared_lossless];
    (A') the self-describing format: serde_json's rendering of the data model and its reading back by
        member name, lossless on every value JSON can express ([json_typed]);
    (C) per run, in Corr.v / the harness: the model of (A) equals bincode's bytes, the model of (A') equals
        serde_json's text, the model of (B) / (B') equals the trees serde_derive's impls emit (for the
        repository's types and for the harness' attribute zoo), and restored values behave identically. *)
From Coq Require Import List String NArith ZArith Bool.
From Coq Require Import Permutation.
From LinfaVerif Require Import C19.Model C19.Json gen.C19_types C19.Proofs C19.AttrProofs C19.JsonProofs.
Import ListNotations.

(* ---------------------------------------------------------------- (A) the wire format *)

(** lossless: decoding the encoding of a value (followed by anything) at the value's type gives the
    value back and consumes exactly its bytes *)
Theorem decode_encode : forall (s : shape) (v : value) (rest : list N),
  has_shape v s = true -> decode s (encode v ++ rest) = Some (v, rest).
Proof. intros s v rest H. exact (decode_encode_all v s rest H). Qed.

(** injective on the values of one type, even when other bytes follow *)
Theorem encode_injective : forall (s : shape) (v1 v2 : value) (r1 r2 : list N),
  has_shape v1 s = true -> has_shape v2 s = true ->
  encode v1 ++ r1 = encode v2 ++ r2 -> v1 = v2 /\ r1 = r2.
Proof. exact encode_prefix_free. Qed.

(** canonical: on genuine bytes the decoder succeeds on nothing but the encoding of a well-typed value
    (no second byte string decodes to the same value, no junk is accepted) *)
Theorem decode_accepts_exactly_encodings : forall (s : shape) (bs : list N) (v : value) (rest : list N),
  bytes_ok bs ->
  (decode s bs = Some (v, rest) <-> bs = encode v ++ rest /\ has_shape v s = true).
Proof. exact decode_iff. Qed.

(** and every encoding consists of genuine bytes *)
Theorem encode_yields_bytes : forall v : value, bytes_ok (encode v).
Proof. exact encode_bytes_ok. Qed.

(** the equality test used by the run-time oracle on recorded trees decides equality *)
Theorem value_eqb_sound : forall a b : value, value_eqb a b = true -> a = b.
Proof. exact value_eqb_eq. Qed.

(* ---------------------------------------------------------------- (B) the deriving types *)

(** no deriving type of the repository, the two documented exceptions apart, carries a serde attribute
    that can drop or rewrite data in a positional or in a keyed format (skip*, skip_serializing_if, flatten,
    an asymmetric rename without alias, internal / adjacent / untagged enums, with, from / into, anything the
    translator does not know), every name written is a name read and no two members share one, and each
    type derives both directions. `default` without `skip*`, `bound`, `rename` / `rename_all` / `alias`,
    `transparent`, `deny_unknown_fields`, `crate` are lossless and allowed. *)
Theorem all_declared_lossless : forallb lossless_decl (minus_known declared) = true.
Proof. exact all_declared_lossless_c. Qed.

(** ... and the exceptions carry exactly the documented skips and nothing else *)
Theorem known_exceptions_are_exactly_the_documented_skips : forallb decl_lossless_or_known declared = true.
Proof. exact known_exceptions_exact_c. Qed.

(** derived struct impls: without lossy attributes every field value comes back *)
Theorem lossless_struct_roundtrip : forall (fds : list field_decl) (dflt vals : list value),
  List.length vals = List.length fds -> List.length dflt = List.length fds ->
  forallb field_lossless fds = true ->
  de_fields fds dflt (ser_fields fds vals) = Some vals.
Proof. exact lossless_fields_roundtrip. Qed.

(** with skipped fields the value comes back with their defaults: it survives exactly when the
    skipped fields held their defaults (the situation of the vectoriser's function tokenizer) *)
Theorem skip_field_default_roundtrips : forall (fds : list field_decl) (dflt vals : list value),
  List.length vals = List.length fds -> List.length dflt = List.length fds ->
  Forall (fun f => skips_ser (fd_attrs f) = skips_de (fd_attrs f)) fds ->
  de_fields fds dflt (ser_fields fds vals) = Some (merge_defaults fds dflt vals) /\
  (de_fields fds dflt (ser_fields fds vals) = Some vals <-> skipped_hold_defaults fds dflt vals).
Proof.
  intros fds dflt vals Lv Ld Hs. split;
    [exact (de_ser_fields fds dflt vals Lv Ld Hs) | exact (skip_roundtrip_iff fds dflt vals Lv Ld Hs)].
Qed.

(** derived enum impls: a live variant keeps its index through the generated serialiser and
    deserialiser exactly when no skipped variant is declared before it *)
Theorem variant_index_roundtrip_iff : forall (vs : list variant_decl) (p : nat) (v : variant_decl),
  nth_error vs p = Some v -> skips_ser (vd_attrs v) = false -> skips_de (vd_attrs v) = false ->
  ((exists i, ser_variant vs p = Some i /\ de_variant vs i = Some p) <->
   (forall j w, (j < p)%nat -> nth_error vs j = Some w -> skips_de (vd_attrs w) = false)).
Proof. exact variant_roundtrip_iff. Qed.

(** the faithful model of a skipped variant in the middle of an enum violates the property ... *)
Theorem middle_skip_refuted : exists (vs : list variant_decl) (p : nat) (v : variant_decl) (i : N),
  nth_error vs p = Some v /\ skips_ser (vd_attrs v) = false /\ skips_de (vd_attrs v) = false /\
  ser_variant vs p = Some i /\ de_variant vs i <> Some p.
Proof.
  exists ex_error_variants, 4%nat, (nth 4 ex_error_variants (mkV "" "" [] KUnit [] [])), 4%N.
  vm_compute. repeat split; try reflexivity. discriminate.
Qed.

(** ... and outside that class (skipped variants only at the end) every live variant round-trips *)
Theorem stable_enum_outside_known : forall (vs : list variant_decl) (p : nat) (v : variant_decl),
  index_stable vs = true -> nth_error vs p = Some v ->
  skips_ser (vd_attrs v) = false -> skips_de (vd_attrs v) = false ->
  exists i, ser_variant vs p = Some i /\ de_variant vs i = Some p.
Proof. exact stable_enum_roundtrip. Qed.

(** every enum of the repository is index-stable, the documented exception `Error` apart *)
Theorem declared_enums_stable_outside_known :
  forallb (fun d => enum_stable d || known_type (td_name d)) declared = true.
Proof. exact declared_enums_stable_outside_known_c. Qed.

(* ---------------------------------------------------------------- (A) + (B) end to end *)

(** every struct declared in the repository (exceptions apart), every assignment of values to its
    fields: fields -> tree -> bytes -> tree -> fields is the identity *)
Theorem declared_struct_wire_roundtrip :
  forall (d : type_decl) (k : skind) (fds : list field_decl) (vals dflt : list value)
         (ss : list (string * shape)) (rest : list N),
  In d (minus_known declared) -> td_body d = BStruct k fds ->
  List.length vals = List.length fds -> List.length dflt = List.length fds ->
  has_shape (ser_struct (td_name d) k fds vals) (SStruct k (td_name d) ss) = true ->
  decode (SStruct k (td_name d) ss) (encode (ser_struct (td_name d) k fds vals) ++ rest)
    = Some (VStruct k (td_name d) (ser_fields fds vals), rest)
  /\ de_fields fds dflt (ser_fields fds vals) = Some vals.
Proof. exact declared_struct_roundtrip. Qed.

(** every enum declared in the repository (exceptions apart), every variant: the index written by the
    generated serialiser selects the same variant in the generated deserialiser *)
Theorem declared_enum_variant_roundtrip :
  forall (d : type_decl) (vs : list variant_decl) (p : nat) (v : variant_decl),
  In d (minus_known declared) -> td_body d = BEnum vs -> nth_error vs p = Some v ->
  exists i, ser_variant vs p = Some i /\ de_variant vs i = Some p.
Proof. exact declared_enum_roundtrip. Qed.

(* ---------------------------------------------------------------- (B') every attribute has a case *)

(** every attribute name the translator can emit (serde_derive's own list and the translator's synthetic
    names, regenerated with the declarations) is classified by the model *)
Theorem attribute_table_complete : forallb attr_known parser_attr_names = true.
Proof. exact attribute_table_complete_c. Qed.

(** ... every attribute that occurs in the repository or in the harness' zoo is one of those names, the table
    has one entry per name and no kind without a name *)
Theorem declared_attributes_in_table :
  forallb (fun d => forallb (fun n => mem n parser_attr_names) (decl_attr_names d)) (declared ++ zoo_declared) = true
  /\ nodupb (map fst attr_table) = true /\ (forall k, kind_named k = true).
Proof. exact (conj declared_attrs_in_table_c (conj attr_table_unambiguous_c attr_table_onto)). Qed.

(** POSITIONAL (bincode): a struct comes back exactly when every field is written iff it is read (skip pairs
    both, skip_serializing / skip_deserializing / a firing skip_serializing_if break it) and the fields that
    are not read held their fill-in value (Default::default() or the `default = "path"` function) *)
Theorem positional_roundtrip_iff : forall (fds : list field_decl) (ins : list fin),
  wire_nodup fds = true -> List.length ins = List.length fds ->
  (de_pos fds ins (ser_pos fds ins) = Some (map in_val ins) <->
   aligned fds ins = true /\ unread_hold_defaults fds ins).
Proof. exact pos_roundtrip_iff_l. Qed.

(** ... an aligned layout gives the fill-in values back for the unread fields, a misaligned one is never read
    back as the original *)
Theorem positional_result : forall (fds : list field_decl) (ins : list fin),
  wire_nodup fds = true -> List.length ins = List.length fds ->
  de_pos fds ins (ser_pos fds ins) = if aligned fds ins then Some (merge_pos fds ins) else None.
Proof.
  intros fds ins Hn Hl. destruct (aligned fds ins) eqn:E;
    [exact (de_pos_aligned fds ins E) | exact (de_pos_misaligned fds ins Hn Hl E)].
Qed.

(** BY KEY (serde_json): reading the object the serialiser wrote gives, field by field: the value when it was
    written under a name the field reads; else the default when there is one, `None` for an option, an
    error otherwise; unread fields get their fill-in value; under deny_unknown_fields a member nobody reads
    (skip_deserializing, asymmetric rename) is an error *)
Theorem keyed_decode_of_encode : forall (deny cd : bool) (fds : list field_decl) (ins : list fin),
  names_ok fds = true -> List.length ins = List.length fds ->
  de_key deny cd fds ins (ser_pos fds ins) = key_result deny cd fds ins.
Proof. exact de_key_ser_key_l. Qed.

Theorem keyed_roundtrip_iff : forall (deny cd : bool) (fds : list field_decl) (ins : list fin),
  names_ok fds = true -> List.length ins = List.length fds ->
  (de_key deny cd fds ins (ser_pos fds ins) = Some (map in_val ins) <->
   (deny = true -> any2 f_stray fds ins = false) /\ key_fields_ok cd fds ins).
Proof.
  intros deny cd fds ins Hn Hl. rewrite (de_key_ser_key_l deny cd fds ins Hn Hl).
  exact (key_roundtrip_iff_l deny cd fds ins Hl).
Qed.

(** reading by key does not depend on the order of the members and ignores members nobody reads *)
Theorem keyed_order_irrelevant : forall (deny cd : bool) fds ins (obj obj' : list (string * value)),
  Permutation obj obj' -> de_key deny cd fds ins obj = de_key deny cd fds ins obj'.
Proof. exact de_key_perm_l. Qed.

Theorem keyed_unknown_member_ignored : forall (cd : bool) fds ins (obj : list (string * value)) k v,
  known_key fds k = false -> de_key false cd fds ins ((k, v) :: obj) = de_key false cd fds ins obj.
Proof. exact de_key_unknown_l. Qed.

(** a declaration whose fields are statically lossless returns every value in both disciplines (the meaning of
    the one admitted value-dependent idiom, skip_serializing_if = "Option::is_none", is a hypothesis) *)
Theorem static_fields_roundtrip : forall (deny cd : bool) (fds : list field_decl) (ins : list fin),
  List.length ins = List.length fds ->
  forallb field_pos_static fds = true -> forallb (field_key_static cd) fds = true -> names_ok fds = true ->
  sif_idiom_sound cd fds ins ->
  de_pos fds ins (ser_pos fds ins) = Some (map in_val ins)
  /\ de_key deny cd fds ins (ser_pos fds ins) = Some (map in_val ins).
Proof.
  intros deny cd fds ins Hl Hp Hk Hn Hs.
  exact (conj (static_pos_roundtrip fds ins Hl Hp) (static_key_roundtrip deny cd fds ins Hl Hk Hn Hs)).
Qed.

(** `flatten` (refused positionally: [pos_serializable]): by key, members spliced in from a flattened struct
    whose names no ordinary field reads leave the ordinary fields as they were, and what is collected for the
    flattened struct is exactly what it wrote, from which it picks its members back *)
Theorem flatten_by_key : forall (cd : bool) (fds : list field_decl) (ins : list fin) (es : list (string * value)),
  names_ok fds = true -> List.length ins = List.length fds -> any2 f_stray fds ins = false ->
  forallb (fun kv : string * value => negb (known_key fds (fst kv))) es = true -> nodup_fst es = true ->
  de_key false cd fds ins (ser_pos fds ins ++ es) = de_key false cd fds ins (ser_pos fds ins)
  /\ collect fds (ser_pos fds ins ++ es) = es
  /\ pick_entries (collect fds (ser_pos fds ins ++ es)) es = Some es.
Proof.
  intros cd fds ins es Hn Hl Hs He Hd. rewrite (collect_flat fds ins es Hn Hl Hs He).
  exact (conj (de_key_unknown_app cd fds ins _ es He) (conj eq_refl (pick_entries_own es Hd))).
Qed.

(** variants by name (external, internal and adjacent tagging in a keyed format) and untagged variants are both
    "the first live variant that answers": a live variant comes back iff no live variant before it answers *)
Theorem first_answering_variant_iff : forall (P : variant_decl -> bool) (vs : list variant_decl) (p : nat) (v : variant_decl),
  nth_error vs p = Some v -> skips_de (vd_attrs v) = false -> P v = true ->
  (first_live P vs 0 = Some p <->
   forall j w, (j < p)%nat -> nth_error vs j = Some w -> skips_de (vd_attrs w) = false -> P w = false).
Proof. exact first_live_iff. Qed.

(** by name a skipped variant in the middle is harmless (contrast [middle_skip_refuted]) *)
Theorem keyed_variant_roundtrip : forall (vs : list variant_decl) (p : nat) (v : variant_decl),
  vnames_ok vs = true -> nth_error vs p = Some v ->
  skips_ser (vd_attrs v) = false -> skips_de (vd_attrs v) = false -> mem (vd_wire v) (vd_de v) = true ->
  exists n, ser_variant_key vs p = Some n /\ de_variant_key vs n = Some p.
Proof. exact keyed_variant_roundtrip_l. Qed.

(** `transparent` hands the single written field through: same tree, hence same bytes and same JSON *)
Theorem transparent_passes_through : forall d k fds ins n v,
  c_transparent d = true -> ser_pos fds ins = [(n, v)] -> ser_container d k fds ins = v.
Proof. exact transparent_wire_l. Qed.

(** every struct declared in the repository (exceptions apart), every assignment of values, fill-in values and
    predicate outcomes to its fields: the fields come back positionally and by key *)
Theorem declared_struct_attr_roundtrip : forall (d : type_decl) (k : skind) (fds : list field_decl) (ins : list fin),
  In d (minus_known declared) -> td_body d = BStruct k fds -> List.length ins = List.length fds ->
  sif_idiom_sound (c_default d) fds ins ->
  de_pos fds ins (ser_pos fds ins) = Some (map in_val ins)
  /\ de_key (c_deny d) (c_default d) fds ins (ser_pos fds ins) = Some (map in_val ins).
Proof. exact declared_struct_attr_roundtrip_l. Qed.

(** every enum declared in the repository (exceptions apart), every variant: the name written selects it *)
Theorem declared_enum_key_roundtrip : forall (d : type_decl) (vs : list variant_decl) (p : nat) (v : variant_decl),
  In d (minus_known declared) -> td_body d = BEnum vs -> nth_error vs p = Some v ->
  exists n, ser_variant_key vs p = Some n /\ de_variant_key vs n = Some p.
Proof. exact declared_enum_key_roundtrip_l. Qed.

(* ---------------------------------------------------------------- (A') the self-describing format *)

(** serde_json's rendering of a value that JSON can express (finite floats, no Some(x) that renders as null,
    string / integer map keys, distinct member names) is read back as that value - under exact number tokens;
    serde_json's own number parser (built without float_roundtrip) adds the ulp slack measured per run *)
Theorem json_decode_encode : forall (v : value) (s : shape),
  json_typed v s = true -> of_json s (to_json v) = Some v.
Proof. exact json_decode_encode_all. Qed.

(** members are found by name: their order does not matter ... *)
Theorem json_member_order_irrelevant : forall n ss (obj obj' : list (string * json)),
  Permutation obj obj' ->
  of_json (SStruct KNamed n ss) (JObj obj) = of_json (SStruct KNamed n ss) (JObj obj').
Proof. exact json_struct_perm_l. Qed.

(** ... a member that is not a field is ignored ... *)
Theorem json_unknown_member_ignored : forall n ss (obj : list (string * json)) k x,
  mem k (map fst ss) = false ->
  of_json (SStruct KNamed n ss) (JObj ((k, x) :: obj)) = of_json (SStruct KNamed n ss) (JObj obj).
Proof. exact json_struct_unknown_l. Qed.

(** ... and a missing member is `None` for an option and an error for anything else *)
Theorem json_missing_member : forall n f s,
  of_json (SStruct KNamed n [(f, s)]) (JObj []) = if is_opt s then Some (VStruct KNamed n [(f, VNone)]) else None.
Proof. exact json_struct_missing_l. Qed.
