(** C19 - property theorems (statements only; proofs are in C19/Proofs.v).

    "Serialised models and parameters deserialise to behaviourally identical values" splits into
    (A) the format is lossless: bincode's encoding of any serde data-model value decodes back to that
        value (for every value, every size), and is injective on the values of a type;
    (B) what each deriving type hands to the format is all of its state: no declaration of the
        repository carries a lossy serde attribute outside the documented exceptions (re-translated
        from the Rust sources on every run), skipped fields come back as their defaults, enum
        variants keep their index exactly when no skipped variant precedes them;
    (C) per run, in Corr.v / the harness: the model of (A) equals bincode's bytes, the model of (B)
        equals the trees serde_derive's impls emit, and restored values behave identically. *)
From Coq Require Import List String NArith ZArith Bool.
From LinfaVerif Require Import C19.Model gen.C19_types C19.Proofs.
Import ListNotations.

(* ---------------------------------------------------------------- (A) the wire format *)

(** lossless: decoding the encoding of a value (followed by anything) at the value's type gives the
    value back and consumes exactly its bytes *)
Theorem decode_encode : forall (s : shape) (v : value) (rest : list N),
  has_shape v s = true -> decode s (encode v ++ rest) = Some (v, rest).
Proof. intros s v rest H. exact (decode_encode_all v s rest H). Qed.

(** injective on the values of one type, even when other bytes follow *)
Theorem encode_injective : forall (s : shape) (v1 v2 : value) (r1 r2 : list N),
  has_shape v1 s = true -> has_shape v2 s = true ->
  encode v1 ++ r1 = encode v2 ++ r2 -> v1 = v2 /\ r1 = r2.
Proof. exact encode_prefix_free. Qed.

(** canonical: on genuine bytes the decoder succeeds on nothing but the encoding of a well-typed value
    (no second byte string decodes to the same value, no junk is accepted) *)
Theorem decode_accepts_exactly_encodings : forall (s : shape) (bs : list N) (v : value) (rest : list N),
  bytes_ok bs ->
  (decode s bs = Some (v, rest) <-> bs = encode v ++ rest /\ has_shape v s = true).
Proof. exact decode_iff. Qed.

(** and every encoding consists of genuine bytes *)
Theorem encode_yields_bytes : forall v : value, bytes_ok (encode v).
Proof. exact encode_bytes_ok. Qed.

(** the equality test used by the run-time oracle on recorded trees decides equality *)
Theorem value_eqb_sound : forall a b : value, value_eqb a b = true -> a = b.
Proof. exact value_eqb_eq. Qed.

(* ---------------------------------------------------------------- (B) the deriving types *)

(** no deriving type of the repository, the two documented exceptions apart, carries a serde attribute
    that drops or rewrites data (skip*, default, with, from/into, asymmetric rename, ...), and each
    derives both directions *)
Theorem all_declared_lossless : forallb lossless_decl (minus_known declared) = true.
Proof. exact all_declared_lossless_c. Qed.

(** ... and the exceptions carry exactly the documented skips and nothing else *)
Theorem known_exceptions_are_exactly_the_documented_skips : forallb decl_lossless_or_known declared = true.
Proof. exact known_exceptions_exact_c. Qed.

(** derived struct impls: without lossy attributes every field value comes back *)
Theorem lossless_struct_roundtrip : forall (fds : list field_decl) (dflt vals : list value),
  List.length vals = List.length fds -> List.length dflt = List.length fds ->
  forallb field_lossless fds = true ->
  de_fields fds dflt (ser_fields fds vals) = Some vals.
Proof. exact lossless_fields_roundtrip. Qed.

(** with skipped fields the value comes back with their defaults: it survives exactly when the
    skipped fields held their defaults (the situation of the vectoriser's function tokenizer) *)
Theorem skip_field_default_roundtrips : forall (fds : list field_decl) (dflt vals : list value),
  List.length vals = List.length fds -> List.length dflt = List.length fds ->
  Forall (fun f => skips_ser (fd_attrs f) = skips_de (fd_attrs f)) fds ->
  de_fields fds dflt (ser_fields fds vals) = Some (merge_defaults fds dflt vals) /\
  (de_fields fds dflt (ser_fields fds vals) = Some vals <-> skipped_hold_defaults fds dflt vals).
Proof.
  intros fds dflt vals Lv Ld Hs. split;
    [exact (de_ser_fields fds dflt vals Lv Ld Hs) | exact (skip_roundtrip_iff fds dflt vals Lv Ld Hs)].
Qed.

(** derived enum impls: a live variant keeps its index through the generated serialiser and
    deserialiser exactly when no skipped variant is declared before it *)
Theorem variant_index_roundtrip_iff : forall (vs : list variant_decl) (p : nat) (v : variant_decl),
  nth_error vs p = Some v -> skips_ser (vd_attrs v) = false -> skips_de (vd_attrs v) = false ->
  ((exists i, ser_variant vs p = Some i /\ de_variant vs i = Some p) <->
   (forall j w, (j < p)%nat -> nth_error vs j = Some w -> skips_de (vd_attrs w) = false)).
Proof. exact variant_roundtrip_iff. Qed.

(** the faithful model of a skipped variant in the middle of an enum violates the property ... *)
Theorem middle_skip_refuted : exists (vs : list variant_decl) (p : nat) (v : variant_decl) (i : N),
  nth_error vs p = Some v /\ skips_ser (vd_attrs v) = false /\ skips_de (vd_attrs v) = false /\
  ser_variant vs p = Some i /\ de_variant vs i <> Some p.
Proof.
  exists ex_error_variants, 4%nat, (nth 4 ex_error_variants (mkV "" "" KUnit [] [])), 4%N.
  vm_compute. repeat split; try reflexivity. discriminate.
Qed.

(** ... and outside that class (skipped variants only at the end) every live variant round-trips *)
Theorem stable_enum_outside_known : forall (vs : list variant_decl) (p : nat) (v : variant_decl),
  index_stable vs = true -> nth_error vs p = Some v ->
  skips_ser (vd_attrs v) = false -> skips_de (vd_attrs v) = false ->
  exists i, ser_variant vs p = Some i /\ de_variant vs i = Some p.
Proof. exact stable_enum_roundtrip. Qed.

(** every enum of the repository is index-stable, the documented exception `Error` apart *)
Theorem declared_enums_stable_outside_known :
  forallb (fun d => enum_stable d || known_type (td_name d)) declared = true.
Proof. exact declared_enums_stable_outside_known_c. Qed.

(* ---------------------------------------------------------------- (A) + (B) end to end *)

(** every struct declared in the repository (exceptions apart), every assignment of values to its
    fields: fields -> tree -> bytes -> tree -> fields is the identity *)
Theorem declared_struct_wire_roundtrip :
  forall (d : type_decl) (k : skind) (fds : list field_decl) (vals dflt : list value)
         (ss : list (string * shape)) (rest : list N),
  In d (minus_known declared) -> td_body d = BStruct k fds ->
  List.length vals = List.length fds -> List.length dflt = List.length fds ->
  has_shape (ser_struct (td_name d) k fds vals) (SStruct k (td_name d) ss) = true ->
  decode (SStruct k (td_name d) ss) (encode (ser_struct (td_name d) k fds vals) ++ rest)
    = Some (VStruct k (td_name d) (ser_fields fds vals), rest)
  /\ de_fields fds dflt (ser_fields fds vals) = Some vals.
Proof. exact declared_struct_roundtrip. Qed.

(** every enum declared in the repository (exceptions apart), every variant: the index written by the
    generated serialiser selects the same variant in the generated deserialiser *)
Theorem declared_enum_variant_roundtrip :
  forall (d : type_decl) (vs : list variant_decl) (p : nat) (v : variant_decl),
  In d (minus_known declared) -> td_body d = BEnum vs -> nth_error vs p = Some v ->
  exists i, ser_variant vs p = Some i /\ de_variant vs i = Some p.
Proof. exact declared_enum_roundtrip. Qed.
