(** C19 - executable definitions only: the self-describing format.

    A Gallina model of how serde_json 1.0 renders the serde data model (the subset the workspace uses:
    structs as objects keyed by field name, externally tagged enums, options as null-or-value, maps with
    string or integer keys, sequences and tuples as arrays) and of the type-directed reading back:
    object members are looked up BY NAME (any order, unknown members ignored, a member that occurs twice
    is an error, a missing member is `None` for an option and an error otherwise).

    Numbers are opaque tokens: the rendering of a float is the float itself ([JNum]); what serde_json's
    text looks like, and how far its own number parser is from the nearest float, is outside the model -
    the correspondence compares tokens by their parsed value within a stated ulp bound ([jmatch],
    [value_close] in Corr.v). A float that is not finite is rendered as `null` and cannot be read back. *)
From Coq Require Import List String Ascii NArith ZArith Bool DecimalString.
From LinfaVerif Require Import C19.Model.
Import ListNotations.
Local Open Scope N_scope.

Inductive json :=
| JNull
| JBool (b : bool)
| JNum (tok : value)                  (* VInt / VF32 / VF64 leaf: the token as its typed parser reads it *)
| JStr (s : string)
| JArr (l : list json)
| JObj (l : list (string * json)).

Definition f64_finite (b : N) : bool := negb ((b / 4503599627370496) mod 2048 =? 2047).
Definition f32_finite (b : N) : bool := negb ((b / 8388608) mod 256 =? 255).

(** integer map keys are written as decimal strings *)
Definition dec_of_Z (z : Z) : string := NilEmpty.string_of_int (Z.to_int z).
Definition Z_of_dec (s : string) : option Z :=
  match NilEmpty.int_of_string s with Some d => Some (Z.of_int d) | None => None end.
Definition key_str (k : value) : string :=
  match k with VStr s => s | VInt _ z => dec_of_Z z | _ => EmptyString end.

(** the payload of a struct or of an enum variant *)
Definition payload_to_json (tj : value -> json) (k : skind) (fs : list (string * value)) : json :=
  match k with
  | KUnit => JNull
  | KNewtype => match fs with [f] => tj (snd f) | _ => JNull end
  | KTuple => JArr (map (fun f => tj (snd f)) fs)
  | KNamed => JObj (map (fun f => (fst f, tj (snd f))) fs)
  end.

Fixpoint to_json (v : value) : json :=
  match v with
  | VBool b => JBool b
  | VInt _ _ => JNum v
  | VF32 b => if f32_finite b then JNum v else JNull
  | VF64 b => if f64_finite b then JNum v else JNull
  | VStr s => JStr s
  | VUnit => JNull
  | VNone => JNull
  | VSome x => to_json x
  | VSeq l => JArr (map to_json l)
  | VTuple l => JArr (map to_json l)
  | VMap l => JObj (map (fun kv => (key_str (fst kv), to_json (snd kv))) l)
  | VStruct k _ fs => payload_to_json to_json k fs
  | VEnum _ _ vn k fs =>
      match k with
      | KUnit => JStr vn
      | _ => JObj [(vn, payload_to_json to_json k fs)]
      end
  end.

(* ------------------------------------------------------------------ reading back *)
Definition jfind (n : string) (obj : list (string * json)) : list json :=
  map snd (filter (fun kv => String.eqb (fst kv) n) obj).
Definition is_opt (s : shape) : bool := match s with SOpt _ => true | _ => false end.

Definition map_opt {A B} (g : A -> option B) : list A -> option (list B) :=
  fix go (l : list A) : option (list B) :=
    match l with
    | [] => Some []
    | a :: r => match g a, go r with Some b, Some m => Some (b :: m) | _, _ => None end
    end.
(** positional members (tuples, tuple structs, tuple variants) *)
Definition zip_dec {S} (dec : S -> json -> option value) : list S -> list json -> option (list value) :=
  fix go (ss : list S) (l : list json) : option (list value) :=
    match ss, l with
    | [], [] => Some []
    | s :: ss', x :: l' => match dec s x, go ss' l' with Some v, Some m => Some (v :: m) | _, _ => None end
    | _, _ => None
    end.
Definition zip_fields (dec : shape -> json -> option value) : list (string * shape) -> list json -> option (list (string * value)) :=
  fix go (ss : list (string * shape)) (l : list json) : option (list (string * value)) :=
    match ss, l with
    | [], [] => Some []
    | s :: ss', x :: l' => match dec (snd s) x, go ss' l' with Some v, Some m => Some ((fst s, v) :: m) | _, _ => None end
    | _, _ => None
    end.
(** named members: looked up by name in the object *)
Definition named_dec (dec : shape -> json -> option value) (obj : list (string * json))
  : list (string * shape) -> option (list (string * value)) :=
  fix go (ss : list (string * shape)) : option (list (string * value)) :=
    match ss with
    | [] => Some []
    | s :: r =>
        match (match jfind (fst s) obj with
               | [x] => dec (snd s) x
               | [] => if is_opt (snd s) then Some VNone else None
               | _ => None
               end), go r with
        | Some v, Some m => Some ((fst s, v) :: m)
        | _, _ => None
        end
    end.
Definition payload_of_json (dec : shape -> json -> option value) (k : skind) (ss : list (string * shape)) (j : json)
  : option (list (string * value)) :=
  match k with
  | KUnit => match j, ss with JNull, [] => Some [] | _, _ => None end
  | KNewtype => match ss with
                | [s] => match dec (snd s) j with Some v => Some [(fst s, v)] | None => None end
                | _ => None
                end
  | KTuple => match j with JArr l => zip_fields dec ss l | _ => None end
  | KNamed => match j with JObj obj => named_dec dec obj ss | _ => None end
  end.

(** the first variant of that name *)
Definition find_variant {T} (vn : string) : list (option (string * skind * T)) -> N -> option (N * skind * T) :=
  fix go (vs : list (option (string * skind * T))) (i : N) : option (N * skind * T) :=
    match vs with
    | [] => None
    | Some (n, k, t) :: r => if String.eqb n vn then Some (i, k, t) else go r (N.succ i)
    | None :: r => go r (N.succ i)
    end.
Definition variant_dec (dec : shape -> json -> option value) (name vn : string) (j : option json)
  : list (option (string * skind * list (string * shape))) -> N -> option value :=
  fix go (vs : list (option (string * skind * list (string * shape)))) (i : N) : option value :=
    match vs with
    | [] => None
    | None :: r => go r (N.succ i)
    | Some (n, k, ss) :: r =>
        if String.eqb n vn then
          match k, j with
          | KUnit, None => match ss with [] => Some (VEnum name i vn KUnit []) | _ => None end
          | KUnit, Some _ => None
          | _, Some p => match payload_of_json dec k ss p with Some fs => Some (VEnum name i vn k fs) | None => None end
          | _, None => None
          end
        else go r (N.succ i)
    end.

Definition key_dec (ks : shape) (k : string) : option value :=
  match ks with
  | SStr => Some (VStr k)
  | SInt ik => match Z_of_dec k with Some z => if in_range ik z then Some (VInt ik z) else None | None => None end
  | _ => None
  end.

Fixpoint of_json (s : shape) (j : json) {struct s} : option value :=
  match s with
  | SBool => match j with JBool b => Some (VBool b) | _ => None end
  | SInt k => match j with JNum (VInt _ z) => if in_range k z then Some (VInt k z) else None | _ => None end
  | SF32 => match j with JNum (VF32 b) => Some (VF32 b) | _ => None end
  | SF64 => match j with JNum (VF64 b) => Some (VF64 b) | _ => None end
  | SStr => match j with JStr x => Some (VStr x) | _ => None end
  | SUnit => match j with JNull => Some VUnit | _ => None end
  | SOpt os =>
      match j with
      | JNull => Some VNone
      | _ => match os with
             | Some s' => match of_json s' j with Some v => Some (VSome v) | None => None end
             | None => None
             end
      end
  | SSeq os =>
      match j with
      | JArr l => match os with
                  | Some s' => match map_opt (of_json s') l with Some m => Some (VSeq m) | None => None end
                  | None => match l with [] => Some (VSeq []) | _ => None end
                  end
      | _ => None
      end
  | SMap okv =>
      match j with
      | JObj obj =>
          match okv with
          | Some (ks, vs) =>
              match map_opt (fun kv : string * json =>
                               match key_dec ks (fst kv), of_json vs (snd kv) with
                               | Some k, Some v => Some (k, v)
                               | _, _ => None
                               end) obj with
              | Some m => Some (VMap m)
              | None => None
              end
          | None => match obj with [] => Some (VMap []) | _ => None end
          end
      | _ => None
      end
  | STuple ss => match j with
                 | JArr l => match zip_dec of_json ss l with Some m => Some (VTuple m) | None => None end
                 | _ => None
                 end
  | SStruct k name ss =>
      match payload_of_json of_json k ss j with Some fs => Some (VStruct k name fs) | None => None end
  | SEnum name vs =>
      match j with
      | JStr vn => variant_dec of_json name vn None vs 0
      | JObj [(vn, p)] => variant_dec of_json name vn (Some p) vs 0
      | _ => None
      end
  end.

(* ------------------------------------------------------------------ when the rendering is faithful *)
Fixpoint nodup_str (l : list string) : bool :=
  match l with [] => true | x :: r => negb (mem x r) && nodup_str r end.
Definition jnull (j : json) : bool := match j with JNull => true | _ => false end.
Definition payload_wf (k : skind) (fs : list (string * value)) : bool :=
  match k with
  | KUnit => match fs with [] => true | _ => false end
  | KNewtype => match fs with [_] => true | _ => false end
  | KTuple => true
  | KNamed => nodup_str (map fst fs)
  end.
Definition key_ok (k : value) : bool := match k with VStr _ | VInt _ _ => true | _ => false end.

Definition key_typed (k : value) (ks : shape) : bool :=
  match k, ks with
  | VStr _, SStr => true
  | VInt ik z, SInt ik' => ikind_eqb ik ik' && in_range ik z
  | _, _ => false
  end.

(** the first variant of that name is the one at index [i] (shapes inferred from values name one variant) *)
(** [json_typed v s]: v is a value of shape s that JSON renders faithfully - finite floats; no `Some(x)` whose
    rendering is `null` (x = None, unit, a unit struct, a float that is not finite); map keys are strings or
    integers; payloads have the arity of their kind and distinct member names; the variant is the first of its
    name in the shape *)
Fixpoint json_typed (v : value) (s : shape) {struct v} : bool :=
  match v, s with
  | VBool _, SBool => true
  | VInt k z, SInt k' => ikind_eqb k k' && in_range k z
  | VF32 b, SF32 => f32_finite b
  | VF64 b, SF64 => f64_finite b
  | VStr _, SStr => true
  | VUnit, SUnit => true
  | VNone, SOpt _ => true
  | VSome x, SOpt (Some s') => json_typed x s' && negb (jnull (to_json x))
  | VSeq l, SSeq os =>
      match os with Some s' => forallb (fun x => json_typed x s') l | None => is_nil l end
  | VMap l, SMap okv =>
      match okv with
      | Some (ks, vs) => forallb (fun kv => key_typed (fst kv) ks && json_typed (snd kv) vs) l
      | None => is_nil l
      end
  | VTuple l, STuple ss => forall2b json_typed l ss
  | VStruct k n fs, SStruct k' n' ss =>
      skind_eqb k k' && String.eqb n n' && payload_wf k fs && forall2b (field_shape json_typed) fs ss
  | VEnum n i vn k fs, SEnum n' vs =>
      String.eqb n n' && payload_wf k fs &&
      match find_variant vn vs 0 with
      | Some (i', k', ss) => (i' =? i) && skind_eqb k k' && forall2b (field_shape json_typed) fs ss
      | None => false
      end
  | _, _ => false
  end.

(* ------------------------------------------------------------------ the text serde_json wrote, parsed *)
(** a number token seen through the integer parser (when the literal is integral), the f64 parser and
    the f32 parser *)
Inductive pjson :=
| PNull | PBool (b : bool) | PNum (i : option Z) (f64 f32 : N) | PStr (s : string)
| PArr (l : list pjson) | PObj (l : list (string * pjson)).

(** floats as ordered integers: adjacent floats are adjacent integers *)
Definition ford (half : N) (b : N) : Z := if b <? half then Z.of_N b else (Z.of_N half - 1 - Z.of_N b)%Z.
Definition ulp_dist64 (a b : N) : Z := Z.abs (ford 9223372036854775808 a - ford 9223372036854775808 b).
Definition ulp_dist32 (a b : N) : Z := Z.abs (ford 2147483648 a - ford 2147483648 b).

Fixpoint jmatch (ulps : Z) (j : json) (p : pjson) {struct j} : bool :=
  match j, p with
  | JNull, PNull => true
  | JBool a, PBool b => Bool.eqb a b
  | JNum (VInt _ z), PNum (Some z') _ _ => Z.eqb z z'
  | JNum (VF64 b), PNum _ b' _ => Z.leb (ulp_dist64 b b') ulps
  | JNum (VF32 b), PNum _ _ b' => Z.leb (ulp_dist32 b b') ulps
  | JStr a, PStr b => String.eqb a b
  | JArr l, PArr m => forall2b (jmatch ulps) l m
  | JObj l, PObj m => forall2b (fun a b => String.eqb (fst a) (fst b) && jmatch ulps (snd a) (snd b)) l m
  | _, _ => false
  end.

(** equality of trees up to [ulps] on every float *)
Fixpoint value_close (ulps : Z) (a b : value) {struct a} : bool :=
  match a, b with
  | VF32 x, VF32 y => Z.leb (ulp_dist32 x y) ulps
  | VF64 x, VF64 y => Z.leb (ulp_dist64 x y) ulps
  | VBool x, VBool y => Bool.eqb x y
  | VInt k x, VInt k' y => ikind_eqb k k' && Z.eqb x y
  | VStr x, VStr y => String.eqb x y
  | VUnit, VUnit => true
  | VNone, VNone => true
  | VSome x, VSome y => value_close ulps x y
  | VSeq x, VSeq y => forall2b (value_close ulps) x y
  | VMap x, VMap y => forall2b (fun u w => value_close ulps (fst u) (fst w) && value_close ulps (snd u) (snd w)) x y
  | VTuple x, VTuple y => forall2b (value_close ulps) x y
  | VStruct k n x, VStruct k' n' y =>
      skind_eqb k k' && String.eqb n n' && forall2b (fun u w => String.eqb (fst u) (fst w) && value_close ulps (snd u) (snd w)) x y
  | VEnum n i vn k x, VEnum n' i' vn' k' y =>
      String.eqb n n' && (i =? i') && String.eqb vn vn' && skind_eqb k k'
      && forall2b (fun u w => String.eqb (fst u) (fst w) && value_close ulps (snd u) (snd w)) x y
  | _, _ => false
  end.
