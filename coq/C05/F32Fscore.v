(** C05 - a relative-error bound for the binary32 F1 score of a binary confusion matrix of integer
    counts: f1_score() = f_score(1.0) evaluates ((1 + 1*1) * (p * r)) / (1*1 * p + r) in binary32 from
    the correctly rounded precision p and recall r; every intermediate result is positive and in the
    normal range, so each operation contributes a factor (1 + d), |d| <= 2^-24 (Flocq's
    relative_error_N_FLT_ex), and the product of the seven factors is within 8 * 2^-24 of 1 (elementary bounds, no reflexive tactic: the file is re-checked by coqchk in the thorough tier). *)
From Coq Require Import List NArith ZArith Bool Lia Reals Lra Psatz SpecFloat.
From Flocq Require Import Core.Core IEEE754.BinarySingleNaN.
From Flocq.Prop Require Import Relative.
From LinfaVerif Require Import Common.Num Common.NdSum Common.B32 C05.Model C05.F32Exact C05.Proofs C05.F32Scores.
Import ListNotations.
Local Open Scope R_scope.

Local Existing Instance Hprec32.
Local Existing Instance Hmax32.
Local Notation bf32 := (binary_float p32 e32).
Local Notation fexp32 := (SpecFloat.fexp p32 e32).
Local Notation rnd32 := (round radix2 fexp32 (round_mode mode_NE)).

Lemma SFmul_equiv32 (x y : bf32) : SFmul p32 e32 (B2SF x) (B2SF y) = B2SF (Bmult mode_NE x y).
Proof.
  destruct x as [sx|sx| |sx mx ex Bx], y as [sy|sy| |sy my ey By]; try now trivial.
  simpl. rewrite B2SF_SF2B. apply binary_round_aux_equiv32.
Qed.

(** * One rounding of a positive real in [2^-126, 2^100] *)
Definition lo32 : R := bpow radix2 (-126).

Lemma u32_val : u32 = / 16777216.
Proof. unfold u32. change (bpow radix2 (-24)) with (/ IZR (Z.pow_pos radix2 24)). f_equal. Qed.
Lemma lo32_pos : 0 < lo32.
Proof. apply bpow_gt_0. Qed.

Lemma rnd32_rel (x : R) : lo32 <= x ->
  exists d, Rabs d <= u32 /\ rnd32 x = x * (1 + d).
Proof.
  intros Hx.
  destruct (relative_error_N_FLT_ex radix2 (-149) 24 ltac:(reflexivity) (fun z => negb (Z.even z)) x) as (d & Hd & E).
  - rewrite Rabs_pos_eq by (pose proof lo32_pos; lra). exact Hx.
  - exists d. split; [|exact E].
    apply Rle_trans with (1 := Hd). unfold u32. change (/ 2) with (bpow radix2 (-1)). rewrite <- bpow_plus. apply bpow_le. lia.
Qed.

Lemma rnd32_mono x y : x <= y -> rnd32 x <= rnd32 y.
Proof. intros H. apply round_le; [apply (fexp_correct p32 e32 Hprec32) | apply valid_rnd_round_mode | exact H]. Qed.

Lemma rnd32_int (z : Z) : (Z.abs z <= 16777216)%Z -> rnd32 (IZR z) = IZR z.
Proof. exact (int_round' z). Qed.

Definition hi32 : R := bpow radix2 100.
Lemma hi32_val : hi32 = 1267650600228229401496703205376.
Proof. unfold hi32. change (bpow radix2 100) with (IZR (Z.pow_pos radix2 100)). f_equal. Qed.
Lemma lo32_val : lo32 = / 85070591730234615865843651857942052864.
Proof. unfold lo32. change (bpow radix2 (-126)) with (/ IZR (Z.pow_pos radix2 126)). f_equal. Qed.

Lemma rnd32_hi : rnd32 hi32 = hi32.
Proof.
  apply round_generic; [apply valid_rnd_round_mode|]. unfold hi32.
  apply generic_format_bpow. unfold fexp32, SpecFloat.fexp, SpecFloat.emin, p32, e32. lia.
Qed.

Lemma rnd32_range (x : R) : 0 <= x <= hi32 ->
  0 <= rnd32 x <= hi32 /\ Rlt_bool (Rabs (rnd32 x)) (bpow radix2 e32) = true.
Proof.
  intros [H0 H4].
  assert (A : 0 <= rnd32 x). { rewrite <- (rnd32_int 0) by lia. apply rnd32_mono. exact H0. }
  assert (B : rnd32 x <= hi32). { rewrite <- rnd32_hi. apply rnd32_mono. exact H4. }
  split; [split; assumption|].
  apply Rlt_bool_true. rewrite Rabs_pos_eq by exact A.
  apply Rle_lt_trans with (1 := B). unfold hi32. apply bpow_lt. unfold e32. lia.
Qed.

(** * The three operations on finite positive data whose exact result lies in [2^-126, 2^100] *)
Lemma Bmult_rel (x y : bf32) : is_finite x = true -> is_finite y = true ->
  lo32 <= B2R x * B2R y <= hi32 ->
  is_finite (Bmult mode_NE x y) = true /\
  exists d, Rabs d <= u32 /\ B2R (Bmult mode_NE x y) = B2R x * B2R y * (1 + d).
Proof.
  intros Fx Fy [Hlo Hhi]. pose proof lo32_pos as Hp.
  destruct (rnd32_range (B2R x * B2R y)) as [_ Hs]; [lra|].
  generalize (Bmult_correct p32 e32 Hprec32 Hmax32 mode_NE x y). rewrite Hs. intros (E & Fin & _).
  split; [rewrite Fin, Fx, Fy; reflexivity|].
  destruct (rnd32_rel _ Hlo) as (d & Hd & Ed). exists d. split; [exact Hd|]. rewrite E. exact Ed.
Qed.

Lemma Bplus_rel (x y : bf32) : is_finite x = true -> is_finite y = true ->
  lo32 <= B2R x + B2R y <= hi32 ->
  is_finite (Bplus mode_NE x y) = true /\
  exists d, Rabs d <= u32 /\ B2R (Bplus mode_NE x y) = (B2R x + B2R y) * (1 + d).
Proof.
  intros Fx Fy [Hlo Hhi]. pose proof lo32_pos as Hp.
  destruct (rnd32_range (B2R x + B2R y)) as [_ Hs]; [lra|].
  generalize (Bplus_correct p32 e32 Hprec32 Hmax32 mode_NE x y Fx Fy). rewrite Hs. intros (E & Fin & _).
  split; [exact Fin|].
  destruct (rnd32_rel _ Hlo) as (d & Hd & Ed). exists d. split; [exact Hd|]. rewrite E. exact Ed.
Qed.

Lemma Bdiv_rel (x y : bf32) : is_finite x = true -> B2R y <> 0 ->
  lo32 <= B2R x / B2R y <= hi32 ->
  is_finite (Bdiv mode_NE x y) = true /\
  exists d, Rabs d <= u32 /\ B2R (Bdiv mode_NE x y) = B2R x / B2R y * (1 + d).
Proof.
  intros Fx Hy [Hlo Hhi]. pose proof lo32_pos as Hp.
  destruct (rnd32_range (B2R x / B2R y)) as [_ Hs]; [lra|].
  generalize (Bdiv_correct p32 e32 Hprec32 Hmax32 mode_NE x y Hy). rewrite Hs. intros (E & Fin & _).
  split; [rewrite Fin; exact Fx|].
  destruct (rnd32_rel _ Hlo) as (d & Hd & Ed). exists d. split; [exact Hd|]. rewrite E. exact Ed.
Qed.

(** * Real-number facts *)
(* a positive combination of two relatively perturbed positive numbers is a relatively perturbed sum *)
Lemma convex_rel (P R e1 e2 E : R) : 0 < P -> 0 < R -> Rabs e1 <= E -> Rabs e2 <= E ->
  exists d, Rabs d <= E /\ P * (1 + e1) + R * (1 + e2) = (P + R) * (1 + d).
Proof.
  intros HP HR H1 H2. exists ((P * e1 + R * e2) / (P + R)). split.
  - apply Rabs_le_inv in H1. apply Rabs_le_inv in H2. apply Rabs_le.
    assert (0 < P + R) by lra.
    split.
    + apply (Rmult_le_reg_r (P + R)); [lra|]. unfold Rdiv. rewrite Rmult_assoc, Rinv_l, Rmult_1_r by lra. nra.
    + apply (Rmult_le_reg_r (P + R)); [lra|]. unfold Rdiv. rewrite Rmult_assoc, Rinv_l, Rmult_1_r by lra. nra.
  - field. lra.
Qed.

Lemma pos_mul_range (a b c d x y : R) : 0 < a -> 0 < c -> a <= x <= b -> c <= y <= d -> a * c <= x * y <= b * d.
Proof. intros Ha Hc [H1 H2] [H3 H4]. split; nra. Qed.

Lemma pos_rel_range (a b x e : R) : 0 < a -> a <= x <= b -> Rabs e <= / 16777216 ->
  a * (15 / 16) <= x * (1 + e) <= b * (17 / 16).
Proof. intros Ha [H1 H2] He. apply Rabs_le_inv in He. split; nra. Qed.

Lemma pos_div_range (a b c d x y : R) : 0 < a -> 0 < c -> a <= x <= b -> c <= y <= d -> a / d <= x / y <= b / c.
Proof.
  intros Ha Hc [H1 H2] [H3 H4].
  assert (Hy : 0 < y) by lra. assert (Hd : 0 < d) by lra.
  split.
  - apply (Rmult_le_reg_r (d * y)); [nra|]. replace (a / d * (d * y)) with (a * y) by (field; lra).
    replace (x / y * (d * y)) with (x * d) by (field; lra). nra.
  - apply (Rmult_le_reg_r (c * y)); [nra|]. replace (x / y * (c * y)) with (x * c) by (field; lra).
    replace (b / c * (c * y)) with (b * y) by (field; lra). nra.
Qed.

(* (1+u)^5 <= (1+8u)(1-u)^2 and (1-8u)(1+u)^2 <= (1-u)^5 for small u *)
Lemma poly_up (u : R) : 0 <= u <= / 100 -> (1 + u) ^ 5 <= (1 + 8 * u) * (1 - u) ^ 2.
Proof.
  intros [H0 H1].
  assert (E : (1 + 8 * u) * (1 - u) ^ 2 - (1 + u) ^ 5 = u * (1 - 25 * u - 2 * u ^ 2 - 5 * u ^ 3 - u ^ 4)) by ring.
  assert (0 <= u * (1 - 25 * u - 2 * u ^ 2 - 5 * u ^ 3 - u ^ 4)); [|lra].
  apply Rmult_le_pos; [exact H0|].
  assert (u ^ 2 <= u) by nra. assert (u ^ 3 <= u) by nra. assert (u ^ 4 <= u) by nra. lra.
Qed.
Lemma poly_down (u : R) : 0 <= u <= / 100 -> (1 - 8 * u) * (1 + u) ^ 2 <= (1 - u) ^ 5.
Proof.
  intros [H0 H1].
  assert (E : (1 - u) ^ 5 - (1 - 8 * u) * (1 + u) ^ 2 = u * (1 + 25 * u - 2 * u ^ 2 + 5 * u ^ 3 - u ^ 4)) by ring.
  assert (0 <= u * (1 + 25 * u - 2 * u ^ 2 + 5 * u ^ 3 - u ^ 4)); [|lra].
  apply Rmult_le_pos; [exact H0|].
  assert (0 <= u ^ 2 <= u) by nra. assert (0 <= u ^ 3 <= u) by nra. assert (0 <= u ^ 4 <= u) by nra. lra.
Qed.

Lemma seven_factors (d1 d2 d3 d4 d5 d6 d7 : R) :
  Rabs d1 <= / 16777216 -> Rabs d2 <= / 16777216 -> Rabs d3 <= / 16777216 -> Rabs d4 <= / 16777216 ->
  Rabs d5 <= / 16777216 -> Rabs d6 <= / 16777216 -> Rabs d7 <= / 16777216 ->
  Rabs ((1 + d1) * (1 + d2) * (1 + d3) * (1 + d7) * (1 + d5) / ((1 + d6) * (1 + d4)) - 1) <= 8 / 16777216.
Proof.
  intros H1 H2 H3 H4 H5 H6 H7.
  apply Rabs_le_inv in H1. apply Rabs_le_inv in H2. apply Rabs_le_inv in H3. apply Rabs_le_inv in H4.
  apply Rabs_le_inv in H5. apply Rabs_le_inv in H6. apply Rabs_le_inv in H7.
  set (u := / 16777216) in *.
  assert (Hu : 0 <= u <= / 100) by (unfold u; lra).
  assert (Hlo : 0 < 1 - u) by lra.
  assert (F1 : 1 - u <= 1 + d1 <= 1 + u) by lra. assert (F2 : 1 - u <= 1 + d2 <= 1 + u) by lra.
  assert (F3 : 1 - u <= 1 + d3 <= 1 + u) by lra. assert (F4 : 1 - u <= 1 + d4 <= 1 + u) by lra.
  assert (F5 : 1 - u <= 1 + d5 <= 1 + u) by lra. assert (F6 : 1 - u <= 1 + d6 <= 1 + u) by lra.
  assert (F7 : 1 - u <= 1 + d7 <= 1 + u) by lra.
  pose proof (pos_mul_range _ _ _ _ _ _ Hlo Hlo F1 F2) as G2.
  assert (Hlo2 : 0 < (1 - u) * (1 - u)) by nra.
  pose proof (pos_mul_range _ _ _ _ _ _ Hlo2 Hlo G2 F3) as G3.
  assert (Hlo3 : 0 < (1 - u) * (1 - u) * (1 - u)) by nra.
  pose proof (pos_mul_range _ _ _ _ _ _ Hlo3 Hlo G3 F7) as G4.
  assert (Hlo4 : 0 < (1 - u) * (1 - u) * (1 - u) * (1 - u)) by nra.
  pose proof (pos_mul_range _ _ _ _ _ _ Hlo4 Hlo G4 F5) as G5.
  pose proof (pos_mul_range _ _ _ _ _ _ Hlo Hlo F6 F4) as GD.
  set (Nn := (1 + d1) * (1 + d2) * (1 + d3) * (1 + d7) * (1 + d5)) in *.
  set (Dd := (1 + d6) * (1 + d4)) in *.
  assert (HD : 0 < Dd) by nra.
  pose proof (poly_up u Hu) as PU. pose proof (poly_down u Hu) as PD.
  assert (Eu5 : (1 + u) ^ 5 = (1 + u) * (1 + u) * (1 + u) * (1 + u) * (1 + u)) by ring.
  assert (El5 : (1 - u) ^ 5 = (1 - u) * (1 - u) * (1 - u) * (1 - u) * (1 - u)) by ring.
  assert (Eu2 : (1 + u) ^ 2 = (1 + u) * (1 + u)) by ring.
  assert (El2 : (1 - u) ^ 2 = (1 - u) * (1 - u)) by ring.
  assert (Up : Nn <= (1 + 8 * u) * Dd).
  { apply Rle_trans with ((1 + u) ^ 5); [rewrite Eu5; lra|].
    apply Rle_trans with (1 := PU). rewrite El2. apply Rmult_le_compat_l; lra. }
  assert (Lo : (1 - 8 * u) * Dd <= Nn).
  { apply Rle_trans with ((1 - u) ^ 5); [|rewrite El5; lra].
    apply Rle_trans with (2 := PD). rewrite Eu2. apply Rmult_le_compat_l; lra. }
  apply Rabs_le. replace (8 / 16777216) with (8 * u) by (unfold u; lra).
  split.
  - apply (Rmult_le_reg_r Dd); [exact HD|]. replace ((Nn / Dd - 1) * Dd) with (Nn - Dd) by (field; lra). lra.
  - apply (Rmult_le_reg_r Dd); [exact HD|]. replace ((Nn / Dd - 1) * Dd) with (Nn - Dd) by (field; lra). lra.
Qed.

Lemma f1_assemble (P R d1 d2 d3 d4 d5 d6 d7 : R) : 0 < P -> 0 < R ->
  Rabs d1 <= / 16777216 -> Rabs d2 <= / 16777216 -> Rabs d3 <= / 16777216 -> Rabs d4 <= / 16777216 ->
  Rabs d5 <= / 16777216 -> Rabs d6 <= / 16777216 -> Rabs d7 <= / 16777216 ->
  P * (1 + d1) + R * (1 + d2) = (P + R) * (1 + d6) ->
  let p := P * (1 + d1) in let r := R * (1 + d2) in
  let t6 := 2 * (p * r * (1 + d3)) * (1 + d7) / ((p + r) * (1 + d4)) * (1 + d5) in
  Rabs (t6 - 2 * P * R / (P + R)) <= 8 / 16777216 * (2 * P * R / (P + R)).
Proof.
  intros HP HR H1 H2 H3 H4 H5 H6 H7 E p r t6.
  set (F := 2 * P * R / (P + R)).
  assert (HF : 0 < F). { unfold F. apply Rdiv_lt_0_compat; nra. }
  set (rho := (1 + d1) * (1 + d2) * (1 + d3) * (1 + d7) * (1 + d5) / ((1 + d6) * (1 + d4))).
  assert (N6 : 1 + d6 <> 0). { apply Rabs_le_inv in H6. lra. }
  assert (N4 : 1 + d4 <> 0). { apply Rabs_le_inv in H4. lra. }
  assert (Et : t6 = F * rho).
  { unfold t6, p, r. rewrite E. unfold F, rho. field. repeat split; lra. }
  rewrite Et. replace (F * rho - F) with (F * (rho - 1)) by ring.
  rewrite Rabs_mult, (Rabs_pos_eq F) by lra.
  rewrite (Rmult_comm (8 / 16777216) F). apply Rmult_le_compat_l; [lra|].
  apply seven_factors; assumption.
Qed.

(** * f_score(1) of a binary matrix of counts [[a, c], [b, _]]: a >= 1 true positives *)
Definition Btwo : bf32 := @B754_finite p32 e32 false 8388608 (-22) (eq_refl true).
Lemma B2R_Btwo : B2R Btwo = 2.
Proof. unfold Btwo, B2R, F2R. simpl. lra. Qed.

Lemma Bmult_one_l (x : bf32) : is_finite x = true -> 0 <= B2R x <= hi32 ->
  B2R (Bmult mode_NE Bone x) = B2R x /\ is_finite (Bmult mode_NE Bone x) = true.
Proof.
  intros Fx Hx.
  assert (Er : rnd32 (B2R Bone * B2R x) = B2R x).
  { rewrite B2R_Bone, Rmult_1_l. apply round_generic; [apply valid_rnd_round_mode | apply generic_format_B2R]. }
  generalize (Bmult_correct p32 e32 Hprec32 Hmax32 mode_NE Bone x). rewrite Er.
  rewrite Rlt_bool_true.
  - intros (E & Fin & _). split; [exact E | rewrite Fin, Fx; reflexivity].
  - rewrite Rabs_pos_eq by lra. apply Rle_lt_trans with hi32; [lra|]. unfold hi32. apply bpow_lt. unfold e32. lia.
Qed.

Section F1.
Variables a b c : N.
Variable x11 : spec_float.      (* the fourth cell is not read by f_score *)
Hypothesis Ha : (1 <= a)%N.
Hypothesis Hab : (a + b <= B24)%N.
Hypothesis Hac : (a + c <= B24)%N.

Let P : R := IZR (Z.of_N a) / IZR (Z.of_N (a + b)).
Let Rc : R := IZR (Z.of_N a) / IZR (Z.of_N (a + c)).
Let pB : bf32 := Bdiv mode_NE (Bnat a) (Bnat (a + b)).
Let rB : bf32 := Bdiv mode_NE (Bnat a) (Bnat (a + c)).

Lemma quotient_range (k : N) : (a <= k)%N -> (k <= B24)%N ->
  / 16777216 <= IZR (Z.of_N a) / IZR (Z.of_N k) <= 1.
Proof.
  intros H1 H2. unfold B24 in *.
  assert (A1 : 1 <= IZR (Z.of_N a)) by (apply IZR_le; lia).
  assert (A2 : IZR (Z.of_N a) <= IZR (Z.of_N k)) by (apply IZR_le; lia).
  assert (A3 : IZR (Z.of_N k) <= 16777216) by (apply IZR_le; lia).
  assert (K : 0 < IZR (Z.of_N k)) by lra.
  split.
  - apply Rle_trans with (1 * / IZR (Z.of_N k)).
    + rewrite Rmult_1_l. apply Rinv_le_contravar; lra.
    + unfold Rdiv. apply Rmult_le_compat_r; [left; apply Rinv_0_lt_compat; exact K | exact A1].
  - apply (Rmult_le_reg_r (IZR (Z.of_N k))); [exact K|]. unfold Rdiv. rewrite Rmult_assoc, Rinv_l, Rmult_1_r by lra. lra.
Qed.

Lemma quotient_float (k : N) : (a <= k)%N -> (k <= B24)%N ->
  is_finite (Bdiv mode_NE (Bnat a) (Bnat k)) = true /\
  exists d, Rabs d <= / 16777216 /\
    B2R (Bdiv mode_NE (Bnat a) (Bnat k)) = IZR (Z.of_N a) / IZR (Z.of_N k) * (1 + d).
Proof.
  intros H1 H2.
  destruct (Bnat_correct' a ltac:(unfold B24 in *; lia)) as (A1 & A2 & _).
  destruct (Bnat_correct' k H2) as (K1 & K2 & _).
  destruct (quotient_range k H1 H2) as [Q1 Q2].
  assert (Kpos : 0 < IZR (Z.of_N k)) by (apply IZR_lt; lia).
  destruct (Bdiv_rel (Bnat a) (Bnat k) A2) as (Fin & d & Hd & E).
  - rewrite K1. lra.
  - rewrite A1, K1. rewrite lo32_val, hi32_val. split; [|lra].
    apply Rle_trans with (2 := Q1). lra.
  - split; [exact Fin|]. exists d. rewrite u32_val in Hd. split; [exact Hd|]. rewrite E, A1, K1. reflexivity.
Qed.

Theorem f1_binary_bound :
  let F := fbeta_spec R_ops 1 P Rc in
  let r := f_score B32_ops (one B32_ops)
             [[of_N B32_ops a; of_N B32_ops c]; [of_N B32_ops b; x11]] in
  is_finite_SF r = true /\ Rabs (R32 r - F) <= 8 * u32 * F.
Proof.
  intros F r.
  destruct (quotient_float (a + b) ltac:(lia) Hab) as (Fp & d1 & H1 & Ep). fold pB P in Fp, Ep.
  destruct (quotient_float (a + c) ltac:(lia) Hac) as (Fr & d2 & H2 & Er). fold rB Rc in Fr, Er.
  destruct (quotient_range (a + b) ltac:(lia) Hab) as [P1 P2]. fold P in P1, P2.
  destruct (quotient_range (a + c) ltac:(lia) Hac) as [R1 R2]. fold Rc in R1, R2.
  assert (HP : 0 < P) by lra. assert (HR : 0 < Rc) by lra.
  pose proof (Rabs_le_inv _ _ H1) as I1. pose proof (Rabs_le_inv _ _ H2) as I2.
  set (p := B2R pB) in *. set (q := B2R rB) in *.
  assert (Bp : / 33554432 <= p <= 17 / 16).
  { rewrite Ep. pose proof (pos_rel_range (/ 16777216) 1 P d1 ltac:(lra) (conj P1 P2) H1). lra. }
  assert (Bq : / 33554432 <= q <= 17 / 16).
  { rewrite Er. pose proof (pos_rel_range (/ 16777216) 1 Rc d2 ltac:(lra) (conj R1 R2) H2). lra. }
  pose proof (pos_mul_range (/ 33554432) (17 / 16) (/ 33554432) (17 / 16) p q ltac:(lra) ltac:(lra) Bp Bq) as Bpq.
  (* p * r *)
  destruct (Bmult_rel pB rB Fp Fr) as (F2 & d3 & H3 & E2).
  { fold p q. rewrite lo32_val, hi32_val. lra. }
  fold p q in E2. rewrite u32_val in H3. pose proof (Rabs_le_inv _ _ H3) as I3.
  set (t2 := B2R (Bmult mode_NE pB rB)) in *.
  assert (B2 : / 2251799813685248 <= t2 <= 5 / 4).
  { rewrite E2. pose proof (pos_rel_range (/ 33554432 * / 33554432) (17 / 16 * (17 / 16)) (p * q) d3 ltac:(lra) Bpq H3). lra. }
  (* 2 * (p * r) *)
  destruct (Bmult_rel Btwo (Bmult mode_NE pB rB) (eq_refl true) F2) as (F3 & d7 & H7 & E3).
  { rewrite B2R_Btwo. fold t2. rewrite lo32_val, hi32_val. lra. }
  rewrite B2R_Btwo in E3. fold t2 in E3. rewrite u32_val in H7. pose proof (Rabs_le_inv _ _ H7) as I7.
  set (t3 := B2R (Bmult mode_NE Btwo (Bmult mode_NE pB rB))) in *.
  assert (B3 : / 2251799813685248 <= t3 <= 3).
  { rewrite E3. assert (B22 : 2 * / 2251799813685248 <= 2 * t2 <= 5 / 2) by lra.
    pose proof (pos_rel_range (2 * / 2251799813685248) (5 / 2) (2 * t2) d7 ltac:(lra) B22 H7). lra. }
  (* 1 * p, exactly *)
  destruct (Bmult_one_l pB Fp) as (E4 & F4). { fold p. rewrite hi32_val. lra. }
  fold p in E4.
  (* 1 * p + r *)
  destruct (Bplus_rel (Bmult mode_NE Bone pB) rB F4 Fr) as (F5 & d4 & H4 & E5).
  { rewrite E4. fold q. rewrite lo32_val, hi32_val. lra. }
  rewrite E4 in E5. fold q in E5. rewrite u32_val in H4. pose proof (Rabs_le_inv _ _ H4) as I4.
  set (t5 := B2R (Bplus mode_NE (Bmult mode_NE Bone pB) rB)) in *.
  assert (B5 : / 33554432 <= t5 <= 3).
  { rewrite E5. assert (Bs : 2 * / 33554432 <= p + q <= 17 / 8) by lra.
    pose proof (pos_rel_range (2 * / 33554432) (17 / 8) (p + q) d4 ltac:(lra) Bs H4). lra. }
  (* the division *)
  destruct (Bdiv_rel (Bmult mode_NE Btwo (Bmult mode_NE pB rB)) (Bplus mode_NE (Bmult mode_NE Bone pB) rB) F3) as (F6 & d5 & H5 & E6).
  { fold t5. lra. }
  { fold t3 t5. rewrite lo32_val, hi32_val.
    pose proof (pos_div_range (/ 2251799813685248) 3 (/ 33554432) 3 t3 t5 ltac:(lra) ltac:(lra) B3 B5) as Bd.
    replace (3 / / 33554432) with 100663296 in Bd by (field; lra). lra. }
  fold t3 t5 in E6. rewrite u32_val in H5.
  (* the SpecFloat expression is the image of the Flocq one *)
  assert (Esf : r = B2SF (Bdiv mode_NE (Bmult mode_NE Btwo (Bmult mode_NE pB rB)) (Bplus mode_NE (Bmult mode_NE Bone pB) rB))).
  { unfold r, f_score, precision, recall, is_binary. cbn [length Nat.eqb].
    unfold precision_bin, recall_bin, get. cbn [nth].
    rewrite !f32_add_int by (unfold B24 in *; lia).
    change (mul B32_ops (one B32_ops) (one B32_ops)) with (B2SF Bone).
    change (add B32_ops (one B32_ops) (B2SF Bone)) with (B2SF Btwo).
    rewrite !of_N_Bnat. change (div B32_ops) with (SFdiv p32 e32). change (mul B32_ops) with (SFmul p32 e32).
    change (add B32_ops) with (SFadd p32 e32).
    rewrite !SFdiv_equiv32. fold pB rB.
    rewrite !SFmul_equiv32, SFadd_equiv32, SFdiv_equiv32. reflexivity. }
  split.
  - rewrite Esf, is_finite_SF_B2SF. exact F6.
  - rewrite Esf. unfold R32. rewrite SF2R_B2SF, E6.
    destruct (convex_rel P Rc d1 d2 (/ 16777216) HP HR H1 H2) as (d6 & H6 & E7).
    pose proof (f1_assemble P Rc d1 d2 d3 d4 d5 d6 d7 HP HR H1 H2 H3 H4 H5 H6 H7 E7) as HA. cbv zeta in HA.
    assert (EF : F = 2 * P * Rc / (P + Rc)).
    { unfold F, fbeta_spec. simpl. field. lra. }
    rewrite EF. rewrite u32_val.
    replace (t3 / t5 * (1 + d5)) with
      (2 * (P * (1 + d1) * (Rc * (1 + d2)) * (1 + d3)) * (1 + d7) / ((P * (1 + d1) + Rc * (1 + d2)) * (1 + d4)) * (1 + d5)).
    + replace (8 * / 16777216) with (8 / 16777216) by lra. exact HA.
    + rewrite E6 || idtac. rewrite E3, E2, E5, Ep, Er. reflexivity.
Qed.
End F1.

(** non-vacuity: 2 true positives, 1 + 1 errors - the code returns the binary32 number 0x1.555556p-1 for F1 = 2/3 *)
Example ex_f1_f32_binary :
  f_score B32_ops (one B32_ops) [[of_N B32_ops 2; of_N B32_ops 1]; [of_N B32_ops 1; of_N B32_ops 5]]
  = S754_finite false 11184811 (-24).
Proof. vm_compute. reflexivity. Qed.
