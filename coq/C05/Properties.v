(** C05 - property theorems (statements only; proofs are in C05/Proofs.v).
    Labels are an arbitrary type with a decidable strict total order (bool, usize, String in the
    code); scores are over the real-number instance of the model, whose binary32 / binary64
    instances are the ones executed against the Rust code on every run. *)
From Coq Require Import List NArith QArith Qreals Reals Sorted Lra Lia.
From LinfaVerif Require Import Common.Num Common.NdSum Common.B32 Common.QF C05.Model C05.Corr C05.Proofs C05.AucGroups C05.OracleSound.
Import ListNotations.
Local Open Scope R_scope.

(** ** Confusion matrix *)

(** the classes are exactly the labels occurring in either vector, without repetition, in
    increasing order - decreasing when there are exactly two *)
Theorem cm_classes : forall (L : Type) (lltb leqb : L -> L -> bool), label_order lltb leqb ->
  forall pred truth : list L,
  let cs := classes lltb leqb pred truth in
  NoDup cs /\ (forall x, In x cs <-> In x (pred ++ truth)) /\
  StronglySorted (fun a b => lltb a b = true) (if Nat.eqb (length cs) 2 then rev cs else cs).
Proof.
  intros L lltb leqb [H1 H2 H3 H4] pred truth cs. split; [|split].
  - exact (classes_nodup lltb leqb H1 H2 H3 H4 pred truth).
  - intros x. exact (in_classes lltb leqb H1 x pred truth).
  - exact (classes_sorted lltb leqb H1 H3 H4 pred truth).
Qed.

(** vectors of different lengths are rejected, equal lengths always give a matrix over the classes *)
Theorem cm_defined_iff_equal_lengths : forall (L : Type) (lltb leqb : L -> L -> bool) (pred truth : list L),
  (length pred = length truth ->
     confusion_matrix R_ops lltb leqb pred truth =
     Some (classes lltb leqb pred truth, cm_count R_ops leqb (classes lltb leqb pred truth) pred truth)) /\
  (length pred <> length truth -> confusion_matrix R_ops lltb leqb pred truth = None).
Proof. intros; split; [apply confusion_matrix_some | apply confusion_matrix_none]. Qed.

(** cell (i, j) counts exactly the samples predicted as class i whose truth is class j *)
Theorem cm_cells : forall (L : Type) (lltb leqb : L -> L -> bool), label_order lltb leqb ->
  forall (pred truth : list L) (i j : nat) (d : L),
  let cs := classes lltb leqb pred truth in
  (i < length cs)%nat -> (j < length cs)%nat ->
  get R_ops (cm_count R_ops leqb cs pred truth) i j = INR (count_pairs leqb (nth i cs d) (nth j cs d) pred truth).
Proof. intros L lltb leqb [H1 H2 H3 H4] pred truth i j d cs. exact (cm_cells_top lltb leqb H1 H2 H3 H4 pred truth i j d). Qed.

(** the binary32 cells the code really stores are exactly the integer counts as long as the count
    of the cell is at most 2^24 - in particular whenever there are at most 2^24 samples: every
    integer up to 2^24 is a binary32 number and adding 1.0 to it is exact (C05/F32Exact.v, from
    Flocq's Bplus_correct).  At 2^24 the cell stops growing (F32Exact.f32_succ_saturates). *)
Theorem cm_counts_exact_f32 : forall (L : Type) (lltb leqb : L -> L -> bool), label_order lltb leqb ->
  forall (pred truth : list L) (i j : nat) (d : L),
  let cs := classes lltb leqb pred truth in
  (i < length cs)%nat -> (j < length cs)%nat ->
  (N.of_nat (count_pairs leqb (nth i cs d) (nth j cs d) pred truth) <= 16777216)%N ->
  get B32_ops (cm_count B32_ops leqb cs pred truth) i j
  = of_N B32_ops (N.of_nat (count_pairs leqb (nth i cs d) (nth j cs d) pred truth)).
Proof. intros L lltb leqb H pred truth i j d. exact (cm_cells_f32 lltb leqb H pred truth i j d). Qed.

Theorem cm_counts_exact_f32_samples : forall (L : Type) (lltb leqb : L -> L -> bool), label_order lltb leqb ->
  forall (pred truth : list L) (i j : nat) (d : L),
  let cs := classes lltb leqb pred truth in
  (i < length cs)%nat -> (j < length cs)%nat -> (N.of_nat (length pred) <= 16777216)%N ->
  get B32_ops (cm_count B32_ops leqb cs pred truth) i j
  = of_N B32_ops (N.of_nat (count_pairs leqb (nth i cs d) (nth j cs d) pred truth)).
Proof.
  intros L lltb leqb H pred truth i j d cs Hi Hj Hn. apply (cm_cells_f32 lltb leqb H pred truth i j d Hi Hj).
  subst cs. pose proof (count_pairs_le leqb (nth i (classes lltb leqb pred truth) d) (nth j (classes lltb leqb pred truth) d) pred truth). lia.
Qed.

(** the cells sum to the number of samples (in the summation order of `.sum()`) *)
Theorem cm_sums_to_n : forall (L : Type) (lltb leqb : L -> L -> bool), label_order lltb leqb ->
  forall pred truth : list L, length pred = length truth ->
  msum R_ops (cm_count R_ops leqb (classes lltb leqb pred truth) pred truth) = INR (length pred).
Proof.
  intros L lltb leqb [H1 H2 H3 H4] pred truth Hlen. rewrite msum_total.
  exact (cm_total_top lltb leqb H1 H2 H3 H4 pred truth Hlen).
Qed.

(** accuracy is the fraction of samples whose predicted label equals the true label *)
Theorem accuracy_is_fraction_equal : forall (L : Type) (lltb leqb : L -> L -> bool), label_order lltb leqb ->
  forall pred truth : list L, length pred = length truth ->
  accuracy R_ops (cm_count R_ops leqb (classes lltb leqb pred truth) pred truth)
  = INR (count_eq leqb pred truth) / INR (length pred).
Proof. intros L lltb leqb [H1 H2 H3 H4] pred truth Hlen. exact (cm_accuracy_top lltb leqb H1 H2 H3 H4 pred truth Hlen). Qed.

(** precision / recall are the documented functions of the cells: for a 2x2 matrix those of the
    first label, m00 / (m00 + m10) and m00 / (m00 + m01); otherwise the macro average of
    m_ii / (column sum i) and m_ii / (row sum i) over the one-vs-all splits *)
Theorem precision_recall_def : forall (k : nat) (m : list (list R)), wf k m ->
  (k = 2%nat ->
     precision R_ops m = get R_ops m 0 0 / (get R_ops m 0 0 + get R_ops m 1 0) /\
     recall R_ops m = get R_ops m 0 0 / (get R_ops m 0 0 + get R_ops m 0 1)) /\
  (k <> 2%nat ->
     precision R_ops m = sum_s R_ops (map (fun i => get R_ops m i i / colsum_s R_ops m i) (seq 0 k)) / INR k /\
     recall R_ops m = sum_s R_ops (map (fun i => get R_ops m i i / rowsum_s R_ops m i) (seq 0 k)) / INR k).
Proof.
  intros k m Hwf. split; intros Hk.
  - exact (precision_binary k m Hwf Hk).
  - split; [exact (precision_macro k m Hwf Hk) | exact (recall_macro k m Hwf Hk)].
Qed.

(** F-beta is (1 + b^2) p r / (b^2 p + r) of that precision and recall *)
Theorem fbeta_def : forall (beta : R) (m : list (list R)),
  f_score R_ops beta m = fbeta_spec R_ops beta (precision R_ops m) (recall R_ops m).
Proof. intros; reflexivity. Qed.

(** the triple loop and the row / column sums of `mcc` are the multi-class Matthews coefficient
    (c s - sum_k p_k t_k) / sqrt(s^2 - sum p_k^2) / sqrt(s^2 - sum t_k^2) of the cells *)
Theorem mcc_def : forall (k : nat) (m : list (list R)), wf k m -> mcc R_ops m = mcc_spec R_ops m.
Proof. exact mcc_eq. Qed.

(** one-vs-all: matrix i is [[m_ii, row_i - m_ii], [col_i - m_ii, rest]], one per class *)
Theorem one_vs_all_cells : forall (k : nat) (m : list (list R)), wf k m ->
  length (split_one_vs_all R_ops m) = k /\
  forall i, (i < k)%nat ->
    nth i (split_one_vs_all R_ops m) [] =
    bin (get R_ops m i i) (rowsum_s R_ops m i - get R_ops m i i) (colsum_s R_ops m i - get R_ops m i i)
        (total_s R_ops m - get R_ops m i i - (rowsum_s R_ops m i - get R_ops m i i) - (colsum_s R_ops m i - get R_ops m i i)).
Proof. intros k m Hwf. split; [exact (ova_length k m Hwf) | exact (ova_nth k m Hwf)]. Qed.

(** one-vs-one: one matrix [[m_ii, m_ij], [m_ji, m_jj]] per pair i < j, in lexicographic order *)
Theorem one_vs_one_cells : forall (k : nat) (m : list (list R)), wf k m ->
  split_one_vs_one R_ops m =
  flat_map (fun i => map (fun j => bin (get R_ops m i i) (get R_ops m i j) (get R_ops m j i) (get R_ops m j j))
                         (seq (S i) (k - S i))) (seq 0 k).
Proof. exact ovo_eq. Qed.

(** ** ROC curve, AUC, log-loss *)

(** with both classes present (among the non-negative scores, which are the ones kept) the curve
    starts at (0,0), ends at (1,1) and is monotone - whatever the gaps between the scores *)
Theorem roc_endpoints : forall (eps : R) (ps : list (R * bool)),
  0 <= eps -> (0 < npos (kept ps))%nat -> (0 < nneg (kept ps))%nat ->
  hd (0, 0) (fst (roc R_ops eps ps)) = (0, 0) /\ last (fst (roc R_ops eps ps)) (0, 0) = (1, 1).
Proof. exact roc_endpoints_free. Qed.

Theorem roc_monotone : forall (eps : R) (ps : list (R * bool)),
  0 <= eps -> (0 < npos (kept ps))%nat -> (0 < nneg (kept ps))%nat ->
  StronglySorted (fun p q => fst p <= fst q /\ snd p <= snd q) (fst (roc R_ops eps ps)).
Proof. exact roc_monotone_free. Qed.

(** for scores whose distinct values are more than eps apart the trapezoidal area equals the
    Mann-Whitney statistic with ties counted one half *)
Theorem auc_is_mann_whitney : forall (eps : R) (ps : list (R * bool)),
  0 <= eps -> separated eps (kept ps) -> (0 < npos (kept ps))%nat -> (0 < nneg (kept ps))%nat ->
  auc R_ops eps ps
  = INR (mw2 R_ops (kept ps)) / (2 * (INR (npos (kept ps)) * INR (nneg (kept ps)))).
Proof.
  intros eps ps H1 H2 H3 H4. rewrite (auc_mann_whitney eps ps H1 H2 H3 H4).
  unfold auc_spec. rewrite !ofn_R. unfold two. simpl. reflexivity.
Qed.

(** without the separation hypothesis.  The loop opens a new step when the current score is more than
    eps away from the score that opened the current step, so the sorted non-negative scores fall
    into groups anchored at their first score; [grouped eps ps] (= Model.grouped_sc: filter, sort,
    replace every score by the anchor of its group) has the labels of the sorted scores, every score
    moved down by at most eps onto a score of the input, and is sorted and separated.  The area is
    the Mann-Whitney statistic of the grouped scores: two scores of one group count as tied, whatever
    their exact order.  On separated inputs the grouping does nothing. *)
Theorem auc_grouped_mann_whitney : forall (eps : R) (ps : list (R * bool)),
  0 <= eps -> (0 < npos (kept ps))%nat -> (0 < nneg (kept ps))%nat ->
  auc R_ops eps ps
  = INR (mw2 R_ops (grouped eps ps)) / (2 * (INR (npos (kept ps)) * INR (nneg (kept ps)))).
Proof.
  intros eps ps H1 H3 H4. rewrite (auc_grouped eps ps H1 H3 H4).
  pose proof (sort_sc_perm (kept ps)) as Hp.
  unfold auc_spec. rewrite !ofn_R. rewrite grouped_unfold at 2 3. rewrite npos_snap, nneg_snap.
  rewrite (npos_perm _ _ Hp), (nneg_perm _ _ Hp). unfold two. simpl. reflexivity.
Qed.

Theorem grouped_characterisation : forall (eps : R) (ps : list (R * bool)), 0 <= eps ->
  let l := sort_sc R_ops (kept ps) in
  Permutation.Permutation l (kept ps) /\ sorted_sc l /\
  grouped eps ps = snap_sc R_ops eps None l /\
  Forall2 (near eps) l (grouped eps ps) /\
  sorted_sc (grouped eps ps) /\ separated eps (grouped eps ps) /\
  (separated eps (kept ps) -> grouped eps ps = l).
Proof.
  intros eps ps He l. pose proof (sort_sc_perm (kept ps)) as Hp. pose proof (sort_sc_sorted (kept ps)) as Hs.
  destruct (snap_sorted_separated eps He l Hs) as [S1 S2].
  repeat split; auto.
  - exact (snap_near_top eps He l Hs).
  - intros Hsep. apply (snap_separated_id eps l He Hs). exact (separated_perm eps _ _ (Permutation.Permutation_sym Hp) Hsep).
Qed.

(** grouping is not exact ties: two scores 0.05 apart with eps = 0.1 give 1/2 where the exact
    Mann-Whitney statistic is 1; and groups are anchored, not chained: in 0, 0.06, 0.12 the last
    score is within eps of its predecessor but opens a new group *)
Example auc_grouping_differs_from_ties :
  auc R_ops (1/10) [(1/2, false); (11/20, true)] = 1 / 2 /\
  auc_spec R_ops (kept [(1/2, false); (11/20, true)]) = 1.
Proof. exact ex_grouping_differs_from_ties. Qed.

Example auc_groups_are_anchored :
  grouped (1/10) [(0, false); (3/50, false); (3/25, true)] = [(0, false); (0, false); (3/25, true)] /\
  Rabs (3/25 - 3/50) <= 1/10.
Proof. exact ex_groups_are_anchored. Qed.

(** log-loss is the mean of -ln of the clipped probability of the true class *)
Theorem log_loss_def : forall (ln : R -> R) (feps : R) (ps : list (R * bool)), ps <> [] ->
  log_loss R_ops ln feps ps = Some (log_loss_spec R_ops ln feps ps).
Proof. exact log_loss_eq. Qed.

(** ** Regression scores: every summation order of the code is the plain sum *)
Theorem mean_absolute_error_def : forall a b : list R, a <> [] -> b <> [] ->
  mean_absolute_error R_ops a b = Some (mae_spec R_ops a b).
Proof. exact mae_eq. Qed.

Theorem mean_squared_error_def : forall a b : list R, a <> [] -> b <> [] ->
  mean_squared_error R_ops a b = Some (mse_spec R_ops a b).
Proof. exact mse_eq. Qed.

(** the percentage error is relative to the receiver [a] *)
Theorem mean_absolute_percentage_error_def : forall a b : list R, a <> [] -> b <> [] ->
  mean_absolute_percentage_error R_ops a b = Some (mape_spec R_ops a b).
Proof. exact mape_eq. Qed.

Theorem mean_squared_log_error_def : forall (ln : R -> R) (a b : list R), a <> [] -> b <> [] ->
  mean_squared_log_error R_ops ln a b = Some (msle_spec R_ops ln a b).
Proof. exact msle_eq. Qed.

(** r2 = 1 - SSE / (SST + c) with the regulariser c = 1e-10 of the code, for a contiguous or a
    strided ground-truth view *)
Theorem r2_def : forall (c : R) (strided : bool) (a b : list R), b <> [] ->
  r2 R_ops c strided a b = Some (r2_spec R_ops c a b).
Proof. exact r2_eq. Qed.

(** explained variance (finding F2): the code agrees with 1 - Var(y - yhat) / Var(y) exactly when the
    mean residual m satisfies m = 0 or m = 1/n; a witness outside that class is given *)
Theorem explained_variance_known_class : forall (c : R) (strided : bool) (a b : list R),
  a <> [] -> b <> [] -> sst_spec R_ops b + c <> 0 ->
  let d := vsub R_ops a b in
  explained_variance R_ops c strided a b = Some (ev_spec R_ops c a b)
  <-> (mean_s R_ops d = 0 \/ mean_s R_ops d * INR (length d) = 1).
Proof. exact ev_agrees_iff. Qed.

Theorem explained_variance_refuted : forall c : R, 0 <= c ->
  exists a b, a <> [] /\ b <> [] /\ explained_variance R_ops c false a b <> Some (ev_spec R_ops c a b).
Proof. exact ev_refuted. Qed.

Theorem explained_variance_outside_known : forall (c : R) (strided : bool) (a b : list R),
  a <> [] -> b <> [] -> sst_spec R_ops b + c <> 0 ->
  mean_s R_ops (vsub R_ops a b) = 0 ->
  explained_variance R_ops c strided a b = Some (ev_spec R_ops c a b).
Proof. intros c s a b Ha Hb Hc Hm. apply (ev_agrees_iff c s a b Ha Hb Hc). left. exact Hm. Qed.

(** max_error is the largest absolute error, median_absolute_error the middle of the sorted ones *)
Theorem max_error_def : forall (a b : list R) (v : R), max_error R_ops a b = Some v ->
  In v (map Rabs (vsub R_ops a b)) /\ forall y, In y (map Rabs (vsub R_ops a b)) -> y <= v.
Proof. exact max_error_spec. Qed.

Theorem median_absolute_error_def : forall (a b : list R) (v : R), median_absolute_error R_ops a b = Some v ->
  exists e, Permutation.Permutation e (map Rabs (vsub R_ops a b)) /\ StronglySorted Rle e /\
    v = if Nat.even (length e) then (nth (Nat.div (length e) 2 - 1) e 0 + nth (Nat.div (length e) 2) e 0) / 2
        else nth (Nat.div (length e) 2) e 0.
Proof. exact Proofs.median_spec. Qed.

(** ** One permutation applied to predictions and truths together changes no score.
    The two vectors are given as the list of their (prediction, truth) pairs. *)
Theorem regression_scores_perm_invariant : forall (ab ab' : list (R * R)), Permutation.Permutation ab ab' ->
  let a := map fst ab in let b := map snd ab in let a' := map fst ab' in let b' := map snd ab' in
  max_error R_ops a b = max_error R_ops a' b' /\
  mean_absolute_error R_ops a b = mean_absolute_error R_ops a' b' /\
  mean_squared_error R_ops a b = mean_squared_error R_ops a' b' /\
  median_absolute_error R_ops a b = median_absolute_error R_ops a' b' /\
  mean_absolute_percentage_error R_ops a b = mean_absolute_percentage_error R_ops a' b' /\
  (forall ln, mean_squared_log_error R_ops ln a b = mean_squared_log_error R_ops ln a' b') /\
  (forall c s, r2 R_ops c s a b = r2 R_ops c s a' b') /\
  (forall c s, explained_variance R_ops c s a b = explained_variance R_ops c s a' b').
Proof.
  intros ab ab' Hp. cbv zeta. repeat split.
  - exact (max_error_perm ab ab' Hp).
  - exact (mae_perm ab ab' Hp).
  - exact (mse_perm ab ab' Hp).
  - exact (median_perm ab ab' Hp).
  - exact (mape_perm ab ab' Hp).
  - intros ln. exact (msle_perm ln ab ab' Hp).
  - intros c s. exact (r2_perm c s ab ab' Hp).
  - intros c s. exact (ev_perm c s ab ab' Hp).
Qed.

(** the confusion matrix (classes and cells, hence every score derived from it) is unchanged *)
Theorem confusion_matrix_perm_invariant : forall (L : Type) (lltb leqb : L -> L -> bool), label_order lltb leqb ->
  forall pt pt' : list (L * L), Permutation.Permutation pt pt' ->
  confusion_matrix R_ops lltb leqb (map fst pt) (map snd pt) = confusion_matrix R_ops lltb leqb (map fst pt') (map snd pt').
Proof. intros L lltb leqb [H1 H2 H3 H4] pt pt' Hp. exact (confusion_matrix_perm lltb leqb H1 H2 H3 H4 pt pt' Hp). Qed.

Theorem auc_perm_invariant : forall (eps : R) (ps ps' : list (R * bool)), Permutation.Permutation ps ps' ->
  0 <= eps -> separated eps (kept ps) -> (0 < npos (kept ps))%nat -> (0 < nneg (kept ps))%nat ->
  auc R_ops eps ps = auc R_ops eps ps'.
Proof. exact auc_perm. Qed.

Theorem log_loss_perm_invariant : forall (ln : R -> R) (feps : R) (ps ps' : list (R * bool)),
  Permutation.Permutation ps ps' -> log_loss R_ops ln feps ps = log_loss R_ops ln feps ps'.
Proof. exact log_loss_perm. Qed.

(** ** Silhouette: with two or more clusters the per-cluster accumulators compute the textbook score
    mean over samples of (b - a) / max(a, b), a = mean distance to the other members of the own
    cluster (0 for a singleton), b = smallest mean distance to another cluster *)
Theorem silhouette_def : forall (L : Type) (leqb : L -> L -> bool),
  (forall x y, leqb x y = true <-> x = y) ->
  forall (X : list (list R)) (ls : list L), length X = length ls ->
  (forall l, In l ls -> exists c, In c ls /\ c <> l) ->
  silhouette R_ops leqb X ls = silhouette_spec R_ops leqb X ls.
Proof. exact @silhouette_top. Qed.

(** ** Pearson: for a rectangular data matrix with two or more observations and non-constant
    columns, the coefficients (covariance by the matrix product divided by n - 1, standard
    deviations from ndarray's Welford recurrence with a fused multiply-add, here a * b + c) are the
    textbook coefficients cov(x_i, x_j) / (sd(x_i) sd(x_j)) of the column pairs i < j in the order
    of the upper triangle *)
Theorem pearson_def : forall (X : list (list R)) (p : nat),
  Forall (fun r => length r = p) X -> (2 <= length X)%nat ->
  (forall j, (j < p)%nat -> 0 < cov_s R_ops (xcol R_ops X j) (xcol R_ops X j)) ->
  pearson R_ops fmaR X =
  flat_map (fun i => map (fun j => pearson_pair_spec R_ops (xcol R_ops X i) (xcol R_ops X j)) (seq (S i) (p - S i))) (seq 0 p).
Proof. exact pearson_top. Qed.

(** ** Soundness of the Coq-evaluated oracle (C05/Corr.v): an accepted case is a proof of the property
    for that input.  [oracle_X c = 0] is what every run evaluates by vm_compute on the outputs the
    implementation produced; the conclusions are over R, on the real values of the float data. *)

(** confusion matrix: the reported members are the classes of the two label vectors (sorted union,
    reversed when binary), the matrix is square over them, every binary32 cell denotes exactly the
    number of samples predicted as class i whose truth is class j, and the reported accuracy is the
    fraction of equal labels up to 2^-18 (relative) + 1e-12 *)
Theorem oracle_cm_sound : forall c : cmcase, oracle_cm c = 0%N -> cm_ok c = true ->
  let ms := cm_members c in
  let n := length (cm_pred c) in
  n = length (cm_truth c) /\
  ms = classes N.ltb N.eqb (cm_pred c) (cm_truth c) /\
  length (cellsQ c) = length ms /\ Forall (fun r => length r = length ms) (cellsQ c) /\
  (forall i j, (i < length ms)%nat -> (j < length ms)%nat ->
     exists q, getq (cellsQ c) i j = Some q /\
       Q2R q = INR (count_pairs N.eqb (nth i ms 0%N) (nth j ms 0%N) (cm_pred c) (cm_truth c))) /\
  (n <> O -> within (SF2Q (b32_of_bits (cm_accuracy c))) (Q2R tol32) (Q2R (1 # 1000000000000))
                    (INR (count_eq N.eqb (cm_pred c) (cm_truth c)) / INR n)).
Proof. exact cm_sound. Qed.

(** area under the curve, without a separation hypothesis: the real-arithmetic model value A on the
    real values of the scores is the Mann-Whitney statistic of the grouped scores, and the reported
    binary32 area is within (n + 8) 2^-24 |A| + 1e-12 of it.  [auc_checked]: all scores finite, both
    classes present, and every binary32 grouping decision of the loop agrees with the exact one. *)
Theorem oracle_roc_auc_sound : forall c : roccase, oracle_roc c = 0%N -> auc_checked c = true ->
  let A := auc R_ops eps_rocR (rscores c) in
  A = INR (mw2 R_ops (grouped eps_rocR (rscores c)))
      / (2 * (INR (npos (kept (rscores c))) * INR (nneg (kept (rscores c))))) /\
  exists v, SF2Q (b32_of_bits (rc_auc c)) = Some v /\
    Rabs (Q2R v - A) <= Q2R (auc_tol c) * Rabs A + Q2R (1 # 1000000000000).
Proof. intros c H. apply auc_sound. apply oracle_roc_auc_ok. exact H. Qed.

(** regression scores on well-conditioned data (rg_oracle): each reported binary64 score is within
    the stated tolerance of the textbook formula over R on the real values a, b of the inputs;
    max_error / median_absolute_error against the real-arithmetic model value, which
    max_error_def / median_absolute_error_def characterise *)
Theorem oracle_reg_sound : forall c : regcase,
  oracle_reg c = 0%N -> rg_oracle c = true -> rg_a c <> [] -> rg_b c <> [] ->
  let a := map Q2R (qs (rg_a c)) in let b := map Q2R (qs (rg_b c)) in
  let rt := Q2R tol64 * (1 + Rabs (sse_spec R_ops a b / (sst_spec R_ops b + c10R))) in
  (exists M, max_error R_ops a b = Some M /\ within (f64_to_Q (outn c 0)) (Q2R tol64) 0 M) /\
  within (f64_to_Q (outn c 1)) (Q2R tol64) 0 (mae_spec R_ops a b) /\
  within (f64_to_Q (outn c 2)) (Q2R tol64) 0 (mse_spec R_ops a b) /\
  (exists M, median_absolute_error R_ops a b = Some M /\ within (f64_to_Q (outn c 3)) (Q2R tol64) 0 M) /\
  within (f64_to_Q (outn c 5)) 0 rt (r2_spec R_ops c10R a b) /\
  within (f64_to_Q (outn c 6)) 0 rt (ev_spec R_ops c10R a b).
Proof. exact reg_sound. Qed.

(** the three soundness theorems are not vacuous: cases of a harness run satisfy their hypotheses *)
Example oracle_soundness_hypotheses_satisfiable :
  (oracle_cm ex_cm = 0%N /\ cm_ok ex_cm = true) /\
  (oracle_roc ex_roc = 0%N /\ auc_checked ex_roc = true) /\
  (oracle_reg ex_reg = 0%N /\ rg_oracle ex_reg = true /\ rg_a ex_reg <> [] /\ rg_b ex_reg <> []).
Proof. exact (conj ex_cm_accepted (conj ex_roc_accepted ex_reg_accepted)). Qed.
